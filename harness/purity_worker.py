"""Worker process of the C19 check.  Usage:
     purity_worker.py <build_dir> <poison:0|1> <results.json>  < jobs.json
A job is {id, byte, prior: [[routine, argset], ...], routine, argset}.  The worker installs
the poisoning numpy allocator (if asked), executes the prior calls (their results are
dropped = freed), then the call under test, and returns a bit-exact digest of the result
together with a check that the arguments were not modified.
OMP_NUM_THREADS is fixed by the parent through the environment.
"""
import hashlib
import json
import os
import sys
import warnings

HERE = os.path.dirname(os.path.abspath(__file__))


def canon(x, h):
    import numpy as np
    import scipy.sparse as sp
    if x is None:
        h.update(b"None")
    elif isinstance(x, (tuple, list)):
        h.update(b"seq%d[" % len(x))
        for y in x:
            canon(y, h)
        h.update(b"]")
    elif isinstance(x, dict):
        for k in sorted(x, key=str):
            h.update(str(k).encode())
            canon(x[k], h)
    elif sp.issparse(x):
        h.update(type(x).__name__.encode())
        canon(np.asarray(x.toarray()), h)
    elif isinstance(x, np.ndarray):
        if x.dtype == object:
            h.update(b"objarr")
            canon(list(x), h)
        else:
            a = np.ascontiguousarray(x)
            h.update(a.dtype.str.encode() + str(a.shape).encode())
            h.update(a.tobytes())
    elif hasattr(x, "_data") and hasattr(x, "lengths"):
        h.update(b"RA")
        canon(np.asarray(x._data), h)
        canon(np.asarray(x.lengths), h)
    elif isinstance(x, (float, np.floating)):
        h.update(np.float64(x).tobytes())
    elif isinstance(x, (int, np.integer, bool, np.bool_)):
        h.update(repr(int(x)).encode())
    elif hasattr(x, "_fields"):           # namedtuple (ClusterResult)
        canon(tuple(x), h)
    elif hasattr(x, "to_original"):
        canon(sorted(x.to_original.items()), h)
    else:
        h.update(repr(x).encode())
    return h


def digest(x):
    return canon(x, hashlib.sha1()).hexdigest()


def describe(x):
    import numpy as np
    try:
        if isinstance(x, (float, np.floating)):
            return repr(float(x))
        if isinstance(x, np.ndarray) and x.size <= 16 and x.dtype != object:
            return x.tolist()
        if isinstance(x, (tuple, list)) and len(x) <= 4:
            return [describe(y) for y in x]
        return str(type(x).__name__)
    except Exception:
        return "?"


def main():
    build, poison = sys.argv[1], sys.argv[2] == "1"
    sys.path.insert(0, build)
    sys.path.insert(0, os.path.join(HERE, "fakempi"))
    sys.path.insert(0, os.path.dirname(HERE))
    warnings.simplefilter("ignore")
    import logging
    logging.disable(logging.CRITICAL)
    import numpy as np
    pz = None
    if poison:
        sys.path.insert(0, os.path.join(HERE, "poison"))
        import poisonalloc as pz
        pz.install(0xFF)
        pz.set_enabled(0)
    from harness import purity_routines as PR
    jobs = json.load(sys.stdin)
    out = []
    for job in jobs:
        rec = {"id": job["id"]}
        try:
            if pz:
                pz.set_byte(job["byte"])
                pz.set_enabled(1 if job["byte"] >= 0 else 0)
            for (rn, aset) in job["prior"]:
                try:
                    args = PR.make_args(rn, aset)
                    PR.ROUTINES[rn](*args)
                except Exception:
                    pass
                del args
            args = PR.make_args(job["routine"], job["argset"])
            before = digest(args)
            try:
                res = PR.ROUTINES[job["routine"]](*args)
                rec["digest"] = digest(res)
                rec["value"] = describe(res)
            except Exception as ex:
                rec["digest"] = "raised:" + type(ex).__name__
                rec["value"] = "%s: %s" % (type(ex).__name__, str(ex)[:120])
            after = digest(args)
            rec["args_same"] = (before == after) or job["routine"] in PR.WRITES_ARG
        except Exception as ex:    # worker problem, reported as such
            rec["worker_error"] = "%s: %s" % (type(ex).__name__, ex)
        finally:
            if pz:
                pz.set_enabled(0)
        out.append(rec)
    with open(sys.argv[3], "w") as fh:
        json.dump(out, fh)


if __name__ == "__main__":
    main()
