"""Worker process of the C19 check.  Usage:
     purity_worker.py <build_dir> <poison:0|1> <results.json>  < jobs.json
A job is {id, byte, prior: [[routine, argset], ...], routine, argset}.  The worker installs
the poisoning numpy allocator (if asked), executes the prior calls (their results are
dropped = freed), then the call under test, and returns a bit-exact digest of the result
together with a check that the arguments were not modified: every argument (nested lists,
ndarrays of any layout, sparse matrices including data/indices/indptr, RaggedArrays,
md.Trajectory coordinates) is fingerprinted before and after the call; only the positions
listed by purity_routines.writes(name) (documented out= buffers) may differ.
OMP_NUM_THREADS is fixed by the parent through the environment.
"""
import hashlib
import json
import os
import sys
import warnings

HERE = os.path.dirname(os.path.abspath(__file__))


def canon(x, h, structure=False):
    """Deterministic projection of a value to bytes.  structure=True (used for ARGUMENTS) also hashes the
    storage of sparse matrices (data / indices / indptr, row / col, lil rows, dok items), so that an in-place
    change of an argument is seen even where the dense value happens to stay the same; results are compared
    by type, dtype, shape and dense value only."""
    import numpy as np
    import scipy.sparse as sp
    if x is None:
        h.update(b"None")
    elif isinstance(x, (str, bytes)):
        h.update(repr(x).encode())
    elif isinstance(x, (tuple, list)) and not hasattr(x, "_fields"):
        h.update(b"seq%d[" % len(x))
        for y in x:
            canon(y, h, structure)
        h.update(b"]")
    elif isinstance(x, dict) and not sp.issparse(x):
        h.update(b"dict%d{" % len(x))
        for k in sorted(x, key=str):
            h.update(str(k).encode())
            canon(x[k], h, structure)
        h.update(b"}")
    elif sp.issparse(x):
        h.update(("%s|%s|%s|%s" % (type(x).__name__, x.format, x.shape, x.dtype.str)).encode())
        if structure:
            fmt = x.format
            if fmt in ("csr", "csc", "bsr"):
                for part in (x.data, x.indices, x.indptr):
                    canon(np.asarray(part), h)
            elif fmt == "coo":
                for part in (x.data, x.row, x.col):
                    canon(np.asarray(part), h)
            elif fmt == "lil":
                canon([list(r) for r in x.rows], h)
                canon([list(r) for r in x.data], h)
            elif fmt == "dok":
                canon(sorted((tuple(int(i) for i in k), v) for k, v in x.items()), h)
            elif fmt == "dia":
                canon(np.asarray(x.data), h)
                canon(np.asarray(x.offsets), h)
        canon(np.asarray(x.toarray()), h)
    elif isinstance(x, np.ndarray):
        if x.dtype == object:
            h.update(b"objarr" + str(x.shape).encode())
            canon(list(x), h, structure)
        else:
            a = np.ascontiguousarray(x)
            h.update(a.dtype.str.encode() + str(x.shape).encode())
            h.update(a.tobytes())
    elif hasattr(x, "_data") and hasattr(x, "lengths"):
        h.update(b"RA")
        canon(np.asarray(x._data), h, structure)
        canon(np.asarray(x.lengths), h)
        if structure:                     # the row views of a RaggedArray argument
            canon([np.asarray(r) for r in x._array], h)
    elif hasattr(x, "xyz") and hasattr(x, "n_frames"):      # md.Trajectory
        h.update(b"mdtraj")
        canon(np.asarray(x.xyz), h)
        canon(None if x._time is None else np.asarray(x.time), h)
        canon(None if x.unitcell_vectors is None else np.asarray(x.unitcell_vectors), h)
        tr = getattr(x, "_rmsd_traces", None)
        canon(None if tr is None else np.asarray(tr), h)
    elif isinstance(x, (bool, np.bool_)):
        h.update(b"b" + repr(bool(x)).encode())
    elif isinstance(x, (float, np.floating)):
        h.update(np.float64(x).tobytes())
    elif isinstance(x, (complex, np.complexfloating)):
        h.update(np.complex128(x).tobytes())
    elif isinstance(x, (int, np.integer)):
        h.update(repr(int(x)).encode())
    elif hasattr(x, "_fields"):           # namedtuple (ClusterResult)
        h.update(type(x).__name__.encode())
        canon(tuple(x), h, structure)
    elif hasattr(x, "to_original") or type(x).__name__ == "TrimMapping":
        h.update(b"TrimMapping")
        canon(sorted(getattr(x, "to_original", {}).items()), h)
    elif isinstance(x, np.random.RandomState):
        st = x.get_state()
        canon([st[0], np.asarray(st[1]), st[2], st[3], st[4]], h)
    elif isinstance(x, (slice, type(Ellipsis))):
        h.update(repr(x).encode())
    elif isinstance(x, (set, frozenset)):
        canon(sorted(x, key=repr), h, structure)
    elif callable(x):
        h.update(b"callable:" + getattr(x, "__name__", "?").encode())
    else:
        raise TypeError("purity_worker.canon: no projection for %s" % type(x).__name__)
    return h


def digest(x, structure=False):
    return canon(x, hashlib.sha1(), structure).hexdigest()


def describe(x):
    import numpy as np
    try:
        if isinstance(x, (float, np.floating)):
            return repr(float(x))
        if isinstance(x, np.ndarray) and x.size <= 16 and x.dtype != object:
            return x.tolist()
        if isinstance(x, (tuple, list)) and len(x) <= 4:
            return [describe(y) for y in x]
        return str(type(x).__name__)
    except Exception:
        return "?"


def outside_view(a):
    """bytes of the buffer an ndarray VIEW lives in that the view does not cover (a documented out= view may be
    written, the memory around it may not); None when `a` owns its data"""
    import numpy as np
    base = a
    while isinstance(getattr(base, "base", None), np.ndarray):
        base = base.base
    if base is a or not isinstance(a, np.ndarray):
        return None
    covered = np.zeros(base.size * base.itemsize, dtype=bool)
    lo = a.__array_interface__["data"][0] - base.__array_interface__["data"][0]
    idx = np.zeros(a.shape, dtype=np.int64) + lo
    for ax, (n_, st) in enumerate(zip(a.shape, a.strides)):
        shp = [1] * a.ndim
        shp[ax] = n_
        idx = idx + (np.arange(n_) * st).reshape(shp)
    for off in range(a.itemsize):
        covered[(idx + off).ravel()] = True
    raw = np.frombuffer(np.ascontiguousarray(base).tobytes() if not base.flags["C_CONTIGUOUS"] else base.tobytes(), dtype=np.uint8)
    return hashlib.sha1(raw[~covered].tobytes()).hexdigest()


def main():
    build, poison = sys.argv[1], sys.argv[2] == "1"
    sys.path.insert(0, build)
    sys.path.insert(0, os.path.join(HERE, "fakempi"))
    sys.path.insert(0, os.path.dirname(HERE))
    warnings.simplefilter("ignore")
    import logging
    logging.disable(logging.CRITICAL)
    import numpy as np
    pz = None
    if poison:
        sys.path.insert(0, os.path.join(HERE, "poison"))
        import poisonalloc as pz
        pz.install(0xFF)
        pz.set_enabled(0)
    from harness import purity_routines as PR

    def proc_state():
        """the process-wide setting that decides whether later numerics return a value or raise: numpy's floating-point
        error handling (a routine that leaves divide / invalid on 'raise' behind makes the NaN-cleaning routines of the
        library fail for the rest of the process). Log levels and warning filters do not change results: not observed."""
        return {"np.geterr": dict(np.geterr())}
    state0 = proc_state()
    jobs = json.load(sys.stdin)
    out = []
    import faulthandler
    job_timeout = int(os.environ.get("VERIF_C19_JOB_TIMEOUT", "600"))
    for job in jobs:
        rec = {"id": job["id"]}
        # watchdog: a call that never returns ends the worker with the Python stack of the stuck job on stderr
        sys.stderr.write("JOB %s\n" % json.dumps(job))
        faulthandler.dump_traceback_later(job_timeout, exit=True)
        try:
            if pz:
                pz.set_byte(job["byte"])
                pz.set_enabled(1 if job["byte"] >= 0 else 0)
            for (rn, aset) in job["prior"]:
                try:
                    args = PR.make_args(rn, aset)
                    PR.ROUTINES[rn](*args)
                except Exception:
                    pass
                del args
            args = PR.make_args(job["routine"], job["argset"])
            before = [digest(a, True) for a in args]
            around = [outside_view(a) for a in args]
            fn = PR.ROUTINES[job["routine"]]
            try:
                res, raised = fn(*args), None
            except Exception as ex:       # the implementation's exception is a result, not a worker problem
                res, raised = None, ex
            if raised is None:
                rec["digest"] = digest(res)          # a value without projection is a worker error (TypeError)
                rec["value"] = describe(res)
                if job["routine"].endswith("_twice"):      # the routine made the same call twice: (first, second)
                    rec["repeat_same"] = digest(res[0]) == digest(res[1])
            else:
                rec["digest"] = "raised:" + type(raised).__name__
                rec["value"] = "%s: %s" % (type(raised).__name__, str(raised)[:200])
                rec["raised"] = True
            del res
            # the same OBJECTS with other values: a caller who updates its matrix in place and asks again must get what
            # a fresh object with those values gives (clean baseline jobs only; ndarray arguments of equal shape / type)
            if raised is None and job.get("byte") == -1 and not job["prior"] and not PR.writes(job["routine"]) \
                    and not job["routine"].endswith("_twice"):
                other = PR.make_args(job["routine"], (job["argset"] + 1) % PR.NSETS)
                pairs = list(zip(args, other))
                arrs = [(a, o) for a, o in pairs if isinstance(a, np.ndarray)]
                same_kind = len(args) == len(other) and all(
                    (isinstance(a, np.ndarray) and isinstance(o, np.ndarray) and a.shape == o.shape and a.dtype == o.dtype
                     and a.flags.writeable) or (not isinstance(a, np.ndarray) and digest(a, True) == digest(o, True))
                    for a, o in pairs)
                if same_kind and arrs and any(not np.array_equal(a, o) for a, o in arrs):
                    keep = [a.copy() for a, _ in arrs]
                    try:
                        for a, o in arrs:
                            np.copyto(a, o)
                        again = digest(fn(*args))
                        fresh = digest(fn(*PR.make_args(job["routine"], (job["argset"] + 1) % PR.NSETS)))
                        rec["reuse_same"] = again == fresh
                    except Exception:
                        pass              # the other argument set is not valid for this routine in this form
                    finally:
                        for (a, _), k_ in zip(arrs, keep):
                            np.copyto(a, k_)
            after = [digest(a, True) for a in args]
            # every argument except the documented out= positions must be bit-identical after the call
            may_write = PR.writes(job["routine"])
            changed = [i for i, (x, y) in enumerate(zip(before, after)) if x != y and i not in may_write]
            # ... and a writable VIEW may change, the buffer around it may not
            changed += [i for i, a in enumerate(args) if around[i] is not None and outside_view(a) != around[i]]
            rec["args_same"] = not changed
            if changed:
                rec["args_changed"] = changed
        except Exception as ex:    # worker problem, reported as such
            rec["worker_error"] = "%s: %s" % (type(ex).__name__, ex)
        finally:
            faulthandler.cancel_dump_traceback_later()
            if pz:
                pz.set_enabled(0)
            st = proc_state()
            if st != state0:
                rec["process_state_changed"] = {k: [state0[k], st[k]] for k in st if st[k] != state0[k]}
                np.seterr(**state0["np.geterr"])
        out.append(rec)
    with open(sys.argv[3], "w") as fh:
        json.dump(out, fh)


if __name__ == "__main__":
    main()
