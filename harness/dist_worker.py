"""Worker process of the C13 check.  Usage:
     dist_worker.py <build_dir> <jobs.json> <results.json>
OMP_NUM_THREADS (and OMP_WAIT_POLICY) are fixed by the parent through the environment, before the
extension module is imported.

jobs.json = {cases: [CASE...], cfgs: [CFG...], lays: {"layout|out|r|f": LAY}, calls: [[case_idx, cfg_idx], ...],
             repeat: k}
CASE / CFG / LAY are the records emitted by TLC from specs/kernels/Dist.tla (data + expected values in units;
configuration + expected outcome; (len, offset, strides) of the buffers).  The worker only builds the numpy
objects a record describes, calls the real kernel, and compares what comes back with the integers of the
record: nothing is recomputed here.

result = {n_calls, mism: [{call, case, cfg, what, detail}], digests: {"ci,gi": hex}, errors_seen: {...}}
"""
import hashlib
import json
import os
import sys
import warnings

HERE = os.path.dirname(os.path.abspath(__file__))
TOL = 1e-9

NP_DTYPE = {"bigendian": ">i4"}


def main():
    build, jobf, resf = sys.argv[1:4]
    sys.path.insert(0, build)
    sys.path.insert(0, os.path.join(HERE, "fakempi"))
    os.environ["ENSPARA_VERIF"] = "1"
    warnings.simplefilter("ignore")
    import logging
    logging.disable(logging.CRITICAL)
    import numpy as np
    from enspara.geometry import libdist
    from enspara.cluster.util import _get_distance_method
    if not os.path.abspath(libdist.__file__).startswith(os.path.abspath(build)):
        raise SystemExit("libdist imported from %s" % libdist.__file__)
    job = json.load(open(jobf))
    cases, cfgs, lays, calls = job["cases"], job["cfgs"], job["lays"], job["calls"]
    repeat = int(job.get("repeat", 1))

    funcs = {}

    def func(kernel, via):
        k = (kernel, via)
        if k not in funcs:
            direct = getattr(libdist, kernel)
            funcs[k] = direct if via == "direct" else _get_distance_method(direct if via == "callable" else via)
        return funcs[k]

    idx_cache = {}

    def flat_index(lay, r, f):
        k = (tuple(lay), r, f)
        if k not in idx_cache:
            ln, off, s0, s1 = lay
            ii, jj = np.meshgrid(np.arange(r), np.arange(f), indexing="ij")
            idx_cache[k] = (off + ii * s0 + jj * s1).ravel()
        return idx_cache[k]

    def view2(vals, lay, r, f, dt, fill, packed=False):
        """the r x f view described by lay = (len, off, s0, s1) over a fresh flat buffer; packed: the same elements as
        the field of a packed record array (a one-byte tag in front of every row), so that the row stride in BYTES is
        f * itemsize + 1 -- not a multiple of the item size, as in a memory-mapped frame file with a record header"""
        if packed and r * f:
            rec = np.zeros(r, dtype=np.dtype([("tag", "i1"), ("feat", dt, (f,))]))
            rec["tag"] = 77
            X = rec["feat"]
            X[...] = np.asarray(vals, dtype=dt).reshape(r, f)
            return rec, X
        ln, off, s0, s1 = lay
        buf = np.full(ln, fill, dtype=dt)
        if r * f:
            buf[flat_index(lay, r, f)] = vals
        isz = buf.itemsize
        if r * f == 0:
            return buf, np.zeros((r, f), dtype=dt)
        return buf, np.ndarray(shape=(r, f), dtype=buf.dtype, buffer=buf, offset=off * isz, strides=(s0 * isz, s1 * isz))

    def view1(vals, lay, n, dt, fill):
        ln, off, s = lay
        buf = np.full(ln, fill, dtype=dt)
        if n == 0:
            return buf, np.zeros(0, dtype=dt)
        isz = buf.itemsize
        v = np.ndarray(shape=(n,), dtype=buf.dtype, buffer=buf, offset=off * isz, strides=(s * isz,))
        if vals is not None:
            v[...] = vals
        return buf, v

    def scaled(rows, U, dt):
        if U == 1:
            return np.array(rows).astype(dt)
        if np.dtype(dt).kind in "fc":
            return np.array([float(v * U) for v in rows], dtype=dt)
        return np.array([v * U for v in rows], dtype=dt)

    mism, digests, errors_seen = [], {}, {}
    n_calls = 0
    for ci, gi in calls:
        case, cfg = cases[ci], cfgs[gi]
        r, f = case["r"], case["f"]
        U = 1 if cfg["ubits"] == 0 else 2 ** cfg["ubits"] - 1
        dt = NP_DTYPE.get(cfg["dtype"], cfg["dtype"])
        ydt = dt if cfg["ydt"] == "same" else ("int64" if cfg["dtype"] != "int64" else "int32")
        fill = cfg["fill"]
        simple = cfg["expect"] == "error"          # bad-input configurations use plain C-ordered arrays
        lay = lays["%s|%s|%d|%d" % ("C" if simple else cfg["layout"], "none" if simple else cfg["out"], r, f)]
        flatX = [v for row in case["X"] for v in row]
        # wide float rows are also replayed far from the origin and finely scaled: v -> 1024 + v / 4096 (exact in
        # float32 and float64).  Every kernel is invariant under the translation and scales with the factor, so the
        # record's integers still say what must come out -- unless the kernel loses the small differences
        aff = None
        if (U == 1 and np.dtype(dt).kind == "f" and f >= 100 and cfg["expect"] == "ok" and cfg["ydt"] == "same"
                and (ci + gi) % 2 == 0):
            aff = (1024.0, 1.0 / 4096.0)

        def placed(vals, dtp):
            a = scaled(vals, U, dtp)
            return a if aff is None else (aff[0] + a.astype(np.float64) * aff[1]).astype(dtp)
        xbuf, X = view2(placed(flatX, dt) if flatX else None, lay["xl"], r, f, dt, fill,
                        packed=(not simple and cfg["layout"] == "packed"))
        yvals = list(case["y"])
        if cfg["dw"] == "wider":
            yvals = yvals + [0]
        elif cfg["dw"] == "narrower":
            yvals = yvals[:-1]
        yclipped = False
        try:
            ysc = (placed(yvals, ydt) if aff is not None else scaled(yvals, U, ydt)) if yvals else np.zeros(0, dtype=ydt)
        except OverflowError:
            # only possible when y has the *other* element type (expect = "either"): the magnitude of the
            # configuration does not fit that type.  The call is still made (refusal is what the model
            # predicts); if it is accepted there is no expected value to compare with.
            if ydt == dt:
                raise
            info = np.iinfo(ydt)
            ysc = np.array([min(max(v * U, info.min), info.max) for v in yvals], dtype=ydt)
            yclipped = True
        if cfg["dw"] == "same" and not simple:
            ybuf, y = view1(ysc, lay["yl"], f, ydt, fill)
        else:
            y = ysc
            ybuf = y
        if cfg["xrank"] == 1:
            X = X[0] if r else X.reshape(-1)
        elif cfg["xrank"] == 3:
            X = X[None]
        if cfg["yrank"] == 0:
            y = np.array(y[0]) if len(y) else np.array(0, dtype=ydt)
        elif cfg["yrank"] == 2:
            y = y[None]
        o = cfg["out"]
        obuf = out = None
        if o in ("ok", "ok_guard", "ok_strided", "ok_neg"):
            obuf, out = view1(None, lay["ol"], r, "float64", 7.0)
        elif o == "f32":
            out = np.full(r, 7.0, dtype="float32")
        elif o == "i64":
            out = np.full(r, 7, dtype="int64")
        elif o == "long":
            out = np.full(r + 1, 7.0)
        elif o == "short":
            out = np.full(max(r - 1, 0), 7.0)
        elif o == "col":
            out = np.full((r, 1), 7.0)
        elif o == "row":
            out = np.full((1, r), 7.0)
        elif o == "zero_d":
            out = np.array(7.0)
        xb0, yb0 = xbuf.tobytes(), ybuf.tobytes()
        fn = func(cfg["kernel"], cfg["via"])
        first = None
        for rep in range(repeat):
            if obuf is not None:
                obuf[...] = 7.0
            n_calls += 1
            raised = None
            res = None
            try:
                res = fn(X, y) if out is None else fn(X, y, out=out)
            except Exception as ex:                 # the implementation's exception is an observation
                raised = "%s: %s" % (type(ex).__name__, str(ex)[:100])
                errors_seen[type(ex).__name__] = errors_seen.get(type(ex).__name__, 0) + 1
            bad = None
            if raised is not None:
                if cfg["expect"] == "ok":
                    bad = ("raised", raised)
            elif cfg["expect"] == "error":
                bad = ("no-error", "returned %s" % (np.asarray(res).tolist() if np.size(res) <= 8 else type(res).__name__))
            elif not yclipped:
                bad = check(np, case, cfg, U if aff is None else U * aff[1], res, out, obuf, lay)
            if bad is None and (xbuf.tobytes() != xb0 or ybuf.tobytes() != yb0):
                bad = ("input-modified", "")
            dg = raised.split(":")[0] if raised is not None else hashlib.sha1(np.ascontiguousarray(res).tobytes()).hexdigest()[:12]
            if first is None:
                first = dg
            elif dg != first and bad is None:
                bad = ("not-repeatable", "run 0 -> %s, run %d -> %s" % (first, rep, dg))
            if bad is not None:
                mism.append({"ci": ci, "gi": gi, "what": bad[0], "detail": bad[1], "rep": rep})
                break
        digests["%d,%d" % (ci, gi)] = first
    with open(resf, "w") as fh:
        json.dump({"n_calls": n_calls, "mism": mism, "digests": digests, "errors_seen": errors_seen}, fh)


def check(np, case, cfg, U, res, out, obuf, lay):
    """compare a returned object with the record; None if it conforms"""
    r, f = case["r"], case["f"]
    if out is not None and res is not out:
        return ("out-not-returned", "returned object is not the out argument")
    if not isinstance(res, np.ndarray):
        return ("type", type(res).__name__)
    if res.ndim != 1 or res.shape != (r,):
        return ("shape", str(res.shape))
    if res.dtype != np.float64:
        return ("dtype", str(res.dtype))
    kernel = cfg["kernel"]
    got = [float(v) for v in res]
    for i in range(r):
        g = got[i]
        if kernel == "manhattan":
            e = case["l1"][i] * U
            ok = abs(g - e) <= TOL * max(1.0, e)
            exp = e
        elif kernel == "euclidean":
            e = case["sq"][i]                       # squared distance in units
            gu = g / U
            ok = abs(gu * gu - e) <= TOL * max(1.0, e) and g >= 0
            exp = "sqrt(%d)*%s" % (e, U)
        else:
            e = case["mis"][i]
            ok = abs(g * f - e) <= TOL * f
            exp = "%d/%d" % (e, f)
        if not ok:                                  # also catches NaN
            return ("value", {"row": i, "got": g, "expected": exp, "result": got[:8]})
    if obuf is not None:
        ln, off, s = lay["ol"]
        inside = {off + k * s for k in range(r)}
        for p in range(ln):
            if p not in inside and obuf[p] != 7.0:
                return ("stray-write", {"cell": p, "value": float(obuf[p])})
    return None


if __name__ == "__main__":
    main()
