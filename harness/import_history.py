"""harness/import_history.py <build> <late|early> -- C19, history = which parts of the library were imported before.

Numbers in the gradual-underflow range (squares of 1e-160, float32 squares of 1e-21, coordinates of 1e-310) are where a
process-wide floating-point mode (flush-to-zero / denormals-are-zero, set e.g. by the start-up code of a shared object
linked with fast-math flags) becomes visible.  Order `late` evaluates the probes after importing the distance kernels
only, then imports every other module of the library one at a time and re-evaluates them after each import; order `early`
imports everything first.  Prints one JSON object: the probe digests per stage and the module after whose import a probe
changed."""
import hashlib
import importlib
import json
import os
import pkgutil
import sys
import warnings


def main():
    build, order = sys.argv[1], sys.argv[2]
    sys.path.insert(0, build)
    sys.path.insert(0, os.path.join(os.path.dirname(os.path.abspath(__file__)), "fakempi"))
    warnings.simplefilter("ignore")
    import logging
    logging.disable(logging.CRITICAL)
    import numpy as np

    def sentinel():
        return np.array([1e-160]) * np.array([1e-160])
    v0 = sentinel()            # before any part of the library is loaded
    pre = {"numpy/float64/1e-160-squared": {"digest": hashlib.sha1(v0.tobytes()).hexdigest(),
                                            "nonzero": int(np.count_nonzero(v0)), "first": float(v0[0])}}
    so, sys.stdout = sys.stdout, open(os.devnull, "w")
    import enspara
    from enspara.geometry import libdist
    if not os.path.abspath(enspara.__file__).startswith(os.path.abspath(build)):
        raise RuntimeError("enspara imported from %s" % enspara.__file__)

    k = np.arange(1, 64 * 3 + 1, dtype=np.float64).reshape(64, 3)
    probes = {
        "libdist.euclidean/float64/differences-1e-160": lambda: libdist.euclidean(k * 1e-160, np.zeros(3)),
        "libdist.euclidean/float32/differences-1e-21": lambda: libdist.euclidean((k * 1e-21).astype(np.float32),
                                                                                 np.zeros(3, dtype=np.float32)),
        "libdist.manhattan/float64/coordinates-1e-310": lambda: libdist.manhattan(k * 1e-310, np.zeros(3)),
        "libdist.euclidean/float64/ordinary": lambda: libdist.euclidean(k, np.zeros(3)),
        "numpy/float64/1e-160-squared": sentinel,
    }

    def stage():
        out = {}
        for name, f in probes.items():
            v = np.ascontiguousarray(f())
            out[name] = {"digest": hashlib.sha1(v.tobytes()).hexdigest(), "nonzero": int(np.count_nonzero(v)),
                         "first": float(v.ravel()[0])}
        return out

    mods = sorted(m.name for m in pkgutil.walk_packages(enspara.__path__, "enspara.")
                  if ".test" not in m.name and not m.name.startswith("enspara.apps"))
    res = {"order": order, "threads": os.environ.get("OMP_NUM_THREADS"), "stages": [{"after": "numpy only", "probes": pre}],
           "import_errors": {}}
    if order == "late":
        res["stages"].append({"after": "enspara.geometry.libdist only", "probes": stage()})
    for m in mods:
        try:
            importlib.import_module(m)
        except Exception as ex:              # optional dependencies
            res["import_errors"][m] = "%s: %s" % (type(ex).__name__, str(ex)[:100])
            continue
        if order == "late":
            cur = stage()
            if any(cur[p]["digest"] != res["stages"][-1]["probes"].get(p, cur[p])["digest"] for p in cur):
                res["stages"].append({"after": m, "probes": cur})
    if order == "early":
        res["stages"].append({"after": "every module", "probes": stage()})
    res["modules"] = len(mods)
    sys.stdout = so
    print("IMPORT-HISTORY " + json.dumps(res))


if __name__ == "__main__":
    main()
