"""pytest plugin (property C05, binding B): records every outermost
RaggedArray.__getitem__ performed while enspara/test/test_ra.py runs, as
ndjson records {test, rows, ix, res}.  specs/ragged/Trace_RaggedRead.tla then
decides for each record whether res = Get(rows, ix).

Loaded with `-p harness.c05_trace_plugin`; output file from $C05_TRACE_OUT.
Only projection happens here (numpy -> integers / lists); no index arithmetic.
"""
import json
import numbers
import os

import numpy as np

NONE = 1000000
_state = {"depth": 0, "test": "", "fh": None, "n": 0, "skipped": 0}


def _num(v):
    """scalar -> int (floats scaled by 1000; only equality matters)"""
    if isinstance(v, (bool, np.bool_)):
        return int(v)
    if isinstance(v, numbers.Integral):
        return int(v)
    if isinstance(v, numbers.Real):
        return int(round(float(v) * 1000))
    raise TypeError(v)


def _rows_of(arr):
    data = np.asarray(arr._data)
    if data.ndim != 1 or data.dtype == object:
        raise TypeError("multi-dimensional elements")
    out, start = [], 0
    for l in np.asarray(arr.lengths).tolist():
        out.append([_num(v) for v in data[start:start + int(l)].tolist()])
        start += int(l)
    if start != len(data) or any(len(r) == 0 for r in out) or not out:
        raise TypeError("not a well-formed stored array")
    return out


def _enc1(ix):
    if isinstance(ix, (bool, np.bool_)):
        raise TypeError(ix)
    if isinstance(ix, numbers.Integral):
        return {"i": int(ix)}
    if isinstance(ix, slice):
        return {"s": [NONE if v is None else int(v) for v in (ix.start, ix.stop, ix.step)]}
    if isinstance(ix, (list, np.ndarray)):
        a = np.asarray(ix)
        if a.ndim != 1 or (a.size and a.dtype.kind not in "iu"):
            raise TypeError(ix)
        return {"l": [int(v) for v in a.tolist()]}
    raise TypeError(ix)


def _enc(arr, ix):
    from enspara.ra import RaggedArray
    if isinstance(ix, RaggedArray):
        if ix._data.dtype != bool or list(ix.lengths) != list(arr.lengths):
            raise TypeError("mask of another shape")
        return {"m": [[bool(v) for v in r] for r in _rows_of_bool(ix)]}
    if isinstance(ix, tuple):
        if len(ix) != 2:
            raise TypeError(ix)
        r, c = _enc1(ix[0]), _enc1(ix[1])
        if "i" in r and "l" in c:
            raise TypeError("(int, list) is outside the claimed grammar")
        if "l" in r and "l" in c and len(r["l"]) != len(c["l"]):
            raise TypeError("broadcast fancy pair")
        return {"r": r, "c": c}
    return _enc1(ix)


def _rows_of_bool(m):
    out, start = [], 0
    data = np.asarray(m._data)
    for l in np.asarray(m.lengths).tolist():
        out.append(data[start:start + int(l)].tolist())
        start += int(l)
    return out


def _project(res):
    from enspara.ra import RaggedArray
    if isinstance(res, BaseException):
        return {"e": type(res).__name__}
    if isinstance(res, RaggedArray):
        rows = []
        for row in res:
            a = np.asarray(row)
            if a.dtype == object:
                a = np.array(a.tolist())
            if a.ndim != 1:
                raise TypeError("row shape %s" % (a.shape,))
            rows.append([_num(v) for v in a.tolist()])
        return {"r": rows}
    if isinstance(res, np.ndarray):
        if res.ndim == 0:
            return {"v": _num(res.item())}
        if res.ndim == 1:
            return {"f": [_num(v) for v in res.tolist()]}
        raise TypeError("result shape %s" % (res.shape,))
    if isinstance(res, (np.generic, numbers.Real)):
        return {"v": _num(res)}
    raise TypeError(type(res))


def _record(arr, ix, res):
    try:
        rec = {"test": _state["test"], "rows": _rows_of(arr), "ix": _enc(arr, ix), "res": _project(res)}
    except (TypeError, ValueError, AttributeError):
        _state["skipped"] += 1
        return
    _state["fh"].write(json.dumps(rec) + "\n")
    _state["n"] += 1


def pytest_configure(config):
    from enspara.ra import ra as ramod
    _state["fh"] = open(os.environ["C05_TRACE_OUT"], "w")
    orig = ramod.RaggedArray.__getitem__

    def traced(self, iis):
        _state["depth"] += 1
        try:
            if _state["depth"] > 1:
                return orig(self, iis)
            # snapshot of the operands before the call (rows are projected afterwards from the
            # unchanged object: a read does not modify it -- checked by the replay binding)
            try:
                res = orig(self, iis)
            except Exception as ex:
                _record(self, iis, ex)
                raise
            _record(self, iis, res)
            return res
        finally:
            _state["depth"] -= 1
    ramod.RaggedArray.__getitem__ = traced


def pytest_runtest_setup(item):
    _state["test"] = item.name


def pytest_unconfigure(config):
    if _state["fh"]:
        _state["fh"].write(json.dumps({"summary": 1, "recorded": _state["n"], "skipped": _state["skipped"]}) + "\n")
        _state["fh"].close()
