"""./check --setup : offline preparation.  Syntax-checks every specification
with SANY, builds the poison allocator extension (if its source is present),
creates out/ and evidence/."""
import os
import subprocess
import sys

from . import core


def main():
    os.makedirs(os.path.join(core.VERIF, "out"), exist_ok=True)
    os.makedirs(os.path.join(core.VERIF, "evidence"), exist_ok=True)
    libs = os.pathsep.join([os.path.join(core.SPECS, d) for d in sorted(os.listdir(core.SPECS))])
    bad = 0
    n = 0
    for root, _, fs in os.walk(core.SPECS):
        for f in sorted(fs):
            if f.endswith(".tla"):
                n += 1
                r = subprocess.run(["java", "-DTLA-Library=" + libs, "-cp",
                                    core.TLA_JAR + ":/opt/veriftools/tla/CommunityModules-deps.jar",
                                    "tla2sany.SANY", f], cwd=root, stdout=subprocess.PIPE,
                                   stderr=subprocess.STDOUT, text=True)
                if r.returncode != 0 or "error" in r.stdout.lower().replace("semantic errors:\n", ""):
                    if "*** Errors" in r.stdout or "Fatal" in r.stdout or r.returncode != 0:
                        print("SANY failed on", f)
                        print(r.stdout[-2000:])
                        bad += 1
    print("setup: %d specifications parsed, %d failed" % (n, bad))
    pz = os.path.join(core.VERIF, "harness", "poison")
    if os.path.exists(os.path.join(pz, "build.sh")):
        r = subprocess.run(["sh", "build.sh"], cwd=pz)
        if r.returncode != 0:
            print("setup: poison allocator build failed")
            bad += 1
    return 1 if bad else 0
