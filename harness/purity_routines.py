"""Routine alphabet of the C19 check: name -> callable, and deterministic argument sets.

Every entry is registered with _reg(name, fn, argf, writes=()):
  fn      the call under test; receives the arguments built by argf and returns the value whose
          bits must depend on the arguments only (tuples / sparse matrices / RaggedArrays /
          ClusterResults / TrimMappings are projected to bits by purity_worker.canon);
  argf    argf(rs, k) -> tuple of arguments for argument set k (0 <= k < NSETS); rs is a
          RandomState seeded from (name, k), so every process builds the same bits;
  writes  positions of the arguments the routine is DOCUMENTED to write (out= buffers); every
          other argument is fingerprinted before and after the call and must be unchanged.
A name is "<module>.<function>/<variant>"; the variant names the option / container / dtype /
memory-layout form.  make_args(name, k) and ROUTINES[name] are the interface of the worker.

Left out on purpose (with the reason) -- see the comments marked SKIPPED / EXCLUDED below.
"""
import numpy as np
import scipy.sparse as sp

NSETS = 3


def hash_name(s):
    h = 0
    for ch in s:
        h = (h * 131 + ord(ch)) % (2 ** 31)
    return h


def _rs(name, k):
    return np.random.RandomState((hash_name(name) + 7919 * k) % (2 ** 31))


# ------------------------------------------------------------------ registry
_REG = {}
_BUILT = [False]


def _reg(name, fn, argf, writes=()):
    if name in _REG:
        raise KeyError("duplicate routine name " + name)
    _REG[name] = (fn, argf, frozenset(writes))


def _ensure():
    if not _BUILT[0]:
        _BUILT[0] = True
        for f in _FAMILIES:
            f()


def make_args(name, k):
    _ensure()
    return tuple(_REG[name][1](_rs(name, k), k))


def writes(name):
    """argument positions the routine is documented to write (WritesArg of the spec)"""
    _ensure()
    return _REG[name][2]


class _Lazy(dict):
    def __missing__(self, k):
        _ensure()
        return _REG[k][0]

    def names(self):
        _ensure()
        return sorted(_REG.keys())


ROUTINES = _Lazy()


class _LazyWrites(dict):
    def __contains__(self, k):
        return bool(writes(k))

    def __missing__(self, k):
        return writes(k)


# name -> positions of documented in-place arguments (only the out= buffers of libdist)
WRITES_ARG = _LazyWrites()
# routines whose execution leaves freed junk of many sizes on the heap (prior-call alphabet)
DIRTY = ["entropy.shannon_entropy", "mutual_info.mutual_information", "builders.mle", "tpt.paths",
         "cluster.hybrid", "ra.ops",
         # calls that FAIL (the caller handles the exception and goes on): whatever a routine switched on before it
         # failed -- floating-point error handling, warning filters, caches -- must not stay behind
         "fails/builders.mle", "fails/entropy.kl_divergence", "fails/tpt.committors"]


# ------------------------------------------------------------------ argument helpers
def _counts(rs, n=4, zero_frac=0.4):
    C = rs.randint(0, 5, size=(n, n)) * (rs.rand(n, n) > zero_frac)
    C = C + np.diag(np.ones(n, dtype=int))
    for i in range(n):                      # strongly connected ring
        C[i, (i + 1) % n] += 1
        C[(i + 1) % n, i] += 1
    return C.astype(float)


def _tprob(rs, n=5):
    C = _counts(rs, n)
    return C / C.sum(axis=1)[:, None]


def _rev_tprob(rs, n=5):
    C = _counts(rs, n)
    X = C + C.T
    return X / X.sum(axis=1)[:, None], X.sum(axis=1) / X.sum()


def _assigns(rs, ntraj=3, nst=4):
    from enspara import ra
    return ra.RaggedArray([rs.randint(0, nst, size=rs.randint(5, 12)) for _ in range(ntraj)])


def _padded(rs, ntraj=3, nst=4, width=12):
    """2-D assignments, rows padded with -1 (the documented 'no frame' marker)"""
    a = -np.ones((ntraj, width), dtype=int)
    for i in range(ntraj):
        n = rs.randint(5, width + 1)
        a[i, :n] = rs.randint(0, nst, size=n)
    a[0, :nst] = np.arange(nst)             # every state occurs
    return a


def _points(rs, n=12, d=2):
    pts = set()
    while len(pts) < n:
        pts.add(tuple(int(x) for x in rs.randint(0, 9, size=d)))
    return np.array(sorted(pts), dtype=float)[rs.permutation(n)]


def _trim_counts(rs, k):
    """Count matrix with a main strongly connected component {0,1,2,3}, a state (4) that is only
    reached by a one-way link, a state (5) with a one-way link INTO the component, an isolated
    state (6) with self counts only, and (k>0) links of weight 1 that vanish at threshold=2."""
    n = 7
    C = np.zeros((n, n), dtype=int)
    for i in range(4):
        C[i, (i + 1) % 4] = 2 + rs.randint(0, 4)
        C[(i + 1) % 4, i] = 2 + rs.randint(0, 4)
        C[i, i] = rs.randint(1, 6)
    C[1, 4] = 3 + k                          # one-way out of the component
    C[4, 4] = 2
    C[5, 2] = 2 + k                          # one-way into the component
    C[5, 5] = 4
    C[6, 6] = 5                              # isolated
    if k >= 1:
        C[0, 2] = 1                          # weak links: present at threshold 1, gone at 2
        C[4, 1] = 1                          # closes 1 <-> 4 only at threshold 1
    if k >= 2:
        C[6, 5] = 1
        C[5, 6] = 1
    return C


def _container(C, cont):
    """the container / dtype / layout forms of a matrix argument"""
    C = np.array(C)
    if cont in ("", "dense", "float"):
        return C.astype(float)
    if cont == "int":
        return C.astype(int)
    if cont == "int32":
        return C.astype(np.int32)
    if cont == "f32":
        return C.astype(np.float32)
    if cont == "F":
        return np.asfortranarray(C.astype(float))
    if cont == "Fint":
        return np.asfortranarray(C.astype(int))
    if cont == "strided":
        big = np.zeros((2 * C.shape[0], 2 * C.shape[1]), dtype=float)
        big[::2, ::2] = C
        return big[::2, ::2]
    dt = int if cont.endswith("_int") else float
    base = cont.split("_")[0]
    ctor = {"csr": sp.csr_matrix, "csc": sp.csc_matrix, "coo": sp.coo_matrix, "lil": sp.lil_matrix,
            "dok": sp.dok_matrix, "bsr": sp.bsr_matrix, "csra": sp.csr_array, "cooa": sp.coo_array}[base]
    return ctor(C.astype(dt))


def _mdtraj(rs, n_frames=6, n_atoms=5):
    """a tiny synthetic md.Trajectory (no files)"""
    import mdtraj as md
    top = md.Topology()
    ch = top.add_chain()
    for i in range(n_atoms):
        r = top.add_residue("ALA", ch)
        top.add_atom("CA", md.element.carbon, r)
    xyz = (rs.rand(n_frames, n_atoms, 3) * 2).astype(np.float32)
    return md.Trajectory(xyz, top)


_FAMILIES = []


def _family(f):
    _FAMILIES.append(f)
    return f


# ================================================================== info_theory.entropy
@_family
def _fam_entropy():
    from enspara.info_theory import entropy
    from enspara.msm import builders

    def p_zeros(rs, k, n=6):
        p = rs.rand(n)
        p[rs.randint(0, n, size=2 + k)] = 0.0          # zeros are the masked-out cells
        return p

    def p2d(rs, k):
        p = rs.rand(3, 4)
        p[rs.rand(3, 4) < 0.4] = 0.0
        p[0, 0] = 0.5
        return p

    def counts_int(rs, k):
        c = rs.randint(0, 6, size=7)
        c[rs.randint(0, 7, size=2 + k)] = 0
        c[0] = 3
        return c

    _reg("entropy.shannon_entropy", lambda p: entropy.shannon_entropy(p), lambda rs, k: (p_zeros(rs, k),))
    _reg("entropy.shannon_entropy/nonorm", lambda p: entropy.shannon_entropy(p / p.sum(), normalize=False),
         lambda rs, k: (p_zeros(rs, k),))
    _reg("entropy.shannon_entropy/nonorm_raw", lambda p: entropy.shannon_entropy(p, normalize=False),
         lambda rs, k: ((lambda p: p / p.sum())(p_zeros(rs, k)),))
    _reg("entropy.shannon_entropy/nonorm_int", lambda p: entropy.shannon_entropy(p, normalize=False),
         lambda rs, k: (counts_int(rs, k),))
    _reg("entropy.shannon_entropy/int", lambda p: entropy.shannon_entropy(p), lambda rs, k: (counts_int(rs, k),))
    _reg("entropy.shannon_entropy/int32", lambda p: entropy.shannon_entropy(p),
         lambda rs, k: (counts_int(rs, k).astype(np.int32),))
    _reg("entropy.shannon_entropy/f32", lambda p: entropy.shannon_entropy(p),
         lambda rs, k: (p_zeros(rs, k).astype(np.float32),))
    _reg("entropy.shannon_entropy/list", lambda p: entropy.shannon_entropy(p),
         lambda rs, k: ([float(x) for x in p_zeros(rs, k)],))
    _reg("entropy.shannon_entropy/strided", lambda p: entropy.shannon_entropy(p),
         lambda rs, k: (p_zeros(rs, k, 12)[::2],))
    _reg("entropy.shannon_entropy_2d", lambda p: entropy.shannon_entropy(p), lambda rs, k: (p2d(rs, k),))
    _reg("entropy.shannon_entropy_2d/F", lambda p: entropy.shannon_entropy(p),
         lambda rs, k: (np.asfortranarray(p2d(rs, k)),))
    _reg("entropy.shannon_entropy_2d/nonorm", lambda p: entropy.shannon_entropy(p, normalize=False),
         lambda rs, k: ((lambda p: p / p.sum())(p2d(rs, k)),))

    def pq(rs, k, zeros=False, shape=(5,)):
        P = rs.rand(*shape) + 0.1
        Q = rs.rand(*shape) + 0.1
        if zeros:
            P[..., rs.randint(0, shape[-1])] = 0.0       # 0 log 0 = 0
            z = rs.randint(0, shape[-1])
            P[..., z] = 0.0
            Q[..., z] = 0.0                              # 0 log 0/0 = 0
        return P / P.sum(axis=-1, keepdims=True), Q / Q.sum(axis=-1, keepdims=True)

    _reg("entropy.kl_divergence", lambda P, Q: entropy.kl_divergence(P, Q), lambda rs, k: pq(rs, k))
    _reg("entropy.kl_divergence/zeros", lambda P, Q: entropy.kl_divergence(P, Q), lambda rs, k: pq(rs, k, True))
    _reg("entropy.kl_divergence/base_e", lambda P, Q: entropy.kl_divergence(P, Q, base=np.e),
         lambda rs, k: pq(rs, k, k > 0))
    _reg("entropy.kl_divergence/base10", lambda P, Q: entropy.kl_divergence(P, Q, base=10),
         lambda rs, k: pq(rs, k, True))
    _reg("entropy.kl_divergence/2d", lambda P, Q: entropy.kl_divergence(P, Q), lambda rs, k: pq(rs, k, k > 0, (3, 4)))
    _reg("entropy.kl_divergence/2d_zeros_base3", lambda P, Q: entropy.kl_divergence(P, Q, base=3.0),
         lambda rs, k: pq(rs, k, True, (4, 5)))
    _reg("entropy.kl_divergence/lists", lambda P, Q: entropy.kl_divergence(P, Q),
         lambda rs, k: tuple(x.tolist() for x in pq(rs, k, True)))
    _reg("entropy.js_divergence", lambda P, Q: entropy.js_divergence(P, Q), lambda rs, k: pq(rs, k))
    _reg("entropy.js_divergence/zeros", lambda P, Q: entropy.js_divergence(P, Q), lambda rs, k: pq(rs, k, True))
    _reg("entropy.js_divergence/2d", lambda P, Q: entropy.js_divergence(P, Q), lambda rs, k: pq(rs, k, True, (3, 5)))

    def two_T(rs, k, n=4):
        P = _tprob(rs, n)
        Q = _tprob(rs, n)
        if k:
            P[0, 2] = 0.0
            P[0] /= P[0].sum()
        return P, Q

    _reg("entropy.relative_entropy_per_state", lambda P, Q: entropy.relative_entropy_per_state(P, Q), two_T)
    _reg("entropy.relative_entropy_per_state/subset_base_e",
         lambda P, Q, sub: entropy.relative_entropy_per_state(P, Q, state_subset=sub, base=np.e, weights=2.0),
         lambda rs, k: two_T(rs, k) + (np.array([0, 2]),))
    _reg("entropy.relative_entropy_per_state/assignments",
         lambda P, a: entropy.relative_entropy_per_state(P, assignments=a),
         lambda rs, k: (_tprob(rs, 4), _padded(rs, 3, 4)))
    _reg("entropy.relative_entropy_per_state/assignments_lag2_transpose",
         lambda P, a: entropy.relative_entropy_per_state(P, assignments=a, lag_time=2, builder=builders.transpose,
                                                         prior_counts=0.5),
         lambda rs, k: (_tprob(rs, 4), _padded(rs, 3, 4)))
    _reg("entropy.relative_entropy_msm", lambda P, Q: entropy.relative_entropy_msm(P, Q), two_T)
    _reg("entropy.relative_entropy_msm/populations",
         lambda P, Q, pi: entropy.relative_entropy_msm(P, Q, populations=pi),
         lambda rs, k: two_T(rs, k) + ((lambda p: p / p.sum())(rs.rand(4) + 0.1),))
    _reg("entropy.relative_entropy_msm/populations_as_weights",       # relative weights (state counts), not normalised
         lambda P, Q, pi: entropy.relative_entropy_msm(P, Q, populations=pi),
         lambda rs, k: two_T(rs, k) + (np.array([120., 300., 80., 50.]) + rs.randint(0, 9, size=4),))
    _reg("entropy.relative_entropy_msm/populations_column",           # a strided column of a caller's table
         lambda P, Q, tab: entropy.relative_entropy_msm(P, Q, populations=tab[:, 1]),
         lambda rs, k: two_T(rs, k) + (np.column_stack([np.arange(4.), [4., 1., 1., 3.] + rs.randint(0, 3, size=4),
                                                        np.ones(4)]) / 9,))
    _reg("entropy.relative_entropy_msm/subset",
         lambda P, Q, sub: entropy.relative_entropy_msm(P, Q, state_subset=sub),
         lambda rs, k: two_T(rs, k) + (np.array([1, 3]),))
    _reg("entropy.relative_entropy_msm/assignments",
         lambda P, a: entropy.relative_entropy_msm(P, assignments=a),
         lambda rs, k: (_tprob(rs, 4), _padded(rs, 3, 4)))
    _reg("entropy.Q_from_assignments", lambda a: entropy.Q_from_assignments(a, n_states=5),
         lambda rs, k: (_padded(rs, 3, 4),))
    _reg("entropy.Q_from_assignments/ragged_mle",
         lambda a: entropy.Q_from_assignments(a, lag_time=2, builder=builders.mle, prior_counts=1),
         lambda rs, k: (_assigns(rs, 3, 3),))
    _reg("entropy.energy_to_probability", lambda u: entropy.energy_to_probability(u),
         lambda rs, k: (rs.rand(6) * 10 - 5,))
    _reg("entropy.energy_to_probability/kT", lambda u: entropy.energy_to_probability(u, kT=0.6),
         lambda rs, k: (rs.randint(-4, 5, size=6),))


# ================================================================== info_theory.mutual_info / libinfo / exposons
@_family
def _fam_mutual_info():
    from enspara.info_theory import mutual_info, libinfo, exposons

    def jc_of(rs, k, T=30, F=3, S=3, empty=False):
        X = rs.randint(0, S, size=(T, F))
        jc = np.zeros((F, F, S, S), dtype=int)
        for t in range(T):
            for a in range(F):
                for b in range(F):
                    jc[a, b, X[t, a], X[t, b]] += 1
        if empty:
            jc[0, 1] = 0                                # a feature pair that was never observed together
            jc[1, 0] = 0
        return jc

    _reg("mutual_info.mutual_information", lambda jc: mutual_info.mutual_information(jc),
         lambda rs, k: (jc_of(rs, k),))
    _reg("mutual_info.mutual_information_empty_pair", lambda jc: mutual_info.mutual_information(jc),
         lambda rs, k: (jc_of(rs, k, empty=True),))
    _reg("mutual_info.mutual_information/uint32", lambda jc: mutual_info.mutual_information(jc),
         lambda rs, k: (jc_of(rs, k, empty=k > 0).astype(np.uint32),))
    _reg("mutual_info.mutual_information/float", lambda jc: mutual_info.mutual_information(jc),
         lambda rs, k: (jc_of(rs, k, empty=True).astype(float),))
    _reg("mutual_info.mutual_information/single", lambda jc: mutual_info.mutual_information(jc),
         lambda rs, k: (jc_of(rs, k, F=2, S=4)[:1, 1:],))          # a non-contiguous 1 x 1 x S x S view
    _reg("mutual_info.mutual_information/F", lambda jc: mutual_info.mutual_information(jc),
         lambda rs, k: (np.asfortranarray(jc_of(rs, k, empty=True)),))

    def XY(rs, k, dx=np.int64, dy=np.int64, T=20):
        return rs.randint(0, 3, size=(T, 3)).astype(dx), rs.randint(0, 2, size=(T, 2)).astype(dy)

    _reg("mutual_info.joint_counts", lambda X, Y, nx, ny: mutual_info.joint_counts(X, Y, nx, ny),
         lambda rs, k: XY(rs, k) + (3, 2))
    # long inputs (every static / dynamic schedule really splits 40-60 thousand frames over the threads)
    _reg("mutual_info.joint_counts/long_single_pair", lambda X, Y: mutual_info.joint_counts(X, Y, 3, 2),
         lambda rs, k: (rs.randint(0, 3, size=(40000 + 9000 * k, 1)), rs.randint(0, 2, size=(40000 + 9000 * k, 1))))
    _reg("mutual_info.joint_counts/long_1d", lambda X, Y: mutual_info.joint_counts(X, Y, 3, 2),
         lambda rs, k: (rs.randint(0, 3, size=50000 + 7000 * k), rs.randint(0, 2, size=50000 + 7000 * k)))
    _reg("mutual_info.joint_counts/long_X_only", lambda X: mutual_info.joint_counts(X, n_x=3),
         lambda rs, k: (rs.randint(0, 3, size=(40000 + 5000 * k, 3)),))
    _reg("mutual_info.joint_counts/X_only", lambda X: mutual_info.joint_counts(X), lambda rs, k: XY(rs, k)[:1])
    _reg("mutual_info.joint_counts/X_only_nx", lambda X: mutual_info.joint_counts(X, n_x=5), lambda rs, k: XY(rs, k)[:1])
    _reg("mutual_info.joint_counts/no_n", lambda X, Y: mutual_info.joint_counts(X, Y), lambda rs, k: XY(rs, k))
    _reg("mutual_info.joint_counts/larger_n", lambda X, Y: mutual_info.joint_counts(X, Y, 4, 5), lambda rs, k: XY(rs, k))
    _reg("mutual_info.joint_counts/1d", lambda X, Y: mutual_info.joint_counts(X, Y, 3, 2),
         lambda rs, k: tuple(np.ascontiguousarray(a[:, 0]) for a in XY(rs, k)))
    _reg("mutual_info.joint_counts/mixed_dtypes", lambda X, Y: mutual_info.joint_counts(X, Y, 3, 2),
         lambda rs, k: XY(rs, k, np.int32, np.int64) if k % 2 else XY(rs, k, np.int64, np.int16))
    for dt in ("int8", "int16", "int32", "uint8", "uint16", "uint32", "uint64"):
        _reg("mutual_info.joint_counts/" + dt, lambda X, Y: mutual_info.joint_counts(X, Y, 3, 2),
             (lambda dt: lambda rs, k: XY(rs, k, dt, dt))(np.dtype(dt)))
    _reg("mutual_info.joint_counts/F", lambda X, Y: mutual_info.joint_counts(X, Y, 3, 2),
         lambda rs, k: tuple(np.asfortranarray(a) for a in XY(rs, k)))
    _reg("mutual_info.joint_counts/strided", lambda X, Y: mutual_info.joint_counts(X, Y, 3, 2),
         lambda rs, k: tuple(a[::2] for a in XY(rs, k, T=30)))

    def XsYs(rs, k, nt=2):
        Xs = [rs.randint(0, 3, size=(15, 3)) for _ in range(nt)]
        Ys = [rs.randint(0, 2, size=(15, 3)) for _ in range(nt)]
        return Xs, Ys

    _reg("mutual_info.mi_matrix", lambda Xs, Ys, nx, ny: mutual_info.mi_matrix(Xs, Ys, nx, ny),
         lambda rs, k: XsYs(rs, k) + ([3, 3, 3], [2, 2, 2]))
    _reg("mutual_info.mi_matrix/nonorm", lambda Xs, Ys, nx, ny: mutual_info.mi_matrix(Xs, Ys, nx, ny, normalize=False),
         lambda rs, k: XsYs(rs, k, 3) + ([3, 3, 3], [2, 2, 2]))
    _reg("mutual_info.mi_matrix/arrays_n", lambda Xs, Ys, nx, ny: mutual_info.mi_matrix(Xs, Ys, nx, ny),
         lambda rs, k: XsYs(rs, k) + (np.array([3, 4, 3]), np.array([2, 3, 2])))
    _reg("mutual_info.mi_matrix/self", lambda Xs, nx: mutual_info.mi_matrix(Xs, Xs, nx, nx),
         lambda rs, k: (XsYs(rs, k, 1 + k)[0], [3, 3, 3]))
    _reg("mutual_info.mi_matrix/int16_one_traj", lambda Xs, Ys, nx, ny: mutual_info.mi_matrix(Xs, Ys, nx, ny, normalize=False),
         lambda rs, k: tuple([a.astype(np.int16) for a in L] for L in XsYs(rs, k, 1)) + ([3, 3, 3], [2, 2, 2]))
    _reg("mutual_info.mi_matrix_serial",
         lambda Xs, Ys, nx, ny: mutual_info.mi_matrix_serial(Xs, Ys, nx, ny),
         lambda rs, k: (lambda Xs: (Xs, Xs, [3, 3, 3], [3, 3, 3]))(XsYs(rs, k)[0]))
    _reg("mutual_info.mi_matrix_serial/nonorm",
         lambda Xs, Ys, nx, ny: mutual_info.mi_matrix_serial(Xs, Ys, nx, ny, normalize=False),
         lambda rs, k: (lambda Xs: (Xs, Xs, [3, 3, 3], [3, 3, 3]))(XsYs(rs, k)[0]))

    def fw(rs, k, T=20, norm=True):
        f = rs.randint(0, 3, size=(T, 3))
        f[:, 2] = rs.randint(0, 2, size=T)               # a feature that never takes the last state
        w = rs.rand(T)
        if k:
            w[rs.randint(0, T, size=3)] = 0.0            # frames of weight zero
        return f, (w / w.sum() if norm else w)

    _reg("mutual_info.weighted_mi", lambda f, w: mutual_info.weighted_mi(f, w), lambda rs, k: fw(rs, k))
    _reg("mutual_info.weighted_mi/nonorm", lambda f, w: mutual_info.weighted_mi(f, w, normalize=False),
         lambda rs, k: fw(rs, k))
    _reg("mutual_info.weighted_mi/n_feature_states",
         lambda f, w, n: mutual_info.weighted_mi(f, w, n_feature_states=n),
         lambda rs, k: fw(rs, k) + (([3, 3, 2], np.array([3, 4, 2]), np.array([4, 3, 3], dtype=np.int16))[k % 3],))
    _reg("mutual_info.weighted_mi/n_feature_states_nonorm",
         lambda f, w, n: mutual_info.weighted_mi(f, w, n_feature_states=n, normalize=False),
         lambda rs, k: fw(rs, k) + ([3, 3, 3],))
    _reg("mutual_info.weighted_mi/unnormalised_weights", lambda f, w: mutual_info.weighted_mi(f, w),
         lambda rs, k: fw(rs, k, norm=False))
    _reg("mutual_info.weighted_mi/int32_F", lambda f, w: mutual_info.weighted_mi(f, w),
         lambda rs, k: (lambda f, w: (np.asfortranarray(f.astype(np.int32)), w))(*fw(rs, k)))
    _reg("mutual_info.weighted_mi/bool", lambda f, w: mutual_info.weighted_mi(f, w),
         lambda rs, k: (lambda f, w: (f > 0, w))(*fw(rs, k)))

    def symm(rs, k, n=4, zero_diag=False):
        m = rs.rand(n, n)
        m = (m + m.T) / 2
        m[np.diag_indices(n)] += 1.0
        if zero_diag:
            m[1, 1] = 0.0
            m[0, 2] = m[2, 0] = 0.0
        return m

    _reg("mutual_info.mi_to_nmi_apc", lambda m: mutual_info.mi_to_nmi_apc(m), lambda rs, k: (symm(rs, k),))
    _reg("mutual_info.mi_to_nmi_apc/H_marginal", lambda m, H: mutual_info.mi_to_nmi_apc(m, H),
         lambda rs, k: (symm(rs, k), rs.rand(4) + 1.0))
    _reg("mutual_info.mi_to_nmi_apc/zero_entries", lambda m: mutual_info.mi_to_nmi_apc(m),
         lambda rs, k: (symm(rs, k, 5, True),))
    _reg("mutual_info.mi_to_nmi", lambda m: mutual_info.mi_to_nmi(m), lambda rs, k: (symm(rs, k),))
    _reg("mutual_info.mi_to_nmi/H_marginal", lambda m, H: mutual_info.mi_to_nmi(m, H),
         lambda rs, k: (symm(rs, k), (rs.rand(4) + 1.0) if k % 2 else list(rs.rand(4) + 1.0)))
    _reg("mutual_info.mi_to_nmi/zero_entries", lambda m: mutual_info.mi_to_nmi(m), lambda rs, k: (symm(rs, k, 5, True),))
    _reg("mutual_info.mi_to_apc", lambda m: mutual_info.mi_to_apc(m), lambda rs, k: (symm(rs, k),))
    _reg("mutual_info.mi_to_apc/F", lambda m: mutual_info.mi_to_apc(m), lambda rs, k: (np.asfortranarray(symm(rs, k, 5)),))
    _reg("mutual_info.channel_capacity_normalization/int",
         lambda m: mutual_info.channel_capacity_normalization(m, 3, 2), lambda rs, k: (rs.rand(3, 4),))
    _reg("mutual_info.channel_capacity_normalization/arrays",
         lambda m, nx, ny: mutual_info.channel_capacity_normalization(m, nx, ny),
         lambda rs, k: (rs.rand(3, 4), np.array([2, 3, 4]), np.array([3, 2, 5, 2])))
    _reg("mutual_info.channel_capacity_normalization/lists_F",
         lambda m, nx, ny: mutual_info.channel_capacity_normalization(m, nx, ny),
         lambda rs, k: (np.asfortranarray(rs.rand(2, 3)), [2, 4], [3, 3, 2]))
    _reg("mutual_info.channel_capacity_normalization/int16",
         lambda m, nx, ny: mutual_info.channel_capacity_normalization(m, nx, ny),
         lambda rs, k: (rs.rand(3, 3), np.array([2, 3, 4], dtype=np.int16), 3))
    _reg("mutual_info.deconvolute_network", lambda G: mutual_info.deconvolute_network(G),
         lambda rs, k: (symm(rs, k) / 8,))
    _reg("mutual_info.deconvolute_network/F", lambda G: mutual_info.deconvolute_network(G),
         lambda rs, k: (np.asfortranarray(symm(rs, k, 5) / 10),))

    # ---- libinfo kernels (OpenMP)
    def ab2(rs, k, dt, T=25):
        return rs.randint(0, 3, size=(T, 3)).astype(dt), rs.randint(0, 4, size=(T, 2)).astype(dt), 3, 4

    def ab1(rs, k, dt, T=25):
        return rs.randint(0, 3, size=T).astype(dt), rs.randint(0, 4, size=T).astype(dt), 3, 4

    _reg("libinfo.matrix_bincount2d", lambda a, b, na, nb: libinfo.matrix_bincount2d(a, b, na, nb),
         lambda rs, k: ab2(rs, k, np.int32))
    _reg("libinfo.bincount2d", lambda a, b, na, nb: libinfo.bincount2d(a, b, na, nb), lambda rs, k: ab1(rs, k, np.int64))
    _reg("libinfo.bincount2d/long", lambda a, b, na, nb: libinfo.bincount2d(a, b, na, nb),
         lambda rs, k: (rs.randint(0, 3, size=60000 + 4000 * k).astype(np.int64), rs.randint(0, 4, size=60000 + 4000 * k).astype(np.int64), 3, 4))
    _reg("libinfo.matrix_bincount2d/long", lambda a, b, na, nb: libinfo.matrix_bincount2d(a, b, na, nb),
         lambda rs, k: (rs.randint(0, 3, size=(40000 + 3000 * k, 2)).astype(np.int32), rs.randint(0, 4, size=(40000 + 3000 * k, 3)).astype(np.int32), 3, 4))
    for dt in ("int8", "int16", "int64", "uint8", "uint16", "uint32", "uint64"):
        _reg("libinfo.matrix_bincount2d/" + dt, lambda a, b, na, nb: libinfo.matrix_bincount2d(a, b, na, nb),
             (lambda dt: lambda rs, k: ab2(rs, k, dt))(np.dtype(dt)))
    for dt in ("int8", "int16", "int32", "uint8", "uint16", "uint32", "uint64"):
        _reg("libinfo.bincount2d/" + dt, lambda a, b, na, nb: libinfo.bincount2d(a, b, na, nb),
             (lambda dt: lambda rs, k: ab1(rs, k, dt))(np.dtype(dt)))
    _reg("libinfo.matrix_bincount2d/F", lambda a, b, na, nb: libinfo.matrix_bincount2d(a, b, na, nb),
         lambda rs, k: (lambda a, b, na, nb: (np.asfortranarray(a), np.asfortranarray(b), na, nb))(*ab2(rs, k, np.int64)))
    _reg("libinfo.matrix_bincount2d/strided", lambda a, b, na, nb: libinfo.matrix_bincount2d(a, b, na, nb),
         lambda rs, k: (lambda a, b, na, nb: (a[::2], b[1::2], na, nb))(*ab2(rs, k, np.int32, 40)))
    _reg("libinfo.matrix_bincount2d/column_views", lambda a, b, na, nb: libinfo.matrix_bincount2d(a, b, na, nb),
         lambda rs, k: (lambda a, b, na, nb: (a[:, ::2], b[:, :1], na, nb))(*ab2(rs, k, np.int16)))
    _reg("libinfo.bincount2d/strided", lambda a, b, na, nb: libinfo.bincount2d(a, b, na, nb),
         lambda rs, k: (lambda a, b, na, nb: (a[::3], b[::3], na, nb))(*ab1(rs, k, np.int32, 60)))
    _reg("libinfo.bincount2d/empty", lambda a, b, na, nb: libinfo.bincount2d(a, b, na, nb),
         lambda rs, k: (np.zeros(0, dtype=np.int64), np.zeros(0, dtype=np.int64), 2 + k, 3))

    # exposons_from_sasas: weighted_mi + sklearn AffinityPropagation with random_state=0 (deterministic)
    def sasas(rs, k):
        s = rs.rand(16, 4) * 0.05
        s[:, 1] = s[:, 0] + rs.rand(16) * 0.005
        w = rs.rand(16) + 0.1
        return s, w / w.sum()

    _reg("exposons.exposons_from_sasas", lambda s, w: exposons.exposons_from_sasas(s, 0.9, w, 0.02), sasas)


# ================================================================== msm.builders
@_family
def _fam_builders():
    from enspara.msm import builders
    conts = ["", "int", "int32", "F", "strided", "csr", "csr_int", "csc", "csc_int", "coo", "coo_int", "lil", "lil_int",
             "dok", "dok_int"]
    for bn in ("normalize", "transpose", "mle"):
        f = getattr(builders, bn)
        for cont in conts:
            nm = "builders.%s%s" % (bn, "/" + cont if cont else "")
            _reg(nm, (lambda f: lambda C: f(C))(f),
                 (lambda cont: lambda rs, k: (_container(_counts(rs, 4 + (k == 2)), cont),))(cont))
        for cont in ("", "int", "csr", "lil_int", "coo"):
            tag = cont or "dense"
            argf = (lambda cont: lambda rs, k: (_container(_counts(rs), cont),))(cont)
            _reg("builders.%s/%s,prior_counts=1" % (bn, tag), (lambda f: lambda C: f(C, prior_counts=1))(f), argf)
            _reg("builders.%s/%s,prior_counts=0.25" % (bn, tag), (lambda f: lambda C: f(C, prior_counts=0.25))(f), argf)
            _reg("builders.%s/%s,calculate_eq_probs=False" % (bn, tag),
                 (lambda f: lambda C: f(C, calculate_eq_probs=False))(f), argf)
        _reg("builders.%s/dense,prior_counts=matrix" % bn, (lambda f: lambda C, P: f(C, prior_counts=P))(f),
             lambda rs, k: (_counts(rs), rs.rand(4, 4)))
        # EXCLUDED for mle (genuine defect, reported): builders.mle(csr_matrix, prior_counts=<ndarray>) raises ValueError
        # ('setting an array element with a sequence'): sparse + dense gives an np.matrix, which is neither sparse
        # nor accepted by _prinz_mle_py.  normalize and transpose accept it.
        if True:      # (mle raised ValueError here on the pinned tree; repaired, see known_findings.json)
            _reg("builders.%s/csr,prior_counts=matrix,calculate_eq_probs=False" % bn,
                 (lambda f: lambda C, P: f(C, prior_counts=P, calculate_eq_probs=False))(f),
                 lambda rs, k: (sp.csr_matrix(_counts(rs)), np.ones((4, 4)) / 4))
    # scipy sparse ARRAYS (csr_array / coo_array): mle and trim_disconnected accept them.
    # EXCLUDED (genuine defect, reported): builders.normalize / builders.transpose raise AxisError for every scipy
    # sparse array (_row_normalize tests isspmatrix, which is False for sparse arrays, and falls into the dense branch).
    for cont in ("csra", "cooa"):
        _reg("builders.mle/%s" % cont, lambda C: builders.mle(C), (lambda cont: lambda rs, k: (_container(_counts(rs), cont),))(cont))
    # a state without counts: normalize leaves a zero row (documented: no ergodicity guarantee)
    for cont in ("", "csr", "lil"):
        _reg("builders.normalize/zero_row%s,calculate_eq_probs=False" % ("_" + cont if cont else ""),
             lambda C: builders.normalize(C, calculate_eq_probs=False),
             (lambda cont: lambda rs, k: (_container((lambda C: (C.__setitem__((2, slice(None)), 0), C)[1])(_counts(rs, 5)), cont),))(cont))
    # failing calls of the prior-call alphabet (their "result" is the exception type)
    def never_left(rs, k):
        C = _counts(rs, 4) + 1.0
        C[k % 4, :] = 0               # a state that is never left: mle asserts
        return (C,)
    _reg("fails/builders.mle", lambda C: builders.mle(C), never_left)
    _reg("fails/entropy.kl_divergence", lambda p, q: entropy.kl_divergence(p, q),
         lambda rs, k: (np.ones(4) / 4, np.ones(5 + k) / (5 + k)))
    _reg("fails/tpt.committors", lambda T: tpt.committors(T, [0], [9]), lambda rs, k: (_tprob(rs),))
    _reg("builders._row_normalize", lambda C: builders._row_normalize(C), lambda rs, k: (_counts(rs, 4).astype(int),))
    _reg("builders._row_normalize/csc", lambda C: builders._row_normalize(C), lambda rs, k: (sp.csc_matrix(_counts(rs, 4)),))
    _reg("builders._prinz_mle_py", lambda C: builders._prinz_mle_py(C), lambda rs, k: (_counts(rs, 4),))
    _reg("builders._prinz_mle_py/tol", lambda C: builders._prinz_mle_py(C, tol=1e-4, max_iter=50),
         lambda rs, k: (_counts(rs, 5),))


# ================================================================== msm.transition_matrices / MSM / timescales / synthetic_data / bace
@_family
def _fam_msm():
    from enspara.msm import builders, MSM, synthetic_data, timescales, bace
    from enspara.msm import transition_matrices as tm

    # ---- assigns_to_counts
    _reg("msm.assigns_to_counts", lambda a, lag: tm.assigns_to_counts(a, lag), lambda rs, k: (_assigns(rs), 1 + k % 2))
    _reg("msm.assigns_to_counts/sliding_window=False", lambda a, lag: tm.assigns_to_counts(a, lag, sliding_window=False),
         lambda rs, k: (_assigns(rs), 1 + (k + 1) % 3))
    _reg("msm.assigns_to_counts/max_n_states", lambda a, lag: tm.assigns_to_counts(a, lag, max_n_states=6),
         lambda rs, k: (_assigns(rs), 1 + k % 2))
    _reg("msm.assigns_to_counts/padded", lambda a, lag: tm.assigns_to_counts(a, lag), lambda rs, k: (_padded(rs), 1 + k % 3))
    _reg("msm.assigns_to_counts/padded,sliding_window=False,max_n_states",
         lambda a, lag: tm.assigns_to_counts(a, lag, max_n_states=5, sliding_window=False),
         lambda rs, k: (_padded(rs), 2 + k % 2))
    _reg("msm.assigns_to_counts/padded_int32_F", lambda a, lag: tm.assigns_to_counts(a, lag),
         lambda rs, k: (np.asfortranarray(_padded(rs).astype(np.int32)), 1 + k % 2))
    _reg("msm.assigns_to_counts/one_row", lambda a, lag: tm.assigns_to_counts(a, lag),
         lambda rs, k: (rs.randint(0, 4, size=15).reshape(1, -1), 1 + k))
    _reg("msm.assigns_to_counts/numpy_int_lag", lambda a, lag: tm.assigns_to_counts(a, lag),
         lambda rs, k: (_padded(rs), np.int64(1 + k % 2)))

    # ---- trim_disconnected: every form really has states outside the main component
    def trim(**kw):
        return lambda C: tm.trim_disconnected(C, **kw)

    for cont in ("int", "float", "int32", "f32", "F", "Fint", "strided", "csr", "csr_int", "csc_int", "coo", "coo_int",
                 "lil", "lil_int", "dok_int"):
        argf = (lambda cont: lambda rs, k: (_container(_trim_counts(rs, k), cont),))(cont)
        _reg("msm.trim_disconnected/%s" % cont, trim(), argf)
        _reg("msm.trim_disconnected/%s,renumber_states=False" % cont, trim(renumber_states=False), argf)
        _reg("msm.trim_disconnected/%s,threshold=2" % cont, trim(threshold=2), argf)
        if cont in ("int", "float", "F", "csr_int", "lil", "coo_int"):
            _reg("msm.trim_disconnected/%s,threshold=2,renumber_states=False" % cont,
                 trim(threshold=2, renumber_states=False), argf)
            _reg("msm.trim_disconnected/%s,threshold=3" % cont, trim(threshold=3), argf)

    for cont in ("csra", "cooa_int"):
        argf = (lambda cont: lambda rs, k: (_container(_trim_counts(rs, k), cont),))(cont)
        _reg("msm.trim_disconnected/%s" % cont, trim(), argf)
        _reg("msm.trim_disconnected/%s,renumber_states=False,threshold=2" % cont, trim(renumber_states=False, threshold=2), argf)

    def old_trim_arg(rs, k):                            # the form of the original alphabet
        C = _counts(rs, 5, 0.6)
        C[4, :] = 0
        C[4, 4] = 3
        return (C,)
    _reg("msm.trim_disconnected", trim(), old_trim_arg)
    _reg("msm.trim_disconnected/connected,renumber_states=False", trim(renumber_states=False),
         lambda rs, k: (_counts(rs, 5),))
    _reg("msm.trim_disconnected/from_assigns_to_counts", lambda a: tm.trim_disconnected(tm.assigns_to_counts(a, 1, max_n_states=6)),
         lambda rs, k: (_padded(rs),))

    # ---- eigenspectrum / eq_probs
    _reg("msm.eigenspectrum", lambda T: tm.eigenspectrum(T), lambda rs, k: (_tprob(rs),))
    _reg("msm.eigenspectrum/n_eigs", lambda T, n: tm.eigenspectrum(T, n_eigs=n), lambda rs, k: (_tprob(rs), 2 + k))
    _reg("msm.eigenspectrum/left=False", lambda T: tm.eigenspectrum(T, left=False), lambda rs, k: (_tprob(rs),))
    _reg("msm.eigenspectrum/left=False,n_eigs", lambda T, n: tm.eigenspectrum(T, n_eigs=n, left=False),
         lambda rs, k: (_tprob(rs, 6), 2 + k))
    for cont in ("csr", "csc", "coo", "lil", "F"):
        _reg("msm.eigenspectrum/%s" % cont, lambda T: tm.eigenspectrum(T),
             (lambda cont: lambda rs, k: (_container(_tprob(rs), cont),))(cont))
    _reg("msm.eigenspectrum/csr,n_eigs,left=False", lambda T, n: tm.eigenspectrum(T, n_eigs=n, left=False),
         lambda rs, k: (sp.csr_matrix(_tprob(rs, 6)), 3 + k))
    _reg("msm.eigenspectrum/reversible", lambda T: tm.eigenspectrum(T, n_eigs=3), lambda rs, k: (_rev_tprob(rs)[0],))
    _reg("msm.eq_probs", lambda T: tm.eq_probs(T), lambda rs, k: (_tprob(rs),))
    for cont in ("csr", "csc", "lil", "coo", "F"):
        _reg("msm.eq_probs/%s" % cont, lambda T: tm.eq_probs(T),
             (lambda cont: lambda rs, k: (_container(_tprob(rs), cont),))(cont))

    # ---- synthetic data
    # SKIPPED: synthetic_data.synthetic_trajectory draws from np.random.default_rng() with no seed argument:
    # randomised by design, its result is not a function of its arguments.
    def ens(rs, k, cont=""):
        T = _tprob(rs)
        p0 = np.zeros(len(T))
        p0[k % len(T)] = 1.0
        return (_container(T, cont), p0, 5)
    _reg("msm.synthetic_ensemble", lambda T, p0, n: synthetic_data.synthetic_ensemble(T, p0, n), ens)
    _reg("msm.synthetic_ensemble/csr", lambda T, p0, n: synthetic_data.synthetic_ensemble(T, p0, n),
         lambda rs, k: ens(rs, k, "csr"))
    _reg("msm.synthetic_ensemble/lil", lambda T, p0, n: synthetic_data.synthetic_ensemble(T, p0, n),
         lambda rs, k: ens(rs, k, "lil"))
    _reg("msm.synthetic_ensemble/observable", lambda T, p0, n, o: synthetic_data.synthetic_ensemble(T, p0, n, o),
         lambda rs, k: ens(rs, k, "csc" if k == 1 else "") + (rs.rand(5),))
    _reg("msm.synthetic_ensemble/mixed_p0_F", lambda T, p0, n: synthetic_data.synthetic_ensemble(T, p0, n),
         lambda rs, k: (np.asfortranarray(_tprob(rs)), (lambda p: p / p.sum())(rs.rand(5)), 2 + k))

    # ---- implied timescales
    def its_args(rs, k):
        return (_padded(rs, 4, 4, 14), [1, 2, 3][:2 + k % 2])
    for mname in ("normalize", "transpose", "mle"):
        m = getattr(builders, mname)
        _reg("msm.implied_timescales/%s" % mname, (lambda m: lambda a, lags: timescales.implied_timescales(a, lags, m))(m), its_args)
    _reg("msm.implied_timescales/n_times", lambda a, lags: timescales.implied_timescales(a, lags, builders.transpose, n_times=2),
         its_args)
    _reg("msm.implied_timescales/trim,sliding_window=False",
         lambda a, lags: timescales.implied_timescales(a, lags, builders.normalize, n_times=2, sliding_window=False, trim=True),
         its_args)
    _reg("msm.implied_timescales/ragged", lambda a, lags: timescales.implied_timescales(a, lags, builders.transpose, n_times=2),
         lambda rs, k: (_assigns(rs, 4, 4), [1, 2]))
    _reg("msm.calc_imp_times", lambda a: timescales.calc_imp_times(a, 2, 4, 2, builders.transpose, True, False),
         lambda rs, k: (_padded(rs, 4, 4, 14),))
    _reg("msm.calc_imp_times/trim,no_sliding", lambda a: timescales.calc_imp_times(a, 1, 5, 1, builders.normalize, False, True),
         lambda rs, k: (_padded(rs, 4, 4, 14),))

    # ---- MSM estimator
    def fit(**kw):
        def f(a, method):
            kw.setdefault("lag_time", 1)
            m = MSM(method=method, **kw)
            m.fit(a)
            return (m.tcounts_, m.tprobs_, m.eq_probs_, m.mapping_, m.n_states_)
        return f

    def fit_args(rs, k):
        return (_assigns(rs, 4, 3), ["normalize", "transpose", "mle"][k % 3])

    def fit_args_p(rs, k):
        return (_padded(rs, 4, 4), ["transpose", "mle", "normalize"][k % 3])
    _reg("msm.MSM.fit", fit(trim=True), fit_args)
    _reg("msm.MSM.fit/trim=False", fit(trim=False), fit_args)
    _reg("msm.MSM.fit/sliding_window=False", fit(trim=False, sliding_window=False, lag_time=2), fit_args)
    _reg("msm.MSM.fit/max_n_states", fit(trim=False, max_n_states=5),        # states without counts: not for mle
         lambda rs, k: (_assigns(rs, 4, 3), ["normalize", "transpose"][k % 2]))
    _reg("msm.MSM.fit/max_n_states,trim", fit(trim=True, max_n_states=6), fit_args_p)
    _reg("msm.MSM.fit/lag_time=3,trim", fit(trim=True, lag_time=3), fit_args_p)
    _reg("msm.MSM.fit/padded", fit(trim=False), fit_args_p)
    _reg("msm.MSM.fit/callable_method", lambda a: fit(trim=True)(a, builders.transpose), lambda rs, k: (_padded(rs, 4, 4),))
    _reg("msm.MSM.from_assignments",
         lambda a: (lambda m: (m.tcounts_, m.tprobs_, m.eq_probs_, m.mapping_))(
             MSM.from_assignments(a, lag_time=1, method=builders.normalize)),
         lambda rs, k: (_padded(rs, 3, 4),))

    # ---- bace helpers
    def absorb_args(cont):
        def f(rs, k):
            C = _counts(rs, 5, 0.5)
            return (_container(C, cont), [1] if k == 0 else [0, 3] if k == 1 else np.array([2]))
        return f
    _reg("bace.absorb", lambda C, s: bace.absorb(C, s), absorb_args(""))
    _reg("bace.absorb/int", lambda C, s: bace.absorb(C, s), absorb_args("int"))
    _reg("bace.absorb/csr", lambda C, s: bace.absorb(C, s), absorb_args("csr"))
    _reg("bace.absorb/csc_int", lambda C, s: bace.absorb(C, s), absorb_args("csc_int"))
    # bace.absorb(lil_matrix, states) worked on the caller's matrix on the pinned tree (`c.tolil()` returns self for
    # a lil_matrix); baysean_prune(lil_matrix) inherited this.
    # (repaired in /repo, see known_findings.json; the variants are part of the alphabet again)
    _reg("bace.absorb/lil", lambda C, s: bace.absorb(C, s), absorb_args("lil"))

    def prune_counts(rs, k):
        C = _counts(rs, 5, 0.5) * 30
        C[4, :] = [0, 0, 0, 1, 1]
        C[:, 4] = [0, 0, 0, 1, 1]                         # a state with insufficient statistics
        return C
    _reg("bace.baysean_prune", lambda C: bace.baysean_prune(C), lambda rs, k: (prune_counts(rs, k),))
    _reg("bace.baysean_prune/factor", lambda C: bace.baysean_prune(C, factor=np.log(2)), lambda rs, k: (prune_counts(rs, k),))
    _reg("bace.baysean_prune/csr", lambda C: bace.baysean_prune(C), lambda rs, k: (sp.csr_matrix(prune_counts(rs, k)),))
    _reg("bace.baysean_prune/lil", lambda C: bace.baysean_prune(C), lambda rs, k: (sp.lil_matrix(prune_counts(rs, k)),))
    _reg("bace.bace", lambda C: bace.bace(C, 2, n_procs=1), lambda rs, k: (prune_counts(rs, k),))
    # EXCLUDED (genuine defect with the installed scipy 1.18, reported): bace.bace(<any scipy sparse matrix>, n) raises
    # ValueError('shape mismatch in assignment') in mergeTwoClosestStates (c[statesKeep, minX] += ... on a lil_matrix),
    # although bace has explicit sparse branches.
    # _reg("bace.bace/csr", lambda C: bace.bace(C, 3, n_procs=1), lambda rs, k: (sp.csr_matrix(prune_counts(rs, k)),))
    # SKIPPED: msm.bootstrap.* resamples with the global numpy RNG inside worker processes (no seed argument).


# ================================================================== tpt
@_family
def _fam_tpt():
    from enspara import tpt

    def ss(k, n):
        """sources / sinks: single, several, as arrays"""
        if k == 0:
            return [0], [n - 1]
        if k == 1:
            return [0, 1], [n - 1, n - 2]
        return np.array([1]), np.array([n - 1, 0])

    for cont in ("", "csr", "lil", "csc", "coo", "F"):
        tag = "/" + cont if cont else ""
        _reg("tpt.committors" + tag, lambda T, s, t: tpt.committors(T, s, t),
             (lambda cont: lambda rs, k: (_container(_tprob(rs), cont),) + ss(k, 5))(cont))
    _reg("tpt.committors/scalar_states", lambda T, s, t: tpt.committors(T, s, t), lambda rs, k: (_tprob(rs, 6), k, 5))
    _reg("tpt.committors/tuple_states", lambda T, s, t: tpt.committors(T, s, t), lambda rs, k: (_tprob(rs, 6), (0, 2), (5, 3)))

    def mf(rs, k, cont=""):
        T, pi = _rev_tprob(rs)
        return _container(T, cont), pi
    _reg("tpt.mfpts", lambda T, sinks: tpt.mfpts(T, sinks=sinks), lambda rs, k: (_tprob(rs), None if k == 0 else [1]))
    _reg("tpt.mfpts/several_sinks", lambda T, sinks: tpt.mfpts(T, sinks=sinks),
         lambda rs, k: (_tprob(rs), ([1, 3], np.array([0, 4]), (2, 3, 4))[k]))
    _reg("tpt.mfpts/lagtime", lambda T, sinks: tpt.mfpts(T, sinks=sinks, lagtime=2.5),
         lambda rs, k: (_tprob(rs), None if k == 1 else [1, 2]))
    _reg("tpt.mfpts/populations", lambda T, pi: tpt.mfpts(T, populations=pi), lambda rs, k: mf(rs, k))
    _reg("tpt.mfpts/populations,lagtime,sinks", lambda T, pi: tpt.mfpts(T, sinks=[0, 2], populations=pi, lagtime=10),
         lambda rs, k: mf(rs, k))
    for cont in ("csr", "csc", "lil", "coo"):
        _reg("tpt.mfpts/%s" % cont, lambda T, sinks: tpt.mfpts(T, sinks=sinks),
             (lambda cont: lambda rs, k: (_container(_tprob(rs), cont), None if k == 0 else [1, 2][:k]))(cont))
    _reg("tpt.mfpts/csr,populations,lagtime", lambda T, pi: tpt.mfpts(T, populations=pi, lagtime=0.5),
         lambda rs, k: mf(rs, k, "csr"))

    def flux_args(cont):
        def f(rs, k):
            T, pi = _rev_tprob(rs)
            s, t = ss(k, len(T))
            return (_container(T, cont), s, t, pi if k % 2 else None)
        return f

    def flux_args_pop(cont):
        def f(rs, k):
            T, pi = _rev_tprob(rs)
            s, t = ss(k, len(T))
            return (_container(T, cont), s, t, pi)
        return f
    for fn in ("reactive_fluxes", "net_fluxes", "reactive_populations"):
        f = getattr(tpt, fn)
        call = (lambda f: lambda T, s, t, p: f(T, s, t, populations=p))(f)
        _reg("tpt.%s" % fn, call, flux_args(""))
        for cont in ("csr", "csc", "lil", "coo", "F"):
            _reg("tpt.%s/%s" % (fn, cont), call, flux_args(cont))
        _reg("tpt.%s/populations" % fn, call, flux_args_pop(""))
        _reg("tpt.%s/csr,populations" % fn, call, flux_args_pop("csr"))

    # the matrix alone varies between the argument sets (fixed states, populations computed by the routine): the form
    # in which the worker's same-object rule applies (call, overwrite the matrix in place, call again)
    for fn in ("reactive_fluxes", "net_fluxes", "reactive_populations"):
        f = getattr(tpt, fn)
        _reg("tpt.%s/matrix_only" % fn, (lambda f: lambda T: f(T, [0], [4]))(f), lambda rs, k: (_rev_tprob(rs)[0],))
    _reg("tpt.committors/matrix_only", lambda T: tpt.committors(T, [0, 1], [4]), lambda rs, k: (_tprob(rs),))
    _reg("tpt.mfpts/matrix_only", lambda T: tpt.mfpts(T), lambda rs, k: (_tprob(rs),))
    _reg("tpt.mfpts/matrix_only,sinks", lambda T: tpt.mfpts(T, sinks=[2]), lambda rs, k: (_tprob(rs),))

    def nf(rs, k, multi=False, n=5):
        T, pi = _rev_tprob(rs, n)
        s, t = ss(1 if multi else 0, n)
        return (s, t, np.asarray(tpt.net_fluxes(T, s, t, pi)))
    _reg("tpt.paths", lambda s, t, f: tpt.paths(s, t, f, num_paths=3), lambda rs, k: nf(rs, k))
    _reg("tpt.paths/all", lambda s, t, f: tpt.paths(s, t, f), lambda rs, k: nf(rs, k, n=5 + k % 2))
    _reg("tpt.paths/num_paths=1", lambda s, t, f: tpt.paths(s, t, f, num_paths=1), lambda rs, k: nf(rs, k))
    _reg("tpt.paths/flux_cutoff=0.5", lambda s, t, f: tpt.paths(s, t, f, flux_cutoff=0.5), lambda rs, k: nf(rs, k, n=6))
    _reg("tpt.paths/flux_cutoff=0.9,num_paths=4", lambda s, t, f: tpt.paths(s, t, f, flux_cutoff=0.9, num_paths=4),
         lambda rs, k: nf(rs, k, n=6))
    _reg("tpt.paths/bottleneck", lambda s, t, f: tpt.paths(s, t, f, remove_path="bottleneck", num_paths=4),
         lambda rs, k: nf(rs, k, n=5 + k % 2))
    _reg("tpt.paths/bottleneck,flux_cutoff=0.7", lambda s, t, f: tpt.paths(s, t, f, remove_path="bottleneck", flux_cutoff=0.7),
         lambda rs, k: nf(rs, k))
    _reg("tpt.paths/bottleneck,multi", lambda s, t, f: tpt.paths(s, t, f, remove_path="bottleneck", num_paths=3),
         lambda rs, k: nf(rs, k, True, 6))
    _reg("tpt.paths/subtract,multi", lambda s, t, f: tpt.paths(s, t, f, remove_path="subtract", num_paths=5),
         lambda rs, k: nf(rs, k, True, 6))
    _reg("tpt.paths/F", lambda s, t, f: tpt.paths(s, t, f, num_paths=3),
         lambda rs, k: (lambda s, t, f: (s, t, np.asfortranarray(f)))(*nf(rs, k)))
    _reg("tpt.paths/callable", lambda s, t, f: tpt.paths(s, t, f, remove_path=tpt.path._remove_bottleneck, num_paths=2),
         lambda rs, k: nf(rs, k))
    _reg("tpt.top_path", lambda s, t, f: tpt.top_path(s, t, f), lambda rs, k: nf(rs, k))
    _reg("tpt.top_path/multi", lambda s, t, f: tpt.top_path(s, t, f), lambda rs, k: nf(rs, k, True, 6))
    _reg("tpt.top_path/array_states", lambda s, t, f: tpt.top_path(s, t, f),
         lambda rs, k: (lambda s, t, f: (np.array(s), np.array(t), f))(*nf(rs, k)))


# ================================================================== cluster
@_family
def _fam_cluster():
    from enspara.cluster import kcenters, kmedoids, hybrid, util as cutil, save_states
    from enspara.cluster import KCenters, KMedoids, KHybrid
    from enspara.geometry import libdist

    def proj(r):
        return (r.center_indices, r.distances, r.assignments, r.centers)

    # ---- util
    _reg("cluster.assign_to_nearest_center", lambda X, c, m: cutil.assign_to_nearest_center(X, c, cutil._get_distance_method(m)),
         lambda rs, k: (lambda X: (X, X[[0, 3, 5]], "euclidean"))(_points(rs)))
    _reg("cluster.assign_to_nearest_center/manhattan_list", lambda X, c: cutil.assign_to_nearest_center(X, c, libdist.manhattan),
         lambda rs, k: (lambda X: (X, [X[1], X[4] + 0.5]))(_points(rs)))
    _reg("cluster.assign_to_nearest_center/more_centers_than_frames",
         lambda X, c: cutil.assign_to_nearest_center(X, c, libdist.euclidean),
         lambda rs, k: (lambda X: (X[:3 + k], X[2:]))(_points(rs, 12)))
    _reg("cluster.assign_to_nearest_center/int32", lambda X, c: cutil.assign_to_nearest_center(X, c, libdist.euclidean),
         lambda rs, k: (lambda X: (X, X[[0, 3, 5]]))(_points(rs).astype(np.int32)))
    _reg("cluster.assign_to_nearest_center/callable", lambda X, c: cutil.assign_to_nearest_center(
        X, c, lambda A, b: np.abs(A - b).max(axis=1)), lambda rs, k: (lambda X: (X, X[[2, 7]]))(_points(rs)))
    # md.Trajectory forms (synthetic, no files): frames vs. centers under md.rmsd; with more centers than frames the
    # per-frame branch of assign_to_nearest_center is taken
    # NOT IN THE ALPHABET (reported): with the plain md.rmsd metric (metric='rmsd') mdtraj centres the TARGET
    # trajectory in place (md.rmsd(t, ref) shifts t.xyz), so assign_to_nearest_center / kcenters / ... modify the
    # caller's trajectory.  The precentered form below is the one enspara's batch_reassign uses; it leaves xyz alone.
    import mdtraj as md
    from functools import partial
    rmsd_pc = partial(md.rmsd, precentered=True)

    def centred(t):
        t.center_coordinates()
        return t
    _reg("cluster.assign_to_nearest_center/mdtraj_rmsd", lambda X, c: cutil.assign_to_nearest_center(X, c, rmsd_pc),
         lambda rs, k: (lambda t: (t, t[[0, 3]]))(centred(_mdtraj(rs, 6 + k))))
    _reg("cluster.assign_to_nearest_center/mdtraj_more_centers_than_frames",
         lambda X, c: cutil.assign_to_nearest_center(X, c, rmsd_pc),
         lambda rs, k: (lambda t: (t[:2 + k], t[1:]))(centred(_mdtraj(rs, 7))))

    def fcc(rs, k, labels=(0, 1, 2), n=12):
        a = np.array(labels)[rs.randint(0, len(labels), size=n)]
        a[:len(labels)] = labels
        d = rs.randint(0, 4, size=n).astype(float) if k == 2 else rs.rand(n)     # k=2: ties in the distances
        return a, d
    _reg("cluster.find_cluster_centers", lambda a, d: cutil.find_cluster_centers(a, d), lambda rs, k: fcc(rs, k))
    _reg("cluster.find_cluster_centers/missing_labels", lambda a, d: cutil.find_cluster_centers(a, d),
         lambda rs, k: fcc(rs, k, (0, 2, 5, 9)))
    _reg("cluster.find_cluster_centers/int32_negative_label", lambda a, d: cutil.find_cluster_centers(a, d),
         lambda rs, k: (lambda a, d: (a.astype(np.int32), d.astype(np.float32)))(*fcc(rs, k, (-1, 0, 3))))
    _reg("cluster.find_cluster_centers/lists", lambda a, d: cutil.find_cluster_centers(np.asarray(a), np.asarray(d)),
         lambda rs, k: tuple(x.tolist() for x in fcc(rs, k)))
    _reg("cluster.compute_batches", lambda l, b: cutil.compute_batches(l, b),
         lambda rs, k: ([int(x) for x in rs.randint(1, 6, size=7)], 6 + k))
    _reg("cluster.compute_batches/ndarray", lambda l, b: cutil.compute_batches(l, b),
         lambda rs, k: (rs.randint(1, 6, size=7), 5 + 2 * k))
    # SKIPPED: cluster.util.batch_reassign / reassign / load_* read trajectory files (load_as_concatenated).
    _reg("cluster.ClusterResult.partition/square",
         lambda ci, d, a, l: proj(cutil.ClusterResult(center_indices=ci, distances=d, assignments=a, centers=None).partition(l)),
         lambda rs, k: ([1, 7, 10], rs.rand(12), rs.randint(0, 3, size=12), [4, 4, 4]))
    _reg("cluster.ClusterResult.partition/ragged",
         lambda ci, d, a, l: proj(cutil.ClusterResult(center_indices=ci, distances=d, assignments=a, centers=None).partition(l)),
         lambda rs, k: (np.array([1, 7, 10]), rs.rand(12), rs.randint(0, 3, size=12), [5, 3, 4] if k else np.array([2, 6, 4])))
    _reg("cluster.unique_states", lambda a: save_states.unique_states(a), lambda rs, k: (_padded(rs, 3, 5),))

    # ---- k-centers
    def Xmk(rs, k):
        return (_points(rs, 14), ["euclidean", "manhattan"][k % 2], 3 + k % 2)
    _reg("cluster.kcenters", lambda X, m, k: kcenters.kcenters(X, m, n_clusters=k), Xmk)
    _reg("cluster.kcenters_ti", lambda X, m, k: kcenters.kcenters(X, m, n_clusters=k, use_triangle_inequality=True), Xmk)
    _reg("cluster.kcenters/dist_cutoff", lambda X, m, c: kcenters.kcenters(X, m, dist_cutoff=c),
         lambda rs, k: (_points(rs, 14), ["euclidean", "manhattan"][k % 2], 3.5 + k))
    _reg("cluster.kcenters/dist_cutoff,n_clusters", lambda X, m, c: kcenters.kcenters(X, m, n_clusters=4, dist_cutoff=c),
         lambda rs, k: (_points(rs, 14), "euclidean", 2.0 + 2 * k))
    _reg("cluster.kcenters/dist_cutoff,ti", lambda X, m, c: kcenters.kcenters(X, m, dist_cutoff=c, use_triangle_inequality=True),
         lambda rs, k: (_points(rs, 14), "manhattan", 4.0 + k))
    _reg("cluster.kcenters/init_centers", lambda X, c: kcenters.kcenters(X, "euclidean", n_clusters=4, init_centers=c),
         lambda rs, k: (lambda X: (X, X[[2, 9]]))(_points(rs, 14)))
    _reg("cluster.kcenters/init_centers_not_frames,ti",
         lambda X, c: kcenters.kcenters(X, "euclidean", n_clusters=4, init_centers=c, use_triangle_inequality=True),
         lambda rs, k: (lambda X: (X, X[[2, 9]] + 0.5))(_points(rs, 14)))
    _reg("cluster.kcenters/init_centers_list,dist_cutoff",
         lambda X, c: kcenters.kcenters(X, "manhattan", dist_cutoff=3.0, init_centers=c),
         lambda rs, k: (lambda X: (X, [X[1], X[5], X[6]]))(_points(rs, 14)))
    _reg("cluster.kcenters/init_centers_enough", lambda X, c: kcenters.kcenters(X, "euclidean", n_clusters=2, init_centers=c),
         lambda rs, k: (lambda X: (X, X[[0, 4]]))(_points(rs, 10)))
    _reg("cluster.kcenters/int64", lambda X, m, k: kcenters.kcenters(X, m, n_clusters=k),
         lambda rs, k: (lambda X, m, n: (X.astype(np.int64), m, n))(*Xmk(rs, k)))
    _reg("cluster.kcenters/f32_F", lambda X, m, k: kcenters.kcenters(X, m, n_clusters=k),
         lambda rs, k: (lambda X, m, n: (np.asfortranarray(X.astype(np.float32)), m, n))(*Xmk(rs, k)))
    _reg("cluster.kcenters/callable_metric", lambda X: kcenters.kcenters(X, lambda A, b: np.abs(A - b).max(axis=1), n_clusters=3),
         lambda rs, k: (_points(rs, 12, 3),))
    _reg("cluster.kcenters/mdtraj_rmsd", lambda t: (lambda r: (r.center_indices, r.distances, r.assignments, r.centers))(
        kcenters.kcenters(t, rmsd_pc, n_clusters=3)), lambda rs, k: (centred(_mdtraj(rs, 8)),))
    _reg("cluster.kcenters/mdtraj_rmsd,ti,init_centers",
         lambda t, c: (lambda r: (r.center_indices, r.distances, r.assignments))(
             kcenters.kcenters(t, rmsd_pc, n_clusters=4, init_centers=c, use_triangle_inequality=True)),
         lambda rs, k: (lambda t: (t, t[[1, 5]]))(centred(_mdtraj(rs, 9))))
    _reg("cluster.kcenters_mpi", lambda X, m, k: kcenters.kcenters_mpi(X, m, n_clusters=k), Xmk)

    # ---- k-medoids
    _reg("cluster.kmedoids", lambda X, m, k: kmedoids.kmedoids(X, m, n_clusters=k, n_iters=2, random_state=5), Xmk)
    _reg("cluster.kmedoids/proposals",
         lambda X, ci, pr: kmedoids.kmedoids(X, "euclidean", cluster_center_inds=list(ci), proposals=pr, n_iters=1),
         lambda rs, k: (_points(rs, 14), (1, 6, 11), [2 + k, 7, 12]))
    _reg("cluster.kmedoids/cluster_center_inds",
         lambda X, ci: kmedoids.kmedoids(X, "manhattan", cluster_center_inds=list(ci), n_iters=2, random_state=3 + 0),
         lambda rs, k: (_points(rs, 14), (0, 5, 9, 13)[:3 + k % 2]))
    # the caller's own list / array of center indices (was overwritten with the accepted medoids until /repo 5aa1df4)
    _reg("cluster.kmedoids/cluster_center_inds_array",
         lambda X, ci: kmedoids.kmedoids(X, "euclidean", cluster_center_inds=ci, n_iters=2, random_state=8),
         lambda rs, k: (_points(rs, 14), np.array([0, 5, 9])))
    _reg("cluster.kmedoids/cluster_center_inds_list",
         lambda X, ci: kmedoids.kmedoids(X, "euclidean", cluster_center_inds=ci, n_iters=2, random_state=8),
         lambda rs, k: (_points(rs, 14), [0, 5, 9]))
    _reg("cluster.kmedoids/traj_frame_inds",
         lambda X, ci, L: kmedoids.kmedoids(X, "euclidean", cluster_center_inds=ci, X_lengths=L, n_iters=1, random_state=2),
         lambda rs, k: (_points(rs, 14), ((0, 1), (1, 2), (2, 3)), [5, 5, 4]))

    def warm(rs, k):
        X = _points(rs, 14)
        a, d = cutil.assign_to_nearest_center(X, X[[1, 6, 11]], libdist.euclidean)
        return X, a, d
    _reg("cluster.kmedoids/assignments_distances",
         lambda X, a, d: kmedoids.kmedoids(X, "euclidean", assignments=a, distances=d, n_iters=2, random_state=4), warm)
    _reg("cluster.kmedoids/assignments_distances_proposals",
         lambda X, a, d: kmedoids.kmedoids(X, "euclidean", assignments=a, distances=d, n_iters=1, proposals=[0, 7, 13]), warm)
    _reg("cluster.kmedoids/int32", lambda X, m, k: kmedoids.kmedoids(X, m, n_clusters=k, n_iters=2, random_state=5),
         lambda rs, k: (lambda X, m, n: (X.astype(np.int32), m, n))(*Xmk(rs, k)))
    _reg("cluster.kmedoids/n_iters=0_like", lambda X, m, k: kmedoids.kmedoids(X, m, n_clusters=k, n_iters=1, random_state=0), Xmk)
    _reg("cluster._kmedoids_pam_update",
         lambda X, mi, a, d: kmedoids._kmedoids_pam_update(X, libdist.euclidean, list(mi), a, d, proposals=[0, 7, 13]),
         lambda rs, k: (lambda X, a, d: (X, (1, 6, 11), a, d))(*warm(rs, k)))

    # ---- hybrid
    _reg("cluster.hybrid", lambda X, m, k: hybrid.hybrid(X, m, n_clusters=k, n_iters=2, random_state=5), Xmk)
    _reg("cluster.hybrid/dist_cutoff", lambda X, m, c: hybrid.hybrid(X, m, dist_cutoff=c, n_iters=2, random_state=7),
         lambda rs, k: (_points(rs, 14), ["euclidean", "manhattan"][k % 2], 3.5 + k))
    _reg("cluster.hybrid/dist_cutoff,n_clusters",
         lambda X, m, c: hybrid.hybrid(X, m, n_clusters=4, dist_cutoff=c, n_iters=1, random_state=1),
         lambda rs, k: (_points(rs, 14), "euclidean", 2.0 + 2 * k))
    _reg("cluster.hybrid/init_centers", lambda X, c: hybrid.hybrid(X, "euclidean", n_clusters=4, init_centers=c, n_iters=2, random_state=3),
         lambda rs, k: (lambda X: (X, X[[2, 9]]))(_points(rs, 14)))
    _reg("cluster.hybrid/n_iters=0", lambda X, m, k: hybrid.hybrid(X, m, n_clusters=k, n_iters=0), Xmk)
    _reg("cluster.hybrid/randomstate_object",
         lambda X, m, k: hybrid.hybrid(X, m, n_clusters=k, n_iters=2, random_state=np.random.RandomState(11)), Xmk)

    # ---- estimator classes: fit + predict
    def fitpred(est, X, Y, **fitkw):
        est.fit(X, **fitkw)
        p = est.predict(Y)
        return (proj(est.result_), est.labels_, est.distances_, est.center_indices_, est.centers_, proj(p))

    def XY(rs, k):
        X = _points(rs, 16)
        return X[:12], X[10:]
    _reg("cluster.KCenters.fit_predict", lambda X, Y, k: fitpred(KCenters("euclidean", n_clusters=k), X, Y),
         lambda rs, k: XY(rs, k) + (3 + k % 2,))
    _reg("cluster.KCenters.fit_predict/cluster_radius", lambda X, Y, r: fitpred(KCenters("manhattan", cluster_radius=r), X, Y),
         lambda rs, k: XY(rs, k) + (4.0 + k,))
    _reg("cluster.KCenters.fit_predict/init_centers",
         lambda X, Y, c: fitpred(KCenters("euclidean", n_clusters=4, cluster_radius=1.0), X, Y, init_centers=c),
         lambda rs, k: (lambda X, Y: (X, Y, X[[1, 5]]))(*XY(rs, k)))
    # KMedoids has no random_state parameter: from n_clusters alone its start is drawn from an unseeded default_rng
    # (SKIPPED: randomised without a seed argument).  With cluster_center_inds the start is given and the proposals
    # come from numpy's GLOBAL RandomState, which the call below seeds first.
    def kmed(X, Y, ci, **kw):
        np.random.seed(1234)
        return fitpred(KMedoids("euclidean", n_iters=2), X, Y, cluster_center_inds=list(ci), **kw)
    _reg("cluster.KMedoids.fit_predict/cluster_center_inds", kmed, lambda rs, k: XY(rs, k) + ((0, 4, 9),))

    def kmed_warm(X, Y, a, d):
        np.random.seed(99)
        return fitpred(KMedoids("manhattan", n_iters=1), X, Y, assignments=a, distances=d)
    _reg("cluster.KMedoids.fit_predict/assignments_distances", kmed_warm,
         lambda rs, k: (lambda X, Y: (X, Y) + cutil.assign_to_nearest_center(X, X[[1, 6, 11]], libdist.manhattan))(*XY(rs, k)))
    _reg("cluster.KHybrid.fit_predict", lambda X, Y, k: fitpred(KHybrid("euclidean", n_clusters=k, kmedoids_updates=2, random_state=6), X, Y),
         lambda rs, k: XY(rs, k) + (3 + k % 2,))
    _reg("cluster.KHybrid.fit_predict/cluster_radius",
         lambda X, Y, r: fitpred(KHybrid("manhattan", cluster_radius=r, kmedoids_updates=1, random_state=2), X, Y),
         lambda rs, k: XY(rs, k) + (4.0 + k,))
    _reg("cluster.KHybrid.fit_predict/init_centers",
         lambda X, Y, c: fitpred(KHybrid("euclidean", n_clusters=4, kmedoids_updates=1, random_state=2), X, Y, init_centers=c),
         lambda rs, k: (lambda X, Y: (X, Y, X[[1, 5]]))(*XY(rs, k)))


# ================================================================== geometry.libdist kernels (OpenMP)
@_family
def _fam_libdist():
    from enspara.geometry import libdist

    def Xy(rs, k, dt, n=9):
        X = rs.randint(-3, 4, size=(n, 3))
        return X.astype(dt), X[2].astype(dt)
    for kn in ("euclidean", "manhattan"):
        f = getattr(libdist, kn)
        call = (lambda f: lambda X, y: f(X, y))(f)
        _reg("libdist.%s" % kn, call, lambda rs, k: Xy(rs, k, np.float64))
        _reg("libdist.%s/F" % kn, call, lambda rs, k: (lambda X, y: (np.asfortranarray(X), y))(*Xy(rs, k, np.float64)))
        for dt in ("f32", "int8", "int16", "int32", "int64"):
            dtype = np.dtype({"f32": "float32"}.get(dt, dt))
            _reg("libdist.%s/%s" % (kn, dt), call, (lambda dtype: lambda rs, k: Xy(rs, k, dtype))(dtype))
        _reg("libdist.%s/strided_rows" % kn, call, lambda rs, k: (lambda X, y: (X[::2], y))(*Xy(rs, k, np.float64, 16)))
        _reg("libdist.%s/strided_columns_int32" % kn, call,
             lambda rs, k: (lambda X: (X[:, ::2], X[1, ::2]))(rs.randint(-3, 4, size=(9, 6)).astype(np.int32)))
        _reg("libdist.%s/strided_y_f32" % kn, call,
             lambda rs, k: (lambda X, yy: (X, yy[::2]))(rs.rand(8, 3).astype(np.float32), rs.rand(6).astype(np.float32)))
        _reg("libdist.%s/transposed_int64" % kn, call,
             lambda rs, k: (lambda X: (X.T, X.T[3].copy()))(rs.randint(-5, 6, size=(3, 9))))
        _reg("libdist.%s/long" % kn, call, lambda rs, k: Xy(rs, k, np.float64, 50000 + 3000 * k))
        _reg("libdist.%s/long_single_row_wide" % kn, call,
             lambda rs, k: (lambda X: (X, X[0] * 0.5))(rs.rand(1 + k, 200000)))
        # out= is documented to receive the distances: only `out` (position 2) may change
        callo = (lambda f: lambda X, y, out: (f(X, y, out=out), out))(f)
        _reg("libdist.%s/out" % kn, callo, lambda rs, k: Xy(rs, k, np.float64) + (np.full(9, 7.0),), writes=(2,))
        _reg("libdist.%s/out_uninitialised_int32" % kn, callo, lambda rs, k: Xy(rs, k, np.int32) + (np.empty(9),), writes=(2,))
        # a strided out= view (a column of a frames x centers table that already holds other columns): it receives
        # the distances, the table around it stays as it is, and writing it twice gives the same column twice
        _reg("libdist.%s/out_column_of_table" % kn, callo,
             lambda rs, k: (lambda X, y, D: (X, y, D[:, 1 + k % 2]))(*(Xy(rs, k, np.float64) + (rs.rand(9, 4) + 1.0,))), writes=(2,))
        _reg("libdist.%s/out_column_written_twice" % kn,
             (lambda f: lambda X, y, out: (f(X, y, out=out).copy(), f(X, y, out=out).copy()))(f),
             lambda rs, k: (lambda X, y, D: (X, y, D[::2]))(*(Xy(rs, k, np.float64) + (rs.rand(18) + 1.0,))), writes=(2,))
        _reg("libdist.%s/out_f32_F" % kn, callo,
             lambda rs, k: (lambda X, y: (np.asfortranarray(X), y, np.zeros(9)))(*Xy(rs, k, np.float32)), writes=(2,))

    def Xh(rs, k, dt, n=9):
        X = rs.randint(0, 4, size=(n, 4))
        return X.astype(dt), X[2].astype(dt)
    call = lambda X, y: libdist.hamming(X, y)
    _reg("libdist.hamming", call, lambda rs, k: (lambda X: (X.astype(np.int32), X[2].astype(np.int32)))(rs.randint(-3, 4, size=(9, 3))))
    for dt in ("int8", "int16", "int64", "uint8", "uint16", "uint32", "uint64"):
        _reg("libdist.hamming/%s" % dt, call, (lambda dt: lambda rs, k: Xh(rs, k, dt))(np.dtype(dt)))
    _reg("libdist.hamming/F", call, lambda rs, k: (lambda X, y: (np.asfortranarray(X), y))(*Xh(rs, k, np.int64)))
    _reg("libdist.hamming/strided", call, lambda rs, k: (lambda X, y: (X[::2], y))(*Xh(rs, k, np.uint8, 16)))
    _reg("libdist.hamming/out", lambda X, y, out: (libdist.hamming(X, y, out=out), out),
         lambda rs, k: Xh(rs, k, np.int32) + (np.empty(9),), writes=(2,))


# ================================================================== ra
@_family
def _fam_ra():
    from enspara import ra

    def rows(rs, k, n=4, lo=1, hi=5, dt=int):
        return [rs.randint(0, 9, size=rs.randint(lo, hi)).astype(dt) for _ in range(n)]

    def RA(rs, k, **kw):
        return ra.RaggedArray(rows(rs, k, **kw))

    _reg("ra.read", lambda a: (a[1], a[1:3], a[:, 0], a[0, 0], a.flatten(), a.lengths, a.starts, [r for r in a]),
         lambda rs, k: (RA(rs, k),))
    _reg("ra.read/slices", lambda a: (a[::2], a[::-1], a[-2:], a[1:, 1:], a[:, :2], a[:, ::2], a[:3, -1:], a[1:3, 0], a[0, 1:],
                                       a[[0, 2]], a[np.array([3, 1])], a[[0, 2], :1], a.shape, a.size, len(a), a.dtype.str),
         lambda rs, k: (RA(rs, k, lo=2, hi=6),))
    _reg("ra.read/index_lists", lambda a: (a[[0, 1, 3], [0, 1, 0]], a[(np.array([0, 2]), np.array([1, 0]))], a[2, 0], a[-1, -1],
                                            a[a > 3], a[:, [0]], a[1:, [0, 1]]),
         lambda rs, k: (RA(rs, k, lo=2, hi=5),))
    _reg("ra.read/float_rows", lambda a: (a[1], a[1:], a[:, -1], a.flatten(), a.max(), a.min(), str(a)[:0]),
         lambda rs, k: (ra.RaggedArray([rs.rand(rs.randint(1, 5)) for _ in range(3 + k)]),))
    _reg("ra.read/vector_elements", lambda a: (a[0], a[1:], a[:, 0], a.flatten(), a.lengths, a.shape),
         lambda rs, k: (ra.RaggedArray(rs.rand(9, 2), lengths=[4, 2, 3]),))
    _reg("ra.construct/list_of_lists", lambda l: ra.RaggedArray(l), lambda rs, k: ([r.tolist() for r in rows(rs, k)],))
    _reg("ra.construct/list_of_arrays", lambda l: ra.RaggedArray(l), lambda rs, k: (rows(rs, k),))
    _reg("ra.construct/flat_lengths", lambda d, l: ra.RaggedArray(d, lengths=l),
         lambda rs, k: (rs.randint(0, 9, size=10), [3, 5, 2] if k % 2 else np.array([4, 4, 2])))
    _reg("ra.construct/flat_lengths_equal", lambda d, l: ra.RaggedArray(d, lengths=l), lambda rs, k: (rs.rand(12), [4, 4, 4]))
    _reg("ra.construct/copy=False", lambda d, l: ra.RaggedArray(d, lengths=l, copy=False), lambda rs, k: (rs.rand(9), [4, 2, 3]))
    _reg("ra.construct/1d", lambda d: ra.RaggedArray(d), lambda rs, k: (rs.randint(0, 9, size=6),))
    _reg("ra.where", lambda a: ra.where(a > 3), lambda rs, k: (RA(rs, k),))
    _reg("ra.where/mask", lambda m: ra.where(m), lambda rs, k: (RA(rs, k) > 4,))
    _reg("ra.where/ndarray", lambda m: ra.where(m), lambda rs, k: (rs.rand(3, 4) > 0.5,))
    _reg("ra.where/ndarray_1d_int", lambda m: ra.where(m), lambda rs, k: (rs.randint(0, 2, size=9),))
    _reg("ra.partition_indices/ndarray", lambda i, l: ra.partition_indices(i, l),
         lambda rs, k: (np.sort(rs.randint(0, 12, size=4)), np.array([5, 3, 4])))
    _reg("ra.partition_indices/list", lambda i, l: ra.partition_indices(i, l),
         lambda rs, k: ([int(x) for x in rs.randint(0, 12, size=4)], [5, 3, 4]))
    _reg("ra.partition_indices/int32", lambda i, l: ra.partition_indices(i, l),
         lambda rs, k: (rs.randint(0, 12, size=5).astype(np.int32), np.array([2, 6, 4], dtype=np.int32)))
    _reg("ra.partition_list", lambda x, l: ra.partition_list(x, l), lambda rs, k: (rs.rand(10), [3, 5, 2]))
    _reg("ra.partition_list/list", lambda x, l: ra.partition_list(x, l),
         lambda rs, k: ([int(v) for v in rs.randint(0, 9, size=10)], np.array([4, 4, 2])))
    _reg("ra.zeros_like", lambda a: ra.zeros_like(a), lambda rs, k: (RA(rs, k),))
    _reg("ra.zeros_like/ndarray", lambda a: ra.zeros_like(a), lambda rs, k: (rs.rand(3, 2),))
    _reg("ra.ops", lambda a: (a + 1, a * a, a == a, (a > 2).any(), a.max(), a.min()), lambda rs, k: (RA(rs, k),))
    _reg("ra.ops/scalar", lambda a: (a - 2, 3 - a, 2 * a, a / 2, 7 / (a + 1), a // 2, 9 // (a + 1), a ** 2, 2 ** a, a % 3, 10 % (a + 1),
                                      1 + a, a < 4, a <= 4, a >= 4, a != 4, (a > 1).all()),
         lambda rs, k: (RA(rs, k),))
    _reg("ra.ops/float_scalar", lambda a: (a + 0.5, a * 1.5, a / 3.0, a ** 0.5, -1.0 * a), lambda rs, k: (RA(rs, k),))
    _reg("ra.ops/ragged_operand", lambda a, b: (a + b, a - b, a * b, a / (b + 1), a // (b + 1), a % (b + 1), a ** b, a == b, a < b, a >= b),
         lambda rs, k: (lambda r: (ra.RaggedArray(r), ra.RaggedArray([rs.randint(0, 4, size=len(x)) for x in r])))(rows(rs, k)))
    _reg("ra.ops/bool", lambda a, b: (a | b, a & b, a ^ b, ~a, (a & b).any(), (a | b).all()),
         lambda rs, k: (lambda r: (ra.RaggedArray(r) > 3, ra.RaggedArray(r) % 2 == 0))(rows(rs, k)))
    _reg("ra.ops/flat_operand", lambda a, f: (a + f, a * f), lambda rs, k: (lambda a: (a, rs.rand(a.size)))(RA(rs, k)))
    _reg("ra.flatten", lambda a: a.flatten(), lambda rs, k: (RA(rs, k, dt=np.int16),))
    _reg("ra.map_operator", lambda a, b: a.map_operator("__add__", b), lambda rs, k: (lambda a: (a, a))(RA(rs, k)))
    # writers are documented to work in place: exercised on a private copy made inside the call
    def setitems(a, v):
        b = ra.RaggedArray(a._data.copy(), lengths=a.lengths.copy())
        b[0] = v[:b.lengths[0]]
        b[1, 0] = 100
        b[:, 0] = -1
        b[b > 6] = 0
        b.append([np.array([1, 2, 3])])
        return b
    _reg("ra.setitem_append/on_copy", setitems, lambda rs, k: (RA(rs, k, lo=2, hi=6), np.arange(10) + 20))
    # save / load round trip in a scratch directory
    def roundtrip(a, **kw):
        import tempfile, os, shutil
        d = tempfile.mkdtemp(prefix="ev_c19_ra_")
        try:
            f = os.path.join(d, "a.h5")
            ra.save(f, a)
            return ra.load(f, **kw)
        finally:
            shutil.rmtree(d, ignore_errors=True)
    _reg("ra.save_load", lambda a: roundtrip(a), lambda rs, k: (RA(rs, k, n=3),))
    _reg("ra.save_load/stride", lambda a: roundtrip(a, stride=2), lambda rs, k: (RA(rs, k, n=3, lo=3, hi=8),))
    _reg("ra.save_load/ndarray", lambda a: roundtrip(a), lambda rs, k: (rs.rand(4, 3),))
    _reg("ra.save_load/float32_keys", lambda a: roundtrip(a, keys=["arr_00", "arr_02"]),
         lambda rs, k: (ra.RaggedArray([rs.rand(n).astype(np.float32) for n in (3, 2, 4)]),))


# ================================================================== cards / rotamer / helix / rmsf
@_family
def _fam_cards_geometry():
    from enspara.cards import disorder
    from enspara.cards.cards import cards_matrices
    from enspara.geometry import rotamer, helix
    from enspara import ra

    # ---- disorder
    def rot2d(rs, k, n=3, T=8, dt=int):
        a = rs.randint(0, 3, size=(n, T)).astype(dt)
        if k:
            a[1] = a[1, 0]                               # a row without transitions
        return a
    _reg("disorder.transitions", lambda a: disorder.transitions(a), lambda rs, k: (rot2d(rs, 0),))
    _reg("disorder.transitions/1d", lambda a: disorder.transitions(a), lambda rs, k: (rs.randint(0, 3, size=10 + k),))
    _reg("disorder.transitions/1d_int16_constant", lambda a: disorder.transitions(a),
         lambda rs, k: (np.full(6, k, dtype=np.int16),))
    _reg("disorder.transitions/2d_rows_without_transitions", lambda a: disorder.transitions(a), lambda rs, k: (rot2d(rs, 1 + k),))
    _reg("disorder.transitions/2d_int8_F", lambda a: disorder.transitions(a),
         lambda rs, k: (np.asfortranarray(rot2d(rs, k, dt=np.int8)),))
    _reg("disorder.transitions/2d_uint8", lambda a: disorder.transitions(a), lambda rs, k: (rot2d(rs, k, dt=np.uint8),))
    _reg("disorder.transitions/ragged", lambda a: disorder.transitions(a),
         lambda rs, k: (ra.RaggedArray([rs.randint(0, 3, size=rs.randint(3, 9)) for _ in range(3)]),))
    _reg("disorder.transitions/1d_strided", lambda a: disorder.transitions(a), lambda rs, k: (rs.randint(0, 3, size=20)[::2],))

    def tt(rs, k):
        n = (0, 1, 5)[k]
        return (np.sort(rs.choice(30, size=n, replace=False)),)
    _reg("disorder.traj_ord_disord_times", lambda t: disorder.traj_ord_disord_times(t), tt)
    _reg("disorder.traj_ord_disord_times/many", lambda t: disorder.traj_ord_disord_times(t),
         lambda rs, k: (np.sort(rs.choice(40, size=4 + 3 * k, replace=False)),))
    _reg("disorder.traj_ord_disord_times/int32", lambda t: disorder.traj_ord_disord_times(t),
         lambda rs, k: (np.sort(rs.choice(40, size=2 + k, replace=False)).astype(np.int32),))
    _reg("disorder.create_disorder_traj", lambda t, n, o, d: disorder.create_disorder_traj(t, n, o, d),
         lambda rs, k: (np.sort(rs.choice(30, size=6, replace=False)), 32, 8.0 + k, 1.5))
    _reg("disorder.create_disorder_traj/few", lambda t, n, o, d: disorder.create_disorder_traj(t, n, o, d),
         lambda rs, k: (np.sort(rs.choice(30, size=k, replace=False)), 30, 5.0, 2.0))
    _reg("disorder.aggregate_mean_times", lambda t, n, w: disorder.aggregate_mean_times(t, n, w),
         lambda rs, k: (rs.rand(3, 4) * 5, rs.randint(0, 9, size=(3, 4)).astype(float), np.array([10, 20, 15])))
    _reg("disorder.aggregate_mean_times/float_weights_F", lambda t, n, w: disorder.aggregate_mean_times(t, n, w),
         lambda rs, k: (np.asfortranarray(rs.rand(2, 3)), rs.rand(2, 3), rs.rand(2) + 0.1))

    def rtrajs(rs, k, dt=int):
        return ([rs.randint(0, 3, size=(12 + 2 * i, 3)).astype(dt) for i in range(2 + k % 2)],)
    _reg("disorder.transition_stats", lambda r: disorder.transition_stats(r), rtrajs)
    _reg("disorder.assign_order_disorder", lambda r: disorder.assign_order_disorder(r), rtrajs)
    _reg("disorder.assign_order_disorder/int16", lambda r: disorder.assign_order_disorder(r), lambda rs, k: rtrajs(rs, k, np.int16))
    _reg("cards.cards_matrices", lambda r, n: cards_matrices(r, n), lambda rs, k: rtrajs(rs, k) + (np.array([3, 3, 3]),))
    # SKIPPED: cards.cards / featurizers need md trajectories with dihedrals (real topologies, files).

    # ---- rotamer
    bsets = {"2": [0, 180, 360], "2b": [0, 160, 360], "3": [0, 120, 240, 360]}
    for tag, hb in bsets.items():
        for bw in (0, 15, 30):
            _reg("rotamer._rotamers/%s,buffer=%d" % (tag, bw), (lambda hb, bw: lambda ang: rotamer._rotamers(ang, hb, bw))(hb, bw),
                 lambda rs, k: (rs.rand(20) * 360,))
    _reg("rotamer._rotamers", lambda ang, hb, bw: rotamer._rotamers(ang, hb, bw), lambda rs, k: (rs.rand(20) * 360, [0, 120, 240, 360], 15))
    _reg("rotamer._rotamers/array_boundaries_f32", lambda ang, hb: rotamer._rotamers(ang, hb, 10.0),
         lambda rs, k: ((rs.rand(15) * 360).astype(np.float32), np.array([0, 120, 240, 360])))
    _reg("rotamer._rotamers/list_on_boundaries", lambda ang, hb: rotamer._rotamers(ang, hb, 15),
         lambda rs, k: ([0.0, 120.0, 135.0, 105.0, 240.0, 359.9, 0.0, 15.0, 345.0, 120.0 - k], [0, 120, 240, 360]))
    _reg("rotamer._rotamers/wide_buffer", lambda ang, hb: rotamer._rotamers(ang, hb, 95), lambda rs, k: (rs.rand(12) * 360, [0, 180, 360]))
    _reg("rotamer._rotamers/default_buffer", lambda ang, hb: rotamer._rotamers(ang, hb), lambda rs, k: (rs.rand(12) * 360, (0, 160, 360)))
    _reg("rotamer.is_buffered_transition",
         lambda hb: [rotamer.is_buffered_transition(s, a, hb, b) for s in range(len(hb) - 1) for a in (0, 10.5, 119, 121, 200, 350, 360)
                     for b in (0, 15, 45)],
         lambda rs, k: ([[0, 120, 240, 360], [0, 180, 360], np.array([0, 160, 360])][k],))
    _reg("rotamer.get_gates",
         lambda hb: [rotamer.get_gates(s, hb, b) for s in range(len(hb) - 1) for b in (0, 15, 30.5)],
         lambda rs, k: ([[0, 120, 240, 360], [0, 180, 360], np.array([0, 160, 360])][k],))
    _reg("rotamer.get_gates/numpy_state", lambda s, hb: rotamer.get_gates(s, hb, 15), lambda rs, k: (np.int16(k), [0, 120, 240, 360]))
    # SKIPPED: rotamer.dihedral_angles / phi_/psi_/chi_/all_rotamers need a trajectory with a protein topology.

    # ---- helix (pure array functions only; the *_helix_vectors entry points need a protein topology)
    def vecs(rs, k, n=6):
        v = rs.rand(n, 3) * 2 - 1
        return v
    _reg("helix.angles_from_vecs", lambda v: helix.angles_from_vecs(v), lambda rs, k: (vecs(rs, k),))
    _reg("helix.angles_from_vecs/to", lambda v, to: helix.angles_from_vecs(v, to=to), lambda rs, k: (vecs(rs, k), 1 + k))
    _reg("helix.angles_from_vecs/F_f32", lambda v: helix.angles_from_vecs(v),
         lambda rs, k: (np.asfortranarray(vecs(rs, k).astype(np.float32)),))
    _reg("helix.angles_from_plane_projection", lambda v, a, b: helix.angles_from_plane_projection(v, a, b),
         lambda rs, k: (vecs(rs, k), np.array([1.0, 0, 0]), np.array([0, 1.0, 0])))
    _reg("helix.angles_from_plane_projection/radians", lambda v, a, b: helix.angles_from_plane_projection(v, a, b, degree=False),
         lambda rs, k: (vecs(rs, k), [0.0, 0.0, 1.0], [0.0, 1.0, 0.0]))
    _reg("helix._get_unit_vectors", lambda v: helix._get_unit_vectors(v), lambda rs, k: (vecs(rs, k),))
    _reg("helix._generate_vectors_from_coords", lambda c: helix._generate_vectors_from_coords(c),
         lambda rs, k: (np.cumsum(rs.rand(3, 12, 3), axis=1),))
    _reg("helix._generate_vectors_from_coords/n_avg=3", lambda c: helix._generate_vectors_from_coords(c, n_avg=3),
         lambda rs, k: (np.cumsum(rs.rand(2, 10, 3), axis=1).astype(np.float32),))
    _reg("helix._get_ref_vectors", lambda n, p, r: helix._get_ref_vectors(n, p, r),
         lambda rs, k: (helix._get_unit_vectors(vecs(rs, k, 4)), rs.rand(4, 3), rs.rand(4, 2, 3)))


# ================================================================== mpi.ops at world size 1 (serial fall-backs of the striped operations)
@_family
def _fam_mpi_ops():
    from enspara.mpi import ops
    _reg("mpi.striped_array_max", lambda a: ops.striped_array_max(a), lambda rs, k: (rs.rand(7) - 0.5,))
    _reg("mpi.striped_array_max/int", lambda a: ops.striped_array_max(a), lambda rs, k: (rs.randint(-5, 5, size=6),))
    _reg("mpi.striped_array_mean", lambda a: ops.striped_array_mean(a), lambda rs, k: (rs.rand(7) - 0.5,))
    _reg("mpi.striped_array_mean/int32", lambda a: ops.striped_array_mean(a), lambda rs, k: (rs.randint(-5, 5, size=6).astype(np.int32),))
    _reg("mpi.assemble_striped_array", lambda a: ops.assemble_striped_array(a), lambda rs, k: (rs.randint(1, 9, size=5),))
    _reg("mpi.assemble_striped_ragged_array", lambda a, l: ops.assemble_striped_ragged_array(a, l),
         lambda rs, k: (rs.rand(9), np.array([4, 2, 3])))
    _reg("mpi.assemble_striped_ragged_array/one_row", lambda a, l: ops.assemble_striped_ragged_array(a, l),
         lambda rs, k: (rs.randint(0, 5, size=6), np.array([6])))
    _reg("mpi.convert_local_indices", lambda i, l: ops.convert_local_indices(i, l),
         lambda rs, k: ([(0, 1), (0, 4 + k), (0, 8)], np.array([4, 2, 3])))
    _reg("mpi.distribute_frame", lambda d, i: ops.distribute_frame(d, i, 0), lambda rs, k: (rs.rand(5, 3), k))
    _reg("mpi.randind", lambda a: ops.randind(a, np.random.RandomState(3)), lambda rs, k: (rs.rand(6),))


# ================================================================== geometry.rmsf
# (rmsf.rmsf_calc superposed the caller's trajectory in place on the pinned tree; repaired, see known_findings.json)
@_family
def _fam_rmsf():
    from enspara.geometry import rmsf
    _reg("rmsf.rmsf_calc", lambda c: rmsf.rmsf_calc(c), lambda rs, k: (_mdtraj(rs, 4 + k, 5),))
    _reg("rmsf.rmsf_calc/populations,per_atom", lambda c, p: rmsf.rmsf_calc(c, populations=p, ref_frame=1, per_residue=False),
         lambda rs, k: (_mdtraj(rs, 4, 5), (lambda p: p / p.sum())(rs.rand(4))))
