"""Routine alphabet of the C19 check: name -> callable, and deterministic argument sets.
Every callable takes the arguments built by make_args(name, argset) and returns the value
whose bits must depend on the arguments only."""
import numpy as np
import scipy.sparse as sp

NSETS = 3


def _rs(name, k):
    return np.random.RandomState((hash_name(name) + 7919 * k) % (2 ** 31))


def hash_name(s):
    h = 0
    for ch in s:
        h = (h * 131 + ord(ch)) % (2 ** 31)
    return h


def _counts(rs, n=4, zero_frac=0.4):
    C = rs.randint(0, 5, size=(n, n)) * (rs.rand(n, n) > zero_frac)
    C = C + np.diag(np.ones(n, dtype=int))
    for i in range(n):                      # strongly connected ring
        C[i, (i + 1) % n] += 1
        C[(i + 1) % n, i] += 1
    return C.astype(float)


def _tprob(rs, n=5):
    C = _counts(rs, n)
    return C / C.sum(axis=1)[:, None]


def _rev_tprob(rs, n=5):
    C = _counts(rs, n)
    X = C + C.T
    return X / X.sum(axis=1)[:, None], X.sum(axis=1) / X.sum()


def _assigns(rs, ntraj=3, nst=4):
    from enspara import ra
    return ra.RaggedArray([rs.randint(0, nst, size=rs.randint(5, 12)) for _ in range(ntraj)])


def _points(rs, n=12, d=2):
    pts = set()
    while len(pts) < n:
        pts.add(tuple(int(x) for x in rs.randint(0, 9, size=d)))
    return np.array(sorted(pts), dtype=float)[rs.permutation(n)]


def make_args(name, k):
    rs = _rs(name, k)
    base = name.split("/")[0]
    if base == "entropy.shannon_entropy":
        p = rs.rand(6)
        p[rs.randint(0, 6, size=2 + k)] = 0.0          # zeros are the masked-out cells
        return (p,)
    if base == "entropy.shannon_entropy_2d":
        p = rs.rand(3, 4)
        p[rs.rand(3, 4) < 0.4] = 0.0
        p[0, 0] = 0.5
        return (p,)
    if base == "entropy.kl_divergence":
        P = rs.rand(5) + 0.1
        Q = rs.rand(5) + 0.1
        return (P / P.sum(), Q / Q.sum())
    if base == "entropy.js_divergence":
        P = rs.rand(5) + 0.1
        Q = rs.rand(5) + 0.1
        return (P / P.sum(), Q / Q.sum())
    if base in ("mutual_info.mutual_information", "mutual_info.mutual_information_empty_pair"):
        T, F, S = 30, 3, 3
        X = rs.randint(0, S, size=(T, F))
        from enspara.info_theory import mutual_info
        jc = mutual_info.joint_counts(X, n_x=S, n_y=S) if False else None
        jc = np.zeros((F, F, S, S), dtype=int)
        for t in range(T):
            for a in range(F):
                for b in range(F):
                    jc[a, b, X[t, a], X[t, b]] += 1
        if base.endswith("empty_pair"):
            jc[0, 1] = 0                                # a feature pair that was never observed together
            jc[1, 0] = 0
        return (jc,)
    if base == "mutual_info.joint_counts":
        return (rs.randint(0, 3, size=(20, 3)), rs.randint(0, 2, size=(20, 2)), 3, 2)
    if base == "mutual_info.mi_matrix":
        Xs = [rs.randint(0, 3, size=(15, 3)) for _ in range(2)]
        Ys = [rs.randint(0, 2, size=(15, 3)) for _ in range(2)]
        return (Xs, Ys, [3, 3, 3], [2, 2, 2])
    if base == "mutual_info.weighted_mi":
        f = rs.randint(0, 3, size=(20, 3))
        w = rs.rand(20)
        return (f, w / w.sum())
    if base == "mutual_info.mi_to_nmi_apc":
        m = rs.rand(4, 4)
        return ((m + m.T) / 2,)
    if base == "libinfo.matrix_bincount2d":
        return (rs.randint(0, 3, size=(25, 3)).astype(np.int32), rs.randint(0, 4, size=(25, 2)).astype(np.int32), 3, 4)
    if base == "libinfo.bincount2d":
        return (rs.randint(0, 3, size=25).astype(np.int64), rs.randint(0, 4, size=25).astype(np.int64), 3, 4)
    if base.startswith("builders."):
        C = _counts(rs)
        if name.endswith("/csr"):
            C = sp.csr_matrix(C)
        elif name.endswith("/lil"):
            C = sp.lil_matrix(C)
        return (C,)
    if base == "msm.assigns_to_counts":
        return (_assigns(rs), 1 + k % 2)
    if base == "msm.trim_disconnected":
        C = _counts(rs, 5, 0.6)
        C[4, :] = 0
        C[4, 4] = 3
        return (C,)
    if base in ("msm.eigenspectrum", "msm.eq_probs"):
        return (_tprob(rs),)
    if base == "msm.synthetic_ensemble":
        T = _tprob(rs)
        p0 = np.zeros(len(T))
        p0[k % len(T)] = 1.0
        return (T, p0, 5)
    if base == "msm.MSM.fit":
        return (_assigns(rs, 4, 3), ["normalize", "transpose", "mle"][k % 3])
    if base in ("tpt.committors", "tpt.committors/csr"):
        T = _tprob(rs)
        return (sp.csr_matrix(T) if name.endswith("csr") else T, [0], [len(T) - 1])
    if base == "tpt.mfpts":
        return (_tprob(rs), None if k == 0 else [1])
    if base in ("tpt.reactive_fluxes", "tpt.net_fluxes", "tpt.reactive_populations"):
        T, pi = _rev_tprob(rs)
        return (T, [0], [len(T) - 1], pi if k % 2 else None)
    if base in ("tpt.paths", "tpt.top_path"):
        from enspara import tpt
        T, pi = _rev_tprob(rs)
        nf = tpt.net_fluxes(T, [0], [len(T) - 1], pi)
        return ([0], [len(T) - 1], np.asarray(nf))
    if base in ("cluster.assign_to_nearest_center",):
        X = _points(rs)
        return (X, X[[0, 3, 5]], "euclidean")
    if base == "cluster.find_cluster_centers":
        return (rs.randint(0, 3, size=12), rs.rand(12))
    if base in ("cluster.kcenters", "cluster.kcenters_ti", "cluster.kmedoids", "cluster.hybrid"):
        return (_points(rs, 14), ["euclidean", "manhattan"][k % 2], 3 + k % 2)
    if base.startswith("libdist."):
        X = rs.randint(-3, 4, size=(9, 3))
        if "hamming" in base:
            return (X.astype(np.int32), X[2].astype(np.int32))
        if name.endswith("/F"):
            return (np.asfortranarray(X.astype(np.float64)), X[2].astype(np.float64))
        if name.endswith("/f32"):
            return (X.astype(np.float32), X[2].astype(np.float32))
        return (X.astype(np.float64), X[2].astype(np.float64))
    if base.startswith("ra."):
        from enspara import ra
        rows = [rs.randint(0, 9, size=rs.randint(1, 5)) for _ in range(4)]
        return (ra.RaggedArray(rows),)
    if base == "rotamer._rotamers":
        return (rs.rand(20) * 360, [0, 120, 240, 360], 15)
    if base == "disorder.transitions":
        return (rs.randint(0, 3, size=(3, 8)),)
    raise KeyError(name)


def _build():
    from enspara.info_theory import entropy, mutual_info, libinfo
    from enspara.msm import builders, MSM, synthetic_data
    from enspara.msm import transition_matrices as tm
    from enspara import tpt, ra
    from enspara.cluster import kcenters, kmedoids, hybrid, util as cutil
    from enspara.geometry import libdist, rotamer
    from enspara.cards import disorder
    R = {}
    R["entropy.shannon_entropy"] = lambda p: entropy.shannon_entropy(p)
    R["entropy.shannon_entropy/nonorm"] = lambda p: entropy.shannon_entropy(p / p.sum(), normalize=False)
    R["entropy.shannon_entropy_2d"] = lambda p: entropy.shannon_entropy(p)
    R["entropy.kl_divergence"] = lambda P, Q: entropy.kl_divergence(P, Q)
    R["entropy.js_divergence"] = lambda P, Q: entropy.js_divergence(P, Q)
    R["mutual_info.mutual_information"] = lambda jc: mutual_info.mutual_information(jc)
    R["mutual_info.mutual_information_empty_pair"] = lambda jc: mutual_info.mutual_information(jc)
    R["mutual_info.joint_counts"] = lambda X, Y, nx, ny: mutual_info.joint_counts(X, Y, nx, ny)
    R["mutual_info.mi_matrix"] = lambda Xs, Ys, nx, ny: mutual_info.mi_matrix(Xs, Ys, nx, ny)
    R["mutual_info.weighted_mi"] = lambda f, w: mutual_info.weighted_mi(f, w)
    R["mutual_info.mi_to_nmi_apc"] = lambda m: mutual_info.mi_to_nmi_apc(m)
    R["libinfo.matrix_bincount2d"] = lambda a, b, na, nb: libinfo.matrix_bincount2d(a, b, na, nb)
    R["libinfo.bincount2d"] = lambda a, b, na, nb: libinfo.bincount2d(a, b, na, nb)
    for bn in ("normalize", "transpose", "mle"):
        for cont in ("", "/csr", "/lil"):
            R["builders.%s%s" % (bn, cont)] = (lambda f: (lambda C: f(C)))(getattr(builders, bn))
    R["msm.assigns_to_counts"] = lambda a, lag: tm.assigns_to_counts(a, lag)
    R["msm.trim_disconnected"] = lambda C: tm.trim_disconnected(C)
    R["msm.eigenspectrum"] = lambda T: tm.eigenspectrum(T)
    R["msm.eq_probs"] = lambda T: tm.eq_probs(T)
    R["msm.synthetic_ensemble"] = lambda T, p0, n: synthetic_data.synthetic_ensemble(T, p0, n)

    def fit(a, method):
        m = MSM(lag_time=1, method=method, trim=True)
        m.fit(a)
        return (m.tcounts_, m.tprobs_, m.eq_probs_, m.mapping_)
    R["msm.MSM.fit"] = fit
    R["tpt.committors"] = lambda T, s, t: tpt.committors(T, s, t)
    R["tpt.committors/csr"] = lambda T, s, t: tpt.committors(T, s, t)
    R["tpt.mfpts"] = lambda T, sinks: tpt.mfpts(T, sinks=sinks)
    R["tpt.reactive_fluxes"] = lambda T, s, t, p: tpt.reactive_fluxes(T, s, t, populations=p)
    R["tpt.net_fluxes"] = lambda T, s, t, p: tpt.net_fluxes(T, s, t, populations=p)
    R["tpt.reactive_populations"] = lambda T, s, t, p: tpt.reactive_populations(T, s, t, populations=p)
    R["tpt.paths"] = lambda s, t, nf: tpt.paths(s, t, nf, num_paths=3)
    R["tpt.top_path"] = lambda s, t, nf: tpt.top_path(s, t, nf)
    R["cluster.assign_to_nearest_center"] = lambda X, c, m: cutil.assign_to_nearest_center(X, c, cutil._get_distance_method(m))
    R["cluster.find_cluster_centers"] = lambda a, d: cutil.find_cluster_centers(a, d)
    R["cluster.kcenters"] = lambda X, m, k: kcenters.kcenters(X, m, n_clusters=k)
    R["cluster.kcenters_ti"] = lambda X, m, k: kcenters.kcenters(X, m, n_clusters=k, use_triangle_inequality=True)
    R["cluster.kmedoids"] = lambda X, m, k: kmedoids.kmedoids(X, m, n_clusters=k, n_iters=2, random_state=5)
    R["cluster.hybrid"] = lambda X, m, k: hybrid.hybrid(X, m, n_clusters=k, n_iters=2, random_state=5)
    for kn in ("euclidean", "manhattan"):
        for var in ("", "/F", "/f32"):
            R["libdist.%s%s" % (kn, var)] = (lambda f: (lambda X, y: f(X, y)))(getattr(libdist, kn))
    R["libdist.hamming"] = lambda X, y: libdist.hamming(X, y)
    R["ra.read"] = lambda a: (a[1], a[1:3], a[:, 0], a[0, 0], a.flatten(), a.lengths, a.starts, [r for r in a])
    R["ra.where"] = lambda a: ra.where(a > 3)
    R["ra.ops"] = lambda a: (a + 1, a * a, a == a, (a > 2).any(), a.max(), a.min())
    R["rotamer._rotamers"] = lambda ang, hb, bw: rotamer._rotamers(ang, hb, bw)
    R["disorder.transitions"] = lambda a: disorder.transitions(a)
    return R


class _Lazy(dict):
    def __missing__(self, k):
        self.update(_build())
        return dict.__getitem__(self, k)

    def names(self):
        if not len(self):
            self.update(_build())
        return sorted(self.keys())


ROUTINES = _Lazy()
# documented in-place behaviour (none of the routines above is called with an out= buffer)
WRITES_ARG = set()
# routines whose execution leaves freed junk of many sizes on the heap (prior-call alphabet)
DIRTY = ["entropy.shannon_entropy", "mutual_info.mutual_information", "builders.mle", "tpt.paths",
         "cluster.hybrid", "ra.ops"]
