"""Worker process of the C18 check.  Usage:
     info_worker.py <build_dir> <jobs.json> <results.json>
OMP_NUM_THREADS is fixed by the parent through the environment (it has to be set before the
extension module is imported, hence a process of its own per thread count).

jobs = {"invalid": [case, ...], "valid": [[k, case], ...], "full": bool,
        "sessions": [spec, ...], "kl": [[p, q], ...]}

* invalid: TLC-emitted inputs with an expected ERROR terminal.  Every call must raise.  The
  calls run in forked children because a kernel that accepts such an input writes outside
  its buffer (the child may die; that is an outcome, not a harness failure).  All other
  parts run in forked children as well (see `isolated`); the parent executes no OpenMP region.
* valid: TLC-emitted inputs with the expected joint-count table; replayed into
  joint_counts / matrix_bincount2d / bincount2d over dtypes, layouts and mixed dtypes; only
  mismatches are returned.
* sessions / kl: operations are executed as prescribed by the driver and their outputs are
  projected to scaled integers (no judgement here; TLC evaluates specs/info/InfoLaws.tla).
"""
import json
import os
import select
import signal
import sys
import warnings

D8 = ["int8", "int16", "int32", "int64", "uint8", "uint16", "uint32", "uint64"]
SIGNED = ["int8", "int16", "int32", "int64"]
LAYOUTS = ["C", "F", "strided", "reversed"]
INF = 2000000000


def lay(a, layout, dtype):
    """the same values in the requested dtype and memory layout"""
    import numpy as np
    a = np.asarray(a).astype(dtype)
    if a.ndim == 1:
        if layout in ("strided", "F"):
            big = np.zeros(2 * len(a) + 1, dtype=dtype)
            big[1::2] = a
            return big[1::2]
        if layout == "reversed":
            return np.ascontiguousarray(a[::-1])[::-1]
        return np.ascontiguousarray(a)
    if layout == "C":
        return np.ascontiguousarray(a)
    if layout == "F":
        return np.asfortranarray(a)
    if layout == "strided":
        big = np.full((2 * a.shape[0] + 1, 3 * a.shape[1] + 2), 1, dtype=dtype)
        big[1::2, 2::3] = a
        return big[1::2, 2::3]
    return np.ascontiguousarray(a[::-1, ::-1])[::-1, ::-1]


# --------------------------------------------------------------------------------------
# valid cases

def replay_valid(k, c, full, mods, slot=0):
    """full: every dtype x layout (mixed pairs: all 64); otherwise the variants of `slot` (0..3): the
    four slots of a case together cover the 8 dtypes, 4 layouts and 4 dtype pairs"""
    import numpy as np
    libinfo, M = mods
    X = np.array(c["X"], dtype=np.int64)
    Y = np.array(c["Y"], dtype=np.int64)
    nx, ny = c["nx"], c["ny"]
    exp = np.array(c["jc"], dtype=np.int64).reshape(X.shape[1], Y.shape[1], nx, ny)
    expd = np.array(c["jcd"], dtype=np.int64).reshape(X.shape[1], Y.shape[1], c["nxd"], c["nyd"])
    bad = []
    ncalls = [0]

    def cmp(form, detail, f, e):
        ncalls[0] += 1
        try:
            with warnings.catch_warnings():
                warnings.simplefilter("ignore")
                got = np.asarray(f())
        except Exception as ex:       # the property admits no error on a valid input
            bad.append((form + "/raises", dict(detail, error="%s: %s" % (type(ex).__name__, str(ex)[:160]))))
            return
        if got.shape != e.shape or not np.array_equal(got.astype(np.int64), e):
            bad.append((form + "/wrong-table", dict(detail, got=got.tolist(), expected=e.tolist())))

    dts = D8 if full else [D8[(k + 2 * slot) % 8], D8[(k + 2 * slot + 1) % 8]]
    for dt in dts:
        di = D8.index(dt)
        for li, lo in enumerate(LAYOUTS if full else [LAYOUTS[(k + di) % 4]]):
            a, b = lay(X, lo, dt), lay(Y, LAYOUTS[(k + di + li + 1) % 4] if not c["self"] else lo, dt)
            if c["self"]:
                b = a
            cmp("matrix_bincount2d", {"dtype": dt, "layout": lo},
                lambda: libinfo.matrix_bincount2d(a, b, nx, ny), exp)
            if a.tolist() != X.tolist() or b.tolist() != Y.tolist():
                bad.append(("matrix_bincount2d/input-modified", {"dtype": dt, "layout": lo}))
    pairs = [(dx, dy) for dx in D8 for dy in D8] if full else \
        [[(D8[k % 8], D8[(k // 8) % 8]), (D8[(k + 3) % 8], D8[(k + 3) % 8]),
          (D8[(k + 5) % 8], D8[(k // 8 + 3) % 8]), (D8[(k // 8 + 1) % 8], D8[(k + 6) % 8])][slot % 4]]
    for pi, (dx, dy) in enumerate(pairs, start=slot):
        lo = LAYOUTS[(k + pi) % 4]
        a = lay(X, lo, dx)
        if c["self"]:
            cmp("joint_counts(X)", {"dtype": dx, "layout": lo, "n": "given"}, lambda: M.joint_counts(a, n_x=nx), exp)
            cmp("joint_counts(X)", {"dtype": dx, "layout": lo, "n": "default"}, lambda: M.joint_counts(a), expd)
            continue
        b = lay(Y, LAYOUTS[(k + pi + 2) % 4], dy)
        form = "joint_counts" if dx == dy else "joint_counts/mixed-dtypes"
        cmp(form, {"dtypes": [dx, dy], "layout": lo, "n": "given"}, lambda: M.joint_counts(a, b, nx, ny), exp)
        cmp(form, {"dtypes": [dx, dy], "layout": lo, "n": "default"}, lambda: M.joint_counts(a, b), expd)
        if X.shape[1] == 1 and Y.shape[1] == 1:
            cmp(form + "/1-D", {"dtypes": [dx, dy], "layout": lo},
                lambda: M.joint_counts(a[:, 0], b[:, 0], nx, ny), exp)
    # a frame is counted in the cell of ITS state pair whatever the ids are: the first side relabelled by the injection
    # s -> s + 256 (ids that an 8-bit type cannot hold) in a wide element type, the second side in an 8-bit type
    if not c["self"] and (full or slot == k % 4):
        wide = ("int16", "int32", "int64", "uint16")[k % 4]
        narrow = ("int8", "uint8")[(k // 4) % 2]
        lo = LAYOUTS[(k // 2) % 4]
        for swap in (False, True):
            expw = np.zeros((X.shape[1], Y.shape[1], nx + 256, ny), dtype=np.int64)
            expw[:, :, 256:, :] = exp
            a, b = lay(X + 256, lo, wide), lay(Y, lo, narrow)
            if swap:        # the wide ids on the second side instead
                expw = np.ascontiguousarray(np.transpose(expw, (1, 0, 3, 2)))
                cmp("joint_counts/mixed-dtypes/wide-ids", {"dtypes": [narrow, wide], "layout": lo, "ids": "second side + 256"},
                    lambda: M.joint_counts(b, a, ny, nx + 256), expw)
            else:
                cmp("joint_counts/mixed-dtypes/wide-ids", {"dtypes": [wide, narrow], "layout": lo, "ids": "first side + 256"},
                    lambda: M.joint_counts(a, b, nx + 256, ny), expw)
    for ai in range(X.shape[1]):
        for bi in range(Y.shape[1]):
            if not full and (k + ai + bi) % 4 != slot % 4:   # (one slot per pair; slot 4 = the confined process)
                continue
            for dt in (D8 if full else [D8[(k // 4 + ai + 2 * bi) % 8]]):
                lo = LAYOUTS[(k // 4 + ai + bi) % 4]
                a = lay(X, "C", dt)[:, ai] if lo == "F" else lay(X[:, ai], lo, dt)     # "F": column view of a C array
                b = lay(Y, "C", dt)[:, bi] if lo == "F" else lay(Y[:, bi], lo, dt)
                cmp("bincount2d", {"dtype": dt, "layout": lo, "pair": [ai, bi]},
                    lambda: libinfo.bincount2d(a, b, nx, ny), exp[ai, bi])
    return bad, ncalls[0]


# --------------------------------------------------------------------------------------
# invalid cases (forked)

def invalid_calls(k, c, full):
    """call descriptors [fn, dtype_x, dtype_y, layout] for one invalid case"""
    neg = c["err"] == "err_negative"
    side = c.get("bad", {}).get("side", "n")
    sx = SIGNED if (neg and (side == "x" or c["self"])) else D8
    sy = SIGNED if (neg and (side == "y" or c["self"])) else D8
    out = []
    for r in (range(4) if full else [k % 4]):
        dx, dy = sx[(k + r) % len(sx)], sy[(k // 2 + r) % len(sy)]
        same = sx[(k + r) % len(sx)] if sx is SIGNED else sy[(k + r) % len(sy)]
        lo = LAYOUTS[(k + r) % 4]
        out.append(["matrix_bincount2d", same, same, lo])
        out.append(["joint_counts", dx, dy, lo])
        if c["err"] != "err_toolarge":
            out.append(["joint_counts/default-n", same, same, lo])
        if full or c["err"] != "err_negative" or k % 4 == 0:     # (an unchecked negative id kills the process)
            out.append(["bincount2d", same, same, lo])
    return out


def do_invalid(c, call, mods):
    import numpy as np
    libinfo, M = mods
    fn, dx, dy, lo = call
    X = lay(np.array(c["X"], dtype=np.int64), lo, dx)
    Y = X if c["self"] else lay(np.array(c["Y"], dtype=np.int64), lo, dy)
    nx, ny = c["nx"], c["ny"]
    try:
        with warnings.catch_warnings():
            warnings.simplefilter("ignore")
            if fn == "matrix_bincount2d":
                r = libinfo.matrix_bincount2d(X, Y, nx, ny)
            elif fn == "joint_counts":
                r = M.joint_counts(X, n_x=nx) if c["self"] else M.joint_counts(X, Y, nx, ny)
            elif fn == "joint_counts/default-n":
                r = M.joint_counts(X) if c["self"] else M.joint_counts(X, Y)
            else:
                b = c.get("bad", {})
                ai = b["f"] - 1 if b.get("side") == "x" else 0
                bi = b["f"] - 1 if b.get("side") == "y" else (ai if c["self"] else 0)
                r = libinfo.bincount2d(X[:, ai], Y[:, bi], nx, ny)
        return "returned " + json.dumps(np.asarray(r).tolist())
    except Exception as ex:
        return "raised %s" % type(ex).__name__


def isolated(fn, items, ends):
    """[fn(item) for item in items], computed in forked children: items[pos:end] for the successive
    `ends` run in one child each; a child that dies is replaced and the item it was working on yields
    {"_crashed": "signal N"}.  The parent never executes the code under test (and no OpenMP region)."""
    results = [None] * len(items)
    pos = 0
    ends = sorted(set(ends) | {len(items)})
    ncrash = 0
    while pos < len(items):
        if ncrash >= 25:
            # the library keeps dying / hanging: the verdict is settled, do not spend hours confirming it
            for i in range(pos, len(items)):
                results[i] = {"_crashed": "not run (25 earlier items crashed or hung)"}
            break
        end = min(e for e in ends if e > pos)
        r, w = os.pipe()
        sys.stdout.flush()
        pid = os.fork()
        if pid == 0:
            os.close(r)
            try:
                for i in range(pos, end):
                    os.write(w, b"S %d\n" % i)
                    data = ("R %d %s\n" % (i, json.dumps(fn(items[i])))).encode()
                    while data:
                        n = os.write(w, data)
                        data = data[n:]
            except BaseException:
                import traceback
                os.write(w, ("E " + json.dumps(traceback.format_exc()) + "\n").encode())
            finally:
                os._exit(0)
        os.close(w)
        buf = []
        timed_out = False
        while True:
            rd, _, _ = select.select([r], [], [], 120)
            if not rd:
                timed_out = True
                os.kill(pid, signal.SIGKILL)
                break
            chunk = os.read(r, 1 << 20)
            if not chunk:
                break
            buf.append(chunk)
        os.close(r)
        _, status = os.waitpid(pid, 0)
        started = None
        last = pos - 1
        for line in b"".join(buf).decode("utf8", "replace").splitlines():
            tag, _, rest = line.partition(" ")
            if tag == "S":
                started = int(rest)
            elif tag == "R":
                idx, _, payload = rest.partition(" ")
                try:
                    results[int(idx)] = json.loads(payload)
                except ValueError:
                    continue               # torn last line of a dying child
                last = int(idx)
                if started == last:
                    started = None
            elif tag == "E":
                raise RuntimeError("worker child failed (harness error):\n" + json.loads(rest))
        if started is not None:            # the child died inside this item
            sig = os.WTERMSIG(status) if os.WIFSIGNALED(status) else 0
            results[started] = {"_crashed": "timeout" if timed_out else "signal %d" % sig}
            ncrash += 1
            pos = started + 1
        elif last < pos:
            raise RuntimeError("worker child produced nothing: status %r" % status)
        else:
            pos = last + 1
    return results


def run_invalid(cases, full, mods):
    """Calls are grouped by (function, error class); a group runs in a forked child of its own, which is
    replaced when it dies.  Within a group every call is expected to raise, so whatever a damaged heap
    does later in the same child is attributed to the same class of input."""
    todo = []
    for k, c in cases:
        for call in invalid_calls(k, c, full):
            todo.append((k, c, call))
    todo.sort(key=lambda x: (x[2][0].split("/")[0], x[1]["err"]))
    group = [(x[2][0].split("/")[0], x[1]["err"]) for x in todo]
    ends = [i for i in range(1, len(todo)) if group[i] != group[i - 1]]
    res = isolated(lambda x: do_invalid(x[1], x[2], mods), todo, ends)
    return [{"k": k, "call": call, "outcome": ("crashed " + r["_crashed"]) if isinstance(r, dict) else r}
            for (k, c, call), r in zip(todo, res)]


# --------------------------------------------------------------------------------------
# sessions: execute the prescribed operations, project the outputs

def sc(a, s):
    import numpy as np
    a = np.asarray(a, dtype=float) * s
    a = np.where(np.isnan(a), -INF + 1, a)
    return np.rint(np.clip(a, -INF + 1, INF)).astype(np.int64).tolist()


def as_container(seq, form):
    """the trajectories of one side in the forms mi_matrix's single zip() pass accepts"""
    seq = list(seq)
    if form == 1:
        return tuple(seq)
    if form == 2:
        return (x for x in seq)
    if form == 3:
        return iter(seq)
    if form == 4:
        return map(lambda x: x, seq)
    return seq


def as_counts(n, form):
    import numpy as np
    return np.array(n) if form == 1 else tuple(n) if form == 2 else list(n)


def run_session(spec, mods):
    import numpy as np
    libinfo, M = mods
    from enspara.info_theory import entropy as E
    X = np.array(spec["X"], dtype=np.int64)
    Y = np.array(spec["Y"], dtype=np.int64)
    nx, ny = list(spec["nx"]), list(spec["ny"])
    rec = {"kind": "mi", "X": X.tolist(), "Y": Y.tolist(), "nx": nx, "ny": ny, "events": [], "_f": {},
           "p": [1], "q": [1]}
    ev = rec["events"]
    cur = {"last": None, "self": None, "weighted": None, "w": None}

    def marg(D, n):
        return [np.bincount(D[:, a], minlength=max(n)) for a in range(D.shape[1])]

    def mi_now():
        return M.mi_matrix([X], [Y], nx, ny, normalize=False)

    for op in spec["ops"]:
        name = op["ev"]
        e = dict(op)
        try:
            with warnings.catch_warnings():
                warnings.simplefilter("ignore")
                if name == "observe":
                    mi = mi_now()
                    jc = M.joint_counts(X, Y, max(nx), max(ny))
                    cx, cy = marg(X, nx), marg(Y, ny)
                    hx = [E.shannon_entropy(c) for c in cx]
                    hy = [E.shannon_entropy(c) for c in cy]
                    hxp = [E.shannon_entropy(c / c.sum(), normalize=False) for c in cx]
                    e.update(mi6=sc(mi, 1e6), jc=np.asarray(jc).astype(np.int64).tolist(), hx6=sc(hx, 1e6), hy6=sc(hy, 1e6),
                             hxp6=sc(hxp, 1e6), cx=[c.tolist() for c in cx], cy=[c.tolist() for c in cy])
                    rec["_f"][len(ev) + 1] = {"mi": np.asarray(mi, dtype=float).tolist(), "hx": [float(h) for h in hx],
                                              "hy": [float(h) for h in hy]}
                    cur["last"] = np.array(mi, dtype=float)
                elif name == "self":
                    smi = M.mi_matrix([X], [X], nx, nx, normalize=False)
                    ser = M.mi_matrix_serial([X], [X], nx, nx, normalize=False)
                    hx = [E.shannon_entropy(c) for c in marg(X, nx)]
                    e.update(smi6=sc(smi, 1e6), ser6=sc(ser, 1e6), hx6=sc(hx, 1e6))
                    cur["self"] = np.array(smi, dtype=float)
                elif name == "weighted":
                    w = np.array(op["w"], dtype=float)
                    wts = w if op.get("raw") else w / w.sum()
                    wmi = M.weighted_mi(X, wts, n_feature_states=nx, normalize=False)
                    e.update(wmi6=sc(wmi, 1e6))
                    cur["weighted"], cur["w"] = np.array(wmi, dtype=float), wts
                elif name == "relabel":
                    if op["side"] == "x":
                        X = np.stack([np.array(op["perms"][f])[X[:, f]] for f in range(X.shape[1])], axis=1)
                    else:
                        Y = np.stack([np.array(op["perms"][f])[Y[:, f]] for f in range(Y.shape[1])], axis=1)
                    e.update(X=X.tolist(), Y=Y.tolist(), mi6=sc(mi_now(), 1e6))
                    cur["self"] = cur["weighted"] = None
                elif name == "reorder":
                    idx = np.array(op["perm"]) - 1
                    X, Y = X[idx], Y[idx]
                    e.update(X=X.tolist(), Y=Y.tolist(), mi6=sc(mi_now(), 1e6))
                    cur["weighted"] = None
                elif name == "replicate":
                    X, Y = np.tile(X, (op["k"], 1)), np.tile(Y, (op["k"], 1))
                    e.update(X=X.tolist(), Y=Y.tolist(), mi6=sc(mi_now(), 1e6))
                    cur["weighted"] = None
                elif name == "split":
                    Xs, Ys = np.split(X, op["cuts"]), np.split(Y, op["cuts"])
                    fx, fy = op.get("form", 0) % 5, op.get("form", 0) // 5 % 5
                    e.update(mi6=sc(M.mi_matrix(as_container(Xs, fx), as_container(Ys, fy), as_counts(nx, op.get("nform", 0)),
                                                as_counts(ny, op.get("nform", 0)), normalize=False), 1e6))
                elif name == "pooled":
                    Xs = [np.tile(X, (op["k"], 1)) for _ in range(op["parts"])]
                    Ys = [np.tile(Y, (op["k"], 1)) for _ in range(op["parts"])]
                    fx, fy = op.get("form", 0) % 5, op.get("form", 0) // 5 % 5
                    e.update(mi6=sc(M.mi_matrix(as_container(Xs, fx), as_container(Ys, fy), as_counts(nx, op.get("nform", 0)),
                                                as_counts(ny, op.get("nform", 0)), normalize=False), 1e6))
                elif name == "swap":
                    X, Y, nx, ny = Y, X, ny, nx
                    mi = mi_now()
                    e.update(X=X.tolist(), Y=Y.tolist(), mi6=sc(mi, 1e6))
                    cur["last"] = cur["last"].T.copy() if cur["last"] is not None else None
                    cur["self"] = cur["weighted"] = None
                elif name == "normalise":
                    ref = cur[op["of"]]
                    if ref is None:
                        continue
                    a = op["nxs"][0] if op["xscalar"] else (np.array(op["nxs"]) if op.get("asarray") else list(op["nxs"]))
                    b = op["nys"][0] if op["yscalar"] else (np.array(op["nys"]) if op.get("asarray") else list(op["nys"]))
                    e.update(raised=0, exc="", nmi4=[])
                    try:
                        if op["via"] == "ccn":
                            before = ref.copy()
                            out = M.channel_capacity_normalization(ref, a, b)
                            if not np.array_equal(before, ref):
                                e["modified_input"] = 1
                        elif op["via"] == "mi_matrix" and op["of"] == "last":
                            out = M.mi_matrix([X], [Y], a, b)                  # normalize=True is the default
                        elif op["via"] == "mi_matrix":
                            out = M.mi_matrix([X], [X], a, b, normalize=True)
                        elif op["via"] == "mi_matrix_serial":
                            out = M.mi_matrix_serial([X], [X], a, b, normalize=True)
                        else:
                            out = M.weighted_mi(X, cur["w"], n_feature_states=a, normalize=True)
                        e["nmi4"] = sc(out, 1e4)
                    except Exception as ex:
                        e["raised"] = 1
                        e["exc"] = "%s: %s" % (type(ex).__name__, str(ex)[:200])
                elif name == "check":
                    trajs = [X[:, :k] for k in op["lens"]]
                    e["raised"] = 0
                    try:
                        M.check_features_states(trajs, [2] * op["nlen"])
                    except Exception as ex:
                        e["raised"] = 1
                        e["exc"] = type(ex).__name__
                elif name == "poolmismatch":
                    e["raised"] = 0
                    try:
                        M.mi_matrix([X, X[:, :1]], [Y, Y], nx, ny, normalize=False)
                    except Exception as ex:
                        e["raised"] = 1
                        e["exc"] = type(ex).__name__
                else:
                    raise RuntimeError("unknown op %r" % name)
        except Exception as ex:
            ev.append({"ev": "raise", "op": name, "msg": "%s: %s" % (type(ex).__name__, str(ex)[:200])})
            break
        ev.append(e)
    return rec


def run_kl(pq, mods):
    import numpy as np
    from enspara.info_theory import entropy as E
    p, q = pq
    P, Q = np.array(p, dtype=float) / sum(p), np.array(q, dtype=float) / sum(q)
    rec = {"kind": "kl", "X": [[0]], "Y": [[0]], "nx": [1], "ny": [1], "p": list(p), "q": list(q), "events": [], "_f": {}}
    try:
        with warnings.catch_warnings():
            warnings.simplefilter("ignore")
            nat = E.kl_divergence(P, Q, base=np.e)
            bit = E.kl_divergence(P, Q)                  # default base 2: bits
            rows = E.kl_divergence(np.array([P, Q]), np.array([Q, P]), base=np.e)
        rec["events"].append({"ev": "kl", "nat6": sc(nat, 1e6), "bit6": sc(bit, 1e6), "bit4": sc(bit, 1e4),
                              "row6": sc(rows[0], 1e6), "rev6": sc(rows[1], 1e6)})
        rec["_f"][1] = {"klbits": float(bit)}
    except Exception as ex:
        rec["events"].append({"ev": "raise", "op": "kl", "msg": "%s: %s" % (type(ex).__name__, str(ex)[:200])})
    return rec


def main():
    build, jobf, resf = sys.argv[1:4]
    here = os.path.dirname(os.path.abspath(__file__))
    sys.path.insert(0, build)
    sys.path.insert(0, os.path.join(here, "fakempi"))
    warnings.simplefilter("ignore")
    import logging
    logging.disable(logging.CRITICAL)
    if os.environ.get("VERIF_ONE_CPU") == "1":
        # more OpenMP threads than processors the process may run on: confine the process before the runtime loads
        try:
            os.sched_setaffinity(0, {sorted(os.sched_getaffinity(0))[0]})
        except (AttributeError, OSError):
            pass
    if os.environ.get("VERIF_POISON") == "1":
        # fresh numpy blocks are filled with 0xFF (a NaN pattern for floats, -1 for integers): a result that reads a
        # cell nobody wrote (the masked-out cells of np.log(p, where=p > 0) in the 0 log 0 = 0 convention) shows
        import numpy  # noqa
        sys.path.insert(0, os.path.join(here, "poison"))
        import poisonalloc as pz
        pz.install(0xFF)
        pz.set_enabled(1)
    devnull = open(os.devnull, "w")
    so, sys.stdout = sys.stdout, devnull          # the library prints a citation banner on import
    try:
        from enspara.info_theory import libinfo, mutual_info as M
        import enspara
    finally:
        sys.stdout = so
    if not os.path.abspath(enspara.__file__).startswith(os.path.abspath(build)):
        raise RuntimeError("enspara imported from %s" % enspara.__file__)
    mods = (libinfo, M)
    jobs = json.load(open(jobf))
    full, slot = jobs.get("full", False), jobs.get("slot", 0)
    out = {"threads": os.environ.get("OMP_NUM_THREADS")}
    out["invalid"] = run_invalid(jobs.get("invalid", []), full, mods)
    # everything below also runs in forked children (chunks): a kernel that writes out of bounds on a
    # VALID input may kill its process, which is reported per input and not as a harness failure
    valid = jobs.get("valid", [])
    res = isolated(lambda kc: replay_valid(kc[0], kc[1], full, mods, slot), valid, range(0, len(valid), 1500))
    vm, ncalls = [], 0
    for (k, c), r in zip(valid, res):
        if isinstance(r, dict):
            vm.append({"k": k, "form": "joint-count-kernels/crash-on-valid-input", "detail": r})
            continue
        bad, n = r
        ncalls += n
        for form, detail in bad:
            vm.append({"k": k, "form": form, "detail": detail})
    out["valid_mismatch"], out["valid_calls"] = vm, ncalls
    sess = jobs.get("sessions", [])
    out["sessions"] = isolated(lambda s_: run_session(s_, mods), sess, range(0, len(sess), 200))
    kl = jobs.get("kl", [])
    out["kl"] = isolated(lambda pq: run_kl(pq, mods), kl, range(0, len(kl), 2000))
    with open(resf, "w") as fh:
        json.dump(out, fh)


if __name__ == "__main__":
    main()
