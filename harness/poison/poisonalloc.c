/* numpy data allocator that fills every freshly malloc'ed (and realloc-grown)
 * block with a poison byte, so that reading uninitialised array memory yields
 * a recognisable value (0xFF.. = NaN for float64, 0x7F.. = 1.38e306).
 * calloc'ed memory (np.zeros) stays zero.  Installed with
 * PyDataMem_SetHandler; used by the C19 / C18 checks only.
 */
#define PY_SSIZE_T_CLEAN
#include <Python.h>
#define NPY_NO_DEPRECATED_API NPY_1_7_API_VERSION
#include <numpy/arrayobject.h>
#include <stdlib.h>
#include <string.h>

#define HDR 64
static unsigned char poison_byte = 0xFF;
static int enabled = 0;
static size_t n_malloc = 0, n_bytes = 0;

static void *p_malloc(void *ctx, size_t size) {
    unsigned char *p = (unsigned char *)malloc(size + HDR);
    if (!p) return NULL;
    *(size_t *)p = size;
    if (enabled) { memset(p + HDR, poison_byte, size); n_malloc++; n_bytes += size; }
    return p + HDR;
}
static void *p_calloc(void *ctx, size_t nelem, size_t elsize) {
    size_t size = nelem * elsize;
    unsigned char *p = (unsigned char *)calloc(1, size + HDR);
    if (!p) return NULL;
    *(size_t *)p = size;
    return p + HDR;
}
static void *p_realloc(void *ctx, void *ptr, size_t new_size) {
    if (!ptr) return p_malloc(ctx, new_size);
    unsigned char *base = (unsigned char *)ptr - HDR;
    size_t old = *(size_t *)base;
    unsigned char *p = (unsigned char *)realloc(base, new_size + HDR);
    if (!p) return NULL;
    *(size_t *)p = new_size;
    if (enabled && new_size > old) memset(p + HDR + old, poison_byte, new_size - old);
    return p + HDR;
}
static void p_free(void *ctx, void *ptr, size_t size) {
    if (!ptr) return;
    unsigned char *base = (unsigned char *)ptr - HDR;
    if (enabled) memset(base + HDR, poison_byte, *(size_t *)base);
    free(base);
}

static PyDataMem_Handler handler = {
    "verif_poison", 1, {NULL, p_malloc, p_calloc, p_realloc, p_free}
};

static PyObject *install(PyObject *self, PyObject *args) {
    int byte;
    if (!PyArg_ParseTuple(args, "i", &byte)) return NULL;
    poison_byte = (unsigned char)byte;
    PyObject *cap = PyCapsule_New(&handler, "mem_handler", NULL);
    if (!cap) return NULL;
    PyObject *old = PyDataMem_SetHandler(cap);
    Py_DECREF(cap);
    if (!old) return NULL;
    Py_DECREF(old);
    enabled = 1;
    Py_RETURN_NONE;
}
static PyObject *set_enabled(PyObject *self, PyObject *args) {
    int e;
    if (!PyArg_ParseTuple(args, "i", &e)) return NULL;
    enabled = e;
    Py_RETURN_NONE;
}
static PyObject *set_byte(PyObject *self, PyObject *args) {
    int b;
    if (!PyArg_ParseTuple(args, "i", &b)) return NULL;
    poison_byte = (unsigned char)b;
    Py_RETURN_NONE;
}
static PyObject *stats(PyObject *self, PyObject *args) {
    return Py_BuildValue("(nn)", (Py_ssize_t)n_malloc, (Py_ssize_t)n_bytes);
}
static PyMethodDef methods[] = {
    {"install", install, METH_VARARGS, "install(byte): route numpy data allocations through the poisoning allocator"},
    {"set_enabled", set_enabled, METH_VARARGS, "set_enabled(0/1)"},
    {"set_byte", set_byte, METH_VARARGS, "set_byte(b)"},
    {"stats", stats, METH_NOARGS, "(#poisoned mallocs, #bytes)"},
    {NULL, NULL, 0, NULL}
};
static struct PyModuleDef mod = {PyModuleDef_HEAD_INIT, "poisonalloc", NULL, -1, methods};
PyMODINIT_FUNC PyInit_poisonalloc(void) {
    import_array();
    return PyModule_Create(&mod);
}
