#!/bin/sh
# builds poisonalloc.*.so next to this file (offline: gcc + headers of /venv)
set -e
cd "$(dirname "$0")"
PY=/venv/bin/python
INC=$($PY -c "import sysconfig;print(sysconfig.get_paths()['include'])")
NPINC=$($PY -c "import numpy;print(numpy.get_include())")
EXT=$($PY -c "import sysconfig;print(sysconfig.get_config_var('EXT_SUFFIX'))")
gcc -O1 -shared -fPIC -I"$INC" -I"$NPINC" poisonalloc.c -o "poisonalloc$EXT"
$PY -c "
import sys; sys.path.insert(0,'.')
import numpy as np, poisonalloc
poisonalloc.install(0xFF)
a=np.empty(1000)
assert np.isnan(a).all(), 'poison not visible'
assert (np.zeros(10)==0).all()
print('poisonalloc ok', poisonalloc.stats())
"
