"""Regenerates /verif/MANIFEST.json from the table below.  A property is
claimed iff props/<id>.py exists and it has an entry in CHECKS."""
import json
import os

VERIF = os.path.dirname(os.path.dirname(os.path.abspath(__file__)))

CHECKS = {
    "C01": dict(
        technique="TLA+ specs KCenters/PAM/Hybrid model-checked with TLC; TLC trace validation (Trace_Cluster.tla) of recorded runs of every clustering entry point on TLC-enumerated inputs",
        text="TLC checks SelfConsistent (centers are the frames at their indices, reported distance = metric distance to the assigned "
             "center, no center strictly closer, labels in range, center frames carry their own label at distance 0) after every "
             "k-centers iteration, every PAM proposal and at hand-over of k-hybrid, on the step-level transcription of the three "
             "algorithms for every input in scope. Every entry point (kcenters/kmedoids/hybrid, function and estimator, cold and warm "
             "start, 5 dtypes, euclidean/manhattan/callable metric) is then run on the TLC-enumerated inputs with the iteration and "
             "PAM-update functions wrapped; each recorded intermediate and final state is validated by TLC against the actions and "
             "SelfConsistent; inputs are compared bitwise before/after.",
        note="integer-lattice data of distinct points (exact L1/Linf, squared L2), multiplied by a rotating power of two (1, 2^-30, 2^12) and laid out C-ordered / Fortran-ordered / as a strided view; exhaustive within N<=4..5 points, K<=3..4 plus n_clusters > N; 500 seeded random 1-3-dimensional sets (<=14 points) in the quick tier, 15000 (<=40 points) in the thorough tier; every mutable input watched; ties may be labelled either way",
        ref="6/C01"),
    "C02": dict(
        technique="TLA+ spec KCenters.tla model-checked with TLC (greedy guard, RadiusMonotone, TwoApprox vs brute-force optimum, StopExact, ShortcutExact); TLC trace validation of every iteration of the real k-centers",
        text="TLC checks on every data set / configuration in scope that any-farthest-frame greedy steps never widen the radius, end within "
             "twice the brute-force optimum over all k-subsets, stop exactly when the guard (count reached or radius <= cutoff) fails, and "
             "that the triangle-inequality shortcut yields the same distances as the plain update (metric axioms checked, not assumed). "
             "The real kcenters()/KCenters.fit() is run on every enumerated (data, metric, n_clusters, cutoff, shortcut, init_centers) with "
             "_kcenters_iteration wrapped; each recorded iteration must be an instance of Iterate (chosen frame in the arg-max set, guard "
             "true, distances = plain update, labels admissible), the final result must falsify the guard.",
        note="as C01; warm starts from frames and from centers that are not frames (each owning a frame), as ndarray or as a list object shared by the repeated execution; 2-approximation is relative to the optimum with centers among the frames; the estimator form has no shortcut switch",
        ref="6/C02"),
    "C03": dict(
        technique="TLA+ spec (Counts.tla) model-checked with TLC; spec->code replay of every TLC-enumerated input",
        text="TLC checks on every input in scope that the mask/slice/stack pipeline transcribed from the code equals "
             "the cardinality definition of lagged pairs (Exact, Square, Total, NoLeak, Additive), then every "
             "enumerated input is replayed into the real assigns_to_counts in ragged / padded / permuted / split / "
             "int32 forms and compared with the matrix TLC computed.",
        note="exhaustive within <=3 trajectories, length <=3..8, lag <=2..5 (see evidence tlc_runs); every case also under an order-preserving injection of the state ids into ids near 70000 (int32/int64) and 200 (int16); trusts TLC, the "
             "PySlice module (self-tested against CPython) and the JSON emission path",
        ref="6/C03"),
    "C04": dict(
        technique="TLA+ spec (Builders.tla, exact rationals) model-checked with TLC + spec->code replay in 8 containers; mle part by TLC trace validation of recorded runs (MLE.tla)",
        text="TLC checks on the step-by-step transcription of normalize/transpose (prior, symmetrise, row-normalise with zero-row "
             "guard, populations) that the result is row-stochastic, stationary (Markov-chain tree theorem), reversible, "
             "prior-first and leaves the caller's matrix unchanged, and emits exact rational expectations for every count matrix "
             "in scope; the driver replays each into the real builders for ndarray and the seven sparse-matrix formats with both "
             "calculate_eq_probs settings and compares values (1e-12/1e-9), container types and the caller's matrix. builders.mle "
             "is run in every container, its outputs recorded as scaled integers and validated by TLC against MLE.tla.",
        note="exhaustive within n<=3, entries <=3 (quick) / <=4,<=2 (thorough) x element type of the caller's matrix x 9 containers (COO with repeated coordinates included) x prior None / 1 / 1/2 / matrix of ones, plus large structured families around every size threshold of the eigen-solver paths; sparse arrays (csr_array, ...) are outside the property's quantifier; stationarity only where the chain is strongly connected",
        ref="6/C04"),
    "C05": dict(
        technique="TLA+ specs Ragged.tla/RaggedRead.tla (list-of-rows Get vs step-level transcription of the flat-offset arithmetic) model-checked with TLC; spec->code replay of every emitted (shape, index expression); TLC trace validation of the reads of test_ra.py",
        text="Get(rows, ix) is defined by the list-of-rows meaning for the whole index grammar (int, slice, list, the eight pair forms, "
             "ragged boolean mask) with tagged results Rows/Flat/Col/Scalar/Err; the implementation's conversion (_slice_to_list, "
             "_get_iis_from_slices/_list, _convert_from_2d with bounds check, where) is transcribed as operators and as a step machine, and "
             "TLC checks ReadEq / NoNeighbourLeak / ElementOutsideRaises and classifies every index class. Every emitted case is replayed "
             "on real arrays built in three ways with scalar and 2-vector elements, attributes included; reads recorded from the "
             "repository's own test_ra.py are validated by Trace_RaggedRead.tla (thorough).",
        note="shapes <=3 rows x length <=3 (thorough: a shard of <=4x4), bounds -4..4 or None, steps None/1/2/-1/-2, lists of length <=2; two-slot products pairwise in quick; error types are not compared, only that an error is raised",
        ref="6/C05"),
    "C06": dict(
        technique="TLA+ spec RaggedWrite.tla (abstract rows + concrete data/arr/lengths per writer, Coherent after every action) model-checked with TLC; TLC-generated operation histories replayed into the real object with all observers compared after every step",
        text="Each writer of RaggedArray (element, row, (int,slice), 2-d block, column, paired fancy, mask incl. empty, row-slice from list or "
             "RaggedArray, append) updates the concrete fields the way the code does and TLC checks that all views stay coherent with the "
             "list-of-rows value, that operators keep the row structure, return new objects and leave operands untouched, and that an "
             "augmented assignment leaves the old object intact. TLC emits every single operation from every initial shape, every pair "
             "(thorough) and simulated walks of length 6; the driver applies each history to a real object built in three ways and after "
             "EVERY step compares iteration, flatten+lengths, starts, row and element reads, ==, max/min, size, shape, the previous object "
             "and the caller's buffer with the specification state.",
        note="integer elements; shape-preserving write grammar of DESIGN.md 6/C06 plus column-range masks; shapes <=3 rows x length <=3; six copying constructor forms with every caller buffer watched; index expressions invalid on a list of rows are C05's subject",
        ref="6/C06"),
    "C07": dict(
        technique="TLA+ spec Committor.tla (exact rational transcription of committors/mfpts step by step, first-step invariants) model-checked with TLC + spec->code replay of every emitted (chain, sources, sinks, lag) in dense/csr/lil/csc containers; TLC trace validation (Trace_Committor.tla) of recorded runs on larger random chains",
        text="TLC runs the implementation-shaped steps of tpt.committors and tpt.mfpts (right-hand side, absorbing mask, solve, sum over sink "
             "columns, pin sinks, lag scaling; all-pairs: populations, fundamental matrix, inverse, formula) in exact rational arithmetic on every "
             "irreducible integer chain in scope and checks PinnedSources, PinnedSinks, InUnit, FirstStep, the mfpt first-step equations, "
             "column-by-column agreement of the all-pairs table and linear scaling with the lag; the exact expected values are replayed into the "
             "real functions in four containers (1e-9 relative, inputs bitwise unchanged). Outputs of the real code on random irreducible chains "
             "with 5..8 states (reversible or not) and on the chains of the repository's tests are logged as scaled integers and validated by TLC "
             "against the first-step relations.",
        note="exact scope n<=4 states, row sums D<=4 (quick) / n<=5, D<=6 (thorough); float64; trace validation accepts 1e-6 (committors) / 1e-4 (mfpts)",
        ref="6/C07"),
    "C08": dict(
        technique="TLA+ spec Flux.tla (extends Committor.tla; exact rational transcription of reactive_fluxes / net_fluxes / reactive_populations) model-checked with TLC + spec->code replay in dense/csr/lil/csc containers, populations given and computed",
        text="TLC enumerates every connected symmetric integer matrix in scope (reversible chain with exact populations) x every disjoint non-empty "
             "source/sink pair, runs the committor pipeline and then the statements of the flux functions (scale rows by pi q-, columns by q+, zero "
             "the diagonal, positive part of f - f^T, normalise pi q+ q-) and checks FluxDef, NetOneDirection, Conservation, NoInflowToSources, "
             "NoOutflowFromSinks, SourceOutEqSinkIn, PopsProbability; every emitted case is replayed into the real functions and compared at 1e-9 "
             "relative with the caller's arrays required unchanged.",
        note="N=3 entries<=2, N=4 entries<=1 (quick); N<=5 (thorough); reactive_populations not judged when no state lies strictly between the sets",
        ref="6/C08"),
    "C09": dict(
        technique="TLA+ specs PAM.tla/Hybrid.tla model-checked with TLC over all accept/reject histories; TLC trace validation of every proposal (from DEBUG records) and sweep of the real k-medoids / k-hybrid",
        text="TLC explores every sequence of proposals (members, or explicit proposal lists incl. frames of other clusters) with "
             "accept-iff-not-worse / reject on the three-branch reassignment transcribed from _kmedoids_pam_update and checks CostMonotone, "
             "KConstant, SelfConsistent, CandidateConsistent, NonEmptyClusters, HybridNoWorse. The real kmedoids()/KMedoids/hybrid()/KHybrid "
             "are run on TLC-enumerated (data, medoids, proposal list|seed, sweeps); every recorded proposal (cluster, old medoid, proposal, "
             "old cost, new cost, accepted) must be Propose;Reassign;Accept|Reject from the specification's current state with exactly the "
             "specification's costs, every sweep result must equal the specification's state, k-hybrid's result must not exceed the cost at "
             "hand-over, and seeded / explicit-proposal runs are executed twice and must coincide.",
        note="integer-lattice data; costs are exact integers; if the DEBUG records are reworded the check degrades to sweep granularity (reported in evidence), never to a false alarm",
        ref="6/C09"),
    "C10": dict(
        technique="TLA+ specs Assign.tla/Partition.tla (loop-level transcriptions with inductive invariants) model-checked with TLC; spec->code replay plus TLC trace validation (Trace_Assign/Trace_Partition)",
        text="TLC checks the sweep / per-frame assignment branches, find_cluster_centers, the subtract-lengths loop of partition_indices "
             "(loop variables as state), partition_list, ClusterResult.partition and compute_batches against their definitions "
             "(AssignExact, CenterFinderMinimal, PairCorrect, PartitionRoundTrip, SquareIffEqualLengths, NoEmptyBatch, ...) and emits "
             "definition-level expectations for every input in scope, which are replayed into the real functions in several dtype / "
             "container forms; KCenters.fit().predict(), compute_batches and (thorough) batch_reassign on tiny mdtraj trajectories are "
             "bound by trace validation.",
        note="exhaustive within <=4 trajectories / total <=8 frames, <=3 centers, 1-D 0..5 and 3x3 grid; ties may go to any nearest center; mdtraj part judged against a recorded rmsd table (1e-3 nm)",
        ref="6/C10"),
    "C11": dict(
        technique="TLA+ spec Trim.tla (threshold, components, weigh, keep-any-heaviest, extract/zero-out, mapping) model-checked with TLC against a Warshall-closure definition; spec->code replay in 4 containers incl. MSM.fit",
        text="TLC checks KeptIsSCC, Heaviest, TrimmedStronglyConnected, CountsPreserved, NothingOnRemoved, MappingBijectiveMonotone, "
             "VariantsAgree, ContainerPreserved and Frozen on every count matrix in scope and emits per (C, threshold) the set of admissible "
             "kept sets (ties in weight) with the expected matrices and mappings of both variants; trim_disconnected is replayed for "
             "ndarray/csr/coo/lil with renumbering on and off (result, mapping both ways, type, caller's matrix), and "
             "MSM(trim=True).fit on trajectories realising the matrix must report the same mapping and trimmed counts.",
        note="all 3x3 matrices with entries 0..2 and all 4x4 with entries 0..1, thresholds 1..2 (thorough: samples of 4x4 entries <=3 and 5x5 0/1, threshold 3)",
        ref="6/C11"),
    "C12": dict(
        technique="TLC trace validation (MLE.tla) of recorded runs of both estimator implementations on TLC-enumerated inputs",
        text="Every strongly connected count matrix enumerated by TLC in scope (plus seeded random real-valued and strongly "
             "asymmetric ones) is fed to _prinz_mle_py and libmsm._mle_prinz_dense (also with iteration caps 1 and 2); start / warn / "
             "return / raise events with outputs as scaled integers are validated by TLC against the control-flow machine and "
             "acceptance relation of MLE.tla: never crashes, row-stochastic, support, Prinz self-consistency (integer-coefficient "
             "linear equations), detailed balance, stationarity, likelihood dominance over logged reversible competitors, and "
             "agreement of the two implementations. A verdict per trace names the failing clause.",
        note="relation tolerances 1e-4 (32-bit integer budget); dominance is checked against the transpose estimate and <=7 perturbed competitors plus the exact stationarity certificate, not against all reversible matrices; log-likelihood numbers come from the projection",
        ref="6/C12"),
    "C13": dict(
        technique="TLA+ spec Dist.tla (configuration machine Validate/Dispatch/kernel loops/Return vs the L1/L2/Hamming definitions) model-checked with TLC + spec->code replay of emitted matrices x configurations x layouts at 1..16 OpenMP threads; TLA+ spec Prange.tla model-checked over all thread interleavings of the memory-access table extracted from the current libdist.pyx",
        text="TLC checks Exact, OutHoldsResult, Shape1D, NoStrayWrite, RejectsBadInput, AcceptsGoodInput, ViewIsLogical on the machine for every "
             "configuration (kernel x entry point x element type x layout x out kind x ranks x width x magnitude up to the type's extreme) and emits "
             "matrices with expected distances, configurations with expected outcome and buffer layouts (offset, strides); the cross product is "
             "replayed into libdist.euclidean/manhattan/hamming and _get_distance_method in worker processes per thread count, result bits compared "
             "across thread counts, guard cells around out= checked. The supported element types and the prange access tables are extracted from "
             "the current source; TLC decides RaceFree, ScheduleIndependent, InBounds for them (extractor+model self-tested on known-bad kernels).",
        note="matrices <=3x2 entries -2..2 scaled to the dtype's extremes, generated 17..64(257) x 3..8; OpenMP schedules themselves are the runtime's: all interleavings are explored on the extracted table, thread counts sampled dynamically",
        ref="6/C13"),
    "C14": dict(
        technique="TLA+ specs KCentersMPI.tla / StripedOps.tla model-checked with TLC over all arrival orders at collectives; replay on a simulated communicator under several schedules; TLC validation of reassembled states and of the communicator log",
        text="TLC explores every arrival order of R ranks at every collective of the distributed k-centers program and checks that the "
             "reassembled state refines the serial algorithm on the concatenated data (tie-free), is self-consistent otherwise, that "
             "all ranks agree, nobody is left waiting in a collective, and that local<->global index maps are bijections; StripedOps.tla "
             "does the same for assemble_striped_array, striped max/mean and randind. Every TLC-enumerated case is executed by the real "
             "kcenters(mpi_mode=True)/hybrid(mpi_mode=True)/kmedoids MPI warm start + reassembly routines on R simulated ranks under 3 "
             "arrival schedules (ops: all R! orders) and compared with the serial state TLC computed; reassembled states are validated by "
             "Trace_Cluster.tla (self-consistent, k constant, cost never worse); the communicator's log is validated against "
             "Trace_Collectives.tla; striped loaders run against real HDF5/npy files with strides.",
        note="ranks are simulated threads with rendezvous collectives (no MPI library in the sandbox); R<=3 (quick) / 4 (thorough), every rank owns >=1 trajectory; nothing is claimed about mpi4py marshalling",
        ref="6/C14"),
    "C15": dict(
        technique="TLA+ specs H5Rows.tla (ra.save/ra.load node naming, listing order, stride/keys branches) and ParallelLoad.tla (load_as_concatenated: sounding, hint, offsets, workers writing windows in any order) model-checked with TLC + spec->code replay on real PyTables / trajectory files with TLC-chosen task orders",
        text="TLC checks OrderPreserved for every row count 1..1200, SaveInjective, ListedIsRowOrder, LengthsAreCeil, FillInBounds, RoundTrip, "
             "StrideIsSlice, KeysSubset on the save/load step machine and WindowsDisjoint, WindowsCover, FinalIsConcatenation, WrongHintRejected, "
             "ShapeMismatchRejected over all task orders and worker counts of the loader model, and emits cases (input, calls, expected result by the "
             "definition part). Each case is realised as real files (5 dtypes, element shapes () and (2,), compression 0/1/9; .h5 and .xtc "
             "trajectories), the real functions are called with enspara.util.load.mp replaced by a pool shim that runs tasks in the emitted order "
             "(thorough: also the real multiprocessing.Pool with 1/2/4/8 processes), and results are compared bit by bit.",
        note="ragged <=3 rows exhaustive + cyclic patterns at 9..11 and 99..101 rows; loader <=4 files of 1..4 frames, 4 atoms; truly concurrent writes only in the thorough tier",
        ref="6/C15"),
    "C16": dict(
        technique="TLA+ spec MSMObj.tla (object lifecycle with stored vs given configuration) model-checked with TLC + spec->code replay incl. save/load; spectral part by TLC trace validation (Spectrum.tla)",
        text="TLC checks ConfigStored / FitIsPipeline / RoundTrip / MappingMonotone / TrimmedConnected on the lifecycle New->Fit->Save->Load "
             "and emits for every (assignments, lag, builder, trim, sliding_window, max_n_states) the admissible pipeline results as exact "
             "rationals; the real MSM object is compared with them, with the real function pipeline (bitwise, also for mle and a callable "
             "method) and round-tripped through save/load. Outputs of eigenspectrum / eq_probs / implied_timescales / synthetic_ensemble on "
             "TLC-enumerated chains are validated by TLC against eigen-equations, stationarity, trace, -lag/ln(lambda) on rational "
             "eigenvalues (ln table) and exact rational propagation.",
        note="assignment sets <=2 trajectories, length <=3..5; spectral relations at 1e-4..1e-6 (timescales 1e-2) because of 32-bit integers; eigenvalues of non-reversible chains only ordered; plus TrimMapping.tla / MSMLife.tla: operation histories of the mapping object and of the estimator life cycle (New, set_params, Fit/Refit, Save, Load, ==) replayed step by step",
        ref="6/C16"),
    "C17": dict(
        technique="TLA+ specs WidestPath.tla (Dijkstra-style machine vs brute force over all simple paths) and Paths.tla (peeling loop) model-checked with TLC; spec->code replay of top_path and TLC trace validation (Trace_Paths.tla) of every recorded paths() run",
        text="TLC checks PathIsSimple, PathAlongPositiveEdges, FluxIsMinEdge, Optimal (= brute-force widest bottleneck), Unreachable on the "
             "transcription of top_path for every digraph in scope, and NonIncreasing, SumWithinTotal, ReachesFraction, RespectsNumPaths, "
             "CallerMatrixUntouched on the peeling loop for both removal schemes; every graph is replayed into the real top_path (result "
             "must be one of the emitted optimal paths) and every recorded paths() run (both schemes x path-count x flux-cutoff limits) is "
             "validated step by step: each reported path must be a legal Peel of the specification's own residual.",
        note="n=4..5 nodes, weights 0..3, multi-source/sink families, conserved DAG flows; dense inputs only (the functions are documented for ndarray); two known findings for remove_path='bottleneck'",
        ref="6/C17"),
    "C18": dict(
        technique="TLA+ spec JointCounts.tla (prange-shaped kernel model, all interleavings, validation terminals) model-checked with TLC + spec->code replay over 8 integer dtypes / 4 layouts / 1..16 threads; TLA+ spec InfoLaws.tla validating recorded metamorphic sessions of the real mutual-information API (TLC trace validation)",
        text="TLC checks JCExact, Partial, Total, OwnBlock, NoOutOfBounds, Rejected on the kernel-shaped model (one prange iteration per first-side "
             "feature, arbitrary interleaving) and emits every input in scope with the expected table or error terminal (id<0, id>=n at every "
             "placement, unequal lengths); worker processes replay them into mutual_info.joint_counts, libinfo.matrix_bincount2d and bincount2d. "
             "Metamorphic sessions on TLC-enumerated data sets (relabel, reorder frames, split into trajectories, weights, normalisation, "
             "kl_divergence) are executed by the real code, projected to scaled integers and every law clause (non-negative, symmetric, "
             "diagonal = entropy, <= min marginal entropy, invariances, pooled counts, uniform weights, channel-capacity normalisation with "
             "n_x != n_y, KL >= 0 and = 0 iff equal) is evaluated by TLC; for dyadic data TLC returns exact values in bits.",
        note="<=4 frames, <=2 features per side, <=3 states; law clauses at 2e-6 absolute (normalisation 2.5e-4); T=0 outside the property",
        ref="6/C18"),
    "C19": dict(
        technique="TLA+ heap/purity model (Purity.tla) over a routine table extracted from the current source, model-checked with TLC; TLC-enumerated call histories replayed under a poisoning numpy allocator",
        text="harness/extract/masked_sites.py lists every masked element-wise call and uninitialised allocation of the current source; TLC "
             "decides by self-composition over all masks and heap histories at which sites a result can read uninitialised cells. TLC then "
             "enumerates histories (poison pattern, <=2 prior calls, 1/2/4/16 threads) and calls (570 routine variants x argument sets: options, containers, element types, layouts, long inputs for the OpenMP kernels); a seed-rotated section of calls x histories is replayed in "
             "a worker process whose numpy allocator fills fresh blocks with the pattern, and result bits and argument bits are compared "
             "with a clean single-threaded process.",
        note="heap observed through numpy's allocator only; OpenMP interleavings are the runtime's; routine alphabet and argument sets are finite (harness/purity_routines.py)",
        ref="6/C19"),
    "C20": dict(
        technique="TLA+ specs Rotamer.tla (definition-level circular-interval machine in lockstep with the transcribed gate logic) and Transitions.tla, model-checked with TLC; spec->code replay of TLC-generated walks",
        text="TLC checks ImplMatchesDef on every (basin, angle) of a 1-degree grid for the library's boundary sets and every accepted buffer, "
             "plus ValidState, ZeroBufferIsBinning, Hysteresis, ExitRebins, FirstIsBasin, and emits all walks of length <=3 over near-gate "
             "angles plus simulated long walks with the expected state sequences, which are replayed through rotamer._rotamers (three input "
             "forms) and the phi/psi/chi callers; Transitions.tla gives the per-row first-difference definition and every state sequence "
             "in scope is replayed through disorder.transitions (1-D, 2-D, ragged).",
        note="angles on a half-degree grid that avoids gate values; boundary sets [0,180,360], [0,160,360], [0,120,240,360]; plus Disorder.tla: the order/disorder pipeline built on the transition bookkeeping (waiting times, disorder trajectories, weighted aggregation) replayed into cards/disorder.py",
        ref="6/C20"),
}

# scope added by the third and fourth rounds of seeded changes (DESIGN.md 12.6)
NOTE_ADD = {
    "C01": "k-medoids with zero sweeps; estimators reconfigured through attributes / set_params before fit; runs of 150-170 frames with more than 128 initial centers judged by Trace_ClusterLarge.tla",
    "C02": "fractional off-data centers next to integer data; estimators reconfigured through attributes / set_params before fit; one recorded finding (known_findings.json: off-data initial centers + more clusters than frames + triangle shortcut), replayed in every tier and printed as KNOWN-FINDING",
    "C03": "unsigned storage with ids at the top of the type (uint8 / uint16); periodic trajectories of up to 2.2 million frames with closed-form counts (CountsPeriodic.tla)",
    "C04": "prior_counts as a matrix (non-symmetric ones included, SymmetricModel); metastable pairs with 2^28 self-counts",
    "C05": "index operands in every integer form incl. unsigned, numpy scalars and 0-d arrays; rows of 300..40000 elements; flatten() must hand out a copy",
    "C06": "Invert (~a); element type of rows / flat data observed after every step; boolean twin array (~mask); flatten() must hand out a copy",
    "C07": "rare-state and drift-ladder chains (stiff cases compared at 1e-6); chains of 999..1200 states with closed forms (LineChain.tla); clauses evaluated without expected values on a 5200-state chain with 3333 sinks",
    "C08": "populations passed positionally; sparse arrays; conservation / definition clauses evaluated without expected values on a 5200-state chain with 3333 sinks",
    "C09": "k-medoids with zero sweeps; estimators reconfigured before fit",
    "C10": "predict asked in a type other than the fitted one; reassign / batch_reassign over tiny mdtraj trajectories",
    "C11": "narrow integer counts with scaled thresholds; embedding into 19 states; 2^60 self-counts on one state of every component",
    "C12": "caps of 300 / 1000 sweeps on a slowly converging matrix; both implementations must agree on whether the cap was exhausted (WarnAlike)",
    "C13": "thread teams smaller than omp_get_max_threads (OMP_THREAD_LIMIT, OMP_DYNAMIC); wide rows; a kernel outside the access model of Prange.tla is left to the replay",
    "C14": "assembly with more than 2^20 elements per rank; h5 files with unpadded table names; load_trajectory_as_striped with per-file arguments",
    "C15": "non-increasing atom selections; rectangular arrays beyond 2^16 rows; trajectory files rewritten under the same name between two calls",
    "C16": "max_n_states in the configuration round trip; populations down to 1e-6 through save / load; from_assignments; TrimMapping / estimator life cycle / resampling parts (TrimMapping.tla, MSMLife.tla, Resample.tla)",
    "C17": "networks in units of 2^-60 and next to an unreachable edge of 2^62; thorough tier: a flow that decomposes into more than 10^4 pathways (clauses evaluated on the result)",
    "C18": "pooled sessions of 18 x 65000 frames; trajectories as tuples / generators / iterators; workers under the poisoning allocator",
    "C19": "history = modules imported before the call (gradual-underflow probes); same objects overwritten in place and passed again",
    "C20": "library callers through the real radians -> degrees conversion (float32, seam angles 359.999994 and psi 99.999985); RotamerFeaturizer.fit with 1 and 2 workers; label injection x 65536 for the transition bookkeeping; order / disorder bookkeeping (Disorder.tla)",
}
for _k, _v in NOTE_ADD.items():
    CHECKS[_k]["note"] += "; later additions: " + _v

ENGINES = [
    dict(name="tlc", path="/opt/veriftools/tla/tla2tools.jar", kind_free_text="explicit-state model checker for the TLA+ modules in /verif/specs"),
    dict(name="replay-drivers", path="/verif/props", kind_free_text="per-property drivers: run TLC, parse emitted behaviours, replay them into a scratch build of /repo, or record traces from the real code and have TLC validate them"),
    dict(name="simulated-mpi", path="/verif/harness/fakempi", kind_free_text="thread-per-rank simulated mpi4py with scheduler-controlled arrival order"),
]

NOT_YET = "no check is claimed for this property yet (machinery under construction in this session; see DESIGN.md section 6 for the planned specification)"


def main():
    ids = ["C%02d" % i for i in range(1, 21)]
    checks = []
    na = []
    for pid in ids:
        if pid in CHECKS and os.path.exists(os.path.join(VERIF, "props", pid.lower() + ".py")):
            c = CHECKS[pid]
            checks.append({
                "property_id": pid,
                "quick_cmd": "./check %s --tier quick" % pid,
                "thorough_cmd": "./check %s --tier thorough" % pid,
                "evidence_file": "/verif/evidence/%s.json" % pid,
                "replay_cmd_template": "./check %s --replay {path}" % pid,
                "engine": "tlc",
                "level_claimed": {"category": "model_checking", "text": c["text"], "design_ref": c["ref"]},
                "level_note": c["note"],
                "technique": c["technique"],
            })
        else:
            na.append({"property_id": pid, "reason": CHECKS.get(pid, {}).get("na", NOT_YET)})
    for e in ENGINES:
        e["serves_properties"] = [c["property_id"] for c in checks]
    man = {
        "version": 1,
        "setup_cmd": "./check --setup",
        "hooks": {
            "guard": "ENSPARA_VERIF",
            "enable": "checks export ENSPARA_VERIF=1 before building/importing the scratch copy of /repo; no source hook exists so far (all instrumentation is injected from /verif: simulated mpi4py, pool shim, logging handlers, wrappers)",
            "baseline_off_cmd": "cd /repo && env -u ENSPARA_VERIF /venv/bin/python -m pytest -ra -q -p no:cacheprovider --timeout=900 --continue-on-collection-errors",
            "source_commits": [],
            "add_only": True,
        },
        "engines": ENGINES,
        "checks": checks,
        "not_applicable": na,
        "notes": "Model-based verification with explicit TLA+ specifications (specs/), TLC, and two-way conformance binding; see DESIGN.md.",
    }
    with open(os.path.join(VERIF, "MANIFEST.json"), "w") as fh:
        json.dump(man, fh, indent=1)
    print("MANIFEST.json: %d checks, %d not claimed" % (len(checks), len(na)))


if __name__ == "__main__":
    main()
