"""Core machinery shared by every check.

* build_repo(): scratch build of /repo's *current working tree* (compiled
  extensions cached by a hash of the extension sources, python files always
  re-synced).
* run_tlc(): run TLC on a module/config, parse statistics, PrintT emissions
  and invariant violations.
* Evidence / known-findings / violation bookkeeping.

Nothing here knows about a particular property.
"""
import atexit
import fcntl
import hashlib
import json
import os
import re
import shutil
import subprocess
import sys
import tempfile
import time

VERIF = os.path.dirname(os.path.dirname(os.path.abspath(__file__)))
REPO = os.environ.get("VERIF_REPO", "/repo")
PY = "/venv/bin/python"
SPECS = os.path.join(VERIF, "specs")
TLA_JAR = "/opt/veriftools/tla/tla2tools.jar"
CACHE = os.environ.get("VERIF_CACHE", "/tmp/enspara_verif_cache")
GUARD = "ENSPARA_VERIF"

_scratch_dirs = []


def _cleanup():
    for d in _scratch_dirs:
        shutil.rmtree(d, ignore_errors=True)


atexit.register(_cleanup)


def scratch(prefix="ev_"):
    d = tempfile.mkdtemp(prefix=prefix, dir=os.environ.get("VERIF_TMP", "/tmp"))
    _scratch_dirs.append(d)
    return d


class MachineryError(Exception):
    """Something in the verification machinery failed (exit code 2)."""


# --------------------------------------------------------------------------
# build

_EXT_SUFFIXES = (".pyx", ".pxd", ".pxi", ".c", ".h", ".cpp")


def _ext_hash(repo):
    h = hashlib.sha256()
    files = []
    for root, dirs, fs in os.walk(repo):
        dirs[:] = [d for d in dirs if d not in (".git", "build", "__pycache__")]
        for f in fs:
            if f.endswith(_EXT_SUFFIXES) or (f == "setup.py" and root == repo):
                p = os.path.join(root, f)
                # generated C next to a .pyx is not a source
                if f.endswith((".c", ".cpp")) and os.path.exists(os.path.splitext(p)[0] + ".pyx"):
                    continue
                files.append(p)
    for p in sorted(files):
        h.update(os.path.relpath(p, repo).encode())
        with open(p, "rb") as fh:
            h.update(fh.read())
    h.update(sys.version.encode())
    return h.hexdigest()[:20]


def build_repo(repo=None):
    """Return a directory containing a copy of the working tree of `repo`
    with compiled extensions; put it first on PYTHONPATH."""
    repo = repo or REPO
    os.makedirs(CACHE, exist_ok=True)
    key = _ext_hash(repo)
    cdir = os.path.join(CACHE, key)
    with open(os.path.join(CACHE, ".lock"), "w") as lk:
        fcntl.flock(lk, fcntl.LOCK_EX)
        if not os.path.exists(os.path.join(cdir, "OK")):
            shutil.rmtree(cdir, ignore_errors=True)
            bdir = tempfile.mkdtemp(prefix="ev_build_", dir="/tmp")
            try:
                subprocess.run(["rsync", "-a", "--exclude", ".git", "--exclude", "enspara/test",
                                "--exclude", "docs", repo + "/", bdir + "/"], check=True)
                env = dict(os.environ)
                env[GUARD] = "1"
                r = subprocess.run([PY, "setup.py", "build_ext", "--inplace", "-j4"], cwd=bdir,
                                   env=env, stdout=subprocess.PIPE, stderr=subprocess.STDOUT, text=True)
                if r.returncode != 0:
                    raise MachineryError("build of /repo working tree failed:\n" + r.stdout[-4000:])
                os.makedirs(cdir)
                n = 0
                for root, _, fs in os.walk(os.path.join(bdir, "enspara")):
                    for f in fs:
                        if f.endswith(".so"):
                            rel = os.path.relpath(os.path.join(root, f), bdir)
                            os.makedirs(os.path.dirname(os.path.join(cdir, rel)), exist_ok=True)
                            shutil.copy2(os.path.join(root, f), os.path.join(cdir, rel))
                            n += 1
                if n < 3:
                    raise MachineryError("build produced %d extension modules, expected 3" % n)
                open(os.path.join(cdir, "OK"), "w").write(time.ctime())
                # prune old cache entries (keep the 3 most recent)
                ents = sorted((e for e in os.listdir(CACHE) if os.path.isdir(os.path.join(CACHE, e))),
                              key=lambda e: os.path.getmtime(os.path.join(CACHE, e)))
                for e in ents[:-8]:
                    shutil.rmtree(os.path.join(CACHE, e), ignore_errors=True)
            finally:
                shutil.rmtree(bdir, ignore_errors=True)
        run = scratch("ev_repo_")
        subprocess.run(["rsync", "-a", "--exclude", "OK", cdir + "/", run + "/"], check=True)
        os.utime(cdir)
        fcntl.flock(lk, fcntl.LOCK_UN)
    subprocess.run(["rsync", "-a", "--exclude", ".git", "--exclude", "docs", "--exclude", "*.so",
                    repo + "/", run + "/"], check=True)
    return run


def activate(build_dir, fake_mpi=True):
    """Make `import enspara` resolve to the scratch build inside this process."""
    os.environ[GUARD] = "1"
    paths = [build_dir]
    if fake_mpi:
        paths.insert(0, os.path.join(VERIF, "harness", "fakempi"))
    for p in reversed(paths):
        if p in sys.path:
            sys.path.remove(p)
        sys.path.insert(0, p)
    os.environ["PYTHONPATH"] = os.pathsep.join(paths + [VERIF])
    for m in list(sys.modules):
        if m == "enspara" or m.startswith("enspara."):
            del sys.modules[m]
    import logging
    if not getattr(activate, "_quiet", False):
        h = logging.StreamHandler()
        h.setLevel(logging.CRITICAL)      # keep library chatter off the check's output
        logging.getLogger().addHandler(h)
        activate._quiet = True
    import enspara  # noqa
    if not os.path.abspath(enspara.__file__).startswith(os.path.abspath(build_dir)):
        raise MachineryError("enspara imported from %s, not from the scratch build" % enspara.__file__)


# --------------------------------------------------------------------------
# TLC

class TLCResult:
    def __init__(self):
        self.generated = 0
        self.distinct = 0
        self.depth = 0
        self.ok = False
        self.violated = None      # name of violated invariant/property
        self.error = None
        self.stdout = ""
        self.prints = []          # parsed PrintT values (tag, payload)
        self.wall = 0.0
        self.coverage = {}        # action name -> count
        self.cmd = ""


_RE_STATS = re.compile(r"(\d+) states generated, (\d+) distinct states found")
_RE_DEPTH = re.compile(r"depth of the complete state graph search is (\d+)")
_RE_INV = re.compile(r"Invariant (\S+) is violated|Action property (\S+) is violated|"
                     r"Temporal properties were violated|property (\S+) .* violated")
_RE_COV = re.compile(r"^<(\w+) line \d+, col \d+ to line \d+, col \d+ of module (\w+)>: (\d+):(\d+)")


def run_tlc(module, cfg, cwd, workers=None, timeout=1800, extra=(), env=None, simulate=None,
            seed=None, coverage=False, deadlock=False, java_opts=()):
    """Run TLC on cwd/module.tla with cwd/cfg.  `cwd` may be a spec directory;
    all of specs/common is on the module search path."""
    workers = workers or min(16, os.cpu_count() or 4)
    meta = scratch("ev_tlc_")
    libs = os.pathsep.join([os.path.join(SPECS, d) for d in sorted(os.listdir(SPECS))
                            if os.path.isdir(os.path.join(SPECS, d))])
    cmd = ["java", "-XX:+UseParallelGC", "-Xmx6g", "-DTLA-Library=" + libs,
           "-Djava.io.tmpdir=" + meta] + list(java_opts) + \
          ["-cp", TLA_JAR + ":/opt/veriftools/tla/CommunityModules-deps.jar", "tlc2.TLC",
           "-workers", str(workers), "-metadir", meta, "-noGenerateSpecTE", "-config", cfg]
    if not deadlock:
        cmd += ["-deadlock"]
    if coverage:
        cmd += ["-coverage", "1"]
    if simulate:
        cmd += ["-simulate", simulate]
    if seed is not None:
        cmd += ["-seed", str(seed)]
    cmd += list(extra) + [module]
    e = dict(os.environ)
    if env:
        e.update(env)
    t0 = time.time()
    res = TLCResult()
    res.cmd = " ".join(cmd)
    try:
        p = subprocess.run(cmd, cwd=cwd, env=e, stdout=subprocess.PIPE, stderr=subprocess.STDOUT,
                           text=True, timeout=timeout)
        out = p.stdout
        rc = p.returncode
    except subprocess.TimeoutExpired as ex:
        out = (ex.stdout or b"").decode("utf8", "replace") if isinstance(ex.stdout, bytes) else (ex.stdout or "")
        rc = -9
        res.error = "timeout after %ss" % timeout
    res.wall = time.time() - t0
    res.stdout = out
    shutil.rmtree(meta, ignore_errors=True)
    for m in _RE_STATS.finditer(out):
        res.generated, res.distinct = int(m.group(1)), int(m.group(2))
    m = _RE_DEPTH.search(out)
    if m:
        res.depth = int(m.group(1))
    m = _RE_INV.search(out)
    if m:
        res.violated = next((g for g in m.groups() if g), "temporal")
    for line in out.splitlines():
        mc = _RE_COV.match(line)
        if mc:
            res.coverage[mc.group(1)] = res.coverage.get(mc.group(1), 0) + int(mc.group(4))
    res.prints = parse_prints(out)
    if rc == 0 and "Model checking completed. No error has been found." in out:
        res.ok = True
    elif simulate and rc == 0:
        res.ok = True
    elif res.violated is None and res.error is None:
        # find an error message
        mm = re.search(r"Error: (.*)", out)
        res.error = (mm.group(1) if mm else "TLC exit %s" % rc) + "\n" + out[-3000:]
    return res


def _balanced(text):
    """bracket balance of << >> { } [ ] ( ) outside string literals"""
    depth, i, n = 0, 0, len(text)
    while i < n:
        ch = text[i]
        if ch == '"':
            i += 1
            while i < n and text[i] != '"':
                i += 2 if text[i] == "\\" else 1
        elif text.startswith("<<", i):
            depth += 1
            i += 1
        elif text.startswith(">>", i):
            depth -= 1
            i += 1
        elif ch in "{[(":
            depth += 1
        elif ch in "}])":
            depth -= 1
        i += 1
    return depth


def parse_prints(out):
    """PrintT(<<"TAG", value>>) output -> list of (tag, obj).  TLC wraps wide
    values over several lines, so lines are joined until brackets balance.
    JSON strings produced by ToJson are decoded; other values go through
    tla_value()."""
    res = []
    lines = out.splitlines()
    i = 0
    while i < len(lines):
        line = lines[i]
        i += 1
        if not re.match(r'^<<\s*"', line):
            continue
        buf = line
        if line.startswith('<<"CASE", "') and line.endswith('">>'):
            # fast path: one ToJson string on one line
            try:
                res.append(("CASE", json.loads(json.loads(line[10:-2]))))
                continue
            except ValueError:
                pass
        while _balanced(buf) > 0 and i < len(lines):
            buf += " " + lines[i].strip()
            i += 1
        m = re.match(r'^<<\s*"([A-Za-z0-9_]+)",\s*(.*)>>\s*$', buf, re.S)
        if not m:
            continue
        tag, rest = m.group(1), m.group(2).strip()
        if rest.startswith('"') and _is_single_string(rest):
            try:
                s = json.loads(rest)       # TLA+ string escapes are a subset of JSON's
                try:
                    res.append((tag, json.loads(s)))
                except ValueError:
                    res.append((tag, s))
            except ValueError:
                res.append((tag, rest))
        else:
            res.append((tag, tla_value(rest)))
    return res


def _is_single_string(rest):
    i, n = 1, len(rest)
    while i < n and rest[i] != '"':
        i += 2 if rest[i] == "\\" else 1
    return i == n - 1


def tla_value(s):
    """Parser for printed TLA+ values: ints, strings, booleans, tuples <<..>>, sets {..},
    records [a |-> v, ...] (-> dict) and functions (a :> v @@ ...) are not needed."""
    s = s.strip()
    toks = re.findall(r'<<|>>|\{|\}|\[|\]|\|->|,|-?\d+|"(?:[^"\\]|\\.)*"|TRUE|FALSE|[A-Za-z_]\w*', s)
    pos = [0]

    def val():
        t = toks[pos[0]]
        pos[0] += 1
        if t in ("<<", "{"):
            close = ">>" if t == "<<" else "}"
            items = []
            while toks[pos[0]] != close:
                if toks[pos[0]] == ",":
                    pos[0] += 1
                    continue
                items.append(val())
            pos[0] += 1
            return items
        if t == "[":
            rec = {}
            while toks[pos[0]] != "]":
                if toks[pos[0]] == ",":
                    pos[0] += 1
                    continue
                key = toks[pos[0]]
                if toks[pos[0] + 1] != "|->":
                    raise ValueError("unsupported TLA+ value near %r" % key)
                pos[0] += 2
                rec[key] = val()
            pos[0] += 1
            return rec
        if t == "TRUE":
            return True
        if t == "FALSE":
            return False
        if t.startswith('"'):
            return json.loads(t)
        try:
            return int(t)
        except ValueError:
            return t
    vals = []
    while pos[0] < len(toks):
        if toks[pos[0]] == ",":
            pos[0] += 1
            continue
        vals.append(val())
    return vals if len(vals) != 1 else vals[0]


def parse_sim_traces(directory, prefix="tr"):
    """Behaviours written by `tlc -simulate file=<dir>/<prefix>,num=N`: returns, per behaviour,
    the list of states (dict variable -> value)."""
    out = []
    for f in sorted(os.listdir(directory)):
        if not f.startswith(prefix + "_"):
            continue
        txt = open(os.path.join(directory, f)).read()
        states = []
        for block in re.split(r"\nSTATE_\d+ == *\n", "\n" + txt)[1:]:
            block = block.split("\n\n")[0]
            st = {}
            for part in re.split(r"\n?/\\ (?=\w+ = )", "\n" + block):
                m = re.match(r"(\w+) = (.*)$", part.strip(), re.S)
                if m:
                    st[m.group(1)] = tla_value(m.group(2))
            if st:
                states.append(st)
        out.append(states)
    return out


def write_cfg(path, spec=None, init=None, next_=None, invariants=(), properties=(), constants=None,
              constraints=(), view=None, postcondition=None, check_deadlock=False, action_constraints=()):
    lines = []
    if spec:
        lines.append("SPECIFICATION " + spec)
    else:
        lines.append("INIT " + (init or "Init"))
        lines.append("NEXT " + (next_ or "Next"))
    for k, v in (constants or {}).items():
        lines.append("CONSTANT %s = %s" % (k, v) if not str(v).startswith("<-") else "CONSTANT %s %s" % (k, v))
    for i in invariants:
        lines.append("INVARIANT " + i)
    for p in properties:
        lines.append("PROPERTY " + p)
    for c in constraints:
        lines.append("CONSTRAINT " + c)
    for c in action_constraints:
        lines.append("ACTION_CONSTRAINT " + c)
    if view:
        lines.append("VIEW " + view)
    if postcondition:
        lines.append("POSTCONDITION " + postcondition)
    lines.append("CHECK_DEADLOCK " + ("TRUE" if check_deadlock else "FALSE"))
    with open(path, "w") as fh:
        fh.write("\n".join(lines) + "\n")
    return path


def tla_lit(v):
    """Python value -> TLA+ literal usable in a cfg/module."""
    if isinstance(v, bool):
        return "TRUE" if v else "FALSE"
    if isinstance(v, int):
        return str(v)
    if isinstance(v, str):
        return json.dumps(v)
    if isinstance(v, (list, tuple)):
        return "<<" + ", ".join(tla_lit(x) for x in v) + ">>"
    if isinstance(v, (set, frozenset)):
        return "{" + ", ".join(tla_lit(x) for x in sorted(v)) + "}"
    if isinstance(v, dict):
        return "[" + ", ".join("%s |-> %s" % (k, tla_lit(x)) for k, x in v.items()) + "]"
    raise TypeError(v)


# --------------------------------------------------------------------------
# check context: evidence, violations, known findings

class Ctx:
    def __init__(self, pid, tier, seed):
        self.pid = pid
        self.tier = tier
        self.seed = seed
        self.t0 = time.time()
        self.states = 0
        self.transitions = 0
        self.traces = 0
        self.evaluations = 0
        self.nontrivial = set()
        self.samples = []
        self.violations = []
        self.known_hits = {}
        self.assumptions = []
        self.notes = {}
        self.tlc_runs = []
        self.exhaustive = True
        self.rule = ""
        self.build = None
        kf = os.path.join(VERIF, "known_findings.json")
        self.known = []
        if os.path.exists(kf):
            data = json.load(open(kf))
            self.known = [k for k in data.get("findings", []) if k["property"] == pid]
        # VERIF_OUT redirects evidence and violation records (used only when a check is pointed at a scratch
        # worktree carrying a seeded change, so that the committed evidence of the real tree is not overwritten)
        self.outroot = os.environ.get("VERIF_OUT")
        self.vdir = os.path.join(self.outroot or os.path.join(VERIF, "out"), "violations", pid)

    # --- TLC bookkeeping
    def tlc(self, module, cfg, cwd, label=None, expect_ok=True, **kw):
        r = run_tlc(module, cfg, cwd, **kw)
        return self._account(r, module, cfg, label, expect_ok)

    def _account(self, r, module, cfg, label, expect_ok):
        self.states += r.distinct
        self.transitions += r.generated
        self.tlc_runs.append({"label": label or "%s/%s" % (module, cfg), "distinct": r.distinct,
                              "generated": r.generated, "depth": r.depth, "wall_s": round(r.wall, 1),
                              "ok": r.ok, "violated": r.violated,
                              "coverage": r.coverage or None})
        if r.error and not r.violated:
            raise MachineryError("TLC failed on %s/%s: %s" % (module, cfg, r.error))
        if expect_ok and r.violated:
            # a design-level violation: the model itself breaks the property
            tr = r.stdout[r.stdout.find("Error:"):][:6000]
            self.violation({"kind": "model", "module": module, "cfg": cfg, "violated": r.violated,
                            "tlc_trace": tr, "cmd": r.cmd},
                           key="model/%s/%s" % (module, r.violated))
        return r

    def tlc_parallel(self, jobs, max_par=8):
        """jobs: list of dicts with the keyword arguments of Ctx.tlc (module, cfg,
        cwd, ...).  Runs them concurrently, accounts them in order."""
        from concurrent.futures import ThreadPoolExecutor
        import threading
        lock = threading.Lock()

        def one(j):
            j = dict(j)
            label = j.pop("label", None)
            expect_ok = j.pop("expect_ok", True)
            r = run_tlc(j.pop("module"), j.pop("cfg"), j.pop("cwd"), **j)
            return label, expect_ok, r
        with ThreadPoolExecutor(max_par) as ex:
            outs = list(ex.map(one, jobs))
        res = []
        for (label, expect_ok, r), j in zip(outs, jobs):
            res.append(self._account(r, j["module"], j["cfg"], label, expect_ok))
        return res

    # --- case bookkeeping
    def case(self, nontrivial_key=None, sample=None):
        self.evaluations += 1
        if nontrivial_key is not None:
            self.nontrivial.add(nontrivial_key)
        if sample is not None and len(self.samples) < 5:
            self.samples.append(sample)

    def violation(self, record, key=None):
        """Report a mismatch.  `key` classifies it for known_findings."""
        for k in self.known:
            if key is not None and key == k["key"]:
                self.known_hits.setdefault(key, {"what": k["what"], "n": 0, "example": record})
                self.known_hits[key]["n"] += 1
                return False
        if not hasattr(self, "_vcount"):
            self._vcount = {}
        nkey = self._vcount.get(key, 0)
        self._vcount[key] = nkey + 1
        if len(self.violations) == 0 and os.path.isdir(self.vdir):
            shutil.rmtree(self.vdir, ignore_errors=True)
        if nkey < 3 and len(self._vcount) <= 40:
            os.makedirs(self.vdir, exist_ok=True)
            path = os.path.join(self.vdir, "%d.json" % len(self.violations))
            record = dict(record)
            record = dict(record)
            record["property"] = self.pid
            record["key"] = key
            with open(path, "w") as fh:
                json.dump(record, fh, indent=1, default=str)
            print("VIOLATION property=%s replay=%s" % (self.pid, path))
            sys.stdout.flush()
        self.violations.append(key)
        return True

    def finish(self, level="model_checking"):
        for key, h in self.known_hits.items():
            print("KNOWN-FINDING: property=%s %s [%s; %d case(s)]" % (self.pid, h["what"], key, h["n"]))
        if self.violations:
            import collections
            for k, c in collections.Counter(self.violations).most_common():
                print("  violation class %-60s x%d" % (k, c))
        ev = {
            "property_id": self.pid,
            "tier": self.tier,
            "seed": self.seed,
            "level": level,
            "coverage": {
                "states": self.states,
                "transitions": self.transitions,
                "traces_validated_against_impl": self.traces,
                "samples": self.samples or ["(no sample recorded)"],
                "evaluations": self.evaluations,
                "distinct_nontrivial": len(self.nontrivial),
                "rule": self.rule,
                "exhaustive": bool(self.exhaustive),
                "tlc_runs": self.tlc_runs,
                "known_findings_hit": {k: v["n"] for k, v in self.known_hits.items()},
            },
            "assumptions": self.assumptions,
            "wall_s": round(time.time() - self.t0, 2),
            "violations": len(self.violations),
        }
        ev["coverage"].update(self.notes)
        evdir = os.path.join(self.outroot, "evidence") if self.outroot else os.path.join(VERIF, "evidence")
        os.makedirs(evdir, exist_ok=True)
        with open(os.path.join(evdir, self.pid + ".json"), "w") as fh:
            json.dump(ev, fh, indent=1, default=str)
        print("%s tier=%s states=%d transitions=%d traces=%d evaluations=%d nontrivial=%d violations=%d wall=%.1fs"
              % (self.pid, self.tier, self.states, self.transitions, self.traces, self.evaluations,
                 len(self.nontrivial), len(self.violations), time.time() - self.t0))
        return 1 if self.violations else 0


def close(x, num, den, tol=1e-9):
    ref = num / den
    return abs(x - ref) <= tol * max(1.0, abs(ref))


# --------------------------------------------------------------------------
# parallel replay

def _chunk_runner(args):
    fn, chunk = args
    os.environ["OMP_NUM_THREADS"] = os.environ.get("VERIF_OMP", "1")
    try:        # a runaway allocation in the code under test becomes a MemoryError in this worker, not an OOM kill
        import resource
        lim = int(os.environ.get("VERIF_WORKER_AS_GB", "12")) << 30
        resource.setrlimit(resource.RLIMIT_AS, (lim, lim))
    except Exception:
        pass
    out = []
    for c in chunk:
        try:
            out.append(fn(c))
        except Exception as ex:  # harness bug, not a verdict
            import traceback
            out.append({"_harness_error": traceback.format_exc(), "case": c})
    return out


def pmap(fn, cases, procs=None, chunk=200):
    """Run fn(case) over cases in forked worker processes; fn is a module-level
    function that returns a result object (picklable).  Order is preserved."""
    import multiprocessing as mp
    procs = procs or min(16, os.cpu_count() or 4)
    cases = list(cases)
    if not cases:
        return []
    chunks = [cases[i:i + chunk] for i in range(0, len(cases), chunk)]
    if procs == 1 or len(chunks) == 1:
        res = [_chunk_runner((fn, ch)) for ch in chunks]
    else:
        # ProcessPoolExecutor notices a worker that died (multiprocessing.Pool would wait for ever)
        from concurrent.futures import ProcessPoolExecutor
        from concurrent.futures.process import BrokenProcessPool
        ctx = mp.get_context("fork")
        try:
            with ProcessPoolExecutor(procs, mp_context=ctx) as pool:
                res = list(pool.map(_chunk_runner, [(fn, ch) for ch in chunks]))
        except BrokenProcessPool:
            raise MachineryError("a replay worker process died (killed or crashed inside the library); "
                                 "re-run with VERIF_PROCS=1 to find the case")
    flat = [x for ch in res for x in ch]
    for x in flat:
        if isinstance(x, dict) and "_harness_error" in x:
            raise MachineryError("replay driver crashed:\n%s\ncase=%r" % (x["_harness_error"], x["case"]))
    return flat


def spec_tmp(spec_dir):
    """TLC wants module and cfg in one directory; cfgs are generated, so run
    in a scratch copy of the spec directory."""
    d = scratch("ev_spec_")
    for f in os.listdir(spec_dir):
        if f.endswith(".tla"):
            shutil.copy(os.path.join(spec_dir, f), d)
    return d
