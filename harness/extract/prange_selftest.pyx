# Kernels used by props/c13.py to validate specs/kernels/Prange.tla together with
# harness/extract/prange_access.py (never compiled, never imported).  `good_*` must satisfy
# RaceFree / ScheduleIndependent / InBounds, each `bad_*` must violate the invariant named in
# its comment -- the check fails as machinery failure otherwise (the model would be vacuous).
import numpy as np
from cython.parallel import prange
cimport numpy as np


def good_private(np.ndarray[np.float64_t, ndim=2] X, np.ndarray[np.float64_t, ndim=1] out):
    # private scalar re-initialised in every iteration, a branch, and a reduction
    cdef long n = X.shape[0]
    cdef long m = X.shape[1]
    assert len(out) == n
    cdef long i, j
    cdef double acc, total = 0
    for i in prange(n, nogil=True):
        acc = 0
        for j in range(m):
            if X[i, j] > 0:
                acc = acc + X[i, j]
        out[i] = acc
        total += acc
    return total


def bad_shared_cell(np.ndarray[np.float64_t, ndim=2] X, np.ndarray[np.float64_t, ndim=1] out):
    # violates RaceFree: every iteration accumulates into out[0]
    cdef long n = X.shape[0]
    cdef long m = X.shape[1]
    assert len(out) == n
    cdef long i, j
    for i in prange(n, nogil=True):
        for j in range(m):
            out[0] += X[i, j]


def bad_carried_scalar(np.ndarray[np.float64_t, ndim=2] X, np.ndarray[np.float64_t, ndim=1] out):
    # violates ScheduleIndependent: the accumulator is never reset, so it carries whatever the
    # executing thread computed before
    cdef long n = X.shape[0]
    cdef long m = X.shape[1]
    assert len(out) == n
    cdef long i, j
    cdef double acc = 0
    for i in prange(n, nogil=True):
        for j in range(m):
            acc = acc + X[i, j]
        out[i] = acc


def bad_feature_parallel(np.ndarray[np.float64_t, ndim=2] X, np.ndarray[np.float64_t, ndim=1] out):
    # violates RaceFree: the parallel loop runs over the features, all of which update out[i]
    cdef long n = X.shape[0]
    cdef long m = X.shape[1]
    assert len(out) == n
    cdef long i, j
    for i in range(n):
        for j in prange(m, nogil=True):
            out[i] += X[i, j]


def bad_transposed(np.ndarray[np.float64_t, ndim=2] X, np.ndarray[np.float64_t, ndim=1] out):
    # violates InBounds: X indexed [feature, sample]
    cdef long n = X.shape[0]
    cdef long m = X.shape[1]
    assert len(out) == n
    cdef long i, j
    for i in prange(n, nogil=True):
        out[i] = 0
        for j in range(m):
            out[i] += X[j, i]


def bad_unchecked_length(np.ndarray[np.float64_t, ndim=2] X, np.ndarray[np.float64_t, ndim=1] out):
    # violates InBounds: nothing relates len(out) to X.shape[0]
    cdef long n = X.shape[0]
    cdef long m = X.shape[1]
    cdef long i, j
    for i in prange(n, nogil=True):
        out[i] = 0
        for j in range(m):
            out[i] += X[i, j]
