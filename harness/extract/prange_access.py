"""Static extraction of the memory-access table of Cython loop kernels (properties C13, C18).

The CURRENT text of a .pyx file is turned into plain Python (cdef declarations, typed
signatures, casts, ctypedef/extern blocks removed -- line numbers are preserved) and parsed
with `ast`.  For every function the extractor records

  * the typed arguments (fused element type, ndim) and the fused-type definitions, i.e. which
    buffer dtypes the function accepts;
  * the scalars declared with `cdef` outside the loops;
  * equalities between dimension terms (`n = len(A)`, `assert len(out) == X.shape[0]`,
    `if X.shape[1] != y.shape[0]: raise`, `A = np.zeros((a, b))`), merged into *dimension
    classes*: two array axes / loop extents in one class are known to have the same size;
  * every `prange` loop (and, for functions without one, every outermost serial `range` loop):
    loop variable, extent, enclosing serial loops, and the body as a statement tree of
        store   A[idx...] (=|+=|/=|...) f(loads..., registers...)
        set     scalar    (=|+=|...)    f(loads..., registers...)
        for     inner serial loop (variable, extent, body)
        if      test(loads, registers), body, orelse
        eval    expression statement (loads only)
    where every subscripted load/store carries, per index position, whether it is the prange
    variable, another loop variable (+ constant offset), a constant, a scalar assigned inside the
    body (a data dependent index) or something else;
  * for every scalar assigned in a prange body its Cython/OpenMP class: `private` (plain
    assignment: thread private, undefined at the start of an iteration) or `reduction` (only
    in-place operators).

`tla_module()` renders one function's table as a wrapper module of specs/kernels/Prange.tla.
Nothing in here decides a property: the table is data for the TLA+ model.
"""
import ast
import json
import os
import re

C_TYPES = {"double", "float", "int", "long", "short", "char", "size_t", "Py_ssize_t", "ssize_t",
           "bint", "unsigned", "signed", "object", "void"}


class ExtractError(Exception):
    pass


# --------------------------------------------------------------------------
# .pyx -> python text (same line numbers)

def _split_top(s, sep=","):
    parts, depth, cur = [], 0, ""
    for ch in s:
        if ch in "([{":
            depth += 1
        elif ch in ")]}":
            depth -= 1
        if ch == sep and depth == 0:
            parts.append(cur)
            cur = ""
        else:
            cur += ch
    parts.append(cur)
    return parts


def _strip_comment(line):
    out, q = "", None
    for i, ch in enumerate(line):
        if q:
            out += ch
            if ch == q and line[i - 1] != "\\":
                q = None
        elif ch in "\"'":
            q = ch
            out += ch
        elif ch == "#":
            break
        else:
            out += ch
    return out.rstrip()


def _parse_typed_name(decl):
    """'np.ndarray[T, ndim=2] X' -> ('np.ndarray[T, ndim=2]', 'X', default or None)"""
    decl = decl.strip()
    default = None
    parts = _split_top(decl, "=")
    if len(parts) > 1 and not decl.startswith("*"):
        # careful: 'ndim=2' lives inside brackets, so a top-level '=' is a default
        decl, default = parts[0].strip(), "=".join(parts[1:]).strip()
    m = re.match(r"^(.*?)([A-Za-z_]\w*)$", decl, re.S)
    if not m:
        return "", decl, default
    return m.group(1).strip(), m.group(2), default


def _type_info(typ, fused):
    """element type names and ndim of an argument type"""
    typ = typ.strip()
    m = re.match(r"^[\w\.]*ndarray\[\s*([\w\.]+)\s*(?:,\s*ndim\s*=\s*(\d+))?.*\]$", typ)
    if m:
        return {"elem": m.group(1), "ndim": int(m.group(2) or 1)}
    m = re.match(r"^([\w\.]+)\s*\[([:,\s\d]*)\]$", typ)          # memoryview  double[:, ::1]
    if m:
        return {"elem": m.group(1), "ndim": m.group(2).count(",") + 1}
    if typ in fused:
        infos = [_type_info(t, {}) for t in fused[typ]]
        if infos and all(i and "ndim" in i for i in infos):
            return {"elem": typ, "ndim": infos[0]["ndim"], "members": [i["elem"] for i in infos]}
    return None


def pyx_to_python(text):
    """Returns (python_text, meta) with meta = {fused, signatures, cdefs}"""
    lines = text.split("\n")
    out = list(lines)
    fused, sigs, cdefs = {}, {}, {}
    i, n = 0, len(lines)
    cur_func = None
    cur_indent = 0

    def indent_of(s):
        return len(s) - len(s.lstrip(" "))

    def skip_block(start):
        """blank out the indented block that follows line `start`; return members, next index"""
        ind = indent_of(lines[start])
        members = []
        k = start + 1
        while k < n and (not lines[k].strip() or indent_of(lines[k]) > ind):
            if lines[k].strip():
                members.append(_strip_comment(lines[k]).strip())
            out[k] = ""
            k += 1
        return members, k

    while i < n:
        raw = lines[i]
        s = _strip_comment(raw).strip()
        ind = indent_of(raw)
        if cur_func and s and ind <= cur_indent and not s.startswith(("@", ")")):
            cur_func = None
        if re.match(r"^(from\s+\S+\s+)?cimport\b", s):
            out[i] = ""
            i += 1
            continue
        m = re.match(r"^ctypedef\s+fused\s+(\w+)\s*:", s)
        if m:
            members, k = skip_block(i)
            fused[m.group(1)] = [x for x in members if x and x != "pass"]
            out[i] = ""
            i = k
            continue
        if re.match(r"^ctypedef\b", s) or re.match(r"^DEF\b", s):
            out[i] = ""
            i += 1
            continue
        if re.match(r"^cdef\s+extern\b", s) or re.match(r"^cdef\s+(struct|enum|union|class)\b", s):
            _, k = skip_block(i)
            out[i] = ""
            i = k
            continue
        is_hdr = False
        if re.match(r"^def\s+\w+\s*\(", s):
            is_hdr = True
        elif re.match(r"^c?p?def\s", s) and "(" in s and "=" not in s.split("(")[0]:
            hdr, k = s, i
            while hdr.count("(") > hdr.count(")") and k + 1 < n:
                k += 1
                hdr += " " + _strip_comment(lines[k]).strip()
            is_hdr = hdr.rstrip().endswith(":")
        if is_hdr:
            # function header (possibly over several lines)
            hdr, k = s, i
            while hdr.count("(") > hdr.count(")") and k + 1 < n:
                k += 1
                hdr += " " + _strip_comment(lines[k]).strip()
            name = re.search(r"(\w+)\s*\($", hdr[:hdr.index("(") + 1]).group(1)
            inner = hdr[hdr.index("(") + 1:hdr.rindex(")")]
            args, pyargs = [], []
            for a in _split_top(inner):
                a = a.strip()
                if not a:
                    continue
                if a.startswith("*"):
                    pyargs.append(a)
                    continue
                typ, nm, default = _parse_typed_name(a)
                info = {"name": nm, "type": typ}
                ti = _type_info(typ, fused) if typ else None
                if ti:
                    info.update(ti)
                args.append(info)
                pyargs.append(nm + ("=" + default if default is not None else ""))
            sigs[name] = {"args": args, "line": i + 1}
            out[i] = " " * ind + "def %s(%s):" % (name, ", ".join(pyargs))
            for kk in range(i + 1, k + 1):
                out[kk] = ""
            cur_func, cur_indent = name, ind
            cdefs.setdefault(name, {})
            i = k + 1
            continue
        m = re.match(r"^cdef\s+(.*)$", s)
        if m:
            rest = m.group(1)
            mt = re.match(r"^([\w\.]+\s*\[[^\]]*\])\s*(.*)$", rest)
            if mt:
                typ, decls = mt.group(1), mt.group(2)
            else:
                first = _split_top(_split_top(rest, "=")[0])[0]
                words = first.split()
                typ = " ".join(words[:-1])
                decls = rest[first.rindex(words[-1]):] if words else rest
            stmts = []
            for d in _split_top(decls):
                d = d.strip()
                if not d:
                    continue
                pp = _split_top(d, "=")
                nm = pp[0].strip()
                if cur_func:
                    info = {"type": typ, "line": i + 1}
                    ti = _type_info(typ, fused)
                    if ti:
                        info.update(ti)
                    cdefs[cur_func][nm] = info
                if len(pp) > 1:
                    stmts.append("%s = %s" % (nm, "=".join(pp[1:]).strip()))
            out[i] = " " * ind + ("; ".join(stmts) if stmts else "pass")
            i += 1
            continue
        i += 1
    txt = "\n".join(out)
    # C casts  <double>x
    known = set(C_TYPES) | set(fused)
    def _cast(mo):
        words = mo.group(1).replace("*", " ").split()
        if words and all(w in known or re.match(r"^(np|numpy|cnp)\.\w+$", w) for w in words):
            return ""
        return mo.group(0)
    txt = re.sub(r"<\s*([A-Za-z_][\w\.]*(?:\s+[A-Za-z_][\w\.]*)*(?:\s*\*)*)\s*>(?=\s*[\w\(\-])", _cast, txt)
    return txt, {"fused": fused, "signatures": sigs, "cdefs": cdefs}


# --------------------------------------------------------------------------
# dimension terms

def _src(node):
    return ast.unparse(node)


def _dim_term(node):
    """normalised dimension term or None:  'A#k' (axis k of array A), or a scalar name, or int"""
    if isinstance(node, ast.Call) and isinstance(node.func, ast.Name) and node.func.id == "len" \
            and len(node.args) == 1 and isinstance(node.args[0], ast.Name):
        return "%s#0" % node.args[0].id
    if isinstance(node, ast.Subscript) and isinstance(node.value, ast.Attribute) and node.value.attr == "shape" \
            and isinstance(node.value.value, ast.Name) and isinstance(node.slice, ast.Constant):
        return "%s#%d" % (node.value.value.id, node.slice.value)
    if isinstance(node, ast.Name):
        return node.id
    if isinstance(node, ast.Constant) and isinstance(node.value, int):
        return "=%d" % node.value
    return None


ALLOCATORS = {"zeros", "empty", "ones", "full"}


def _dim_facts(fn, toplevel_only_alloc=True):
    """equalities between dimension terms established by the statements of fn"""
    facts = []

    def alloc(target, call):
        f = call.func
        fname = f.attr if isinstance(f, ast.Attribute) else getattr(f, "id", "")
        if fname in ALLOCATORS and call.args:
            shp = call.args[0]
            elts = shp.elts if isinstance(shp, (ast.Tuple, ast.List)) else [shp]
            for k, e in enumerate(elts):
                t = _dim_term(e)
                if t:
                    facts.append(("%s#%d" % (target, k), t, "alloc", call.lineno))

    for st in fn.body:                                 # unconditional statements only
        if isinstance(st, ast.Assign) and len(st.targets) == 1 and isinstance(st.targets[0], ast.Name):
            t = _dim_term(st.value)
            if t and not isinstance(st.value, (ast.Name, ast.Constant)):
                facts.append((st.targets[0].id, t, "assign", st.lineno))
            elif isinstance(st.value, ast.Call):
                alloc(st.targets[0].id, st.value)
        if isinstance(st, ast.Assert) and isinstance(st.test, ast.Compare) and len(st.test.ops) == 1 \
                and isinstance(st.test.ops[0], ast.Eq):
            a, b = _dim_term(st.test.left), _dim_term(st.test.comparators[0])
            if a and b:
                facts.append((a, b, "assert", st.lineno))
    for nd in ast.walk(fn):                            # `if a != b: raise` at any depth
        if isinstance(nd, ast.If) and isinstance(nd.test, ast.Compare) and len(nd.test.ops) == 1 \
                and isinstance(nd.test.ops[0], ast.NotEq) and nd.body and isinstance(nd.body[0], ast.Raise):
            a, b = _dim_term(nd.test.left), _dim_term(nd.test.comparators[0])
            if a and b:
                facts.append((a, b, "check", nd.lineno))
    return facts


class _UF:
    def __init__(self):
        self.p = {}

    def find(self, x):
        self.p.setdefault(x, x)
        while self.p[x] != x:
            self.p[x] = self.p[self.p[x]]
            x = self.p[x]
        return x

    def union(self, a, b):
        ra, rb = self.find(a), self.find(b)
        if ra != rb:
            self.p[rb] = ra


# --------------------------------------------------------------------------
# loop bodies

AUG = {ast.Add: "+", ast.Sub: "-", ast.Mult: "*", ast.Div: "/", ast.FloorDiv: "//", ast.Mod: "%",
       ast.BitOr: "|", ast.BitAnd: "&", ast.BitXor: "^", ast.Pow: "**", ast.LShift: "<<", ast.RShift: ">>"}


def _loop_call(node):
    """('prange'|'range', extent_node or None) for `for v in prange(n, ...)`"""
    it = node.iter
    if isinstance(it, ast.Call):
        f = it.func
        name = f.id if isinstance(f, ast.Name) else f.attr if isinstance(f, ast.Attribute) else None
        if name in ("prange", "range", "xrange"):
            ext = it.args[0] if len(it.args) == 1 else None
            return ("prange" if name == "prange" else "range"), ext
    return None, None


def _assigned_scalars(stmts):
    """name -> set of ops ('=' or '+', ...) of the scalars assigned in the statements (loop targets excluded)"""
    res = {}
    for st in stmts:
        for nd in ast.walk(st):
            if isinstance(nd, ast.Assign):
                for t in nd.targets:
                    for e in (t.elts if isinstance(t, ast.Tuple) else [t]):
                        if isinstance(e, ast.Name):
                            res.setdefault(e.id, set()).add("=")
            elif isinstance(nd, ast.AugAssign) and isinstance(nd.target, ast.Name):
                res.setdefault(nd.target.id, set()).add(AUG.get(type(nd.op), "?"))
    return res


class _Body:
    def __init__(self, pvar, loopvars, scalars):
        self.pvar = pvar
        self.loopvars = set(loopvars)
        self.scalars = scalars
        self.unsupported = []
        self.nid = 0

    def idx(self, node):
        base = {"t": "other", "name": "", "v": 0, "isp": False, "src": _src(node)}
        off, nd = 0, node
        if isinstance(nd, ast.BinOp) and isinstance(nd.op, (ast.Add, ast.Sub)) and isinstance(nd.right, ast.Constant) \
                and isinstance(nd.right.value, int):
            off = nd.right.value if isinstance(nd.op, ast.Add) else -nd.right.value
            nd = nd.left
        if isinstance(nd, ast.UnaryOp) and isinstance(nd.op, ast.USub) and isinstance(nd.operand, ast.Constant) and off == 0:
            return dict(base, t="const", v=-nd.operand.value)
        if isinstance(nd, ast.Constant) and isinstance(nd.value, int) and off == 0:
            return dict(base, t="const", v=nd.value)
        if isinstance(nd, ast.Name):
            if nd.id == self.pvar or nd.id in self.loopvars:
                return dict(base, t="var", name=nd.id, v=off, isp=(nd.id == self.pvar))
            if nd.id in self.scalars and off == 0:
                return dict(base, t="reg", name=nd.id)
        return base

    def expr(self, node):
        """(loads, regs) of an expression, in evaluation (source) order"""
        loads, regs = [], []

        def walk(nd):
            if isinstance(nd, ast.Subscript) and not (isinstance(nd.value, ast.Attribute) and nd.value.attr == "shape"):
                sl = nd.slice
                elts = sl.elts if isinstance(sl, ast.Tuple) else [sl]
                for e in elts:
                    walk(e)
                if not isinstance(nd.value, ast.Name):
                    walk(nd.value)
                loads.append({"arr": _src(nd.value), "idx": [self.idx(e) for e in elts]})
                return
            if isinstance(nd, ast.Name):
                if nd.id in self.scalars and nd.id not in regs:
                    regs.append(nd.id)
                return
            for ch in ast.iter_child_nodes(nd):
                walk(ch)
        if node is not None:
            walk(node)
        return loads, regs

    def new_id(self):
        self.nid += 1
        return self.nid

    def stmts(self, body):
        out = []
        for st in body:
            out.extend(self.stmt(st))
        return out

    def stmt(self, st):
        ln = getattr(st, "lineno", 0)
        if isinstance(st, (ast.Assign, ast.AugAssign)):
            if isinstance(st, ast.Assign):
                if len(st.targets) != 1 or isinstance(st.targets[0], ast.Tuple):
                    self.unsupported.append("line %d: multiple assignment" % ln)
                    return []
                tgt, op = st.targets[0], "="
            else:
                tgt, op = st.target, AUG.get(type(st.op), "?")
            loads, regs = self.expr(st.value)
            if isinstance(tgt, ast.Subscript):
                sl = tgt.slice
                elts = sl.elts if isinstance(sl, ast.Tuple) else [sl]
                for e in elts:                      # loads / registers inside the index expressions
                    l2, r2 = self.expr(e)
                    loads = l2 + loads
                    regs += [r for r in r2 if r not in regs and self.idx(e)["t"] != "reg"]
                return [{"k": "store", "id": self.new_id(), "arr": _src(tgt.value), "idx": [self.idx(e) for e in elts],
                         "op": op, "loads": loads, "regs": regs, "line": ln, "src": _src(st)}]
            if isinstance(tgt, ast.Name):
                return [{"k": "set", "id": self.new_id(), "name": tgt.id, "op": op, "loads": loads, "regs": regs,
                         "line": ln, "src": _src(st)}]
            self.unsupported.append("line %d: assignment target %s" % (ln, _src(tgt)))
            return []
        if isinstance(st, ast.For):
            kind, ext = _loop_call(st)
            if kind is None or ext is None or not isinstance(st.target, ast.Name):
                self.unsupported.append("line %d: loop %s" % (ln, _src(st.iter)))
                return []
            self.loopvars.add(st.target.id)
            return [{"k": "for", "id": self.new_id(), "var": st.target.id, "ext": _dim_term(ext) or "?" + _src(ext),
                     "nested_prange": kind == "prange", "body": self.stmts(st.body), "line": ln}]
        if isinstance(st, ast.If):
            loads, regs = self.expr(st.test)
            return [{"k": "if", "id": self.new_id(), "loads": loads, "regs": regs, "body": self.stmts(st.body),
                     "orelse": self.stmts(st.orelse), "line": ln, "src": _src(st.test)}]
        if isinstance(st, ast.Expr):
            loads, regs = self.expr(st.value)
            return [{"k": "eval", "id": self.new_id(), "loads": loads, "regs": regs, "line": ln}] if loads else []
        if isinstance(st, ast.Pass):
            return []
        if isinstance(st, ast.With):        # `with gil:` etc.
            return self.stmts(st.body)
        self.unsupported.append("line %d: %s" % (ln, type(st).__name__))
        return []


def _loop_vars_in(stmts):
    return {nd.target.id for st in stmts for nd in ast.walk(st) if isinstance(nd, ast.For) and isinstance(nd.target, ast.Name)}


def _find_loops(fn):
    """[(for_node, [enclosing serial for nodes])] for every prange; if there is none, outermost range loops"""
    pr, serial = [], []

    def walk(stmts, outer):
        for st in stmts:
            if isinstance(st, ast.For):
                kind, _ = _loop_call(st)
                if kind == "prange":
                    pr.append((st, list(outer)))
                    continue
                if not outer:
                    serial.append((st, []))
                walk(st.body, outer + [st])
            elif isinstance(st, (ast.With, ast.If, ast.While, ast.Try)):
                for fld in ("body", "orelse", "finalbody"):
                    walk(getattr(st, fld, []) or [], outer)
    walk(fn.body, [])
    return pr if pr else [(s, o) for s, o in serial if _loop_call(s)[0] == "range"]


def _extract_function(fn, meta):
    name = fn.name
    sig = meta["signatures"].get(name, {"args": [{"name": a.arg, "type": ""} for a in fn.args.args], "line": fn.lineno})
    cdefs = meta["cdefs"].get(name, {})
    info = {"name": name, "line": fn.lineno, "args": sig["args"],
            "cdefs": {k: v for k, v in cdefs.items()}, "facts": [list(f) for f in _dim_facts(fn)],
            "loops": [], "unsupported": [], "calls": []}
    for st in fn.body:       # top-level calls (used to chain validation helpers and kernels)
        call = st.value if isinstance(st, (ast.Expr, ast.Assign, ast.Return)) and isinstance(getattr(st, "value", None), ast.Call) else None
        if call is not None and isinstance(call.func, ast.Name):
            info["calls"].append({"func": call.func.id, "args": [a.id if isinstance(a, ast.Name) else None for a in call.args],
                                  "line": st.lineno})
    arrays = {}
    for a in sig["args"]:
        if "ndim" in a:
            arrays[a["name"]] = a["ndim"]
    for k, v in cdefs.items():
        if "ndim" in v:
            arrays[k] = v["ndim"]
    # raw pointers (cdef T* p, <T*> casts): addresses are computed by hand, the element-level access model cannot
    # see where a load goes -- the function is declared unsupported (the replay decides it) instead of being modelled
    # through a guess
    for k, v in cdefs.items():
        if "*" in str(v.get("type", "")) or k.lstrip().startswith("*"):
            info["unsupported"].append("line %s: pointer-typed local %s %s" % (v.get("line"), v.get("type"), k))
    for loop, outer in _find_loops(fn):
        kind, ext = _loop_call(loop)
        outer_vars = [o.target.id for o in outer if isinstance(o.target, ast.Name)]
        scal = _assigned_scalars(loop.body)
        inner_lv = _loop_vars_in(loop.body)
        for v in list(scal):
            if v in inner_lv or v == loop.target.id:
                del scal[v]
        b = _Body(loop.target.id, set(outer_vars) | inner_lv, scal)
        body = b.stmts(loop.body)
        if ext is None:
            b.unsupported.append("line %d: loop extent %s" % (loop.lineno, _src(loop.iter)))
        outs = []
        for o in outer:
            k2, e2 = _loop_call(o)
            if k2 is None or e2 is None:
                b.unsupported.append("line %d: enclosing loop %s" % (o.lineno, _src(o.iter)))
                continue
            outs.append({"var": o.target.id, "ext": _dim_term(e2) or "?" + _src(e2)})
        info["loops"].append({
            "kind": kind, "var": loop.target.id, "ext": (_dim_term(ext) or "?" + _src(ext)) if ext is not None else "?",
            "line": loop.lineno, "outer": outs, "body": body,
            "private": sorted(k for k, ops in scal.items() if "=" in ops),
            "reduction": sorted(k for k, ops in scal.items() if "=" not in ops),
            "declared_outside": sorted(k for k in scal if k in cdefs),
            "unsupported": b.unsupported})
        info["unsupported"] += b.unsupported
        for nd in _walk_accesses(body):
            arrays.setdefault(nd["arr"], len(nd["idx"]))
    info["arrays"] = arrays
    return info


def _walk_accesses(body):
    for s in body:
        for l in s.get("loads", []):
            yield l
        if s["k"] == "store":
            yield {"arr": s["arr"], "idx": s["idx"], "store": True, "op": s["op"], "line": s["line"]}
        for fld in ("body", "orelse"):
            if fld in s:
                for x in _walk_accesses(s[fld]):
                    yield x


def extract(path):
    """Parse one .pyx file.  Returns {file, fused, functions: {name: info}}"""
    text = open(path).read()
    py, meta = pyx_to_python(text)
    try:
        tree = ast.parse(py)
    except SyntaxError as ex:
        raise ExtractError("cannot parse %s after cdef stripping: %s (line %s: %r)" %
                           (path, ex.msg, ex.lineno, py.split("\n")[(ex.lineno or 1) - 1]))
    funcs = {}
    for nd in tree.body:
        if isinstance(nd, ast.FunctionDef):
            funcs[nd.name] = _extract_function(nd, meta)
    return {"file": path, "fused": meta["fused"], "functions": funcs}


# --------------------------------------------------------------------------
# derived views

NP_T = re.compile(r"^(?:np|numpy|cnp)\.(\w+?)_t$")


def elem_dtypes(mod, elem):
    """numpy dtype names accepted by an element type (fused or plain)"""
    members = mod["fused"].get(elem, [elem])
    out = []
    for m in members:
        mm = NP_T.match(m.strip())
        out.append(mm.group(1) if mm else m.strip())
    return out


def kernel_of(mod, entry):
    """(kernel function info, [validation helper infos with renaming]) reached from a public wrapper by its
    top-level calls; the wrapper itself if it contains the loops"""
    f = mod["functions"][entry]
    if f["loops"]:
        return f, []
    kernel, helpers = None, []
    for c in f["calls"]:
        g = mod["functions"].get(c["func"])
        if g is None:
            continue
        ren = {p["name"]: a for p, a in zip(g["args"], c["args"]) if a}
        if g["loops"]:
            kernel = (g, ren)
        else:
            helpers.append((g, ren))
    if kernel is None:
        raise ExtractError("no loop kernel reachable from %s" % entry)
    return kernel[0], [(h, ren, kernel[1]) for h, ren in helpers]


def supported_dtypes(mod, entry):
    """dtype names accepted for the first typed buffer argument of the kernel behind `entry`"""
    k, _ = kernel_of(mod, entry)
    for a in k["args"]:
        if "elem" in a:
            return elem_dtypes(mod, a["elem"]) if "members" not in a else [NP_T.match(m).group(1) if NP_T.match(m) else m for m in a["members"]]
    return []


def _rename_term(t, ren):
    if "#" in t:
        a, k = t.split("#")
        return "%s#%s" % (ren[a], k) if a in ren else None
    if t.startswith("="):
        return t
    return ren.get(t)          # scalar names of the helper are meaningless outside, unless they are arguments


def dim_classes(mod, entry):
    """Merge the dimension equalities of the kernel behind `entry` (its own assignments / asserts) and of the
    validation helpers its wrapper calls before it.  Returns (kernel_info, term -> class name)."""
    k, helpers = kernel_of(mod, entry)
    uf = _UF()
    for a, b, _, _ in k["facts"]:
        uf.union(a, b)
    for h, ren_h, ren_k in helpers:
        inv = {v: p for p, v in ren_k.items()}           # wrapper name -> kernel parameter
        for a, b, _, _ in h["facts"]:
            ta, tb = _rename_term(a, ren_h), _rename_term(b, ren_h)
            if ta and tb:
                ta, tb = _rename_term(ta, inv) if "#" in ta else ta, _rename_term(tb, inv) if "#" in tb else tb
                if ta and tb:
                    uf.union(ta, tb)
    terms = set(uf.p)
    for arr, nd in k["arrays"].items():
        for d in range(nd):
            terms.add("%s#%d" % (arr, d))

    def loops_ext(body):
        for s in body:
            if s["k"] == "for":
                yield s["ext"]
            for fld in ("body", "orelse"):
                if fld in s:
                    for e in loops_ext(s[fld]):
                        yield e
    for lp in k["loops"]:
        terms.add(lp["ext"])
        terms.update(o["ext"] for o in lp["outer"])
        terms.update(loops_ext(lp["body"]))
    groups = {}
    for t in terms:
        groups.setdefault(uf.find(t), []).append(t)
    cls = {}
    for root, ts in groups.items():
        scal = sorted(t for t in ts if "#" not in t and not t.startswith(("=", "?")))
        const = sorted(t for t in ts if t.startswith("="))
        nm = scal[0] if scal else const[0] if const else sorted(ts)[0]
        nm = re.sub(r"[^A-Za-z0-9_]", "_", nm.replace("#", "_dim"))
        for t in ts:
            cls[t] = nm
    return k, cls


# --------------------------------------------------------------------------
# TLA+ rendering

def _q(s):
    return json.dumps(str(s))


def _seq(items):
    return "<<" + ", ".join(items) + ">>"


def _tla_idx(ix):
    return '[t |-> %s, name |-> %s, v |-> %d, p |-> %s]' % (_q(ix["t"]), _q(ix["name"]), ix["v"], "TRUE" if ix["isp"] else "FALSE")


def _tla_loads(loads):
    return _seq('[arr |-> %s, idx |-> %s]' % (_q(l["arr"]), _seq(_tla_idx(i) for i in l["idx"])) for l in loads)


def _tla_stmt(s, cls, reds):
    k = s["k"]
    if k == "store":
        return ('[k |-> "store", id |-> %d, arr |-> %s, idx |-> %s, op |-> %s, loads |-> %s, regs |-> %s]'
                % (s["id"], _q(s["arr"]), _seq(_tla_idx(i) for i in s["idx"]), _q(s["op"]), _tla_loads(s["loads"]),
                   _seq(_q(r) for r in s["regs"])))
    if k == "set":
        return ('[k |-> %s, id |-> %d, name |-> %s, op |-> %s, loads |-> %s, regs |-> %s]'
                % (_q("reduce" if s["name"] in reds else "set"), s["id"], _q(s["name"]), _q(s["op"]), _tla_loads(s["loads"]),
                   _seq(_q(r) for r in s["regs"] if r != s["name"] or s["name"] not in reds)))
    if k == "for":
        return ('[k |-> "for", id |-> %d, var |-> %s, ext |-> %s, body |-> %s]'
                % (s["id"], _q(s["var"]), _q(cls[s["ext"]]), _seq(_tla_stmt(x, cls, reds) for x in s["body"])))
    if k == "if":
        return ('[k |-> "if", id |-> %d, loads |-> %s, regs |-> %s, body |-> %s, orelse |-> %s]'
                % (s["id"], _tla_loads(s["loads"]), _seq(_q(r) for r in s["regs"]),
                   _seq(_tla_stmt(x, cls, reds) for x in s["body"]), _seq(_tla_stmt(x, cls, reds) for x in s["orelse"])))
    if k == "eval":
        return '[k |-> "eval", id |-> %d, loads |-> %s]' % (s["id"], _tla_loads(s["loads"]))
    raise ExtractError("statement kind %s" % k)


def tla_tables(mod, entry):
    """TLA+ text of the three extracted constants for the kernel behind `entry`:
    (TableDef, ArraysDef, classes list, kernel info)"""
    k, cls = dim_classes(mod, entry)
    if k["unsupported"]:
        raise ExtractError("constructs outside the access model in %s: %s" % (k["name"], k["unsupported"]))
    loops = []
    for lp in k["loops"]:
        reds = set(lp["reduction"])
        loops.append('[var |-> %s, ext |-> %s, kind |-> %s, outer |-> %s, priv |-> %s, reds |-> %s,\n     body |-> %s]'
                     % (_q(lp["var"]), _q(cls[lp["ext"]]), _q(lp["kind"]),
                        _seq('[var |-> %s, ext |-> %s]' % (_q(o["var"]), _q(cls[o["ext"]])) for o in lp["outer"]),
                        "{" + ", ".join(_q(p) for p in lp["private"]) + "}",
                        "{" + ", ".join(_q(p) for p in lp["reduction"]) + "}",
                        _seq("\n       " + _tla_stmt(s, cls, reds) for s in lp["body"])))
    table = _seq("\n  " + l for l in loops)
    used = sorted({a["arr"] for lp in k["loops"] for a in _walk_accesses(lp["body"])})
    arrays = "[" + ", ".join('%s |-> %s' % (a if re.match(r"^[A-Za-z]\w*$", a) else a,
                                            _seq(_q(cls["%s#%d" % (a, d)]) for d in range(k["arrays"][a]))) for a in used) + "]"
    for a in used:
        if not re.match(r"^[A-Za-z]\w*$", a):
            raise ExtractError("array expression %r is outside the access model" % a)
    classes = sorted({cls[t] for t in cls if t in {lp["ext"] for lp in k["loops"]}
                      or any(t == "%s#%d" % (a, d) for a in used for d in range(k["arrays"][a]))}
                     | {cls[e] for lp in k["loops"] for e in _all_exts(lp)})
    return table, arrays, classes, k


def _all_exts(lp):
    def rec(body):
        for s in body:
            if s["k"] == "for":
                yield s["ext"]
            for fld in ("body", "orelse"):
                if fld in s:
                    for e in rec(s[fld]):
                        yield e
    for o in lp["outer"]:
        yield o["ext"]
    for e in rec(lp["body"]):
        yield e


def tla_module(mod, entry, modname, class_max, class_min=None, base="Prange"):
    """Wrapper module of Prange.tla holding the extracted table of the kernel behind `entry`."""
    table, arrays, classes, k = tla_tables(mod, entry)
    cmax = "[" + ", ".join("%s |-> %d" % (c, class_max.get(c, class_max.get("*", 2))) for c in classes) + "]"
    class_min = class_min or {}
    cmin = "[" + ", ".join("%s |-> %d" % (c, class_min.get(c, class_min.get("*", 1))) for c in classes) + "]"
    txt = ("---- MODULE %s ----\n(* generated from %s, function %s (line %d) by harness/extract/prange_access.py *)\n"
           "EXTENDS %s\nTableDef == %s\nArraysDef == %s\nClassMaxDef == %s\nClassMinDef == %s\n====\n"
           % (modname, os.path.basename(mod["file"]), k["name"], k["line"], base, table, arrays, cmax, cmin))
    return txt, classes, k


def summary(k):
    """human-readable access table (for evidence notes)"""
    rows = []

    def rec(body, depth):
        for s in body:
            if s["k"] in ("store", "set"):
                tgt = s["arr"] + "[" + ",".join(_show(i) for i in s["idx"]) + "]" if s["k"] == "store" else s["name"]
                rows.append("%s%s %s= f(%s%s)" % ("  " * depth, tgt, "" if s["op"] == "=" else s["op"],
                                                   ", ".join(l["arr"] + "[" + ",".join(_show(i) for i in l["idx"]) + "]" for l in s["loads"]),
                                                   ("; " + ",".join(s["regs"])) if s["regs"] else ""))
            elif s["k"] == "for":
                rows.append("%sfor %s in range(%s)" % ("  " * depth, s["var"], s["ext"]))
                rec(s["body"], depth + 1)
            elif s["k"] == "if":
                rows.append("%sif test(%s)" % ("  " * depth, ", ".join(l["arr"] + "[" + ",".join(_show(i) for i in l["idx"]) + "]" for l in s["loads"])))
                rec(s["body"], depth + 1)
                if s["orelse"]:
                    rows.append("%selse" % ("  " * depth))
                    rec(s["orelse"], depth + 1)
    for lp in k["loops"]:
        rows.append("%s %s in %s(%s)%s private=%s reduction=%s" % (
            "for", lp["var"], lp["kind"], lp["ext"], " inside " + ",".join(o["var"] for o in lp["outer"]) if lp["outer"] else "",
            lp["private"], lp["reduction"]))
        rec(lp["body"], 1)
    return rows


def _show(ix):
    if ix["t"] == "var":
        return ("*" if ix["isp"] else "") + ix["name"] + ("%+d" % ix["v"] if ix["v"] else "")
    if ix["t"] == "const":
        return str(ix["v"])
    if ix["t"] == "reg":
        return "@" + ix["name"]
    return "?(" + ix.get("src", "") + ")"


if __name__ == "__main__":
    import sys
    m = extract(sys.argv[1] if len(sys.argv) > 1 else "/repo/enspara/geometry/libdist.pyx")
    if len(sys.argv) > 2:
        print(tla_module(m, sys.argv[2], "MC_X", {"*": 2})[0])
    else:
        print(json.dumps({"fused": m["fused"]}, indent=1))
        for n, f in m["functions"].items():
            print("==", n, [(a["name"], a.get("elem"), a.get("ndim")) for a in f["args"]], "facts", f["facts"], "unsupported", f["unsupported"])
            print("\n".join(summary(f)))
