"""Static extraction for property C19: every place in the library source where
  (a) a numpy ufunc is called with a `where=` mask  (kind 'masked'), recording whether an
      `out=` buffer is supplied and how that buffer was created when this is visible in
      the same function (np.zeros / np.zeros_like -> 'zero', anything else -> 'other');
  (b) an uninitialised array is allocated (np.empty / np.empty_like / np.ndarray(...)),
      recording what the next statements do with it ('fill', 'Bcast', 'slice-assign',
      'index-assign' => written before any read, else 'unknown').
The result is the routine table of specs/purity/Purity.tla.
"""
import ast
import os

UFUNCS_WITH_WHERE = None  # any np.<name>(..., where=...) call counts


def _name(node):
    if isinstance(node, ast.Attribute):
        b = _name(node.value)
        return (b + "." if b else "") + node.attr
    if isinstance(node, ast.Name):
        return node.id
    return ""


def _zero_init_names(func):
    """names assigned from np.zeros / np.zeros_like / np.ones... inside func"""
    out = {}
    for n in ast.walk(func):
        if isinstance(n, ast.Assign) and isinstance(n.value, ast.Call):
            f = _name(n.value.func)
            for t in n.targets:
                if isinstance(t, ast.Name):
                    if f in ("np.zeros", "np.zeros_like", "numpy.zeros", "numpy.zeros_like"):
                        out[t.id] = "zero"
                    elif f in ("np.ones", "np.ones_like", "np.full", "np.full_like", "np.copy", "np.array"):
                        out[t.id] = "init"
                    elif f in ("np.empty", "np.empty_like"):
                        out[t.id] = "uninit"
    return out


def extract(repo):
    sites = []
    root = os.path.join(repo, "enspara")
    for dp, dn, fs in os.walk(root):
        dn[:] = [d for d in dn if d not in ("test", "__pycache__")]
        for f in sorted(fs):
            if not f.endswith(".py"):
                continue
            path = os.path.join(dp, f)
            rel = os.path.relpath(path, repo)
            try:
                tree = ast.parse(open(path).read())
            except SyntaxError:
                continue
            funcs = [n for n in ast.walk(tree) if isinstance(n, (ast.FunctionDef, ast.AsyncFunctionDef))]
            for fn in funcs:
                zi = _zero_init_names(fn)
                body_nodes = list(ast.walk(fn))
                for n in body_nodes:
                    if not isinstance(n, ast.Call):
                        continue
                    fname = _name(n.func)
                    kws = {k.arg: k.value for k in n.keywords if k.arg}
                    if fname.startswith(("np.", "numpy.")) and "where" in kws and fname.split(".")[-1] not in ("sum", "mean", "any", "all", "max", "min", "prod", "std", "var"):
                        out = kws.get("out")
                        if out is None:
                            kind = "masked_noout"
                        else:
                            on = _name(out)
                            kind = {"zero": "masked_out_zero", "init": "masked_out_init", "uninit": "masked_noout"}.get(
                                zi.get(on), "masked_out_other")
                        sites.append({"site": "%s:%d" % (rel, n.lineno), "func": fn.name, "call": fname, "kind": kind})
                    elif fname in ("np.empty", "np.empty_like", "numpy.empty", "numpy.empty_like", "np.ndarray"):
                        sites.append({"site": "%s:%d" % (rel, n.lineno), "func": fn.name, "call": fname,
                                      "kind": _empty_use(fn, n)})
    # de-duplicate (nested function defs are walked twice)
    seen, out = set(), []
    for s in sites:
        if s["site"] not in seen:
            seen.add(s["site"])
            out.append(s)
    return sorted(out, key=lambda s: s["site"])


def _empty_use(fn, call):
    """what happens to the freshly allocated array in the statements after the allocation"""
    target = None
    stmts = []
    for n in ast.walk(fn):
        if isinstance(n, ast.Assign) and n.value is call and isinstance(n.targets[0], ast.Name):
            target = n.targets[0].id
    if target is None:
        return "empty_unknown"
    src_after = [n for n in ast.walk(fn) if hasattr(n, "lineno") and n.lineno > call.lineno]
    for n in sorted(src_after, key=lambda x: (x.lineno, getattr(x, "col_offset", 0))):
        if isinstance(n, ast.Call):
            f = _name(n.func)
            if f == target + ".fill":
                return "empty_filled"
            if f.endswith(".Bcast") and any(_name(a) == target for a in n.args):
                return "empty_filled"           # collective overwrites the whole buffer on non-root ranks
        if isinstance(n, ast.Assign):
            t = n.targets[0]
            if isinstance(t, ast.Subscript) and _name(t.value) == target:
                return "empty_filled_by_index"   # windows / rows written in a loop that covers the buffer
    return "empty_unknown"


if __name__ == "__main__":
    import json
    import sys
    print(json.dumps(extract(sys.argv[1] if len(sys.argv) > 1 else "/repo"), indent=1))
