"""harness/tpt_capped.py <build> -- C07 under an address-space cap (behaviour after a handled MemoryError).

A sparse nearest-neighbour chain of 30000 states cannot be densified under the cap (7.2 GB for one dense copy).  Whatever
tpt.committors / tpt.mfpts do then, they either raise (MemoryError: nothing to judge) or return vectors, and returned
vectors must satisfy the clauses of LineChain.tla (PinnedSources, PinnedSinks, InUnit, FirstStep; MZeroOnSinks,
MFPTFirstStep), evaluated here with sparse products.  Prints one line  CAPPED <json>."""
import json
import os
import resource
import sys
import warnings


def main():
    build = sys.argv[1]
    sys.path.insert(0, build)
    sys.path.insert(0, os.path.join(os.path.dirname(os.path.abspath(__file__)), "fakempi"))
    warnings.simplefilter("ignore")
    import logging
    logging.disable(logging.CRITICAL)
    so, sys.stdout = sys.stdout, open(os.devnull, "w")
    import numpy as np
    import scipy.sparse as sp
    import enspara
    from enspara import tpt
    sys.stdout = so
    if not os.path.abspath(enspara.__file__).startswith(os.path.abspath(build)):
        raise RuntimeError("enspara imported from %s" % enspara.__file__)
    n = 30000
    w = np.array([(1, 2, 1, 3)[k % 4] for k in range(n - 1)], dtype=float)
    s = np.array([(0, 1, 2)[k % 3] for k in range(n)], dtype=float)
    den = s.copy()
    den[:-1] += w
    den[1:] += w
    T = sp.diags([w / den[1:], s / den, w / den[:-1]], [-1, 0, 1], format="csr")
    with open("/proc/self/statm") as fh:
        vm = int(fh.read().split()[0]) * os.sysconf("SC_PAGE_SIZE")
    cap = vm + int(1.5 * 2 ** 30)
    resource.setrlimit(resource.RLIMIT_AS, (cap, cap))
    out = []
    src, snk = [0, 1, 2], [n - 1, n // 2, 17000]
    inter = np.setdiff1d(np.arange(n), src + snk)
    for cont, M in (("csr", T), ("lil", T.tolil())):
        rec = {"call": "committors", "container": cont, "states": n}
        try:
            q = np.asarray(tpt.committors(M, src, snk), dtype=float)
        except MemoryError:
            rec["outcome"] = "MemoryError"
            out.append(rec)
            continue
        except Exception as ex:
            rec["outcome"] = "raised %s: %s" % (type(ex).__name__, str(ex)[:120])
            out.append(rec)
            continue
        bad = []
        if q.shape != (n,) or not np.isfinite(q).all():
            bad.append("shape/finite")
        else:
            res = np.abs((T @ q)[inter] - q[inter])
            if np.abs(q[src]).max() > 0:
                bad.append("PinnedSources")
            if np.abs(q[snk] - 1).max() > 0:
                bad.append("PinnedSinks")
            if q.min() < -1e-12 or q.max() > 1 + 1e-12:
                bad.append("InUnit")
            if res.max() > 1e-9:
                bad.append("FirstStep")
            rec.update(q_sources=[float(x) for x in q[src]], largest_first_step_residual=float(res.max()))
        rec["outcome"] = "returned"
        rec["failed_clauses"] = bad
        out.append(rec)
    print("CAPPED " + json.dumps(out))


if __name__ == "__main__":
    main()
