"""./check --selftest : demonstrates that the specifications are bound to the code.

For each trace specification a valid execution of the real code is recorded, then
  (a) one recorded field is corrupted, (b) one event is removed,
and TLC must reject the corrupted traces at the corrupted position while accepting the
original.  Also: the PySlice operators against CPython, and the multi-line PrintT parser.
Exit 0 iff every corruption is rejected and every original accepted.
"""
import copy
import json
import os
import sys

from . import core


def _cluster(ctx):
    from props import cluster_common as cc, cluster_engine as ce
    runs = [dict(pts=[[0], [3], [1], [6], [4]], metric="l1", algo="kcenters", k=3, cut=0, ti=True),
            dict(pts=[[0], [3], [1], [6], [4]], metric="l2sq", algo="kmedoids", k=0, cut=0, init=[0, 1], sweeps=2, props=[2, 4]),
            dict(pts=[[0, 0], [3, 1], [1, 1], [2, 2], [0, 2]], metric="linf", algo="hybrid", k=2, cut=0, sweeps=2, seed=1)]
    good = [cc.record(r) for r in runs]
    bad = []
    # corrupt a chosen center, a distance, a cost, and drop an event
    t = copy.deepcopy(good[0])
    it = [e for e in t["events"] if e["ev"] == "iter"][1]
    it["c"] = 1 if it["c"] != 1 else 2
    it["ctrIdx"][-1] = it["c"]
    bad.append(("kcenters: a non-farthest frame recorded as the new center", t, "Iterate.farthest"))
    t = copy.deepcopy(good[0])
    it = [e for e in t["events"] if e["ev"] == "iter"][1]
    it["dist"][2] += 1
    bad.append(("kcenters: one distance off by one", t, "Iterate.distances"))
    t = copy.deepcopy(good[1])
    pr = [e for e in t["events"] if e["ev"] == "prop"][0]
    pr["newN"] += 1
    bad.append(("kmedoids: recorded new cost off by one", t, "Propose.new-cost"))
    t = copy.deepcopy(good[1])
    idx = [i for i, e in enumerate(t["events"]) if e["ev"] == "prop"][1]
    del t["events"][idx]
    bad.append(("kmedoids: one proposal event removed", t, None))
    t = copy.deepcopy(good[2])
    rs = [e for e in t["events"] if e["ev"] == "result"][0]
    rs["asg"][1], rs["asg"][0] = rs["asg"][0], rs["asg"][1] if rs["asg"][0] != rs["asg"][1] else rs["asg"][1] % 2 + 1
    bad.append(("hybrid: labels of two frames swapped in the result", t, "Result."))
    res = ce.validate(ctx, good + [b[1] for b in bad], "selftest cluster traces")
    ok = True
    for (tr, v, stuck), name in zip(res[:len(good)], ["kcenters", "kmedoids", "hybrid"]):
        if v != set():
            print("selftest FAIL: valid %s trace rejected: %s %s" % (name, v, stuck))
            ok = False
    for (tr, v, stuck), (name, _, clause) in zip(res[len(good):], bad):
        rejected = (v is None) or bool(v)
        hit = rejected and (clause is None or v is None or any(c.startswith(clause) for c, _ in v))
        print("selftest %-62s %s %s" % (name, "rejected" if rejected else "ACCEPTED", sorted(v)[:2] if v else ("stuck@%s" % stuck)))
        ok = ok and hit
    return ok


def _mle(ctx):
    from props import c12
    tr = c12.record(([[1, 2, 0], [1, 0, 1], [0, 2, 1]], 1, 0))
    bad = copy.deepcopy(tr)
    e = [x for x in bad["events"] if x["ev"] == "return"][0]
    e["T6"][0][1] += 5000
    e["T6"][0][0] -= 5000
    bad2 = copy.deepcopy(tr)
    bad2["events"] = [x for x in bad2["events"] if x["ev"] != "start"][:1] + bad2["events"][1:]
    bad2["events"].pop(0)
    res = c12.validate(ctx, [tr, bad], "selftest MLE traces")
    ok = res[0][1] == set()
    if not ok:
        print("selftest FAIL: valid MLE trace rejected", res[0][1])
    v = res[1][1]
    print("selftest %-62s %s %s" % ("mle: transition probability shifted by 5e-3", "rejected" if v else "ACCEPTED", sorted(v or [])[:3]))
    return ok and bool(v)


def _pyslice():
    d = core.spec_tmp(os.path.join(core.SPECS, "common"))
    open(os.path.join(d, "PST.tla"), "w").write("""---- MODULE PST ----
EXTENDS PySlice, TLC, Json
VARIABLE x
B == {None, -3, -2, -1, 0, 1, 2, 3, 4}
Init == x \\in [n : 0..3, a : B, b : B, s : {None, -2, -1, 1, 2}]
Next == UNCHANGED x
Emit == PrintT(<<"CASE", ToJson([x |-> x, idx |-> SliceIdx(x.a, x.b, x.s, x.n)])>>)
====""")
    core.write_cfg(os.path.join(d, "p.cfg"), invariants=["Emit"])
    r = core.run_tlc("PST", "p.cfg", d, workers=1)
    n = bad = 0
    none = lambda v: None if v == 1000000 else v
    for t, p in r.prints:
        x = p["x"]
        exp = list(range(x["n"]))[slice(none(x["a"]), none(x["b"]), none(x["s"]))]
        n += 1
        if list(p["idx"]) != exp:
            bad += 1
    print("selftest PySlice vs CPython: %d cases, %d differences" % (n, bad))
    return n > 1000 and bad == 0


def main():
    b = core.build_repo()
    core.activate(b)
    ctx = core.Ctx("SELFTEST", "quick", 0)
    ok = True
    for f in (_pyslice, lambda: _cluster(ctx), lambda: _mle(ctx)):
        try:
            ok = f() and ok
        except core.MachineryError as ex:
            print("selftest machinery failure:", ex)
            ok = False
    print("selftest", "OK" if ok else "FAILED")
    return 0 if ok else 1
