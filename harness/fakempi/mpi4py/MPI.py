"""A simulated MPI world: every rank is a thread, exactly one thread runs at a
time (a baton), and a *schedule* decides which runnable rank continues whenever
the running rank reaches a collective.  Collectives have rendezvous semantics:
they complete when all ranks have contributed.  Mismatched collective kinds in
one epoch, or a rank that finishes while others wait, are reported as errors
(the real library would dead-lock).

Outside `run_world` the communicator behaves like a 1-rank world.
Every collective is logged in World.log as a dict
  {epoch, rank, seq, kind, root, op, contrib, result}
so that the harness can validate the execution against Collectives.tla.
"""
import threading
import copy as _copy
import numpy as _np

SUM, MAX, MIN = "SUM", "MAX", "MIN"
ANY_SOURCE = -1


class SimMPIError(RuntimeError):
    pass


_tls = threading.local()
_world = None


class World:
    def __init__(self, size, schedule=None):
        self.size = size
        self.schedule = schedule or (lambda runnable, epoch: runnable[0])
        self.cond = threading.Condition()
        self.current = None
        self.state = ["runnable"] * size     # runnable | blocked | done
        self.epoch = [0] * size
        self.slots = {}
        self.log = []
        self.seq = [0] * size
        self.error = None
        self.arrivals = []                   # order in which ranks arrived, per epoch

    # -- baton passing (must hold cond)
    def _pass(self):
        runnable = [r for r in range(self.size) if self.state[r] == "runnable"]
        if not runnable:
            if any(s == "blocked" for s in self.state):
                self.error = SimMPIError("deadlock: ranks %s wait in a collective that %s never join"
                                         % ([r for r in range(self.size) if self.state[r] == "blocked"],
                                            [r for r in range(self.size) if self.state[r] == "done"]))
            self.current = None
        else:
            nxt = self.schedule(runnable, max(self.epoch))
            if nxt not in runnable:
                nxt = runnable[0]
            self.current = nxt
        self.cond.notify_all()

    def _wait_turn(self, r):
        while not (self.current == r and self.state[r] == "runnable"):
            if self.error is not None:
                raise self.error
            self.cond.wait(timeout=0.5)

    def collective(self, kind, contrib, root=None, op=None, buf=None):
        r = _tls.rank
        with self.cond:
            e = self.epoch[r]
            slot = self.slots.setdefault(e, {"kind": kind, "root": root, "op": op, "contrib": {},
                                             "bufs": {}, "result": None, "order": []})
            if slot["kind"] != kind or slot["root"] != root or slot["op"] != op:
                self.error = SimMPIError("collective mismatch at epoch %d: rank %d calls %s(root=%s,op=%s), "
                                         "others %s(root=%s,op=%s)" % (e, r, kind, root, op, slot["kind"],
                                                                        slot["root"], slot["op"]))
                self.cond.notify_all()
                raise self.error
            slot["contrib"][r] = _copy.deepcopy(contrib)
            slot["bufs"][r] = buf
            slot["order"].append(r)
            self.epoch[r] += 1
            if len(slot["contrib"]) == self.size:
                slot["result"] = self._complete(slot)
                self.arrivals.append(list(slot["order"]))
                for q in range(self.size):
                    if self.state[q] == "blocked":
                        self.state[q] = "runnable"
            else:
                self.state[r] = "blocked"
            self._pass()
            self._wait_turn(r)
            res = slot["result"]
            out = res[r] if isinstance(res, dict) else res
            logged = out if kind != "Bcast" else slot["bufs"][r].tolist()
            self.seq[r] += 1
            self.log.append({"epoch": e, "rank": r, "seq": self.seq[r], "kind": kind, "root": root,
                             "op": op, "contrib": slot["contrib"][r], "result": _copy.deepcopy(logged),
                             "order": list(slot["order"])})
            return _copy.deepcopy(out)

    def _complete(self, slot):
        k, c = slot["kind"], slot["contrib"]
        n = self.size
        if k == "allgather":
            return [c[i] for i in range(n)]
        if k == "allreduce":
            vals = [c[i] for i in range(n)]
            op = slot["op"]
            acc = vals[0]
            for v in vals[1:]:
                if op == SUM:
                    acc = acc + v
                elif op == MAX:
                    acc = _np.maximum(acc, v) if isinstance(acc, _np.ndarray) else max(acc, v)
                elif op == MIN:
                    acc = _np.minimum(acc, v) if isinstance(acc, _np.ndarray) else min(acc, v)
                else:
                    raise SimMPIError("unsupported op %r" % (op,))
            return acc
        if k == "bcast":
            return c[slot["root"]]
        if k == "Bcast":
            src = slot["bufs"][slot["root"]]
            for i in range(n):
                if i != slot["root"]:
                    dst = slot["bufs"][i]
                    if dst.shape != src.shape or dst.dtype != src.dtype:
                        raise SimMPIError("Bcast buffer mismatch: %s%s vs %s%s" % (dst.dtype, dst.shape,
                                                                                    src.dtype, src.shape))
                    dst[...] = src
            return None
        if k == "barrier":
            return None
        if k == "gather":
            return {i: ([c[j] for j in range(n)] if i == slot["root"] else None) for i in range(n)}
        raise SimMPIError("unsupported collective %r" % k)

    def finish(self, r):
        with self.cond:
            self.state[r] = "done"
            self._pass()


class _Comm:
    def Get_rank(self):
        return getattr(_tls, "rank", 0)

    def Get_size(self):
        return _world.size if (_world is not None and hasattr(_tls, "rank")) else 1

    rank = property(Get_rank)
    size = property(Get_size)

    def _coll(self, kind, contrib, root=None, op=None, buf=None):
        if _world is None or not hasattr(_tls, "rank"):
            w = World(1)
            _tls.rank = 0
            try:
                w.current = 0
                return w.collective(kind, contrib, root, op, buf)
            finally:
                del _tls.rank
        return _world.collective(kind, contrib, root, op, buf)

    def allgather(self, obj):
        return self._coll("allgather", obj)

    def allreduce(self, obj, op=SUM):
        return self._coll("allreduce", obj, op=op)

    def bcast(self, obj=None, root=0):
        return self._coll("bcast", obj, root=root)

    def Bcast(self, buf, root=0):
        if isinstance(buf, (list, tuple)):
            buf = buf[0]
        digest = buf.tolist() if self.Get_rank() == root else None
        return self._coll("Bcast", digest, root=root, buf=buf)

    def gather(self, obj, root=0):
        return self._coll("gather", obj, root=root)

    def Barrier(self):
        return self._coll("barrier", None)

    barrier = Barrier

    def Abort(self, code=1):
        raise SimMPIError("Abort(%s)" % code)


COMM_WORLD = _Comm()


def run_world(fn, size, schedule=None, args=()):
    """Run fn(rank, *args) on `size` simulated ranks.  Returns (results, world).
    An exception on any rank is re-raised after all threads stopped."""
    global _world
    if _world is not None:
        raise SimMPIError("nested worlds are not supported")
    w = World(size, schedule)
    _world = w
    results = [None] * size
    errors = [None] * size

    def body(r):
        _tls.rank = r
        try:
            with w.cond:
                w._wait_turn(r)
            results[r] = fn(r, *args)
        except BaseException as ex:   # noqa
            errors[r] = ex
            with w.cond:
                if w.error is None and not isinstance(ex, SimMPIError):
                    w.error = SimMPIError("rank %d raised %s: %s" % (r, type(ex).__name__, ex))
                    w.error.__cause__ = ex
                w.cond.notify_all()
        finally:
            w.finish(r)

    threads = [threading.Thread(target=body, args=(r,), daemon=True) for r in range(size)]
    try:
        for t in threads:
            t.start()
        with w.cond:
            w.current = w.schedule(list(range(size)), 0)
            if w.current not in range(size):
                w.current = 0
            w.cond.notify_all()
        for t in threads:
            t.join(timeout=120)
            if t.is_alive():
                with w.cond:
                    w.error = w.error or SimMPIError("rank thread did not terminate")
                    w.cond.notify_all()
    finally:
        _world = None
    real = [e for e in errors if e is not None and not isinstance(e, SimMPIError)]
    if real:
        raise real[0]
    if w.error is not None:
        raise w.error
    return results, w
