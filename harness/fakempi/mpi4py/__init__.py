"""Simulated mpi4py used by the verification harness (no MPI library exists in
the sandbox).  See MPI.py."""
__version__ = "0.0-verif-sim"
