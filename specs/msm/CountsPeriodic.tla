--------------------------- MODULE CountsPeriodic ---------------------------
(* Property C03 on LARGE inputs: transition counts of trajectories that are    *)
(* periodic repetitions of a short pattern have a closed form, so the exact    *)
(* count matrix of a data set with millions of frames can be written down      *)
(* without enumerating the frames.                                             *)
(*                                                                            *)
(* A trajectory is <<pattern, length>>: frame t (0-based) is in state          *)
(* pattern[(t % P) + 1].  Part 1 states the closed form; Part 2 checks it      *)
(* against the frame-by-frame definition (the Def of Counts.tla, restated on   *)
(* the generated frames) for every small length; Part 3 emits large data sets  *)
(* with their expected matrices for replay into assigns_to_counts.             *)
EXTENDS Integers, Sequences, FiniteSets, TLC, Json

CONSTANTS Pats,        \* set of patterns (sequences over 0..S-1)
          S,           \* number of states
          SmallLens,   \* lengths for which closed form = definition is CHECKED
          BigSets,     \* set of data sets (sequences of <<pattern, length>>) that are EMITTED
          Lags,        \* lag times in scope
          Emit

VARIABLES trajs, lag, sliding, pc
vars == <<trajs, lag, sliding, pc>>

RECURSIVE SumSeq(_)
SumSeq(s) == IF s = <<>> THEN 0 ELSE Head(s) + SumSeq(Tail(s))

Frame(tr, t) == tr[1][(t % Len(tr[1])) + 1]

(* ---- Part 1: closed form ------------------------------------------------------- *)
(* how many u in 0..(U-1) have u % P = a *)
NRes(a, U, P) == IF U > a THEN ((U - 1 - a) \div P) + 1 ELSE 0

(* number of pair starts t in one trajectory of length L with t % P = a:         *)
(* sliding: every t in 0..(L-lag-1); otherwise t = lag*u with u in 0..(U-1),      *)
(* U = number of multiples of lag below L-lag                                      *)
Starts(a, L, P) ==
  LET M == IF L > lag THEN L - lag ELSE 0
  IN IF sliding THEN NRes(a, M, P)
     ELSE LET U == (M + lag - 1) \div lag
          IN SumSeq([ur \in 1..P |-> IF (lag * (ur - 1)) % P = a THEN NRes(ur - 1, U, P) ELSE 0])

ClosedOne(tr, i, j) ==
  LET P == Len(tr[1])
  IN SumSeq([a1 \in 1..P |-> IF tr[1][a1] = i /\ tr[1][((a1 - 1 + lag) % P) + 1] = j
                              THEN Starts(a1 - 1, tr[2], P) ELSE 0])

Closed(i, j) == SumSeq([k \in 1..Len(trajs) |-> ClosedOne(trajs[k], i, j)])

(* ---- Part 2: the definition, frame by frame (small lengths only) ------------------ *)
PairPos(tr) == {t \in 0..(tr[2] - 1) : t + lag <= tr[2] - 1 /\ (sliding \/ t % lag = 0)}
DefOne(tr, i, j) == Cardinality({t \in PairPos(tr) : Frame(tr, t) = i /\ Frame(tr, t + lag) = j})

ClosedIsDef ==
  pc = "small" => \A k \in 1..Len(trajs) : \A i, j \in 0..(S - 1) :
                      ClosedOne(trajs[k], i, j) = DefOne(trajs[k], i, j)

(* the total under the sliding window is the sum of max(0, length - lag) *)
TotalLaw ==
  sliding => SumSeq([q \in 1..(S * S) |-> Closed((q - 1) \div S, (q - 1) % S)])
               = SumSeq([k \in 1..Len(trajs) |-> IF trajs[k][2] > lag THEN trajs[k][2] - lag ELSE 0])

InitSmall ==
  /\ \E p \in Pats, L \in SmallLens : trajs = << <<p, L>> >>
  /\ lag \in Lags /\ sliding \in BOOLEAN /\ pc = "small"

InitBig ==
  /\ trajs \in BigSets
  /\ lag \in Lags /\ sliding \in BOOLEAN /\ pc = "big"

Next == FALSE /\ UNCHANGED vars

EmitInv ==
  (Emit /\ pc = "big") =>
    PrintT(<<"CASE", ToJson([trajs |-> trajs, lag |-> lag, sliding |-> sliding, S |-> S,
                             C |-> [i \in 1..S |-> [j \in 1..S |-> Closed(i - 1, j - 1)]]])>>)
=============================================================================
