------------------------------ MODULE TrimMapping ------------------------------
(* The TrimMapping object (enspara.msm.transition_matrices.TrimMapping) as a   *)
(* small state machine over operation histories (growth item 1 of DESIGN.md    *)
(* section 10; the mapping clause of C11 / C16 only looks at the object right  *)
(* after trim_disconnected built it).                                           *)
(*                                                                            *)
(* A world holds `Slots` Python names that may be bound to TrimMapping objects *)
(* and `Files` paths of a scratch directory.  Per object the state keeps        *)
(*   abs[s]   the ABSTRACT value: an injective partial map original -> trimmed, *)
(*            as a set of pairs <<original, trimmed>>  (what the class          *)
(*            documentation calls "the injective mapping")                      *)
(*   conc[s]  the CONCRETE field the code keeps: the dict `to_original`         *)
(*            (trimmed -> original); `to_mapped` is derived from it on every    *)
(*            access by {v: k for k, v in to_original.items()}                  *)
(* and every operation updates each of the two the way the definition / the    *)
(* code does:                                                                  *)
(*   Construct     TrimMapping(transformations)   {t: o for o, t in ...}        *)
(*   SetMapped     tm.to_mapped = {o: t}          setter: {v: k for k, v in ..} *)
(*   SetOriginal   tm.to_original = {t: o}        plain attribute (the slot)    *)
(*   Poke          tm.to_original[t] = o          mutation of the kept dict     *)
(*   Save          tm.save(path) / tm.write(fh)   header + rows sorted by       *)
(*                                                original id                   *)
(*   WriteForeign  a file written by somebody else (rows in any order, header   *)
(*                 only, blank tail, empty file, wrong header, non-integer)     *)
(*   Load          TrimMapping.load(path) / .read(fh)                           *)
(*   Eq, EqList, EqOther   ==  with a TrimMapping / a list of pairs / others    *)
(*   Repr          repr(tm), str(tm)                                            *)
(*   Copy          copy.deepcopy / pickle round trip (an independent object)    *)
(* `hist` records the operations, `trail` the state after every step.  TLC     *)
(* emits histories together with the OBSERVATION of every state of the trail   *)
(* (Obs, definition level: computed from `abs`); the driver                    *)
(* (props/x_trimmap.py) replays them into real objects and compares ALL        *)
(* observers after EVERY step.                                                  *)
(*                                                                            *)
(* The operators called ...Impl are code-shaped (they follow the statements of *)
(* the methods on the concrete dict) but describe the INTENDED behaviour: where *)
(* the pinned tree deviates (see the three gates below) the specification      *)
(* keeps the sensible definition and the deviating input class is switched     *)
(* off by a named constant, not by weakening a formula.                        *)
EXTENDS Integers, Sequences, FiniteSets, FiniteSetsExt, SequencesExt, Functions, TLC, Json

CONSTANTS NOrig, NTrim,   \* original state ids 0..NOrig-1, trimmed ids 0..NTrim-1
          Slots, Files,   \* number of object names / of file paths
          MaxPairs,       \* longest list of pairs handed to the constructor / to ==
          Depth,          \* history length
          Emit,
          OpBudget,       \* 0 = unlimited; k > 0: no operation kind more than k times in a history (Construct and EqList
                          \* have by far the most instances and would dominate a uniformly chosen simulated walk)
          Variants,       \* TRUE: every container form / entry point of an operation is a step of its own
                          \* (they lead to the same state, so they only matter when histories are enumerated
                          \* without the VIEW); FALSE: one representative
          (* ---- gates: input classes on which the pinned tree deviates from the definition.
             FALSE = the class is not generated (the part stays green on the unchanged tree);
             TRUE  = generated, with the definition's expectation (used to document the defect). *)
          EmptyFromFalsy, \* TrimMapping(), TrimMapping([]), tm == [] : the constructor body is skipped for a
                          \* falsy argument, the object has no `to_original` at all (AttributeError on every
                          \* observer, == raises or answers False for two empty mappings)
          NonInjective,   \* pairs / dicts / file rows that are not an injective map: definition = rejected,
                          \* the code silently keeps the last pair and the two views stop being inverses
          MalformedRows   \* a data row with a single field: definition = rejected, the code pairs the
                          \* columns after zip-truncation, i.e. silently shifts the mapping

VARIABLES live,           \* slots bound to an object
          abs, conc,      \* abstract map / concrete to_original dict per slot ({} / <<>> when unbound)
          disk,           \* per file: [present, hdr, rows, saved, src]
          res,            \* result of the last operation
          hist, trail

vars == <<live, abs, conc, disk, res, hist, trail>>

Orig == 0..(NOrig - 1)
Trim == 0..(NTrim - 1)
Pairs == Orig \X Trim                                 \* <<original, trimmed>>
NonInt == 0 - 1                                       \* a field that is not an integer literal ("x")

(* ---- abstract maps ---------------------------------------------------------- *)
IsFunctional(P) == \A p, q \in P : p[1] = q[1] => p[2] = q[2]
IsInjMap(P) == \A p, q \in P : (p[1] = q[1]) <=> (p[2] = q[2])
InjMaps == {P \in SUBSET Pairs : IsInjMap(P)}
Denotes(seq) == IsInjMap(ToSet(seq))                  \* a list of pairs denotes the map "its set of pairs"
SortedPairs(P) == SetToSortSeq(P, LAMBDA a, b : a[1] < b[1])   \* for injective P: strictly by first component
(* definition-level views *)
MappedOf(P) == P                                      \* to_mapped   : original -> trimmed
OriginalOf(P) == {<<p[2], p[1]>> : p \in P}           \* to_original : trimmed  -> original

(* ---- Python dicts as functions ------------------------------------------------ *)
(* dict built from a sequence of (key, value): a later pair with the same key wins *)
DictOf(kvs) == [k \in {kvs[i][1] : i \in DOMAIN kvs} |-> kvs[Max({i \in DOMAIN kvs : kvs[i][1] = k})][2]]
Swap(seq) == [i \in DOMAIN seq |-> <<seq[i][2], seq[i][1]>>]
ItemSet(f) == {<<k, f[k]>> : k \in DOMAIN f}
Items(f) == SortedPairs(ItemSet(f))                   \* iteration order is not modelled (irrelevant for injective dicts)
InvertDict(f) == DictOf(Swap(Items(f)))               \* {v: k for k, v in f.items()}
ToMappedImpl(f) == InvertDict(f)                      \* the to_mapped property
EmptyDict == [k \in {} |-> 0]

(* ---- files ---------------------------------------------------------------------- *)
(* a file is a header kind and a sequence of rows, a row being its sequence of fields *)
NoFile == [present |-> FALSE, hdr |-> "none", rows |-> <<>>, saved |-> FALSE, src |-> {}]
FileOf(P) == [hdr |-> "ok", rows |-> SortedPairs(P)]                       \* definition of write()
WriteImpl(f) == [hdr |-> "ok", rows |-> Items(ToMappedImpl(f))]            \* sorted(self.to_mapped.items(), key=x[0])

RaiseRes == [k |-> "raise", b |-> FALSE, s |-> <<>>]
OkRes == [k |-> "ok", b |-> FALSE, s |-> <<>>]
BoolRes(v) == [k |-> "bool", b |-> v, s |-> <<>>]
StrRes(allowed) == [k |-> "str", b |-> FALSE, s |-> allowed]
NoRes == [k |-> "none", b |-> FALSE, s |-> <<>>]

(* read(): the first line must be the header; every non-blank row must consist of exactly two
   integer fields; the rows (in ANY order) must denote an injective map *)
DataRows(file) == SelectSeq(file.rows, LAMBDA r : Len(r) > 0)
RowOk(r) == Len(r) = 2 /\ r[1] # NonInt /\ r[2] # NonInt
ReadOk(file) == /\ file.hdr = "ok"
                /\ \A i \in DOMAIN file.rows : Len(file.rows[i]) > 0 => RowOk(file.rows[i])
                /\ Denotes(DataRows(file))
ReadAbs(file) == ToSet(DataRows(file))                                     \* the abstract map read
(* code-shaped: columns are collected, zipped, and handed to the constructor *)
ReadImpl(file) == LET rs == DataRows(file)
                      colO == [i \in DOMAIN rs |-> rs[i][1]]
                      colM == [i \in DOMAIN rs |-> rs[i][2]]
                  IN DictOf([i \in DOMAIN rs |-> <<colM[i], colO[i]>>])    \* TrimMapping(zip(original, mapped))

(* text of a file: the lines the csv module writes / reads (terminator not modelled) *)
RECURSIVE JoinWith(_, _)
JoinWith(strs, sep) == IF strs = <<>> THEN ""
                       ELSE IF Len(strs) = 1 THEN strs[1]
                       ELSE strs[1] \o sep \o JoinWith(Tail(strs), sep)
Field(x) == IF x = NonInt THEN "x" ELSE ToString(x)
Lines(file) == (CASE file.hdr = "ok" -> <<"original,mapped">>
                  [] file.hdr = "bad" -> <<"a,b">>
                  [] OTHER -> <<>>)
               \o [i \in DOMAIN file.rows |-> JoinWith([j \in DOMAIN file.rows[i] |-> Field(file.rows[i][j])], ",")]

(* repr / str: "to_original:" followed by the dict; the order of the entries is Python's
   insertion order, which the definition leaves open: any order of the entries is admissible *)
EntryStr(kv) == ToString(kv[1]) \o ": " \o ToString(kv[2])
ReprAllowed(P) == {"to_original:{" \o JoinWith([i \in DOMAIN q |-> EntryStr(q[i])], ", ") \o "}" :
                     q \in SetToSeqs(OriginalOf(P))}

(* ---- equality (code-shaped, on the concrete dicts) ------------------------------- *)
EqImpl(f, g) == (f = g) /\ (ToMappedImpl(f) = ToMappedImpl(g))             \* other has both views
EqListImpl(f, seq) == EqImpl(DictOf(Swap(seq)), f)                         \* TrimMapping(other) == self

(* ---- inputs ------------------------------------------------------------------------ *)
PairSeqs == {q \in UNION {[1..n -> Pairs] : n \in 0..MaxPairs} : NonInjective \/ Denotes(q)}
Dicts == {P \in SUBSET Pairs : IsFunctional(P) /\ (NonInjective \/ IsInjMap(P))}    \* a dict original -> trimmed
Forms == IF Variants THEN {"list", "lists", "zip", "gen", "none"} ELSE {"list", "zip"}
SeqForms == IF Variants THEN {"list", "tuple"} ELSE {"list"}
CopyHows == IF Variants THEN {"deepcopy", "pickle"} ELSE {"deepcopy"}
SaveHows == IF Variants THEN {"save", "write"} ELSE {"save"}
LoadHows == IF Variants THEN {"load", "read"} ELSE {"load"}
Falsy == {"list", "lists", "none"}                    \* forms whose empty instance is falsy in Python
OkOrders == UNION {SetToSeqs(P) : P \in {Q \in InjMaps : Cardinality(Q) <= MaxPairs}}
Foreign ==
       {[hdr |-> "ok", rows |-> r] : r \in OkOrders}                                       \* any row order, header only
  \cup {[hdr |-> "ok", rows |-> Append(r, <<>>)] : r \in {q \in OkOrders : Len(q) = 1}}    \* blank last line
  \cup {[hdr |-> "ok", rows |-> <<<<0, NonInt>>>>], [hdr |-> "ok", rows |-> <<<<NonInt, 0>>>>]}
  \cup {[hdr |-> "bad", rows |-> <<>>], [hdr |-> "bad", rows |-> <<<<0, 0>>>>], [hdr |-> "none", rows |-> <<>>]}
  \cup (IF MalformedRows THEN {[hdr |-> "ok", rows |-> <<<<0>>, <<1, 0>>>>], [hdr |-> "ok", rows |-> <<<<1, 0>>, <<0>>>>]}
                         ELSE {})
  \cup (IF NonInjective THEN {[hdr |-> "ok", rows |-> q] : q \in {x \in [1..2 -> Pairs] : ~Denotes(x)}} ELSE {})
Others == {"int", "str", "none", "float", "object"}

(* ---- observation (definition level) -------------------------------------------------- *)
Obs(lv, ab, dk, rs) ==
  [objs |-> [s \in 1..Slots |-> [live |-> s \in lv,
                                 to_mapped |-> SortedPairs(MappedOf(ab[s])),
                                 to_original |-> SortedPairs(OriginalOf(ab[s])),
                                 repr |-> IF s \in lv THEN SetToSeq(ReprAllowed(ab[s])) ELSE <<>>]],
   eq |-> [a \in 1..Slots |-> [b \in 1..Slots |-> (a \in lv /\ b \in lv /\ ab[a] = ab[b])]],
   disk |-> [f \in 1..Files |-> [present |-> dk[f].present, lines |-> Lines(dk[f])]],
   res |-> rs]

Init == /\ live = {}
        /\ abs = [s \in 1..Slots |-> {}]
        /\ conc = [s \in 1..Slots |-> EmptyDict]
        /\ disk = [f \in 1..Files |-> NoFile]
        /\ res = NoRes /\ hist = <<>>
        /\ trail = << <<{}, [s \in 1..Slots |-> {}], [f \in 1..Files |-> NoFile], NoRes>> >>

(* Log is the LAST conjunct of every action: it extends the history and records a snapshot of the successor
   state (all other primed variables are determined by then); the OBSERVATION of every snapshot (Obs) is computed
   when a history is emitted *)
Log(op) == /\ (OpBudget = 0 \/ Cardinality({j \in DOMAIN hist : hist[j].op = op.op}) < OpBudget)
           /\ hist' = Append(hist, op)
           /\ trail' = IF Emit THEN Append(trail, <<live', abs', disk', res'>>) ELSE trail    \* only kept when emitting
CanStep == Len(hist) < Depth
Bind(s, P, d) == /\ live' = live \cup {s}
                 /\ abs' = [abs EXCEPT ![s] = P]
                 /\ conc' = [conc EXCEPT ![s] = d]
Rejected == UNCHANGED <<live, abs, conc>> /\ res' = RaiseRes

(* ---- construction and writers ---------------------------------------------------------- *)
Construct(s, seq, form) ==                        \* name_s = TrimMapping(<seq in the given container form>)
  /\ CanStep
  /\ form = "none" => seq = <<>>
  /\ (seq = <<>> /\ form \in Falsy) => EmptyFromFalsy
  /\ IF Denotes(seq)
     THEN Bind(s, ToSet(seq), DictOf(Swap(seq))) /\ res' = OkRes      \* {t: o for o, t in transformations}
     ELSE Rejected
  /\ UNCHANGED disk
  /\ Log([op |-> "construct", s |-> s, pairs |-> seq, form |-> form])

SetMapped(s, P) ==                                \* name_s.to_mapped = {o: t}
  /\ CanStep /\ s \in live
  /\ IF IsInjMap(P)
     THEN Bind(s, P, InvertDict([o \in {p[1] : p \in P} |-> CHOOSE t \in Trim : <<o, t>> \in P])) /\ res' = OkRes
     ELSE Rejected
  /\ UNCHANGED disk
  /\ Log([op |-> "setmapped", s |-> s, pairs |-> SortedPairs(P)])

SetOriginal(s, P) ==                              \* name_s.to_original = {t: o}   (P given as <<o, t>> pairs)
  /\ CanStep /\ s \in live /\ IsInjMap(P)
  /\ Bind(s, P, DictOf(Swap(SortedPairs(P)))) /\ res' = OkRes
  /\ UNCHANGED disk
  /\ Log([op |-> "setoriginal", s |-> s, pairs |-> SortedPairs(P)])

Poke(s, t, o) ==                                  \* name_s.to_original[t] = o
  /\ CanStep /\ s \in live
  /\ \A p \in abs[s] : p[1] = o => p[2] = t       \* the result is still injective
  /\ Bind(s, {p \in abs[s] : p[2] # t} \cup {<<o, t>>},
          [k \in DOMAIN conc[s] \cup {t} |-> IF k = t THEN o ELSE conc[s][k]])
  /\ res' = OkRes
  /\ UNCHANGED disk
  /\ Log([op |-> "poke", s |-> s, t |-> t, o |-> o])

Copy(a, b, how) ==                                \* name_b = copy.deepcopy(name_a) / pickle round trip
  /\ CanStep /\ a \in live /\ a # b
  /\ Bind(b, abs[a], conc[a]) /\ res' = OkRes
  /\ UNCHANGED disk
  /\ Log([op |-> "copy", a |-> a, b |-> b, how |-> how])

(* ---- files ---------------------------------------------------------------------------------- *)
Save(s, f, how) ==                                \* name_s.save(path_f) / name_s.write(open(path_f, "w"))
  /\ CanStep /\ s \in live
  /\ disk' = [disk EXCEPT ![f] = [present |-> TRUE, hdr |-> "ok", rows |-> WriteImpl(conc[s]).rows,
                                  saved |-> TRUE, src |-> abs[s]]]
  /\ res' = OkRes
  /\ UNCHANGED <<live, abs, conc>>
  /\ Log([op |-> "save", s |-> s, f |-> f, how |-> how])

WriteForeign(f, file) ==                          \* somebody else writes path_f
  /\ CanStep
  /\ disk' = [disk EXCEPT ![f] = [present |-> TRUE, hdr |-> file.hdr, rows |-> file.rows, saved |-> FALSE, src |-> {}]]
  /\ res' = OkRes
  /\ UNCHANGED <<live, abs, conc>>
  /\ Log([op |-> "foreign", f |-> f, lines |-> Lines(file)])

Load(f, s, how) ==                                \* name_s = TrimMapping.load(path_f) / .read(open(path_f))
  /\ CanStep /\ disk[f].present
  /\ IF ReadOk(disk[f])
     THEN Bind(s, ReadAbs(disk[f]), ReadImpl(disk[f])) /\ res' = OkRes
     ELSE Rejected
  /\ UNCHANGED disk
  /\ Log([op |-> "load", f |-> f, s |-> s, how |-> how])

(* ---- observers ---------------------------------------------------------------------------------- *)
Eq(a, b) ==                                       \* name_a == name_b   (and !=)
  /\ CanStep /\ a \in live /\ b \in live
  /\ res' = BoolRes(abs[a] = abs[b])
  /\ UNCHANGED <<live, abs, conc, disk>>
  /\ Log([op |-> "eq", a |-> a, b |-> b])

EqList(s, seq, form) ==                           \* name_s == [(o, t), ...]  and the reflected comparison
  /\ CanStep /\ s \in live
  /\ seq = <<>> => EmptyFromFalsy
  /\ res' = BoolRes(Denotes(seq) /\ ToSet(seq) = abs[s])
  /\ UNCHANGED <<live, abs, conc, disk>>
  /\ Log([op |-> "eqlist", s |-> s, pairs |-> seq, form |-> form])

EqOther(s, kind) ==                               \* name_s == 3, "ab", None, 1.5, object()
  /\ CanStep /\ s \in live
  /\ res' = BoolRes(FALSE)
  /\ UNCHANGED <<live, abs, conc, disk>>
  /\ Log([op |-> "eqother", s |-> s, kind |-> kind])

Repr(s) ==                                        \* repr(name_s), str(name_s)
  /\ CanStep /\ s \in live
  /\ res' = StrRes(SetToSeq(ReprAllowed(abs[s])))
  /\ UNCHANGED <<live, abs, conc, disk>>
  /\ Log([op |-> "repr", s |-> s])

Next ==
  \/ \E s \in 1..Slots, q \in PairSeqs, fm \in Forms : Construct(s, q, fm)
  \/ \E s \in 1..Slots, P \in Dicts : SetMapped(s, P)
  \/ \E s \in 1..Slots, P \in InjMaps : SetOriginal(s, P)
  \/ \E s \in 1..Slots, t \in Trim, o \in Orig : Poke(s, t, o)
  \/ \E a \in 1..Slots, b \in 1..Slots, how \in CopyHows : Copy(a, b, how)
  \/ \E s \in 1..Slots, f \in 1..Files, how \in SaveHows : Save(s, f, how)
  \/ \E f \in 1..Files, file \in Foreign : WriteForeign(f, file)
  \/ \E f \in 1..Files, s \in 1..Slots, how \in LoadHows : Load(f, s, how)
  \/ \E a \in 1..Slots, b \in 1..Slots : Eq(a, b)
  \/ \E s \in 1..Slots, q \in PairSeqs, fm \in SeqForms : EqList(s, q, fm)
  \/ \E s \in 1..Slots, kind \in Others : EqOther(s, kind)
  \/ \E s \in 1..Slots : Repr(s)

Spec == Init /\ [][Next]_vars

(* ---- properties ------------------------------------------------------------------------------------ *)
LastOp == IF hist = <<>> THEN "init" ELSE hist[Len(hist)].op

(* the concrete dict represents the abstract map, which is injective *)
Abstraction == \A s \in live : IsInjMap(abs[s]) /\ ItemSet(conc[s]) = OriginalOf(abs[s])
(* the two views are inverse bijections at every step *)
ViewsInverse == \A s \in live :
  LET f == conc[s]  g == ToMappedImpl(conc[s])
  IN /\ DOMAIN g = Range(f) /\ Range(g) = DOMAIN f
     /\ \A t \in DOMAIN f : g[f[t]] = t
     /\ \A o \in DOMAIN g : f[g[o]] = o
     /\ ItemSet(g) = MappedOf(abs[s])
(* save ; load is the identity on the abstract map: every saved file reads back as what was saved *)
SaveLoadIdentity == \A f \in 1..Files : disk[f].saved =>
  /\ ReadOk(disk[f]) /\ ReadAbs(disk[f]) = disk[f].src
  /\ ItemSet(ReadImpl(disk[f])) = OriginalOf(disk[f].src)
LoadRestores == [][\A f \in 1..Files, s \in 1..Slots :
                     (Len(hist') > Len(hist) /\ hist'[Len(hist')].op = "load" /\ hist'[Len(hist')].f = f
                      /\ hist'[Len(hist')].s = s /\ disk[f].saved) => (s \in live' /\ abs'[s] = disk[f].src)]_vars
(* writes are sorted by original id, and a function of the abstract map alone *)
WritesSorted == \A f \in 1..Files : disk[f].saved =>
  /\ \A i, j \in DOMAIN disk[f].rows : i < j => disk[f].rows[i][1] < disk[f].rows[j][1]
  /\ disk[f].rows = FileOf(disk[f].src).rows
WritesDeterministic == \A a, b \in live : abs[a] = abs[b] => WriteImpl(conc[a]) = WriteImpl(conc[b])
(* equality is an equivalence that agrees with abstract equality *)
EqAgreesAbstract == \A a, b \in live : EqImpl(conc[a], conc[b]) = (abs[a] = abs[b])
EqEquivalence == /\ \A a \in live : EqImpl(conc[a], conc[a])
                 /\ \A a, b \in live : EqImpl(conc[a], conc[b]) = EqImpl(conc[b], conc[a])
                 /\ \A a, b, c \in live : (EqImpl(conc[a], conc[b]) /\ EqImpl(conc[b], conc[c])) => EqImpl(conc[a], conc[c])
EqListAgrees == \A a \in live : \A q \in {x \in PairSeqs : Denotes(x)} : EqListImpl(conc[a], q) = (ToSet(q) = abs[a])
(* a rejected operation and the observers change no object; only Save / WriteForeign touch a file *)
RejectedChangesNothing == [][res'.k = "raise" => UNCHANGED <<live, abs, conc, disk>>]_vars
ObserversPure == [][(Len(hist') > Len(hist) /\ hist'[Len(hist')].op \in {"eq", "eqlist", "eqother", "repr", "save", "foreign"})
                      => UNCHANGED <<live, abs, conc>>]_vars
OthersUntouched == [][\A s \in live : (Len(hist') > Len(hist) /\ "s" \in DOMAIN hist'[Len(hist')] /\ hist'[Len(hist')].s # s
                                         /\ hist'[Len(hist')].op # "copy")
                        => (abs'[s] = abs[s] /\ conc'[s] = conc[s])]_vars

(* laws over the whole universe of maps in scope (state-independent; evaluated once, in the initial state) *)
UniverseLaws == (hist = <<>>) =>
  /\ \A P \in InjMaps : /\ ReadOk(FileOf(P)) /\ ReadAbs(FileOf(P)) = P                    \* save ; load = id
                        /\ WriteImpl(DictOf(Swap(SortedPairs(P)))) = FileOf(P)            \* code-shaped write = definition
                        /\ \A q \in SetToSeqs(P) : DictOf(Swap(q)) = DictOf(Swap(SortedPairs(P)))   \* pair order irrelevant
  /\ \A P, Q \in InjMaps : EqImpl(DictOf(Swap(SortedPairs(P))), DictOf(Swap(SortedPairs(Q)))) = (P = Q)
  /\ \A file \in Foreign : ReadOk(file) => ItemSet(ReadImpl(file)) = OriginalOf(ReadAbs(file))

(* ---- emission ------------------------------------------------------------------------------------------ *)
(* Views hiding the history from the fingerprint.  HistView: one history per distinct state and depth
   (design-level exhaustive check).  OpView: one history per distinct (state, last operation with its
   arguments) -- every operation is emitted in every state in which it can be applied, which a plain state
   view does not give: an operation that leads to a state some earlier disjunct of Next already reached
   would never be the one on the emitted history. *)
HistView == <<live, abs, conc, disk, res, Len(hist)>>
OpView == <<live, abs, conc, disk, res, Len(hist), IF hist = <<>> THEN <<>> ELSE hist[Len(hist)]>>
(* TransView: one history per distinct TRANSITION (observation of the state before, operation, state after): OpView
   identifies a step by its result, so an operation whose effect is absorbed (saving over an identical file, loading
   into a name that already holds that value) is only emitted from the first state it was seen in. *)
TransView == <<OpView, IF hist = <<>> THEN <<>> ELSE trail[Len(trail) - 1]>>
ObsTrail == [i \in DOMAIN trail |-> Obs(trail[i][1], trail[i][2], trail[i][3], trail[i][4])]
EmitInv == (Emit /\ hist # <<>>) => PrintT(<<"CASE", ToJson([hist |-> hist, trail |-> ObsTrail])>>)
EmitFull == (Emit /\ Len(hist) = Depth) => PrintT(<<"CASE", ToJson([hist |-> hist, trail |-> ObsTrail])>>)
=============================================================================
