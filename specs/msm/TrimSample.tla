----------------------------- MODULE TrimSample -----------------------------
(* Trim.tla on a driver-chosen SAMPLE of count matrices (thorough tier: the  *)
(* families n=4 entries 0..2 and n=5 entries 0..1 are too large to           *)
(* enumerate).  The driver only draws the matrices (seeded); every expected   *)
(* value and every invariant is still evaluated by TLC on the Trim module.    *)
(* The file named by the environment variable C11_SAMPLES holds one JSON      *)
(* array of matrices, each flattened row-major to N*N integers.               *)
EXTENDS Trim, IOUtils

Samples == JsonDeserialize(IOEnv.C11_SAMPLES)

MatOf(flat) == [i \in Idx |-> [j \in Idx |-> flat[i * N + j + 1]]]

InitSample == \E s \in 1..Len(Samples) : InitWith(MatOf(Samples[s]))
=============================================================================
