------------------------------- MODULE MSMLife -------------------------------
(* Life cycle of the MSM estimator object (enspara.msm.msm.MSM) beyond the one *)
(* pass New -> Fit -> Save -> Load of MSMObj.tla (C16): parameters are changed  *)
(* after construction (set_params, attribute assignment), the object is refit,  *)
(* saved (with / without force), loaded into a second object, cloned, compared. *)
(*                                                                            *)
(* Two Python names, "a" and "b".  Per object the state keeps                  *)
(*   given    the configuration a caller has ASKED for so far (constructor      *)
(*            arguments, updated by every SetParam): the configuration of the   *)
(*            "freshly constructed estimator with those parameters"             *)
(*   stored   the configuration the object REPORTS (get_params / config)        *)
(*   fit      the fitted parts (tcounts_, tprobs_, eq_probs_, mapping_) or <<>>  *)
(*   fitcfg   the configuration the fitted parts were COMPUTED with             *)
(* The central invariant: after every Fit, fitcfg = given and the parts are the *)
(* pipeline result of a fresh estimator (FitLikeFresh); between a SetParam and  *)
(* the next Fit the parts may be stale (sklearn convention) and ONLY then       *)
(* (StaleOnlyAfterSetParam).  Save / Load move params and parts unchanged       *)
(* (SaveLoadIdentity), the mapping_ is a TrimMapping in the sense of            *)
(* TrimMapping.tla (its file is the sorted CSV, which reads back as itself).    *)
(*                                                                            *)
(* Counting, trimming and building are NOT restated: Pipeline, CountsOf, ...    *)
(* are the definition-level operators of MSMObj.tla (instantiated below).       *)
(* Fits are restricted to tie-free inputs with at least one counted transition  *)
(* (which component wins a tie is C11's subject; an all-zero count matrix has   *)
(* no stationary distribution -- NaN -- and is C16's).                          *)
EXTENDS Integers, Sequences, FiniteSets, FiniteSetsExt, SequencesExt, TLC, Json

CONSTANTS S, MaxT, MaxLen, MaxLag,    \* as in MSMObj
          Data,                       \* indices into Catalogue of the assignment sets to start from
                                      \* ({} = every assignment set of the MSMObj scope S, MaxT, MaxLen)
          AnyNew,                     \* TRUE: construct with any configuration; FALSE: defaults for sliding_window
                                      \* and max_n_states at construction (the rest is reached by SetParam)
          Variants,                   \* TRUE: every entry point (set_params / attribute, name / callable, ctor / clone)
          Depth, Emit,
          OpBudget,                   \* 0 = unlimited; k > 0: no operation kind more than k times in a history, so that
                                      \* an enumerated / simulated history of length 5..9 is a life cycle (construct,
                                      \* change, fit, refit, save, load, compare) rather than a run of SetParams
          (* ---- gates: classes on which the pinned tree deviates from the definition (FALSE = not generated) *)
          PersistMaxN,     \* save/load of an estimator with max_n_states # None: `config` (what save pickles) has no
                           \* max_n_states, the loaded estimator reports None and refits to a different shape
          UnfitObservers,  \* ==, repr/str on an estimator that was never fit: result_ reads self.tcounts_ -> AttributeError
          MethodByName,    \* set_params(method="transpose") / m.method = "transpose": only __init__ resolves names,
                           \* the next fit calls a str (TypeError); a fresh MSM(method="transpose") works
          ForceOverwrite,  \* save(path, force=True) onto an existing model: os.remove(<directory>) -> IsADirectoryError
          EqForeign,       \* m == 3: other.config -> AttributeError (definition: False)
          SingleStateIO,   \* save/load of a one-state model: np.loadtxt returns a 0-d eq_probs_ (shape () instead of (1,))
          EqShapeClash     \* == of two fitted estimators with equal documented config and a different number of states
                           \* (max_n_states is not part of config): eq_probs_ arrays of different shape are compared
                           \* element-wise -> ValueError (definition: False)

VARIABLES trajs, obj, disk, res, hist, trail
vars == <<trajs, obj, disk, res, hist, trail>>

M == INSTANCE MSMObj WITH Emit <- FALSE, given <- <<>>, stored <- <<>>, fit <- <<>>, loaded <- <<>>, pc <- ""
TM == INSTANCE TrimMapping WITH NOrig <- S + 1, NTrim <- S + 1, Slots <- 1, Files <- 1, MaxPairs <- 0, Depth <- 0,
        Emit <- FALSE, OpBudget <- 0, Variants <- FALSE, EmptyFromFalsy <- FALSE, NonInjective <- FALSE, MalformedRows <- FALSE,
        live <- {}, abs <- <<>>, conc <- <<>>, disk <- <<>>, res <- <<>>, hist <- <<>>, trail <- <<>>

Names == {"a", "b"}
Methods == {"normalize", "transpose"}
Configs == M!Configs
Keys == {"lag", "method", "trim", "sliding", "maxn"}
ValuesOf(k) == CASE k = "lag" -> 1..MaxLag [] k = "method" -> Methods [] k = "trim" -> BOOLEAN
                 [] k = "sliding" -> BOOLEAN [] k = "maxn" -> {0, S, S + 1}          \* maxn 0 = None
With(c, k, v) == [kk \in DOMAIN c |-> IF kk = k THEN v ELSE c[kk]]
ConfigKeys(c) == M!ConfigKeys(c)                  \* the keys of the `config` property (max_n_states included since repair 30dd8d6)

Unbound == [live |-> FALSE, given |-> <<>>, stored |-> <<>>, fit |-> <<>>, fitcfg |-> <<>>]
Fresh(c) == [live |-> TRUE, given |-> c, stored |-> c, fit |-> <<>>, fitcfg |-> <<>>]
NoDisk == [present |-> FALSE, params |-> <<>>, parts |-> <<>>, fitcfg |-> <<>>]
Fitted(o) == o.live /\ o.fit # <<>>

(* ---- the pipeline of a fresh estimator (MSMObj, definition level) -------------------- *)
Fittable(c) == LET P == M!Pipeline(trajs, c)
               IN Cardinality(P) = 1 /\ \A p \in P : M!TotalOf(p.counts) > 0
TheFit(c) == CHOOSE p \in M!Pipeline(trajs, c) : TRUE

(* ---- mapping_ as a TrimMapping ------------------------------------------------------------ *)
MapPairs(p) == {<<p.keep[i] - 1, i - 1>> : i \in 1..Len(p.keep)}          \* <<original, trimmed>>, 0-based ids
MapDict(p) == TM!DictOf(TM!Swap(TM!SortedPairs(MapPairs(p))))             \* the to_original dict
MapLines(p) == TM!Lines(TM!FileOf(MapPairs(p)))                           \* mapping.csv

(* ---- equality ------------------------------------------------------------------------------ *)
EqSpec(p, q) == ConfigKeys(p.stored) = ConfigKeys(q.stored) /\ p.fit = q.fit
(* code-shaped: config, fittedness, then the parts one by one *)
EqCode(p, q) ==
  IF ConfigKeys(p.stored) # ConfigKeys(q.stored) THEN FALSE
  ELSE IF p.fit = <<>> THEN q.fit = <<>>
  ELSE IF q.fit = <<>> THEN FALSE
  ELSE /\ p.fit.pops = q.fit.pops
       /\ TM!EqImpl(MapDict(p.fit), MapDict(q.fit))
       /\ Len(p.fit.counts) = Len(q.fit.counts) /\ Len(p.fit.tprobs) = Len(q.fit.tprobs)
       /\ p.fit.counts = q.fit.counts /\ p.fit.half = q.fit.half
       /\ p.fit.tprobs = q.fit.tprobs

RaiseRes == [k |-> "raise", b |-> FALSE, s |-> <<>>]
OkRes == [k |-> "ok", b |-> FALSE, s |-> <<>>]
BoolRes(v) == [k |-> "bool", b |-> v, s |-> <<>>]
StrRes(prefixes) == [k |-> "str", b |-> FALSE, s |-> prefixes]
NoRes == [k |-> "none", b |-> FALSE, s |-> <<>>]

(* ---- observation ---------------------------------------------------------------------------- *)
PartsObs(p) == [keep |-> p.keep, counts |-> p.counts, half |-> p.half, tprobs |-> p.tprobs, pops |-> p.pops,
                to_mapped |-> TM!SortedPairs(TM!MappedOf(MapPairs(p))),
                to_original |-> TM!SortedPairs(TM!OriginalOf(MapPairs(p))),
                mapfile |-> MapLines(p)]
ObjObs(o) == IF ~o.live THEN [live |-> FALSE]
             ELSE [live |-> TRUE, params |-> o.stored, config |-> ConfigKeys(o.stored), fitted |-> o.fit # <<>>,
                   nstates |-> IF o.fit # <<>> THEN Len(o.fit.keep) ELSE 0,      \* 0: ImproperlyConfigured
                   parts |-> IF o.fit # <<>> THEN PartsObs(o.fit) ELSE <<>>]
ShapeClash(p, q) == /\ p.fit # <<>> /\ q.fit # <<>> /\ ConfigKeys(p.stored) = ConfigKeys(q.stored)
                    /\ Len(p.fit.keep) # Len(q.fit.keep)
(* NOT a gate but a limit of this specification: two fitted objects that report the same configuration while their
   (stale) parts come from different builders.  Deciding == would mean comparing a symmetrised count matrix (kept as
   twice its value) and the stationary vector of a row-normalised chain (no closed form here, see Spectrum.tla) by
   VALUE; the comparison is left unobserved in such states. *)
MethodClash(p, q) == /\ p.fit # <<>> /\ q.fit # <<>> /\ ConfigKeys(p.stored) = ConfigKeys(q.stored)
                     /\ p.fitcfg.method # q.fitcfg.method
EqDefined(ob) == /\ ob.a.live /\ ob.b.live /\ (UnfitObservers \/ (ob.a.fit # <<>> /\ ob.b.fit # <<>>))
                 /\ (EqShapeClash \/ ~ShapeClash(ob.a, ob.b))
                 /\ ~MethodClash(ob.a, ob.b)
Obs(ob, dk, rs) ==
  [a |-> ObjObs(ob.a), b |-> ObjObs(ob.b),
   eqdef |-> EqDefined(ob), eq |-> (EqDefined(ob) /\ EqSpec(ob.a, ob.b)),
   disk |-> IF dk.present THEN [present |-> TRUE, params |-> dk.params, parts |-> PartsObs(dk.parts)]
            ELSE [present |-> FALSE],
   res |-> rs]

AllData == UNION {[1..n -> M!Rows] : n \in 1..MaxT}
(* assignment sets (S >= 3) on which every parameter matters: a sink state (trimming removes it), a kept component
   that does not start at state 0 (the mapping is not the identity), two trajectories, lag 2 differing from lag 1,
   the sliding window differing from the strided one *)
Catalogue == << << <<0, 1, 0, 1, 2>> >>,
                << <<2, 1, 2, 1, 0, 0>> >>,
                << <<0, 0, 1, 0>>, <<1, 2, 2>> >> >>
Init == /\ trajs \in (IF Data = {} THEN AllData ELSE {Catalogue[i] : i \in Data})
        /\ obj = [a |-> Unbound, b |-> Unbound]
        /\ disk = NoDisk /\ res = NoRes /\ hist = <<>>
        /\ trail = << <<[a |-> Unbound, b |-> Unbound], NoDisk, NoRes>> >>

(* Log is the LAST conjunct of every action (all other primed variables are determined by then) *)
Log(op) == /\ (OpBudget = 0 \/ Cardinality({j \in DOMAIN hist : hist[j].op = op.op}) < OpBudget)
           /\ hist' = Append(hist, op)
           /\ trail' = IF Emit THEN Append(trail, <<obj', disk', res'>>) ELSE trail   \* snapshots, only kept when emitting
CanStep == Len(hist) < Depth
NewConfigs == IF AnyNew THEN Configs ELSE {c \in Configs : c.sliding /\ c.maxn = 0}
Bools == IF Variants THEN BOOLEAN ELSE {FALSE}

(* ---- construction ------------------------------------------------------------------------------ *)
New(c, byname) ==                                 \* a = MSM(**c)      (method by name or as the builder function)
  /\ CanStep /\ ~obj.a.live
  /\ obj' = [obj EXCEPT !.a = Fresh(c)]
  /\ res' = OkRes /\ UNCHANGED <<trajs, disk>>
  /\ Log([op |-> "new", x |-> "a", cfg |-> c, byname |-> byname])

FromAssignments(c, byname) ==                     \* a = MSM.from_assignments(assigns, **c)   ( = New ; Fit )
  /\ CanStep /\ ~obj.a.live /\ Fittable(c)
  /\ obj' = [obj EXCEPT !.a = [Fresh(c) EXCEPT !.fit = TheFit(c), !.fitcfg = c]]
  /\ res' = OkRes /\ UNCHANGED <<trajs, disk>>
  /\ Log([op |-> "from_assignments", x |-> "a", cfg |-> c, byname |-> byname])

Twin(how) ==                                      \* b = MSM(**<what a was asked to be>)  /  b = sklearn.base.clone(a)
  /\ CanStep /\ obj.a.live
  /\ obj' = [obj EXCEPT !.b = Fresh(obj.a.given)]
  /\ res' = OkRes /\ UNCHANGED <<trajs, disk>>
  /\ Log([op |-> "twin", x |-> "b", cfg |-> obj.a.given, how |-> how])

(* ---- parameters ---------------------------------------------------------------------------------- *)
SetParam(x, k, v, how, byname) ==                 \* x.set_params(k=v)  /  x.k = v
  /\ CanStep /\ obj[x].live /\ obj[x].stored[k] # v
  /\ byname => (k = "method" /\ MethodByName)
  /\ obj' = [obj EXCEPT ![x].given = With(@, k, v), ![x].stored = With(@, k, v)]
  /\ res' = OkRes /\ UNCHANGED <<trajs, disk>>
  /\ Log([op |-> "setparam", x |-> x, k |-> k, v |-> v, how |-> how, byname |-> byname])

(* ---- fit / refit ------------------------------------------------------------------------------------ *)
Fit(x) ==                                         \* x.fit(assigns): uses what the object stores -- as the code does
  /\ CanStep /\ obj[x].live /\ Fittable(obj[x].stored)
  /\ obj' = [obj EXCEPT ![x].fit = TheFit(obj[x].stored), ![x].fitcfg = obj[x].stored]
  /\ res' = OkRes /\ UNCHANGED <<trajs, disk>>
  /\ Log([op |-> IF obj[x].fit = <<>> THEN "fit" ELSE "refit", x |-> x])

(* ---- persistence -------------------------------------------------------------------------------------- *)
Save(x, force) ==                                 \* x.save(path, force=force)
  /\ CanStep /\ obj[x].live
  /\ (Fitted(obj[x]) /\ obj[x].stored.maxn # 0) => PersistMaxN
  /\ (Fitted(obj[x]) /\ Len(obj[x].fit.keep) = 1) => SingleStateIO
  /\ (Fitted(obj[x]) /\ disk.present /\ force) => ForceOverwrite
  /\ IF Fitted(obj[x]) /\ (~disk.present \/ force)
     THEN /\ disk' = [present |-> TRUE, params |-> obj[x].stored, parts |-> obj[x].fit, fitcfg |-> obj[x].fitcfg]
          /\ res' = OkRes
     ELSE /\ UNCHANGED disk /\ res' = RaiseRes     \* nothing to save / the path exists
  /\ UNCHANGED <<trajs, obj>>
  /\ Log([op |-> "save", x |-> x, force |-> force])

Load ==                                           \* b = MSM.load(path)
  /\ CanStep /\ disk.present
  /\ obj' = [obj EXCEPT !.b = [live |-> TRUE, given |-> disk.params, stored |-> disk.params,
                                fit |-> disk.parts, fitcfg |-> disk.fitcfg]]
  /\ res' = OkRes /\ UNCHANGED <<trajs, disk>>
  /\ Log([op |-> "load", x |-> "b"])

(* ---- observers -------------------------------------------------------------------------------------------- *)
Eq(x, y) ==                                       \* x == y
  /\ CanStep /\ obj[x].live /\ obj[y].live
  /\ (obj[x].fit = <<>> \/ obj[y].fit = <<>>) => UnfitObservers
  /\ ShapeClash(obj[x], obj[y]) => EqShapeClash
  /\ ~MethodClash(obj[x], obj[y])
  /\ res' = BoolRes(EqSpec(obj[x], obj[y]))
  /\ UNCHANGED <<trajs, obj, disk>>
  /\ Log([op |-> "eq", x |-> x, y |-> y])

EqOther(x, kind) ==                               \* x == 3, "ab", None
  /\ CanStep /\ obj[x].live /\ EqForeign
  /\ res' = BoolRes(FALSE)
  /\ UNCHANGED <<trajs, obj, disk>>
  /\ Log([op |-> "eqother", x |-> x, kind |-> kind])

Describe(x) ==                                    \* repr(x), str(x)
  /\ CanStep /\ obj[x].live
  /\ obj[x].fit = <<>> => UnfitObservers
  /\ res' = StrRes(<<"MSM:">>)
  /\ UNCHANGED <<trajs, obj, disk>>
  /\ Log([op |-> "describe", x |-> x])

Next ==
  \/ \E c \in NewConfigs, bn \in Bools : New(c, bn)
  \/ \E c \in NewConfigs, bn \in Bools : FromAssignments(c, bn)
  \/ \E how \in (IF Variants THEN {"ctor", "clone"} ELSE {"ctor"}) : Twin(how)
  \/ \E x \in Names, k \in Keys : \E v \in ValuesOf(k), how \in (IF Variants THEN {"set_params", "attr"} ELSE {"set_params"}),
        bn \in BOOLEAN : SetParam(x, k, v, how, bn)
  \/ \E x \in Names : Fit(x)
  \/ \E x \in Names, force \in BOOLEAN : Save(x, force)
  \/ Load
  \/ \E x \in Names, y \in Names : Eq(x, y)
  \/ \E x \in Names, kind \in {"int", "str", "none"} : EqOther(x, kind)
  \/ \E x \in Names : Describe(x)
Spec == Init /\ [][Next]_vars

(* ---- properties ------------------------------------------------------------------------------------------------ *)
LastOp == IF hist = <<>> THEN [op |-> "init"] ELSE hist[Len(hist)]
Stepped == Len(hist') > Len(hist)
Op == hist'[Len(hist')]

(* the object reports what it was asked to be (a dropped / cached / mis-stored parameter is a state difference) *)
ConfigStored == \A x \in Names : obj[x].live => obj[x].stored = obj[x].given
(* after every Fit the configuration of the parts is the one asked for, and the parts are those of a FRESH estimator *)
FitLikeFresh == [][\A x \in Names : (Stepped /\ Op.op \in {"fit", "refit", "from_assignments"} /\ Op.x = x)
                      => /\ obj'[x].fitcfg = obj'[x].given
                         /\ obj'[x].fit \in M!Pipeline(trajs, obj'[x].given)]_vars
(* wherever parts are held (objects, disk) they are a pipeline result of the configuration they are labelled with;
   evaluated when parts were produced or moved *)
PartsArePipeline == LastOp.op \in {"fit", "refit", "from_assignments", "load", "save"} =>
  /\ \A x \in Names : Fitted(obj[x]) => obj[x].fit \in M!Pipeline(trajs, obj[x].fitcfg)
  /\ disk.present => disk.parts \in M!Pipeline(trajs, disk.fitcfg)
(* two fitted objects computed with the same configuration hold the same parts: no residue of earlier fits *)
NoResidue == \A x, y \in Names : (Fitted(obj[x]) /\ Fitted(obj[y]) /\ obj[x].fitcfg = obj[y].fitcfg) => obj[x].fit = obj[y].fit
(* parts and reported configuration disagree only between a SetParam and the next Fit *)
StaleOnlyAfterSetParam == [][\A x \in Names : (Stepped /\ Fitted(obj[x]) /\ obj[x].fitcfg = obj[x].stored
                                                 /\ Fitted(obj'[x]) /\ obj'[x].fitcfg # obj'[x].stored)
                                => (Op.op = "setparam" /\ Op.x = x)]_vars
(* save ; load is the identity on parameters (all five) and parts *)
SaveLoadIdentity == [][(Stepped /\ Op.op = "load") =>
                          /\ obj'.b.stored = disk.params /\ obj'.b.fit = disk.parts /\ obj'.b.fitcfg = disk.fitcfg]_vars
SaveStoresObject == [][\A x \in Names : (Stepped /\ Op.op = "save" /\ Op.x = x /\ res'.k = "ok")
                          => (disk'.params = obj[x].stored /\ disk'.parts = obj[x].fit)]_vars
(* mapping_ is a TrimMapping: injective, increasing, the identity without trimming, and its file reads back as itself *)
MappingWellFormed == \A x \in Names : Fitted(obj[x]) =>
  LET p == obj[x].fit IN
  /\ TM!IsInjMap(MapPairs(p))
  /\ \A i, j \in 1..Len(p.keep) : i < j => p.keep[i] < p.keep[j]
  /\ ~obj[x].fitcfg.trim => p.keep = [i \in 1..M!NStates(trajs, obj[x].fitcfg) |-> i]
  /\ Len(p.counts) = Len(p.keep) /\ Len(p.tprobs) = Len(p.keep)
MappingRoundTrip == \A x \in Names : Fitted(obj[x]) =>
  LET p == obj[x].fit  file == TM!FileOf(MapPairs(p)) IN
  /\ TM!ReadOk(file) /\ TM!ReadAbs(file) = MapPairs(p)
  /\ TM!ItemSet(TM!ReadImpl(file)) = TM!OriginalOf(MapPairs(p))
  /\ TM!WriteImpl(MapDict(p)) = file
(* == compares piecewise what the definition compares as a whole; it is reflexive and symmetric *)
EqAgrees == \A x, y \in Names : (obj[x].live /\ obj[y].live) =>
  /\ EqCode(obj[x], obj[y]) = EqSpec(obj[x], obj[y])
  /\ EqCode(obj[x], obj[y]) = EqCode(obj[y], obj[x])
  /\ EqCode(obj[x], obj[x])
(* observers and failed operations change nothing *)
ObserversPure == [][(Stepped /\ Op.op \in {"eq", "eqother", "describe", "save"}) => obj' = obj]_vars
RejectedChangesNothing == [][res'.k = "raise" => (obj' = obj /\ disk' = disk)]_vars

(* ---- emission -------------------------------------------------------------------------------------------------------- *)
HistView == <<trajs, obj, disk, res, Len(hist)>>
OpView == <<trajs, obj, disk, res, Len(hist), LastOp>>
(* one history per distinct TRANSITION (observation before, operation, state after): OpView identifies a step by its
   result, so an absorbed effect (force-saving over an identical model) would only be emitted from the first state *)
TransView == <<OpView, IF hist = <<>> THEN <<>> ELSE trail[Len(trail) - 1]>>
Rec == [trajs |-> trajs, hist |-> hist, trail |-> [i \in DOMAIN trail |-> Obs(trail[i][1], trail[i][2], trail[i][3])]]
EmitInv == (Emit /\ hist # <<>>) => PrintT(<<"CASE", ToJson(Rec)>>)
EmitFull == (Emit /\ Len(hist) = Depth) => PrintT(<<"CASE", ToJson(Rec)>>)
=============================================================================
