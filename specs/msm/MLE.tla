-------------------------------- MODULE MLE --------------------------------
(* Reversible maximum-likelihood estimator (enspara.msm.builders.mle,         *)
(* _prinz_mle_py, libmsm._mle_prinz_dense).  Properties C12 and the mle part  *)
(* of C04.                                                                    *)
(*                                                                            *)
(* The estimator is specified RELATIONALLY: its control flow is the machine   *)
(*    init -Start-> iter -(Warn)-> warned ;  iter|warned -Return(T,pi)-> ret  *)
(* and a returned pair (T, pi) is acceptable iff it satisfies the stationarity*)
(* conditions of the reversible likelihood, which are polynomial with integer *)
(* coefficients:                                                              *)
(*     c_ii        = c_i T_ii                (diagonal)                       *)
(*     c_ij + c_ji = c_i T_ij + c_j T_ji     (Prinz self-consistency)         *)
(*     pi_i T_ij   = pi_j T_ji               (detailed balance)               *)
(* plus row-stochasticity, support, pi a stationary probability vector, and   *)
(* likelihood dominance over every logged reversible competitor.              *)
(* This module VALIDATES EXECUTIONS OF THE REAL CODE: each trace is one count *)
(* matrix with the recorded runs of the implementations (scaled integers).    *)
(* A raised exception has no matching action: clause NeverCrashes.            *)
EXTENDS Integers, Sequences, FiniteSets, TLC, Json, IOUtils

Traces == JsonDeserialize(IOEnv.TRACE_FILE)

VARIABLES tid,      \* which trace
          l,        \* next event (1-based)
          pc,       \* init | iter | warned | ret
          cur,      \* implementation of the current run
          res,      \* results returned so far: sequence of records
          fails     \* set of <<clause, run index>> that failed

vars == <<tid, l, pc, cur, res, fails>>

Tr == Traces[tid]
Ev == Tr.events
n  == Tr.n
Idx == 1..n
Cm == Tr.C                        \* counts (integers, scaled by Tr.cs)

RECURSIVE SumTo(_, _)
SumTo(f, k) == IF k = 0 THEN 0 ELSE f[k] + SumTo(f, k - 1)
RowC(i) == SumTo(Cm[i], n)
Abs(x) == IF x < 0 THEN -x ELSE x

(* strong connectivity of the input (the property's precondition) *)
RECURSIVE ReachK(_, _, _)
ReachK(i, j, k) == IF k = 0 THEN i = j
                   ELSE ReachK(i, j, k - 1) \/ \E m \in Idx : ReachK(i, m, k - 1) /\ Cm[m][j] > 0
Precondition == \A i, j \in Idx : ReachK(i, j, n)

(* ---- acceptance relation ---------------------------------------------------- *)
RowStochastic(e) == \A i \in Idx : /\ Abs(SumTo(e.T6[i], n) - 1000000) <= n
                                   /\ \A j \in Idx : e.T6[i][j] >= 0 /\ e.T6[i][j] <= 1000001
PiDistribution(e) == /\ Abs(SumTo(e.pi6, n) - 1000000) <= n
                     /\ \A i \in Idx : e.pi6[i] >= 0
Support(e) == \A i, j \in Idx : (Cm[i][j] + Cm[j][i] = 0) => e.T6[i][j] = 0
DetailedBalance(e) == \A i, j \in Idx :
   Abs(e.pi4[i] * e.T4[i][j] - e.pi4[j] * e.T4[j][i]) <= 20001
Stationary(e) == \A j \in Idx :
   Abs(SumTo([i \in Idx |-> e.pi4[i] * e.T4[i][j]], n) - e.pi4[j] * 10000) <= (n + 1) * 10000
(* Prinz equations, 1e-6 scaling; budget = rounding (c_i + c_j) + 1e-4 relative *)
SelfConsistent(e) == \A i, j \in Idx :
   Abs(RowC(i) * e.T6[i][j] + RowC(j) * e.T6[j][i] - (Cm[i][j] + Cm[j][i]) * 1000000)
      <= (RowC(i) + RowC(j)) * 101
(* competitors: symmetric integer matrices X on the support of C + C^T (plus the
   diagonal of C); T' = X / rowsum(X) is reversible.  The log-likelihoods (x 1e4)
   are computed by the projection; the specification only orders them. *)
CompetitorOK(X) == \A i, j \in Idx : /\ X[i][j] = X[j][i] /\ X[i][j] >= 0
                                     /\ (Cm[i][j] > 0 => X[i][j] > 0)
Dominates(e) == \A k \in 1..Len(Tr.comp) :
   CompetitorOK(Tr.comp[k].X) => e.ll4 + 10 >= Tr.comp[k].ll4

Weak == {"RowStochastic", "PiDistribution", "Support", "DetailedBalance"}
Clauses == Weak \cup {"Stationary", "SelfConsistent", "Dominates"}
Holds(c, e) == CASE c = "RowStochastic" -> RowStochastic(e)
                 [] c = "PiDistribution" -> PiDistribution(e)
                 [] c = "Support" -> Support(e)
                 [] c = "DetailedBalance" -> DetailedBalance(e)
                 [] c = "Stationary" -> Stationary(e)
                 [] c = "SelfConsistent" -> SelfConsistent(e)
                 [] c = "Dominates" -> Dominates(e)

(* ---- machine ------------------------------------------------------------------ *)
Init == /\ tid \in 1..Len(Traces)
        /\ l = 1 /\ pc = "init" /\ cur = "" /\ res = <<>> /\ fails = {}

IsEvent(name) == l <= Len(Ev) /\ Ev[l].ev = name

Start == /\ IsEvent("start") /\ pc \in {"init", "ret"}
         /\ cur' = Ev[l].impl /\ pc' = "iter" /\ l' = l + 1
         /\ UNCHANGED <<tid, res, fails>>

(* the iteration cap was reached: a ConvergenceWarning is the documented outcome *)
Warn == /\ IsEvent("warn") /\ pc = "iter"
        /\ pc' = "warned" /\ l' = l + 1
        /\ UNCHANGED <<tid, cur, res, fails>>

Return == /\ IsEvent("return") /\ pc \in {"iter", "warned"}
          /\ LET e == Ev[l]
                 need == IF pc = "warned" THEN Weak ELSE Clauses
             IN /\ fails' = fails \cup {<<c, Len(res) + 1>> : c \in {c \in need : ~Holds(c, e)}}
                /\ res' = Append(res, [impl |-> cur, T6 |-> e.T6, pi6 |-> e.pi6, warned |-> (pc = "warned")])
          /\ pc' = "ret" /\ l' = l + 1
          /\ UNCHANGED <<tid, cur>>

(* an exception escaped the estimator: not a behaviour of the specification;
   the failure is recorded and validation continues with the next run *)
Crash == /\ IsEvent("raise") /\ pc \in {"iter", "warned"}
         /\ fails' = fails \cup {<<"NeverCrashes", Len(res) + 1>>}
         /\ res' = Append(res, [impl |-> cur, T6 |-> <<>>, pi6 |-> <<>>, warned |-> TRUE])
         /\ pc' = "ret" /\ l' = l + 1
         /\ UNCHANGED <<tid, cur>>

Next == Start \/ Warn \/ Return \/ Crash
Spec == Init /\ [][Next]_vars

(* the implementations agree (runs that converged): 1e-4 absolute *)
Agree == \A a, b \in 1..Len(res) :
   (~res[a].warned /\ ~res[b].warned) =>
      /\ \A i, j \in Idx : Abs(res[a].T6[i][j] - res[b].T6[i][j]) <= 100
      /\ \A i \in Idx : Abs(res[a].pi6[i] - res[b].pi6[i]) <= 100

(* ... and they agree on WHETHER the iteration cap was exhausted: run on the same counts with the same cap, one
   implementation cannot report a converged model where the other reports that it ran out of sweeps *)
WarnAlike == \A a, b \in 1..Len(res) :
   (res[a].T6 # <<>> /\ res[b].T6 # <<>>) => (res[a].warned <=> res[b].warned)

Finished == pc = "ret" /\ l = Len(Ev) + 1

Verdict == fails \cup (IF Agree THEN {} ELSE {<<"Agree", 0>>})
                 \cup (IF WarnAlike THEN {} ELSE {<<"WarnAlike", 0>>})
                 \cup (IF Precondition THEN {} ELSE {<<"PreconditionNotMet", 0>>})

Report == Finished => PrintT(<<"VERDICT", tid, Verdict>>)

(* every event is consumed or the trace is stuck: checked by the driver through
   the presence of a VERDICT line for every tid *)
=============================================================================
