------------------------------ MODULE Resample ------------------------------
(* Resampling, implied timescales and synthetic data                           *)
(* (enspara.msm.bootstrap.bootstrap; enspara.msm.timescales.implied_timescales *)
(* / calc_imp_times; enspara.msm.synthetic_data.synthetic_ensemble /           *)
(* synthetic_trajectory).  Grown beyond the listed properties (DESIGN 10,      *)
(* item 3); runs as a part of C03 (props/x_resample.py).  Reuses Counts.tla    *)
(* (the cardinality definition of a count matrix, C03) and the definition-     *)
(* level pipeline counts -> trim -> builder of MSMObj.tla (C16) by INSTANCE.   *)
(*                                                                             *)
(* WHAT EACH FUNCTION IS DEFINED TO COMPUTE                                    *)
(*                                                                             *)
(* (1) bootstrap(func, data, n_trials, n_procs, **kwargs)   Mode "boot"        *)
(*   data is a collection of n trajectories (rows).  For every trial t =       *)
(*   1..n_trials the RANDOM SOURCE is asked once for n indices out of          *)
(*   0..n-1 WITH replacement (the draw d_t); the result is the list            *)
(*       [ func(<<data[d_t[1]], .., data[d_t[n]]>>, **kwargs) : t = 1..n_trials ]   *)
(*   -- the chosen trajectories in the chosen order (DefSample).  The random   *)
(*   source is the only nondeterminism: action B_Draw chooses ANY draw, the    *)
(*   driver makes numpy's entry point (np.random.choice as looked up by the    *)
(*   module) return exactly the draws TLC chose.  With func =                  *)
(*   assigns_to_counts the result of a trial is the SUM over the chosen        *)
(*   MULTISET of the per-trajectory count matrices of Counts.tla (DefCounts:   *)
(*   multiplicity of trajectory k in d_t times Counts!Def of the single row    *)
(*   k), hence independent of the order inside the draw (BootOrderFree); the   *)
(*   number of results is n_trials; the input is not modified; a draw that     *)
(*   happens to be the identity gives the counts of the data set itself.       *)
(*   With max_n_states = None the shape of a trial's matrix follows the        *)
(*   states seen in THAT resample.                                             *)
(*   Containers.  "ndarray": a rectangular integer array, shorter rows padded  *)
(*   with -1 (assigns_to_counts masks the padding, Counts!Mask).  "ragged":    *)
(*   a RaggedArray.  The code copies data.flatten() into a shared int32 buffer *)
(*   and rebuilds the rows by reshape(data.shape) in the worker initialiser.   *)
(*   DEVIATION, class "boot-ragged-data": a RaggedArray whose rows differ in   *)
(*   length has shape (n, None); the reshape in the initialiser raises         *)
(*   TypeError -- inside every pool worker, which multiprocessing.Pool         *)
(*   re-spawns for ever: the real call never returns (the in-process pool of   *)
(*   the driver shows the TypeError).  The docstring puts no restriction on    *)
(*   `data` ("Data to run func on") and bootstrap.MSMs hands assignments --    *)
(*   ragged in every real data set -- straight to it.  Decision: the           *)
(*   definition above is the definition for ragged data too; the transcription *)
(*   keeps the raise (B_PoolInitRagged, BootRaggedRaises); the class is not    *)
(*   emitted while its name is in the constant Gated.                          *)
(*                                                                             *)
(* (2) implied_timescales(assigns, lag_times, method, n_times, sliding_window, *)
(*     trim)                                                  Mode "its"       *)
(*   n_states = max state id + 1; n_times defaults to floor(n_states/10) + 1   *)
(*   and is capped at n_states - 1 ("-1 accounts for eq pops").  Row k of the  *)
(*   result belongs to lag_times[k] -- the ORDER OF THE ROWS IS THE ORDER OF   *)
(*   THE LAG LIST (ItsRowsFollowLagList) -- and holds, for the model           *)
(*       T = method(trim?(counts(assigns, lag, sliding_window, n_states)))     *)
(*   the implied timescales  -lag / ln(lambda_j),  j = 2..min(n_times+1, m),   *)
(*   of the eigenvalues lambda_1 >= lambda_2 >= .. of T after the largest one  *)
(*   (the stationary process when T is stochastic); m is the number of states  *)
(*   of the (trimmed) model, so a row is SHORTER than n_times when the         *)
(*   spectrum is.  The definition of the model is MSMObj!Pipeline (C16): one   *)
(*   admissible model per heaviest strongly connected component; a case in     *)
(*   which two admissible components give different rows is not emitted.       *)
(*   Spectrum.  Eigenvalues are the roots of the characteristic polynomial:    *)
(*   for an eigenvalue list e of an m x m matrix, m <= 3: every e_j is a root  *)
(*   of det(T - x I), sum e = trace, product e = det (ItsSpectrumIsCharPoly).  *)
(*   The transcription finds them by deflation (root 1 of a stochastic matrix, *)
(*   root 0 of a matrix with a zero row) and the quadratic formula with an     *)
(*   exact integer square root; a spectrum with irrational or complex members  *)
(*   is outside the vocabulary: its entries are "u" (not compared).            *)
(*   Logarithm.  ln is a constant table Ln6[k] = round(10^6 ln k), k <= 1024   *)
(*   (the driver checks the table against the float logarithm).  For           *)
(*   lambda = a/b, 0 < a < b <= 1024:  10^6 ln(b/a) lies in [dl-1, dl+1] with  *)
(*   dl = Ln6[b] - Ln6[a], so the timescale lies in the interval of RATIONALS  *)
(*       [ lag 10^6 / (dl + 1),  lag 10^6 / (dl - 1) ]                         *)
(*   which is what an entry "v" carries (relative width 2/dl <= 2e-3, typ.     *)
(*   1e-5).  lambda <= 0 (no real timescale: the code returns nan or 0),       *)
(*   lambda = 1 (infinite) and untabulated rationals are "u".                  *)
(*   A lag longer than every trajectory gives a zero count matrix, a zero T    *)
(*   (the builders' zero-row guard), eigenvalues 0: a row of "u" of the usual  *)
(*   length without trimming (ItsLagTooLong).                                  *)
(*   DEVIATIONS.  Class "its-ntimes-zero": when n_times is 0 after the cap     *)
(*   (requested 0, or a single observed state) the definition gives rows of    *)
(*   length 0; the code asks eigenspectrum for 1 eigenvalue, which raises      *)
(*   ValueError, and the handler `except ArpackNoConvergence` names a class    *)
(*   the module never imports: the caller sees NameError.  (Every exception    *)
(*   of eigenspectrum is turned into that NameError.)  Class                   *)
(*   "its-ragged-rows": with trim the rows of different lags can differ in     *)
(*   length (fewer connected states at a longer lag -- or none at a lag longer *)
(*   than every trajectory); the code ends with np.array(list of rows), which  *)
(*   raises ValueError (inhomogeneous shape) although every row is defined.    *)
(*   Both keep the definition; the transcription keeps the raise (I_EigErr,    *)
(*   I_ReturnRagged); not emitted while in Gated.                              *)
(*                                                                             *)
(* (3a) synthetic_ensemble(T, init_pops, n_steps, observable_per_state)        *)
(*                                                            Mode "ens"       *)
(*   T = A/D row-stochastic.  History row t (t = 0..n_steps-1) is the EXACT    *)
(*   vector-matrix product init_pops T^t (matrix power, DefEnsRow); the first  *)
(*   returned value is the last row; with an observable o the history is the   *)
(*   series rows[t] . o.  (The code returns the pair (final, history); the     *)
(*   docstring describes only the history.)  init_pops may be probabilities    *)
(*   (float64 / float32), INTEGER walker counts or bool masks: the history is  *)
(*   linear in init_pops and is NOT truncated to its element type -- integer   *)
(*   walkers spread into fractional populations (EnsFractional marks the cases *)
(*   in which a truncating history would differ).  Dense and sparse T.         *)
(*                                                                             *)
(* (3b) synthetic_trajectory(T, start_state, n_steps)         Mode "traj"      *)
(*   "n_steps ... includes the starting state": a path of n_steps states,      *)
(*   path[0] = start_state, drawn step by step: one uniform u in [0, 1) per    *)
(*   step from the random source (J_Step chooses ANY u = k/U), next state =    *)
(*   the unique x with  cdf(x-1) <= u < cdf(x)  for the cumulative row of the  *)
(*   current state (inverse CDF, DefNext).  The code: rng = default_rng();     *)
(*   rng.choice(n, 1, p=row) = cdf = cumsum(p); cdf /= cdf[-1];                *)
(*   searchsorted(cdf, rng.random(1), side='right') -- the number of cdf       *)
(*   entries <= u (ImplNext).  Every step goes along an edge with T > 0; the   *)
(*   rule reproduces the row: the share of grid draws that lead to x is        *)
(*   T[s][x] (TrajRuleIsSampler).  When D or U is not a power of two a draw    *)
(*   that hits a cdf boundary exactly may fall on either side in floating      *)
(*   point: the path is compared up to the first such step (`definite`).       *)
(*   DEVIATIONS.  Class "traj-size-one-assignment": the code stores the        *)
(*   shape-(1,) result of rng.choice into an element of an int array; NumPy    *)
(*   >= 2.4 refuses that ("setting an array element with a sequence"), so      *)
(*   every call with n_steps >= 2 raises ValueError on this stack.  While the  *)
(*   class is in Gated the driver gives the path array the pre-2.4 element     *)
(*   assignment rule (and says so), so that the rest of the function stays     *)
(*   bound; outside Gated the cases are replayed as they are.  Class           *)
(*   "traj-sparse-array": scipy sparse ARRAYS (csr_array) are not recognised   *)
(*   by isspmatrix and fall into the dense branch (TypeError); that container  *)
(*   is not emitted while in Gated.                                            *)
(*                                                                             *)
(* STRUCTURE (as Disorder.tla).  Definition-level operators Def*, a step       *)
(* machine per function (Mode selects it; one action per statement / loop      *)
(* iteration of the code, the random source as nondeterministic choice),       *)
(* invariants machine = definition (up to the named classes) and the laws,     *)
(* EmitInv prints every explored input with the expected observables.          *)
(* Integers only: probabilities are integer numerators over a common           *)
(* denominator or rationals <<num, den>> (Rational.tla); None == 1000000.      *)
EXTENDS Integers, Sequences, FiniteSets, FiniteSetsExt, SequencesExt, TLC, Json, Rational

CONSTANTS Mode,          \* "boot" | "its" | "ens" | "traj": the function whose machine runs
          Emit,
          Gated,         \* names of the deviation classes that are not emitted (see above)
          S,             \* boot, its: states 0..S-1
          BootN,         \* boot: set of numbers of trajectories
          BootMinLen,    \*       row lengths BootMinLen..BootMaxLen
          BootMaxLen,
          BootTrials,    \*       set of n_trials
          BootLags,      \*       set of lag_time
          BootSlidings,  \*       subset of BOOLEAN: sliding_window
          BootNs,        \*       subset of {0, S}: max_n_states (0 = None)
          ItsFamily,     \* its: "all": one trajectory of ItsMinLen..ItsMaxLen frames, or two of 1..ItsPairLen frames;
          ItsMinLen,     \*      "rgs": one trajectory that uses all S states, states numbered in order of appearance
          ItsMaxLen,
          ItsPairLen,    \*      0: no pairs;  "runs": one trajectory Expand(pattern, run lengths), patterns
          ItsPatternIds, \*      PatternCatalogue[ItsPatternIds], every run 1..ItsMaxRun frames long
          ItsMaxRun,
          ItsLagIds,     \*      indices into LagCatalogue
          ItsNTimes,     \*      values of n_times (None == 1000000)
          ChainN,        \* ens, traj: number of states of the chain
          ChainD,        \*            T = A/D, every row of A sums to D
          EnsMaxP0,      \* ens: init_pops entries 0..EnsMaxP0 (not all zero)
          EnsSteps,      \*      set of n_steps
          TrajSteps,     \* traj: set of n_steps
          TrajU          \*       uniforms k/TrajU, k = 0..TrajU-1

VARIABLES inp,   \* the arguments of the call (a record, per Mode)
          pc,
          i,     \* loop counter of the code
          loc,   \* local variables of the running function (a record)
          out,   \* the returned value, or [err |-> name of the exception]
          ref,   \* what the DEFINITION says about inp where it does not depend on the random source
          fired  \* vacuity control: the names of the actions taken on the way to this state (printed with every
                 \* case; TLC's -coverage is not usable here: building its cost model for the nested rational
                 \* determinant / quadratic-formula operators exhausts the heap before the run starts)

vars == <<inp, pc, i, loc, out, ref, fired>>

None == 1000000

ClsBootRagged == "boot-ragged-data"
ClsItsZero == "its-ntimes-zero"
ClsItsRagged == "its-ragged-rows"
ClsTrajAssign == "traj-size-one-assignment"
ClsTrajSparseArray == "traj-sparse-array"
Classes == {ClsBootRagged, ClsItsZero, ClsItsRagged, ClsTrajAssign, ClsTrajSparseArray}
ASSUME Gated \subseteq Classes
ASSUME Mode \in {"boot", "its", "ens", "traj"}

(* ---- small helpers ----------------------------------------------------------- *)
RECURSIVE SumTo(_, _)
SumTo(q, k) == IF k = 0 THEN 0 ELSE SumTo(q, k - 1) + q[k]
SumSeq(q) == SumTo(q, Len(q))
(* TLC keeps [k \in 1..n |-> e] lazy; concatenation with <<>> makes it an explicit tuple *)
Fix(f) == f \o <<>>
LastOf(q) == q[Len(q)]
MinOf(a, b) == IF a < b THEN a ELSE b
RECURSIVE Pow(_, _)
Pow(b, k) == IF k = 0 THEN 1 ELSE b * Pow(b, k - 1)
IsPow2(k) == k \in {1, 2, 4, 8, 16, 32, 64}
AllEqualLen(rows) == \A k \in 1..Len(rows) : Len(rows[k]) = Len(rows[1])

(* Counts.tla (C03): only the definition-level operators and the mask / padding helpers are used, so *)
(* its variables are bound to the arguments                                                          *)
Cnt(ts, lg, sl, ns) == INSTANCE Counts WITH S <- S, MaxT <- 1, MaxLen <- 1, MaxLag <- 1, MaxPad <- 0, Emit <- FALSE,
                                            trajs <- ts, lag <- lg, sliding <- sl, nstates <- ns, pad <- 0,
                                            r <- 1, C <- <<>>, pc <- "done"
(* the count matrix of a set of trajectories BY DEFINITION (cardinality of lagged pairs); ns = 0: observed states *)
CountMatrix(ts, lg, sl, ns) ==
  LET n == Cnt(ts, lg, sl, ns)!NStates
  IN Fix([a \in 1..n |-> Fix([b \in 1..n |-> Cnt(ts, lg, sl, ns)!Def(a - 1, b - 1)])])
ObservedStates(ts) == Cnt(ts, 1, TRUE, 0)!Observed
MaskRow(row) == Cnt(<<>>, 1, TRUE, 0)!Mask(row)
MaskAll(rows) == Fix([k \in 1..Len(rows) |-> MaskRow(rows[k])])
PadRows(rows) == Cnt(rows, 1, TRUE, 0)!Padded(rows, 0)

(* MSMObj.tla (C16): the definition-level pipeline Builder(Trim?(Counts(assignments))) *)
MO == INSTANCE MSMObj WITH S <- S, MaxT <- 1, MaxLen <- 1, MaxLag <- 1, Emit <- FALSE,
                           trajs <- <<>>, given <- <<>>, stored <- <<>>, fit <- <<>>, disk <- <<>>,
                           loaded <- <<>>, pc <- "done"

(* ============================================================================ *)
(* (1) bootstrap                                                                 *)
(* ============================================================================ *)
(* multiplicity of trajectory k (0-based) in the draw d *)
Mult(d, k) == Cardinality({p \in 1..Len(d) : d[p] = k})
(* the chosen trajectories in the chosen order *)
DefSample(rows, d) == Fix([p \in 1..Len(d) |-> rows[d[p] + 1]])
(* func = assigns_to_counts: the sum over the chosen multiset of the per-trajectory count matrices *)
DefCounts(rows, d, lg, sl, ns) ==
  LET chosen == {d[p] + 1 : p \in 1..Len(d)}
      n == IF ns = 0 THEN Max({ObservedStates(<<rows[k]>>) : k \in chosen}) ELSE ns
  IN Fix([a \in 1..n |-> Fix([b \in 1..n |->
        SumTo([k \in 1..Len(rows) |-> Mult(d, k - 1) * Cnt(<<rows[k]>>, lg, sl, n)!Def(a - 1, b - 1)], Len(rows))])])
DefTrial(r, d) == [sample |-> DefSample(r.rows, d), C |-> DefCounts(r.rows, d, r.lag, r.sliding, r.ns)]
DefBoot(r, draws) == Fix([t \in 1..Len(draws) |-> DefTrial(r, draws[t])])

IsBootRagged(r) == r.container = "ragged" /\ ~AllEqualLen(r.rows)

(* what the code sees: the array (padded with -1) or the ragged rows; data.shape; data.flatten() *)
DataOf(r) == IF r.container = "ndarray" THEN PadRows(r.rows) ELSE r.rows
ShapeOf(r) == <<Len(r.rows),
                IF r.container = "ndarray" THEN Len(PadRows(r.rows)[1])
                ELSE IF AllEqualLen(r.rows) THEN Len(r.rows[1]) ELSE None>>
RECURSIVE FlattenTo(_, _)
FlattenTo(rows, k) == IF k = 0 THEN <<>> ELSE FlattenTo(rows, k - 1) \o rows[k]
Flatten(rows) == FlattenTo(rows, Len(rows))
Reshape(flat, n, w) == Fix([k \in 1..n |-> SubSeq(flat, (k - 1) * w + 1, k * w)])

BootRows == UNION {[1..l -> 0..(S - 1)] : l \in BootMinLen..BootMaxLen}
BootInputs == {[rows |-> rs, container |-> c, trials |-> k, lag |-> lg, sliding |-> sl, ns |-> ns] :
                  rs \in UNION {[1..n -> BootRows] : n \in BootN}, c \in {"ndarray", "ragged"},
                  k \in BootTrials, lg \in BootLags, sl \in BootSlidings, ns \in BootNs}

(* ============================================================================ *)
(* (2) implied timescales                                                        *)
(* ============================================================================ *)
LagCatalogue == << <<2, 1>>, <<1, 3, 2>>, <<1, 9>>, <<>>, <<1>>, <<2, 2>>, <<3, 1>> >>

(* ---- the logarithm table: Ln6[k] = round(10^6 ln k), k = 1..1024 ------------- *)
LnMax == 1024
Ln6 == <<
               0,  693147, 1098612, 1386294, 1609438, 1791759, 1945910, 2079442, 2197225, 2302585, 2397895, 2484907,
         2564949, 2639057, 2708050, 2772589, 2833213, 2890372, 2944439, 2995732, 3044522, 3091042, 3135494, 3178054,
         3218876, 3258097, 3295837, 3332205, 3367296, 3401197, 3433987, 3465736, 3496508, 3526361, 3555348, 3583519,
         3610918, 3637586, 3663562, 3688879, 3713572, 3737670, 3761200, 3784190, 3806662, 3828641, 3850148, 3871201,
         3891820, 3912023, 3931826, 3951244, 3970292, 3988984, 4007333, 4025352, 4043051, 4060443, 4077537, 4094345,
         4110874, 4127134, 4143135, 4158883, 4174387, 4189655, 4204693, 4219508, 4234107, 4248495, 4262680, 4276666,
         4290459, 4304065, 4317488, 4330733, 4343805, 4356709, 4369448, 4382027, 4394449, 4406719, 4418841, 4430817,
         4442651, 4454347, 4465908, 4477337, 4488636, 4499810, 4510860, 4521789, 4532599, 4543295, 4553877, 4564348,
         4574711, 4584967, 4595120, 4605170, 4615121, 4624973, 4634729, 4644391, 4653960, 4663439, 4672829, 4682131,
         4691348, 4700480, 4709530, 4718499, 4727388, 4736198, 4744932, 4753590, 4762174, 4770685, 4779123, 4787492,
         4795791, 4804021, 4812184, 4820282, 4828314, 4836282, 4844187, 4852030, 4859812, 4867534, 4875197, 4882802,
         4890349, 4897840, 4905275, 4912655, 4919981, 4927254, 4934474, 4941642, 4948760, 4955827, 4962845, 4969813,
         4976734, 4983607, 4990433, 4997212, 5003946, 5010635, 5017280, 5023881, 5030438, 5036953, 5043425, 5049856,
         5056246, 5062595, 5068904, 5075174, 5081404, 5087596, 5093750, 5099866, 5105945, 5111988, 5117994, 5123964,
         5129899, 5135798, 5141664, 5147494, 5153292, 5159055, 5164786, 5170484, 5176150, 5181784, 5187386, 5192957,
         5198497, 5204007, 5209486, 5214936, 5220356, 5225747, 5231109, 5236442, 5241747, 5247024, 5252273, 5257495,
         5262690, 5267858, 5273000, 5278115, 5283204, 5288267, 5293305, 5298317, 5303305, 5308268, 5313206, 5318120,
         5323010, 5327876, 5332719, 5337538, 5342334, 5347108, 5351858, 5356586, 5361292, 5365976, 5370638, 5375278,
         5379897, 5384495, 5389072, 5393628, 5398163, 5402677, 5407172, 5411646, 5416100, 5420535, 5424950, 5429346,
         5433722, 5438079, 5442418, 5446737, 5451038, 5455321, 5459586, 5463832, 5468060, 5472271, 5476464, 5480639,
         5484797, 5488938, 5493061, 5497168, 5501258, 5505332, 5509388, 5513429, 5517453, 5521461, 5525453, 5529429,
         5533389, 5537334, 5541264, 5545177, 5549076, 5552960, 5556828, 5560682, 5564520, 5568345, 5572154, 5575949,
         5579730, 5583496, 5587249, 5590987, 5594711, 5598422, 5602119, 5605802, 5609472, 5613128, 5616771, 5620401,
         5624018, 5627621, 5631212, 5634790, 5638355, 5641907, 5645447, 5648974, 5652489, 5655992, 5659482, 5662960,
         5666427, 5669881, 5673323, 5676754, 5680173, 5683580, 5686975, 5690359, 5693732, 5697093, 5700444, 5703782,
         5707110, 5710427, 5713733, 5717028, 5720312, 5723585, 5726848, 5730100, 5733341, 5736572, 5739793, 5743003,
         5746203, 5749393, 5752573, 5755742, 5758902, 5762051, 5765191, 5768321, 5771441, 5774552, 5777652, 5780744,
         5783825, 5786897, 5789960, 5793014, 5796058, 5799093, 5802118, 5805135, 5808142, 5811141, 5814131, 5817111,
         5820083, 5823046, 5826000, 5828946, 5831882, 5834811, 5837730, 5840642, 5843544, 5846439, 5849325, 5852202,
         5855072, 5857933, 5860786, 5863631, 5866468, 5869297, 5872118, 5874931, 5877736, 5880533, 5883322, 5886104,
         5888878, 5891644, 5894403, 5897154, 5899897, 5902633, 5905362, 5908083, 5910797, 5913503, 5916202, 5918894,
         5921578, 5924256, 5926926, 5929589, 5932245, 5934894, 5937536, 5940171, 5942799, 5945421, 5948035, 5950643,
         5953243, 5955837, 5958425, 5961005, 5963579, 5966147, 5968708, 5971262, 5973810, 5976351, 5978886, 5981414,
         5983936, 5986452, 5988961, 5991465, 5993961, 5996452, 5998937, 6001415, 6003887, 6006353, 6008813, 6011267,
         6013715, 6016157, 6018593, 6021023, 6023448, 6025866, 6028279, 6030685, 6033086, 6035481, 6037871, 6040255,
         6042633, 6045005, 6047372, 6049733, 6052089, 6054439, 6056784, 6059123, 6061457, 6063785, 6066108, 6068426,
         6070738, 6073045, 6075346, 6077642, 6079933, 6082219, 6084499, 6086775, 6089045, 6091310, 6093570, 6095825,
         6098074, 6100319, 6102559, 6104793, 6107023, 6109248, 6111467, 6113682, 6115892, 6118097, 6120297, 6122493,
         6124683, 6126869, 6129050, 6131226, 6133398, 6135565, 6137727, 6139885, 6142037, 6144186, 6146329, 6148468,
         6150603, 6152733, 6154858, 6156979, 6159095, 6161207, 6163315, 6165418, 6167516, 6169611, 6171701, 6173786,
         6175867, 6177944, 6180017, 6182085, 6184149, 6186209, 6188264, 6190315, 6192362, 6194405, 6196444, 6198479,
         6200509, 6202536, 6204558, 6206576, 6208590, 6210600, 6212606, 6214608, 6216606, 6218600, 6220590, 6222576,
         6224558, 6226537, 6228511, 6230481, 6232448, 6234411, 6236370, 6238325, 6240276, 6242223, 6244167, 6246107,
         6248043, 6249975, 6251904, 6253829, 6255750, 6257668, 6259581, 6261492, 6263398, 6265301, 6267201, 6269096,
         6270988, 6272877, 6274762, 6276643, 6278521, 6280396, 6282267, 6284134, 6285998, 6287859, 6289716, 6291569,
         6293419, 6295266, 6297109, 6298949, 6300786, 6302619, 6304449, 6306275, 6308098, 6309918, 6311735, 6313548,
         6315358, 6317165, 6318968, 6320768, 6322565, 6324359, 6326149, 6327937, 6329721, 6331502, 6333280, 6335054,
         6336826, 6338594, 6340359, 6342121, 6343880, 6345636, 6347389, 6349139, 6350886, 6352629, 6354370, 6356108,
         6357842, 6359574, 6361302, 6363028, 6364751, 6366470, 6368187, 6369901, 6371612, 6373320, 6375025, 6376727,
         6378426, 6380123, 6381816, 6383507, 6385194, 6386879, 6388561, 6390241, 6391917, 6393591, 6395262, 6396930,
         6398595, 6400257, 6401917, 6403574, 6405228, 6406880, 6408529, 6410175, 6411818, 6413459, 6415097, 6416732,
         6418365, 6419995, 6421622, 6423247, 6424869, 6426488, 6428105, 6429719, 6431331, 6432940, 6434547, 6436150,
         6437752, 6439350, 6440947, 6442540, 6444131, 6445720, 6447306, 6448889, 6450470, 6452049, 6453625, 6455199,
         6456770, 6458338, 6459904, 6461468, 6463029, 6464588, 6466145, 6467699, 6469250, 6470800, 6472346, 6473891,
         6475433, 6476972, 6478510, 6480045, 6481577, 6483107, 6484635, 6486161, 6487684, 6489205, 6490724, 6492240,
         6493754, 6495266, 6496775, 6498282, 6499787, 6501290, 6502790, 6504288, 6505784, 6507278, 6508769, 6510258,
         6511745, 6513230, 6514713, 6516193, 6517671, 6519147, 6520621, 6522093, 6523562, 6525030, 6526495, 6527958,
         6529419, 6530878, 6532334, 6533789, 6535241, 6536692, 6538140, 6539586, 6541030, 6542472, 6543912, 6545350,
         6546785, 6548219, 6549651, 6551080, 6552508, 6553933, 6555357, 6556778, 6558198, 6559615, 6561031, 6562444,
         6563856, 6565265, 6566672, 6568078, 6569481, 6570883, 6572283, 6573680, 6575076, 6576470, 6577861, 6579251,
         6580639, 6582025, 6583409, 6584791, 6586172, 6587550, 6588926, 6590301, 6591674, 6593045, 6594413, 6595781,
         6597146, 6598509, 6599870, 6601230, 6602588, 6603944, 6605298, 6606650, 6608001, 6609349, 6610696, 6612041,
         6613384, 6614726, 6616065, 6617403, 6618739, 6620073, 6621406, 6622736, 6624065, 6625392, 6626718, 6628041,
         6629363, 6630683, 6632002, 6633318, 6634633, 6635947, 6637258, 6638568, 6639876, 6641182, 6642487, 6643790,
         6645091, 6646391, 6647688, 6648985, 6650279, 6651572, 6652863, 6654153, 6655440, 6656727, 6658011, 6659294,
         6660575, 6661855, 6663133, 6664409, 6665684, 6666957, 6668228, 6669498, 6670766, 6672033, 6673298, 6674561,
         6675823, 6677083, 6678342, 6679599, 6680855, 6682109, 6683361, 6684612, 6685861, 6687109, 6688355, 6689599,
         6690842, 6692084, 6693324, 6694562, 6695799, 6697034, 6698268, 6699500, 6700731, 6701960, 6703188, 6704414,
         6705639, 6706862, 6708084, 6709304, 6710523, 6711740, 6712956, 6714171, 6715383, 6716595, 6717805, 6719013,
         6720220, 6721426, 6722630, 6723832, 6725034, 6726233, 6727432, 6728629, 6729824, 6731018, 6732211, 6733402,
         6734592, 6735780, 6736967, 6738152, 6739337, 6740519, 6741701, 6742881, 6744059, 6745236, 6746412, 6747587,
         6748760, 6749931, 6751101, 6752270, 6753438, 6754604, 6755769, 6756932, 6758095, 6759255, 6760415, 6761573,
         6762730, 6763885, 6765039, 6766192, 6767343, 6768493, 6769642, 6770789, 6771936, 6773080, 6774224, 6775366,
         6776507, 6777647, 6778785, 6779922, 6781058, 6782192, 6783325, 6784457, 6785588, 6786717, 6787845, 6788972,
         6790097, 6791221, 6792344, 6793466, 6794587, 6795706, 6796824, 6797940, 6799056, 6800170, 6801283, 6802395,
         6803505, 6804615, 6805723, 6806829, 6807935, 6809039, 6810142, 6811244, 6812345, 6813445, 6814543, 6815640,
         6816736, 6817831, 6818924, 6820016, 6821107, 6822197, 6823286, 6824374, 6825460, 6826545, 6827629, 6828712,
         6829794, 6830874, 6831954, 6833032, 6834109, 6835185, 6836259, 6837333, 6838405, 6839476, 6840547, 6841615,
         6842683, 6843750, 6844815, 6845880, 6846943, 6848005, 6849066, 6850126, 6851185, 6852243, 6853299, 6854355,
         6855409, 6856462, 6857514, 6858565, 6859615, 6860664, 6861711, 6862758, 6863803, 6864848, 6865891, 6866933,
         6867974, 6869014, 6870053, 6871091, 6872128, 6873164, 6874198, 6875232, 6876265, 6877296, 6878326, 6879356,
         6880384, 6881411, 6882437, 6883463, 6884487, 6885510, 6886532, 6887553, 6888572, 6889591, 6890609, 6891626,
         6892642, 6893656, 6894670, 6895683, 6896694, 6897705, 6898715, 6899723, 6900731, 6901737, 6902743, 6903747,
         6904751, 6905753, 6906755, 6907755, 6908755, 6909753, 6910751, 6911747, 6912743, 6913737, 6914731, 6915723,
         6916715, 6917706, 6918695, 6919684, 6920672, 6921658, 6922644, 6923629, 6924612, 6925595, 6926577, 6927558,
         6928538, 6929517, 6930495, 6931472
      >>
ASSUME Len(Ln6) = LnMax /\ Ln6[1] = 0 /\ \A k \in 2..LnMax : Ln6[k] > Ln6[k - 1]
ASSUME \A a, b \in 1..32 : RAbs(Ln6[a * b] - Ln6[a] - Ln6[b]) <= 1        \* ln(ab) = ln a + ln b, each entry off by <= 1/2

InLnTable(lam) == lam[1] >= 1 /\ lam[1] < lam[2] /\ lam[2] <= LnMax
(* bounds on -lag / ln(lam) as rationals; lag * 10^6 < 2^31 for lag <= 2147 *)
TsBounds(lag, lam) == LET dl == Ln6[lam[2]] - Ln6[lam[1]]
                      IN [lo |-> <<lag * 1000000, dl + 1>>, hi |-> <<lag * 1000000, dl - 1>>]

(* ---- exact spectrum of a rational matrix with at most 3 states ------------------ *)
RECURSIVE ISqrtB(_, _, _)
ISqrtB(k, lo, hi) == IF lo >= hi THEN lo
                     ELSE LET m == (lo + hi + 1) \div 2
                          IN IF m * m <= k THEN ISqrtB(k, m, hi) ELSE ISqrtB(k, lo, m - 1)
ISqrt(k) == ISqrtB(k, 0, IF k < 46340 THEN k ELSE 46340)          \* 46340^2 < 2^31
IsSquare(k) == k >= 0 /\ ISqrt(k) * ISqrt(k) = k

RTwo == RInt(2)
Det2(a, b, c, d) == RSub(RMul(a, d), RMul(b, c))
TraceOf(T) == RSum([k \in 1..Len(T) |-> T[k][k]] \o <<>>)
DetOf(T) ==
  CASE Len(T) = 1 -> T[1][1]
    [] Len(T) = 2 -> Det2(T[1][1], T[1][2], T[2][1], T[2][2])
    [] Len(T) = 3 -> RAdd(RSub(RMul(T[1][1], Det2(T[2][2], T[2][3], T[3][2], T[3][3])),
                               RMul(T[1][2], Det2(T[2][1], T[2][3], T[3][1], T[3][3]))),
                          RMul(T[1][3], Det2(T[2][1], T[2][2], T[3][1], T[3][2])))
(* sum of the principal 2 x 2 minors of a 3 x 3 matrix *)
Minors2(T) == RAdd(RAdd(Det2(T[1][1], T[1][2], T[2][1], T[2][2]), Det2(T[1][1], T[1][3], T[3][1], T[3][3])),
                   Det2(T[2][2], T[2][3], T[3][2], T[3][3]))
Shifted(T, x) == Fix([a \in 1..Len(T) |-> Fix([b \in 1..Len(T) |-> IF a = b THEN RSub(T[a][b], x) ELSE T[a][b]])])
RowIsStochastic(T, a) == RSum(T[a]) = ROne
RowIsZero(T, a) == \A b \in 1..Len(T) : T[a][b] = RZero
Stochastic(T) == \A a \in 1..Len(T) : RowIsStochastic(T, a)

(* roots of x^2 - s x + p *)
QuadRoots(s, p) ==
  LET disc == RSub(RMul(s, s), RScale(4, p))
  IN IF disc[1] < 0 THEN [kind |-> "complex", vals |-> <<>>]
     ELSE IF IsSquare(disc[1]) /\ IsSquare(disc[2])
          THEN LET rt == Rat(ISqrt(disc[1]), ISqrt(disc[2]))
               IN [kind |-> "rational", vals |-> <<RDiv(RAdd(s, rt), RTwo), RDiv(RSub(s, rt), RTwo)>>]
          ELSE [kind |-> "irrational", vals |-> <<>>]

RECURSIVE InsertDesc(_, _)
InsertDesc(q, x) == IF q = <<>> THEN <<x>>
                    ELSE IF RLe(Head(q), x) THEN <<x>> \o q ELSE <<Head(q)>> \o InsertDesc(Tail(q), x)
RECURSIVE SortDesc(_)
SortDesc(q) == IF q = <<>> THEN <<>> ELSE InsertDesc(SortDesc(Tail(q)), Head(q))

(* the eigenvalues in descending order (np.argsort(-real(vals))), when all of them are rational *)
Eigs(T) ==
  CASE Len(T) = 1 -> [kind |-> "rational", vals |-> <<T[1][1]>>]
    [] Len(T) = 2 -> QuadRoots(TraceOf(T), DetOf(T))
    [] Len(T) = 3 ->
         LET st == Stochastic(T)
             r0 == IF st THEN ROne ELSE RZero            \* deflation: a known root
             q == QuadRoots(RSub(TraceOf(T), r0), IF st THEN DetOf(T) ELSE Minors2(T))
         IN IF ~st /\ DetOf(T) # RZero THEN [kind |-> "unsupported", vals |-> <<>>]
            ELSE IF q.kind = "rational" THEN [kind |-> "rational", vals |-> SortDesc(<<r0>> \o q.vals)]
            ELSE q
    [] OTHER -> [kind |-> "unsupported", vals |-> <<>>]

(* the definition: the list holds exactly the roots of the characteristic polynomial, with multiplicity *)
IsSpectrum(T, e) ==
  /\ Len(e) = Len(T)
  /\ \A k \in 1..Len(e) : DetOf(Shifted(T, e[k])) = RZero
  /\ RSum(e) = TraceOf(T)
  /\ (IF Len(e) = 1 THEN e[1] ELSE IF Len(e) = 2 THEN RMul(e[1], e[2]) ELSE RMul(RMul(e[1], e[2]), e[3])) = DetOf(T)
  /\ Len(e) = 3 => RAdd(RAdd(RMul(e[1], e[2]), RMul(e[1], e[3])), RMul(e[2], e[3])) = Minors2(T)
  /\ \A k \in 1..(Len(e) - 1) : RLe(e[k + 1], e[k])

(* one entry of a row: the j-th eigenvalue (j >= 2) at the given lag *)
Entry(ev, j, lag) ==
  IF ev.kind # "rational" THEN [k |-> "u", why |-> ev.kind]
  ELSE LET lam == ev.vals[j]
       IN IF lam[1] <= 0 THEN [k |-> "u", why |-> "lambda <= 0"]
          ELSE IF lam = ROne THEN [k |-> "u", why |-> "lambda = 1"]
          ELSE IF ~InLnTable(lam) THEN [k |-> "u", why |-> "untabulated"]
          ELSE [k |-> "v", lam |-> lam, lo |-> TsBounds(lag, lam).lo, hi |-> TsBounds(lag, lam).hi]
(* the row of a model with transition matrix T: eigenvalues 2 .. min(nt + 1, m) *)
RowOfT(T, lag, nt) ==
  LET ev == Eigs(T)
      m == MinOf(nt + 1, Len(T))
  IN Fix([j \in 1..(m - 1) |-> Entry(ev, j + 1, lag)])

(* MSMObj!Normalise gives <<count, row sum>> pairs; a zero row (row sum 0) stays zero *)
ToRat(p) == IF p[2] = 0 THEN RZero ELSE Rat(p[1], p[2])
RatMatrix(M) == Fix([a \in 1..Len(M) |-> Fix([b \in 1..Len(M) |-> ToRat(M[a][b])])])

DefNStates(r) == ObservedStates(r.trajs)
DefNTimes(r) == LET n == DefNStates(r)
                    nt == IF r.ntimes = None THEN n \div 10 + 1 ELSE r.ntimes
                IN IF nt > n - 1 THEN n - 1 ELSE nt
(* the admissible rows for one lag: one per admissible (heaviest) component *)
AltRows(r, lag) ==
  {RowOfT(RatMatrix(p.tprobs), lag, DefNTimes(r)) :
      p \in MO!Pipeline(r.trajs, [lag |-> lag, method |-> r.method, trim |-> r.trim, sliding |-> r.sliding,
                                  maxn |-> DefNStates(r)])}
DefITS(r) ==
  LET alts == Fix([k \in 1..Len(r.lags) |-> AltRows(r, r.lags[k])])
      det == \A k \in 1..Len(alts) : Cardinality(alts[k]) = 1
      rows == IF det THEN Fix([k \in 1..Len(alts) |-> CHOOSE x \in alts[k] : TRUE]) ELSE <<>>
      cls == IF ~det \/ Len(r.lags) = 0 THEN ""
             ELSE IF DefNTimes(r) = 0 THEN ClsItsZero
             ELSE IF \E k \in 1..Len(rows) : Len(rows[k]) # Len(rows[1]) THEN ClsItsRagged
             ELSE ""
  IN [nt |-> DefNTimes(r), alts |-> alts, det |-> det, rows |-> rows, cls |-> cls]

(* metastable trajectories (the ones with eigenvalues in (0, 1)): a pattern of states, each held for 1..ItsMaxRun frames *)
PatternCatalogue == << <<0, 1>>, <<0, 1, 0>>, <<0, 1, 0, 1>>, <<0, 1, 2, 0>>, <<0, 1, 2, 1, 0>>, <<0, 1, 0, 2, 0>>,
                       <<0, 2, 1, 0, 1, 2>> >>
RECURSIVE ExpandTo(_, _, _)
ExpandTo(pat, lens, k) == IF k = 0 THEN <<>> ELSE ExpandTo(pat, lens, k - 1) \o [m \in 1..lens[k] |-> pat[k]]
Expand(pat, lens) == ExpandTo(pat, lens, Len(pat))
IsRGS(q) == /\ q[1] = 0
            /\ \A k \in 2..Len(q) : q[k] <= Max({q[m] : m \in 1..(k - 1)}) + 1
            /\ {q[k] : k \in 1..Len(q)} = 0..(S - 1)
ItsTrajs ==
  IF ItsFamily = "all"
  THEN {<<q>> : q \in UNION {[1..l -> 0..(S - 1)] : l \in ItsMinLen..ItsMaxLen}}
       \cup (IF ItsPairLen = 0 THEN {}
             ELSE LET rs == UNION {[1..l -> 0..(S - 1)] : l \in 1..ItsPairLen} IN {<<a, b>> : a \in rs, b \in rs})
  ELSE IF ItsFamily = "rgs"
  THEN {<<q>> : q \in UNION {{x \in [1..l -> 0..(S - 1)] : IsRGS(x)} : l \in ItsMinLen..ItsMaxLen}}
  ELSE UNION {{<<Expand(PatternCatalogue[q], lens)>> : lens \in [1..Len(PatternCatalogue[q]) -> 1..ItsMaxRun]} :
                 q \in ItsPatternIds}
ItsInputs == {[trajs |-> ts, lags |-> LagCatalogue[li], method |-> m, sliding |-> sl, trim |-> tr, ntimes |-> nt] :
                 ts \in ItsTrajs, li \in ItsLagIds, m \in {"normalize", "transpose"}, sl \in BOOLEAN,
                 tr \in BOOLEAN, nt \in ItsNTimes}

(* ---- transcription helpers: trim_disconnected(C) with the defaults --------------------------- *)
Idx(M) == 1..Len(M)
RECURSIVE Fwd(_, _)
Fwd(X, M) == LET Nx == X \cup {b \in Idx(M) : \E a \in X : M[a][b] # 0} IN IF Nx = X THEN X ELSE Fwd(Nx, M)
RECURSIVE Bwd(_, _)
Bwd(X, M) == LET Nx == X \cup {a \in Idx(M) : \E b \in X : M[a][b] # 0} IN IF Nx = X THEN X ELSE Bwd(Nx, M)
Components(M) == {Fwd({a}, M) \cap Bwd({a}, M) : a \in Idx(M)}        \* connected_components(.., connection="strong")
RowSumOf(M, a) == SumSeq(M[a])
CompPop(M, c) == SumSeq([a \in Idx(M) |-> IF a \in c THEN RowSumOf(M, a) ELSE 0])
MaxPop(M) == {c \in Components(M) : \A d \in Components(M) : CompPop(M, d) <= CompPop(M, c)}
ExtractOf(M, c) == LET ks == SetToSortSeq(c, LAMBDA a, b : a < b)
                   IN Fix([a \in 1..Len(ks) |-> Fix([b \in 1..Len(ks) |-> M[ks[a]][ks[b]]])])
(* builders.normalize / transpose: (C + C^T), rows divided by their sums, zero rows stay zero *)
BuildT(M, method) ==
  LET W == IF method = "transpose" THEN Fix([a \in Idx(M) |-> Fix([b \in Idx(M) |-> M[a][b] + M[b][a]])]) ELSE M
  IN Fix([a \in Idx(W) |-> Fix([b \in Idx(W) |-> IF RowSumOf(W, a) = 0 THEN RZero ELSE Rat(W[a][b], RowSumOf(W, a))])])

(* ============================================================================ *)
(* (3) chains T = A / D                                                          *)
(* ============================================================================ *)
StochRows == {q \in [1..ChainN -> 0..ChainD] : SumSeq(q) = ChainD}
Chains == [1..ChainN -> StochRows]
VecMat(p, A) == Fix([b \in 1..Len(A) |-> SumTo([a \in 1..Len(A) |-> p[a] * A[a][b]], Len(A))])
MatMul(X, Y) == Fix([a \in 1..Len(X) |-> VecMat(X[a], Y)])
Identity(n) == Fix([a \in 1..n |-> Fix([b \in 1..n |-> IF a = b THEN 1 ELSE 0])])
RECURSIVE MatPow(_, _)
MatPow(A, t) == IF t = 0 THEN Identity(Len(A)) ELSE MatMul(MatPow(A, t - 1), A)
Dot(p, o) == SumTo([a \in 1..Len(p) |-> p[a] * o[a]], Len(p))

(* row t (t = 0, 1, ..) of the history of init = p0 (numerators): p0 A^t over D^t *)
DefEnsRow(r, t) == [v |-> VecMat(r.p0, MatPow(r.A, t)), den |-> Pow(r.D, t)]
Observe(r, row) == IF r.obs = <<>> THEN row ELSE [v |-> Dot(row.v, r.obs), den |-> row.den]
DefEns(r) == [hist |-> Fix([t \in 1..r.steps |-> Observe(r, DefEnsRow(r, t - 1))]),
              final |-> DefEnsRow(r, r.steps - 1)]

ObsCatalogue == {<<>>, SubSeq(<<2, 0, 5>>, 1, ChainN)}
EnsInputs == {[A |-> A, D |-> ChainD, p0 |-> p, steps |-> st, obs |-> o] :
                 A \in Chains, p \in {q \in [1..ChainN -> 0..EnsMaxP0] : SumSeq(q) > 0},
                 st \in EnsSteps, o \in ObsCatalogue}
(* the element types init_pops may have, with the denominator P of the probabilities p0 / P *)
EnsForms(r) ==
  LET P == SumSeq(r.p0)
  IN {[form |-> "float64", P |-> P], [form |-> "int64", P |-> 1], [form |-> "int32", P |-> 1],
      [form |-> "float64", P |-> 1]}
     \cup (IF IsPow2(P) THEN {[form |-> "float32", P |-> P]} ELSE {})
     \cup (IF \A a \in 1..Len(r.p0) : r.p0[a] <= 1 THEN {[form |-> "bool", P |-> 1]} ELSE {})
(* a history stored in an integer type would differ from the definition *)
EnsFractional(r) == \E t \in 1..r.steps : LET row == DefEnsRow(r, t - 1)
                                          IN \E a \in 1..Len(row.v) : row.v[a] % row.den # 0

(* ---- trajectory: the inverse-CDF rule -------------------------------------------------------- *)
CumRow(A, s, x) == SumTo(A[s + 1], x)                   \* D * cdf of row s (0-based state) up to state x - 1
(* the unique state x with cdf(x - 1) <= u/U < cdf(x) *)
DefNext(A, D, s, u, U) == CHOOSE x \in 0..(Len(A) - 1) : CumRow(A, s, x) * U <= u * D /\ u * D < CumRow(A, s, x + 1) * U
RECURSIVE DefPath(_, _, _, _, _)
DefPath(A, D, start, us, U) ==
  IF us = <<>> THEN <<start>>
  ELSE LET before == DefPath(A, D, start, SubSeq(us, 1, Len(us) - 1), U)
       IN Append(before, DefNext(A, D, LastOf(before), LastOf(us), U))
(* the code: cdf = p.cumsum(); cdf /= cdf[-1]; cdf.searchsorted(u, side='right') = number of entries <= u *)
ImplNext(A, s, u, U) ==
  LET n == Len(A)
      cs == Fix([x \in 1..n |-> SumTo(A[s + 1], x)])       \* cumsum (times D)
  IN Cardinality({x \in 1..n : cs[x] * U <= u * cs[n]})     \* cdf[x] = cs[x] / cs[n] <= u / U
(* the draw sits exactly on a cdf boundary *)
OnBoundary(A, s, u, U) == \E x \in 1..(Len(A) - 1) : SumTo(A[s + 1], x) * U = u * SumTo(A[s + 1], Len(A))
ExactFloats == IsPow2(ChainD) /\ IsPow2(TrajU)
TrajInputs == {[A |-> A, D |-> ChainD, start |-> s, steps |-> st, U |-> TrajU] :
                  A \in Chains, s \in 0..(ChainN - 1), st \in TrajSteps}
TrajContainers == {"ndarray", "csr_matrix"} \cup (IF ClsTrajSparseArray \in Gated THEN {} ELSE {"csr_array"})

(* ============================================================================ *)
(* the step machines                                                             *)
(* ============================================================================ *)
Inputs == CASE Mode = "boot" -> BootInputs
            [] Mode = "its" -> ItsInputs
            [] Mode = "ens" -> EnsInputs
            [] Mode = "traj" -> TrajInputs
RefOf(r) == CASE Mode = "its" -> DefITS(r)
              [] Mode = "ens" -> DefEns(r)
              [] OTHER -> [none |-> 0]            \* boot, traj: the definition depends on the draws (see the invariants)

Init == /\ inp \in Inputs
        /\ pc = Mode
        /\ i = 0
        /\ loc = [none |-> 0]
        /\ out = [none |-> 0]
        /\ ref = RefOf(inp)
        /\ fired = {}

(* ---- bootstrap ------------------------------------------------------------------------------- *)
BN == Len(inp.rows)
(* shared_data = _make_shared_array(data, c_int); shared_data_shape = data.shape *)
B_Share == /\ pc = "boot"
           /\ loc' = [shared |-> Flatten(DataOf(inp)), shape |-> ShapeOf(inp), iis |-> <<>>, bdata |-> <<>>, res |-> <<>>]
           /\ i' = 0 /\ pc' = "b_draw"
           /\ UNCHANGED <<inp, out, ref>>
           /\ fired' = fired \cup {"B_Share"}
(* one element of rand_sampling_iis: np.random.choice(np.arange(n), n) -- ANY n indices, with replacement *)
B_Draw == /\ pc = "b_draw" /\ i < inp.trials
          /\ \E d \in [1..BN -> 0..(BN - 1)] : loc' = [loc EXCEPT !.iis = Append(@, d)]
          /\ i' = i + 1
          /\ UNCHANGED <<inp, pc, out, ref>>
          /\ fired' = fired \cup {"B_Draw"}
(* mp.Pool(initializer=_init): bootstrap_data = np.frombuffer(shared).reshape(shape) *)
B_PoolInit == /\ pc = "b_draw" /\ i = inp.trials /\ loc.shape[2] # None
              /\ loc' = [loc EXCEPT !.bdata = Reshape(loc.shared, loc.shape[1], loc.shape[2])]
              /\ i' = 0 /\ pc' = "b_strap"
              /\ UNCHANGED <<inp, out, ref>>
              /\ fired' = fired \cup {"B_PoolInit"}
(* shape (n, None): reshape raises TypeError in the initialiser (class boot-ragged-data) *)
B_PoolInitRagged == /\ pc = "b_draw" /\ i = inp.trials /\ loc.shape[2] = None
                    /\ out' = [err |-> "TypeError"] /\ pc' = "done"
                    /\ UNCHANGED <<inp, i, loc, ref>>
                    /\ fired' = fired \cup {"B_PoolInitRagged"}
(* _single_strap: strap_func(bootstrap_data[rand_sampling_iis], **kwargs); both funcs of the driver at once *)
B_Strap == /\ pc = "b_strap" /\ i < inp.trials
           /\ LET d == loc.iis[i + 1]
                  sample == Fix([p \in 1..Len(d) |-> loc.bdata[d[p] + 1]])                 \* fancy indexing
              IN loc' = [loc EXCEPT !.res = Append(@, [sample |-> sample,
                                                       C |-> CountMatrix(MaskAll(sample), inp.lag, inp.sliding, inp.ns)])]
           /\ i' = i + 1
           /\ UNCHANGED <<inp, pc, out, ref>>
           /\ fired' = fired \cup {"B_Strap"}
B_Return == /\ pc = "b_strap" /\ i = inp.trials
            /\ out' = [res |-> loc.res] /\ pc' = "done"
            /\ UNCHANGED <<inp, i, loc, ref>>
            /\ fired' = fired \cup {"B_Return"}

(* ---- implied_timescales ------------------------------------------------------------------------ *)
(* n_states = assigns.max() + 1; the two `if`s on n_times; implied_times_list = [] *)
I_Enter == /\ pc = "its"
           /\ LET n == ObservedStates(inp.trajs)
                  nt == IF inp.ntimes = None THEN n \div 10 + 1 ELSE inp.ntimes
              IN loc' = [ns |-> n, nt |-> IF nt > n - 1 THEN n - 1 ELSE nt, rows |-> <<>>,
                         C |-> <<>>, T |-> <<>>, ev |-> <<>>]
           /\ i' = 1 /\ pc' = "i_counts"
           /\ UNCHANGED <<inp, out, ref>>
           /\ fired' = fired \cup {"I_Enter"}
(* calc_imp_times: C = assigns_to_counts(assigns, max_n_states=n_states, lag_time=t, sliding_window=..) *)
I_Counts == /\ pc = "i_counts" /\ i <= Len(inp.lags)
            /\ loc' = [loc EXCEPT !.C = CountMatrix(inp.trajs, inp.lags[i], inp.sliding, loc.ns)]
            /\ pc' = IF inp.trim THEN "i_trim" ELSE "i_build"
            /\ UNCHANGED <<inp, i, out, ref>>
            /\ fired' = fired \cup {"I_Counts"}
(* mapping, C = trim_disconnected(C): any component of maximal population (argmax over scipy's numbering) *)
I_Trim == /\ pc = "i_trim"
          /\ \E c \in MaxPop(loc.C) : loc' = [loc EXCEPT !.C = ExtractOf(loc.C, c)]
          /\ pc' = "i_build"
          /\ UNCHANGED <<inp, i, out, ref>>
          /\ fired' = fired \cup {"I_Trim"}
(* _, T, _ = method(C); n_times += 1 *)
I_Build == /\ pc = "i_build"
           /\ loc' = [loc EXCEPT !.T = BuildT(loc.C, inp.method)]
           /\ pc' = "i_eig"
           /\ UNCHANGED <<inp, i, out, ref>>
           /\ fired' = fired \cup {"I_Build"}
(* eigenspectrum(T, n_eigs=n_times) raises ValueError for n_eigs < 2; `except ArpackNoConvergence` -> NameError *)
I_EigErr == /\ pc = "i_eig" /\ loc.nt + 1 < 2
            /\ out' = [err |-> "NameError"] /\ pc' = "done"
            /\ UNCHANGED <<inp, i, loc, ref>>
            /\ fired' = fired \cup {"I_EigErr"}
(* e_vals, e_vecs = eigenspectrum(T, n_eigs=n_times): all eigenvalues, descending, the first n_times kept *)
I_Eig == /\ pc = "i_eig" /\ loc.nt + 1 >= 2
         /\ loc' = [loc EXCEPT !.ev = Eigs(loc.T)]
         /\ pc' = "i_times"
         /\ UNCHANGED <<inp, i, out, ref>>
         /\ fired' = fired \cup {"I_Eig"}
(* imp_times = -lag_time / np.log(e_vals[1:]); implied_times_list.append(tscale) *)
I_Times == /\ pc = "i_times"
           /\ LET m == MinOf(loc.nt + 1, Len(loc.T))
                  row == Fix([j \in 1..(m - 1) |-> Entry(loc.ev, j + 1, inp.lags[i])])
              IN loc' = [loc EXCEPT !.rows = Append(@, row)]
           /\ i' = i + 1 /\ pc' = "i_counts"
           /\ UNCHANGED <<inp, out, ref>>
           /\ fired' = fired \cup {"I_Times"}
RowsRectangular(rows) == \A k \in 1..Len(rows) : Len(rows[k]) = Len(rows[1])
(* return np.array(implied_times_list) *)
I_Return == /\ pc = "i_counts" /\ i > Len(inp.lags) /\ RowsRectangular(loc.rows)
            /\ out' = [rows |-> loc.rows] /\ pc' = "done"
            /\ UNCHANGED <<inp, i, loc, ref>>
            /\ fired' = fired \cup {"I_Return"}
(* rows of different lengths: np.array raises ValueError (class its-ragged-rows) *)
I_ReturnRagged == /\ pc = "i_counts" /\ i > Len(inp.lags) /\ ~RowsRectangular(loc.rows)
                  /\ out' = [err |-> "ValueError"] /\ pc' = "done"
                  /\ UNCHANGED <<inp, i, loc, ref>>
                  /\ fired' = fired \cup {"I_ReturnRagged"}

(* ---- synthetic_ensemble -------------------------------------------------------------------------- *)
(* p = init_pops.copy(); observations = [p] or [p.dot(observable_per_state)] *)
E_Enter == /\ pc = "ens"
           /\ LET row == [v |-> inp.p0, den |-> 1]
              IN loc' = [p |-> row, hist |-> <<Observe(inp, row)>>]
           /\ i' = 0 /\ pc' = "e_loop"
           /\ UNCHANGED <<inp, out, ref>>
           /\ fired' = fired \cup {"E_Enter"}
(* for i in range(n_steps-1): p = T_op.rmatvec(p); observations.append(..) *)
E_Step == /\ pc = "e_loop" /\ i < inp.steps - 1
          /\ LET row == [v |-> VecMat(loc.p.v, inp.A), den |-> loc.p.den * inp.D]
             IN loc' = [p |-> row, hist |-> Append(loc.hist, Observe(inp, row))]
          /\ i' = i + 1
          /\ UNCHANGED <<inp, pc, out, ref>>
          /\ fired' = fired \cup {"E_Step"}
(* observations = np.array(observations); return p, observations *)
E_Return == /\ pc = "e_loop" /\ i >= inp.steps - 1
            /\ out' = [final |-> loc.p, hist |-> loc.hist] /\ pc' = "done"
            /\ UNCHANGED <<inp, i, loc, ref>>
            /\ fired' = fired \cup {"E_Return"}

(* ---- synthetic_trajectory ------------------------------------------------------------------------- *)
(* traj = -1*np.ones(n_steps, dtype=int); traj[0] = start_state; rng = np.random.default_rng() *)
J_Enter == /\ pc = "traj"
           /\ loc' = [traj |-> Fix([k \in 1..inp.steps |-> IF k = 1 THEN inp.start ELSE -1]), us |-> <<>>, definite |-> inp.steps]
           /\ i' = 0 /\ pc' = "j_loop"
           /\ UNCHANGED <<inp, out, ref>>
           /\ fired' = fired \cup {"J_Enter"}
(* p = T[traj[i], :]; traj[i+1] = rng.choice(states, 1, p=p) -- the generator draws ANY uniform u = k/U *)
J_Step == /\ pc = "j_loop" /\ i < inp.steps - 1
          /\ \E u \in 0..(inp.U - 1) :
                LET s == loc.traj[i + 1]
                    nx == ImplNext(inp.A, s, u, inp.U)
                IN loc' = [traj |-> [loc.traj EXCEPT ![i + 2] = nx], us |-> Append(loc.us, u),
                           definite |-> IF ~ExactFloats /\ OnBoundary(inp.A, s, u, inp.U)
                                        THEN MinOf(loc.definite, i + 1) ELSE loc.definite]
          /\ i' = i + 1
          /\ UNCHANGED <<inp, pc, out, ref>>
          /\ fired' = fired \cup {"J_Step"}
J_Return == /\ pc = "j_loop" /\ i >= inp.steps - 1
            /\ out' = [traj |-> loc.traj] /\ pc' = "done"
            /\ UNCHANGED <<inp, i, loc, ref>>
            /\ fired' = fired \cup {"J_Return"}

Next == \/ B_Share \/ B_Draw \/ B_PoolInit \/ B_PoolInitRagged \/ B_Strap \/ B_Return
        \/ I_Enter \/ I_Counts \/ I_Trim \/ I_Build \/ I_EigErr \/ I_Eig \/ I_Times \/ I_Return \/ I_ReturnRagged
        \/ E_Enter \/ E_Step \/ E_Return
        \/ J_Enter \/ J_Step \/ J_Return

Spec == Init /\ [][Next]_vars

(* ============================================================================ *)
(* invariants                                                                    *)
(* ============================================================================ *)
Done == pc = "done"
TypeOK == /\ pc \in {"boot", "b_draw", "b_strap", "its", "i_counts", "i_trim", "i_build", "i_eig", "i_times",
                     "ens", "e_loop", "traj", "j_loop", "done"}
          /\ i \in Nat
(* no function writes to its arguments *)
InputUnchanged == [][inp' = inp /\ ref' = ref]_vars

(* ---- bootstrap ------------------------------------------------------------------------------------- *)
BootDone == Mode = "boot" /\ Done
BootMachineIsDef == (BootDone /\ ~IsBootRagged(inp)) =>
  LET e == DefBoot(inp, loc.iis)
  IN /\ Len(out.res) = inp.trials                                             \* the number of results is n_trials
     /\ \A t \in 1..inp.trials : /\ MaskAll(out.res[t].sample) = e[t].sample   \* the chosen rows in the chosen order
                                 /\ out.res[t].C = e[t].C                      \* the sum over the multiset
BootRaggedRaises == BootDone => ((out = [err |-> "TypeError"]) <=> IsBootRagged(inp))
BootDrawsAreRequests == BootDone =>
  /\ Len(loc.iis) = inp.trials
  /\ \A t \in 1..inp.trials : Len(loc.iis[t]) = BN /\ \A p \in 1..BN : loc.iis[t][p] \in 0..(BN - 1)
(* the resample has the shape of the data *)
BootSampleShape == (BootDone /\ ~IsBootRagged(inp)) =>
  \A t \in 1..inp.trials : /\ Len(out.res[t].sample) = BN
                           /\ \A p \in 1..BN : Len(out.res[t].sample[p]) = loc.shape[2]
Rotate(q) == IF q = <<>> THEN q ELSE Tail(q) \o <<Head(q)>>
(* laws of the definition: order inside the draw is immaterial for counts; the identity draw gives the counts of the
   data; with the sliding window the total is the number of lagged pairs of the chosen rows; multiplicities add up *)
BootLaws == BootDone =>
  \A t \in 1..inp.trials :
     LET d == loc.iis[t]
         e == DefCounts(inp.rows, d, inp.lag, inp.sliding, inp.ns)
     IN /\ DefCounts(inp.rows, Reverse(d), inp.lag, inp.sliding, inp.ns) = e
        /\ DefCounts(inp.rows, Rotate(d), inp.lag, inp.sliding, inp.ns) = e
        /\ d = [p \in 1..BN |-> p - 1] => e = CountMatrix(inp.rows, inp.lag, inp.sliding, inp.ns)
        /\ SumTo([k \in 1..BN |-> Mult(d, k - 1)], BN) = BN
        /\ inp.sliding => SumSeq([a \in 1..Len(e) |-> SumSeq(e[a])]) =
                            SumSeq([p \in 1..BN |-> IF Len(inp.rows[d[p] + 1]) > inp.lag
                                                   THEN Len(inp.rows[d[p] + 1]) - inp.lag ELSE 0])
        \* a trial is a function of its own draw only
        /\ DefBoot(inp, <<d>>)[1] = DefBoot(inp, loc.iis)[t]

(* ---- implied timescales ----------------------------------------------------------------------------- *)
ItsDone == Mode = "its" /\ Done
ItsMachineInDef == (ItsDone /\ "rows" \in DOMAIN out) =>
  /\ Len(out.rows) = Len(inp.lags)
  /\ \A k \in 1..Len(inp.lags) : out.rows[k] \in ref.alts[k]
ItsRaises == ItsDone =>
  /\ (out = [err |-> "NameError"]) <=> (ref.nt = 0 /\ Len(inp.lags) > 0)
  /\ (out = [err |-> "ValueError"]) => (ref.nt > 0 /\ \E k \in 1..Len(inp.lags) : \E x \in ref.alts[k] : \E y \in ref.alts[1] : Len(x) # Len(y))
  /\ (ref.det /\ ref.cls = ClsItsRagged) => out = [err |-> "ValueError"]
  /\ (ref.det /\ ref.cls = "") => "rows" \in DOMAIN out
(* the rows follow the lag list: reordering the list reorders the rows, and a row depends on its own lag only *)
ItsRowsFollowLagList == (Mode = "its" /\ pc = "its") =>
  /\ DefITS([inp EXCEPT !.lags = Reverse(inp.lags)]).alts = Reverse(ref.alts)
  /\ \A k \in 1..Len(inp.lags) : DefITS([inp EXCEPT !.lags = <<inp.lags[k]>>]).alts = <<ref.alts[k]>>
ItsRowLength == (Mode = "its" /\ pc = "its") =>
  /\ ref.nt >= 0 /\ ref.nt <= DefNStates(inp) - 1 /\ (inp.ntimes # None => ref.nt <= inp.ntimes)
  /\ \A k \in 1..Len(inp.lags) : \A x \in ref.alts[k] :
        /\ Len(x) <= ref.nt
        /\ ~inp.trim => Len(x) = ref.nt
(* the transcription's eigenvalues are the spectrum by definition *)
ItsSpectrumIsCharPoly == (Mode = "its" /\ pc = "i_times" /\ loc.ev.kind = "rational") => IsSpectrum(loc.T, loc.ev.vals)
ItsModelRows == (Mode = "its" /\ pc = "i_eig") =>
  /\ \A a \in 1..Len(loc.T) : RowIsStochastic(loc.T, a) \/ RowIsZero(loc.T, a)
  /\ \A a, b \in 1..Len(loc.T) : Reduced(loc.T[a][b]) /\ loc.T[a][b][1] >= 0
  /\ Len(loc.T) <= loc.ns
(* a stochastic model has the eigenvalue 1 in front; every eigenvalue lies in [-1, 1] *)
ItsSpectrumLaws == (Mode = "its" /\ pc = "i_times" /\ loc.ev.kind = "rational") =>
  /\ Stochastic(loc.T) => loc.ev.vals[1] = ROne
  /\ \A k \in 1..Len(loc.ev.vals) : RLe(loc.ev.vals[k], ROne) /\ RLe(RNeg(ROne), loc.ev.vals[k])
(* timescales are positive, decrease along a row and grow in proportion to the lag (for the same eigenvalue) *)
ItsTimescaleLaws == (Mode = "its" /\ pc = "its") =>
  \A k \in 1..Len(inp.lags) : \A x \in ref.alts[k] :
     /\ \A j \in 1..Len(x) : x[j].k = "v" =>
           /\ x[j].lo[1] > 0 /\ x[j].hi[2] > 0 /\ x[j].lo[1] = x[j].hi[1] /\ x[j].lo[2] > x[j].hi[2]   \* lo < hi
           /\ x[j].lo = <<inp.lags[k] * 1000000, TsBounds(1, x[j].lam).lo[2]>>
     /\ \A j \in 1..(Len(x) - 1) : (x[j].k = "v" /\ x[j + 1].k = "v") => RLe(x[j + 1].lam, x[j].lam)
(* a lag that no trajectory reaches: nothing is counted, the model is zero, no timescale is defined *)
ItsLagTooLong == (Mode = "its" /\ pc = "its") =>
  \A k \in 1..Len(inp.lags) :
     (\A a \in 1..Len(inp.trajs) : Len(inp.trajs[a]) <= inp.lags[k]) =>
        \A x \in ref.alts[k] : \A j \in 1..Len(x) : x[j].k = "u"

(* ---- ensemble ------------------------------------------------------------------------------------------ *)
EnsDone == Mode = "ens" /\ Done
EnsMachineIsDef == EnsDone => out = ref
EnsShape == EnsDone =>
  /\ Len(out.hist) = inp.steps
  /\ out.final = DefEnsRow(inp, inp.steps - 1)
  /\ inp.obs = <<>> => out.final = LastOf(out.hist)
EnsLaws == EnsDone =>
  \A t \in 1..inp.steps :
     LET row == DefEnsRow(inp, t - 1)
     IN /\ SumSeq(row.v) = SumSeq(inp.p0) * row.den                    \* the ensemble is conserved
        /\ \A a \in 1..Len(row.v) : row.v[a] >= 0
        /\ t > 1 => row.v = VecMat(DefEnsRow(inp, t - 2).v, inp.A)     \* one more step of the same chain
        /\ DefEnsRow([inp EXCEPT !.p0 = [a \in 1..Len(inp.p0) |-> 2 * inp.p0[a]]], t - 1).v
              = [a \in 1..Len(row.v) |-> 2 * row.v[a]]                   \* linear in init_pops
        /\ row.den * SumSeq(inp.p0) < 100000000                          \* the driver's products stay exact

(* ---- trajectory ---------------------------------------------------------------------------------------- *)
TrajDone == Mode = "traj" /\ Done
TrajMachineIsDef == TrajDone => out.traj = DefPath(inp.A, inp.D, inp.start, loc.us, inp.U)
TrajShape == TrajDone =>
  /\ Len(out.traj) = inp.steps                               \* n_steps includes the starting state
  /\ out.traj[1] = inp.start
  /\ Len(loc.us) = inp.steps - 1                             \* one uniform per step
  /\ \A k \in 1..inp.steps : out.traj[k] \in 0..(Len(inp.A) - 1)
TrajAlongEdges == TrajDone => \A k \in 1..(inp.steps - 1) : inp.A[out.traj[k] + 1][out.traj[k + 1] + 1] > 0
(* the rule itself, once per chain: defined for every draw, monotone in u, and a correct sampler on the grid *)
TrajRuleIsSampler == (Mode = "traj" /\ pc = "traj" /\ inp.steps = Min(TrajSteps) /\ inp.start = 0) =>
  \A s \in 0..(Len(inp.A) - 1) :
     /\ \A u \in 0..(inp.U - 1) : /\ ImplNext(inp.A, s, u, inp.U) = DefNext(inp.A, inp.D, s, u, inp.U)
                                  /\ inp.A[s + 1][DefNext(inp.A, inp.D, s, u, inp.U) + 1] > 0
     /\ \A u, w \in 0..(inp.U - 1) : u <= w => DefNext(inp.A, inp.D, s, u, inp.U) <= DefNext(inp.A, inp.D, s, w, inp.U)
     /\ inp.U % inp.D = 0 => \A x \in 0..(Len(inp.A) - 1) :
           Cardinality({u \in 0..(inp.U - 1) : DefNext(inp.A, inp.D, s, u, inp.U) = x}) * inp.D = inp.A[s + 1][x + 1] * inp.U

(* ============================================================================ *)
(* emission                                                                      *)
(* ============================================================================ *)
Open(cls) == cls = "" \/ cls \notin Gated

EmitInv ==
  CASE Mode = "boot" ->
         (Emit /\ Done) =>
           LET cls == IF IsBootRagged(inp) THEN ClsBootRagged ELSE ""
           IN IF ~Open(cls) THEN PrintT(<<"BOOTSKIP", ToJson([why |-> cls, fired |-> fired])>>)
              ELSE
                PrintT(<<"BOOT", ToJson([rows |-> inp.rows, container |-> inp.container, trials |-> inp.trials,
                                         lag |-> inp.lag, sliding |-> inp.sliding, ns |-> inp.ns,
                                         draws |-> loc.iis, req |-> [pop |-> BN, size |-> BN, replace |-> TRUE],
                                         res |-> DefBoot(inp, loc.iis), cls |-> cls, fired |-> fired])>>)
    [] Mode = "its" ->
         (Emit /\ Done) =>
           IF ref.det /\ Open(ref.cls)
           THEN PrintT(<<"ITS", ToJson([trajs |-> inp.trajs, lags |-> inp.lags, method |-> inp.method,
                                        sliding |-> inp.sliding, trim |-> inp.trim, ntimes |-> inp.ntimes,
                                        ns |-> DefNStates(inp), nt |-> ref.nt, rows |-> ref.rows, cls |-> ref.cls,
                                        fired |-> fired])>>)
           ELSE PrintT(<<"ITSSKIP", ToJson([why |-> IF ref.det THEN ref.cls ELSE "trim-tie", fired |-> fired])>>)
    [] Mode = "ens" ->
         (Emit /\ Done) =>
           PrintT(<<"ENS", ToJson([A |-> inp.A, D |-> inp.D, p0 |-> inp.p0, steps |-> inp.steps, obs |-> inp.obs,
                                   hist |-> ref.hist, final |-> ref.final, forms |-> EnsForms(inp),
                                   frac |-> EnsFractional(inp), fired |-> fired])>>)
    [] Mode = "traj" ->
         (Emit /\ Done) =>
           LET cls == IF inp.steps >= 2 THEN ClsTrajAssign ELSE ""
           IN PrintT(<<"TRAJ", ToJson([A |-> inp.A, D |-> inp.D, start |-> inp.start, steps |-> inp.steps, U |-> inp.U,
                                       us |-> loc.us, path |-> DefPath(inp.A, inp.D, inp.start, loc.us, inp.U),
                                       definite |-> loc.definite, exact |-> ExactFloats,
                                       req |-> [draws |-> inp.steps - 1, size |-> 1],
                                       containers |-> TrajContainers, cls |-> cls,
                                       legacy |-> (cls # "" /\ cls \in Gated), fired |-> fired])>>)

(* constant-level record, printed once per run: the logarithm table (the driver checks it against the float *)
(* logarithm: a check of the arithmetic bridge, a failure is a machinery failure)                           *)
ASSUME (Emit /\ Mode = "its") => PrintT(<<"LN", ToJson([scale |-> 1000000, table |-> Ln6])>>)
=============================================================================
