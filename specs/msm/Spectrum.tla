------------------------------ MODULE Spectrum ------------------------------
(* Spectral part of property C16: eigenspectrum / eq_probs, implied           *)
(* timescales, ensemble propagation.  Trace validation of the real code's     *)
(* outputs (scaled integers) against relations a correct result must satisfy. *)
(*                                                                            *)
(* A trace is one transition matrix T = A / D (integer matrix A, every row    *)
(* sums to D) with a sequence of observation events:                          *)
(*   eig   : eigenvalues (x1e6 and x1e4) and left eigenvectors (x1e4)         *)
(*   eq    : eq_probs (x1e6)                                                  *)
(*   ts    : implied timescales (x100) for a lag, when the non-unit           *)
(*           eigenvalues are the known rationals Tr.lam[k] = <<num, den>>     *)
(*   prop  : synthetic_ensemble rows (x1e6) from p0 = Tr.p0 / Tr.P            *)
(* Logarithms are a constant table LnTab[k] = round(1e4 ln k).                *)
(*                                                                            *)
(* A LARGE trace (Tr.large; the solver behind eigenspectrum / eq_probs        *)
(* depends on the size: sparse input with >= 1000 states goes to ARPACK)      *)
(* carries T by columns, Tr.cols[j] = sequence of <<i, num, den>> with        *)
(* T[i][j] = num / den (the exact rationals emitted by BuildersLarge.tla),    *)
(* and the events                                                             *)
(*   eigL  : eigenvalues (x1e6) and the leading left eigenvector (x Tr.scale) *)
(*   eqL   : eq_probs (x Tr.scale)                                            *)
(* every sum runs over the stored entries of one column: linear in n.         *)
EXTENDS Integers, Sequences, FiniteSets, TLC, Json, IOUtils, Functions

Traces == JsonDeserialize(IOEnv.TRACE_FILE)
LnTab == <<0, 6931, 10986, 13863, 16094, 17918, 19459, 20794, 21972, 23026, 23979, 24849,
           25649, 26391, 27081, 27726, 28332, 28904, 29444, 29957, 30445, 30910, 31355, 31781>>

VARIABLES tid, l, fails
vars == <<tid, l, fails>>

Tr == Traces[tid]
n == Tr.n
Idx == 1..n
A == Tr.A
D == Tr.D
Ev == Tr.events

RECURSIVE SumTo(_, _)
SumTo(f, k) == IF k = 0 THEN 0 ELSE f[k] + SumTo(f, k - 1)
Abs(x) == IF x < 0 THEN -x ELSE x
TraceA == SumTo([i \in Idx |-> A[i][i]], n)

(* ---- eig -------------------------------------------------------------------- *)
RealDescending(e) == \A k \in 1..(Len(e.vals6) - 1) : e.vals6[k] >= e.vals6[k + 1]
LeadingOne(e) == Abs(e.vals6[1] - 1000000) <= 2
(* column 1 of vecs is the stationary distribution *)
LeadingVectorStationary(e) ==
  /\ \A i \in Idx : e.v6[i] >= -1
  /\ Abs(SumTo(e.v6, n) - 1000000) <= n
  /\ \A j \in Idx : Abs(SumTo([i \in Idx |-> e.v6[i] * A[i][j]], n) - D * e.v6[j]) <= n * D
(* reversible chains: every returned pair is a left eigenpair *)
LeftEigenpairs(e) == Tr.reversible =>
  \A k \in 1..Len(e.vals4) : \A j \in Idx :
     Abs(SumTo([i \in Idx |-> e.vecs4[i][k] * A[i][j]], n) - ((D * e.vals4[k] * e.vecs4[j][k]) \div 10000))
        <= n * D + D + 2           \* D <= 20 keeps every product below 2^31
TraceIsSum(e) == (Tr.reversible /\ Len(e.vals6) = n) =>
  Abs(D * SumTo(e.vals6, n) - 1000000 * TraceA) <= n * D + 4

(* ---- eq ---------------------------------------------------------------------- *)
EqStationary(e) ==
  /\ \A i \in Idx : e.p6[i] >= -1
  /\ Abs(SumTo(e.p6, n) - 1000000) <= n
  /\ \A j \in Idx : Abs(SumTo([i \in Idx |-> e.p6[i] * A[i][j]], n) - D * e.p6[j]) <= n * D

(* ---- timescales:  ts_k = -lag / ln(lam_k),  lam_k = num/den in (0,1) ---------- *)
(* ts2 * (ln den - ln num) = lag * 100   (x1e4);  budget: table rounding + ts2 rounding *)
Timescales(e) == \A k \in 1..Len(e.ts2) :
  LET num == Tr.lam[k][1]  den == Tr.lam[k][2]
      dl == LnTab[den] - LnTab[num]
  IN Abs(e.ts2[k] * dl - e.lag * 1000000) <= e.ts2[k] + dl + 100

(* ---- propagation: row k of the ensemble = p0 T^k, exactly ----------------------- *)
RECURSIVE Pow(_, _)
Pow(b, k) == IF k = 0 THEN 1 ELSE b * Pow(b, k - 1)
RECURSIVE Prop(_)
Prop(k) == IF k = 0 THEN Tr.p0
           ELSE LET q == Prop(k - 1) IN [j \in Idx |-> SumTo([i \in Idx |-> q[i] * A[i][j]], n)]
Propagate(e) == \A k \in 1..Len(e.rows6) : \A j \in Idx :
  LET den == Tr.P * Pow(D, k - 1)
  IN Abs(e.rows6[k][j] * den - 1000000 * Prop(k - 1)[j]) <= den
FinalIsLastRow(e) == e.final6 = e.rows6[Len(e.rows6)]

(* ---- large sparse chains -------------------------------------------------------- *)
Cols == Tr.cols
Add(x, y) == x + y
SumF(f) == FoldFunction(Add, 0, f)
(* representable: every product below stays under 2^31.  The chains are irreducible, the stationary vector
   is unique and far inside this range, so a vector outside it is not stationary *)
InRange(p) == \A j \in Idx : \A k \in 1..Len(Cols[j]) :
   LET c == Cols[j][k] IN p[c[1]] >= -1 /\ p[c[1]] <= 2147483647 \div c[2]
(* sum_i p_i T_ij with every term rounded down: off by less than one unit per term *)
ColFlow(p, j) == SumF([k \in 1..Len(Cols[j]) |-> (p[Cols[j][k][1]] * Cols[j][k][2]) \div Cols[j][k][3]])
(* p >= 0, sum p = 1, p T = p; budget per column: one unit per term (floor) and per rounded entry, plus 1e-6
   relative for the accuracy of an iterative eigenvector *)
StationaryL(p) ==
  /\ Len(p) = n /\ InRange(p)
  /\ Abs(SumF(p) - Tr.scale) <= n
  /\ \A j \in Idx : Abs(ColFlow(p, j) - p[j]) <= 2 * Len(Cols[j]) + 2 + p[j] \div 1000000
ColsOK == /\ Len(Cols) = n /\ Tr.scale <= 100000000
          /\ \A j \in Idx : \A k \in 1..Len(Cols[j]) :
                LET c == Cols[j][k] IN c[1] \in Idx /\ c[2] > 0 /\ c[2] <= c[3] /\ c[2] <= 64

ClausesOf(e) ==
  CASE e.ev = "eig"  -> {<<"RealDescending", RealDescending(e)>>, <<"LeadingOne", LeadingOne(e)>>,
                         <<"LeadingVectorStationary", LeadingVectorStationary(e)>>,
                         <<"LeftEigenpairs", LeftEigenpairs(e)>>, <<"TraceIsSum", TraceIsSum(e)>>}
    [] e.ev = "eq"   -> {<<"EqStationary", EqStationary(e)>>}
    [] e.ev = "ts"   -> {<<"Timescales", Timescales(e)>>}
    [] e.ev = "prop" -> {<<"Propagate", Propagate(e)>>, <<"FinalIsLastRow", FinalIsLastRow(e)>>}
    [] e.ev = "eigL" -> {<<"RealDescending", RealDescending(e)>>, <<"LeadingOne", LeadingOne(e)>>,
                         <<"LeadingVectorStationary", StationaryL(e.p)>>}
    [] e.ev = "eqL"  -> {<<"EqStationary", StationaryL(e.p)>>}
    [] e.ev = "raise" -> {<<"NoException", FALSE>>}

RowsSumToD == D <= 20 /\ \A i \in Idx : SumTo(A[i], n) = D
ReversibleOK == Tr.reversible => \A i, j \in Idx : Tr.r[i] * A[i][j] = Tr.r[j] * A[j][i]

Init == tid \in 1..Len(Traces) /\ l = 1 /\ fails = {}
Step == /\ l <= Len(Ev)
        /\ fails' = fails \cup {<<c[1], l>> : c \in {c \in ClausesOf(Ev[l]) : ~c[2]}}
        /\ l' = l + 1
        /\ UNCHANGED tid
Next == Step
Report == (l = Len(Ev) + 1) =>
   PrintT(<<"VERDICT", tid, fails \cup (IF (IF Tr.large THEN ColsOK ELSE RowsSumToD /\ ReversibleOK)
                                       THEN {} ELSE {<<"BadInput", 0>>})>>)
=============================================================================
