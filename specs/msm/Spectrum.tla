------------------------------ MODULE Spectrum ------------------------------
(* Spectral part of property C16: eigenspectrum / eq_probs, implied           *)
(* timescales, ensemble propagation.  Trace validation of the real code's     *)
(* outputs (scaled integers) against relations a correct result must satisfy. *)
(*                                                                            *)
(* A trace is one transition matrix T = A / D (integer matrix A, every row    *)
(* sums to D) with a sequence of observation events:                          *)
(*   eig   : eigenvalues (x1e6 and x1e4) and left eigenvectors (x1e4)         *)
(*   eq    : eq_probs (x1e6)                                                  *)
(*   ts    : implied timescales (x100) for a lag, when the non-unit           *)
(*           eigenvalues are the known rationals Tr.lam[k] = <<num, den>>     *)
(*   prop  : synthetic_ensemble rows (x1e6) from p0 = Tr.p0 / Tr.P            *)
(* Logarithms are a constant table LnTab[k] = round(1e4 ln k).                *)
EXTENDS Integers, Sequences, FiniteSets, TLC, Json, IOUtils

Traces == JsonDeserialize(IOEnv.TRACE_FILE)
LnTab == <<0, 6931, 10986, 13863, 16094, 17918, 19459, 20794, 21972, 23026, 23979, 24849,
           25649, 26391, 27081, 27726, 28332, 28904, 29444, 29957, 30445, 30910, 31355, 31781>>

VARIABLES tid, l, fails
vars == <<tid, l, fails>>

Tr == Traces[tid]
n == Tr.n
Idx == 1..n
A == Tr.A
D == Tr.D
Ev == Tr.events

RECURSIVE SumTo(_, _)
SumTo(f, k) == IF k = 0 THEN 0 ELSE f[k] + SumTo(f, k - 1)
Abs(x) == IF x < 0 THEN -x ELSE x
TraceA == SumTo([i \in Idx |-> A[i][i]], n)

(* ---- eig -------------------------------------------------------------------- *)
RealDescending(e) == \A k \in 1..(Len(e.vals6) - 1) : e.vals6[k] >= e.vals6[k + 1]
LeadingOne(e) == Abs(e.vals6[1] - 1000000) <= 2
(* column 1 of vecs is the stationary distribution *)
LeadingVectorStationary(e) ==
  /\ \A i \in Idx : e.v6[i] >= -1
  /\ Abs(SumTo(e.v6, n) - 1000000) <= n
  /\ \A j \in Idx : Abs(SumTo([i \in Idx |-> e.v6[i] * A[i][j]], n) - D * e.v6[j]) <= n * D
(* reversible chains: every returned pair is a left eigenpair *)
LeftEigenpairs(e) == Tr.reversible =>
  \A k \in 1..Len(e.vals4) : \A j \in Idx :
     Abs(SumTo([i \in Idx |-> e.vecs4[i][k] * A[i][j]], n) - ((D * e.vals4[k] * e.vecs4[j][k]) \div 10000))
        <= n * D + D + 2           \* D <= 20 keeps every product below 2^31
TraceIsSum(e) == (Tr.reversible /\ Len(e.vals6) = n) =>
  Abs(D * SumTo(e.vals6, n) - 1000000 * TraceA) <= n * D + 4

(* ---- eq ---------------------------------------------------------------------- *)
EqStationary(e) ==
  /\ \A i \in Idx : e.p6[i] >= -1
  /\ Abs(SumTo(e.p6, n) - 1000000) <= n
  /\ \A j \in Idx : Abs(SumTo([i \in Idx |-> e.p6[i] * A[i][j]], n) - D * e.p6[j]) <= n * D

(* ---- timescales:  ts_k = -lag / ln(lam_k),  lam_k = num/den in (0,1) ---------- *)
(* ts2 * (ln den - ln num) = lag * 100   (x1e4);  budget: table rounding + ts2 rounding *)
Timescales(e) == \A k \in 1..Len(e.ts2) :
  LET num == Tr.lam[k][1]  den == Tr.lam[k][2]
      dl == LnTab[den] - LnTab[num]
  IN Abs(e.ts2[k] * dl - e.lag * 1000000) <= e.ts2[k] + dl + 100

(* ---- propagation: row k of the ensemble = p0 T^k, exactly ----------------------- *)
RECURSIVE Pow(_, _)
Pow(b, k) == IF k = 0 THEN 1 ELSE b * Pow(b, k - 1)
RECURSIVE Prop(_)
Prop(k) == IF k = 0 THEN Tr.p0
           ELSE LET q == Prop(k - 1) IN [j \in Idx |-> SumTo([i \in Idx |-> q[i] * A[i][j]], n)]
Propagate(e) == \A k \in 1..Len(e.rows6) : \A j \in Idx :
  LET den == Tr.P * Pow(D, k - 1)
  IN Abs(e.rows6[k][j] * den - 1000000 * Prop(k - 1)[j]) <= den
FinalIsLastRow(e) == e.final6 = e.rows6[Len(e.rows6)]

ClausesOf(e) ==
  CASE e.ev = "eig"  -> {<<"RealDescending", RealDescending(e)>>, <<"LeadingOne", LeadingOne(e)>>,
                         <<"LeadingVectorStationary", LeadingVectorStationary(e)>>,
                         <<"LeftEigenpairs", LeftEigenpairs(e)>>, <<"TraceIsSum", TraceIsSum(e)>>}
    [] e.ev = "eq"   -> {<<"EqStationary", EqStationary(e)>>}
    [] e.ev = "ts"   -> {<<"Timescales", Timescales(e)>>}
    [] e.ev = "prop" -> {<<"Propagate", Propagate(e)>>, <<"FinalIsLastRow", FinalIsLastRow(e)>>}
    [] e.ev = "raise" -> {<<"NoException", FALSE>>}

RowsSumToD == D <= 20 /\ \A i \in Idx : SumTo(A[i], n) = D
ReversibleOK == Tr.reversible => \A i, j \in Idx : Tr.r[i] * A[i][j] = Tr.r[j] * A[j][i]

Init == tid \in 1..Len(Traces) /\ l = 1 /\ fails = {}
Step == /\ l <= Len(Ev)
        /\ fails' = fails \cup {<<c[1], l>> : c \in {c \in ClausesOf(Ev[l]) : ~c[2]}}
        /\ l' = l + 1
        /\ UNCHANGED tid
Next == Step
Report == (l = Len(Ev) + 1) =>
   PrintT(<<"VERDICT", tid, fails \cup (IF RowsSumToD /\ ReversibleOK THEN {} ELSE {<<"BadInput", 0>>})>>)
=============================================================================
