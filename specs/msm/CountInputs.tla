---------------------------- MODULE CountInputs ----------------------------
(* Input enumerator shared by the MSM checks: every count matrix with entries *)
(* 0..MaxC whose rows all have outgoing counts, flagged with strong           *)
(* connectivity.  One state per matrix; emission from the initial state.      *)
EXTENDS Integers, Sequences, TLC, Json
CONSTANTS N, MaxC
VARIABLE C
Idx == 1..N
RECURSIVE SumTo(_, _)
SumTo(f, n) == IF n = 0 THEN 0 ELSE f[n] + SumTo(f, n - 1)
RECURSIVE ReachK(_, _, _, _)
ReachK(M, i, j, k) == IF k = 0 THEN i = j
                      ELSE ReachK(M, i, j, k - 1) \/ \E m \in Idx : ReachK(M, i, m, k - 1) /\ M[m][j] > 0
StronglyConnected(M) == \A i, j \in Idx : ReachK(M, i, j, N)
Init == C \in {M \in [Idx -> [Idx -> 0..MaxC]] : \A i \in Idx : SumTo(M[i], N) > 0}
Next == UNCHANGED C
EmitInv == PrintT(<<"CASE", ToJson([C |-> [i \in Idx |-> [j \in Idx |-> C[i][j]]], sc |-> StronglyConnected(C)])>>)
=============================================================================
