------------------------------ MODULE Builders ------------------------------
(* Transition-matrix builders enspara.msm.builders.normalize / transpose      *)
(* (property C04; the reversible MLE builder is relational, see MLE.tla).     *)
(*                                                                            *)
(* Values are exact: a count matrix is an integer matrix, probabilities are   *)
(* <<num, den>> pairs.  The state carries the abstract value AND a container  *)
(* tag, and the steps follow the code: _apply_prior_counts, C + C.T,          *)
(* _row_normalize (zero-row guard), recast, populations, return.              *)
EXTENDS Integers, Sequences, FiniteSets, TLC, Json

CONSTANTS N,         \* number of states
          MaxC,      \* entries 0..MaxC
          Emit,
          ExtraC,    \* count matrices beyond the enumeration (magnitudes: self-counts of 2^29 next to single
                     \* crossings); may be {}
          PriorMats  \* matrices of pseudocounts a caller may pass as prior_counts (not symmetric ones among
                     \* them); may be {}

VARIABLES C,        \* caller's matrix  [1..N -> [1..N -> 0..MaxC]]
          builder,  \* "normalize" | "transpose"
          prior,    \* 0 (None), 1 (the scalar 1) or 2 (a matrix of pseudocounts)
          P,        \* the pseudocounts as a matrix (constant for a scalar prior)
          tag,      \* container of the caller's matrix: "dense" | "sparse"
          W,        \* working count matrix (after prior / symmetrisation)
          wtag,     \* container of the working matrix
          T,        \* [1..N -> [1..N -> <<num, den>>]]   (den = 0: zero row)
          pi,       \* [1..N -> <<num, den>>]
          pc

vars == <<C, builder, prior, P, tag, W, wtag, T, pi, pc>>

Idx == 1..N
Mat == [Idx -> [Idx -> 0..MaxC]]

RECURSIVE SumTo(_, _)
SumTo(f, n) == IF n = 0 THEN 0 ELSE f[n] + SumTo(f, n - 1)
RowSum(M, i) == SumTo(M[i], N)
Total(M) == SumTo([i \in Idx |-> RowSum(M, i)], N)

(* strong connectivity of the graph of positive entries (self loops ignored) *)
RECURSIVE ReachK(_, _, _, _)
ReachK(M, i, j, k) == IF k = 0 THEN i = j
                      ELSE \/ ReachK(M, i, j, k - 1)
                           \/ \E m \in Idx : ReachK(M, i, m, k - 1) /\ M[m][j] > 0
StronglyConnected(M) == \A i, j \in Idx : ReachK(M, i, j, N)

(* Markov-chain tree weights: sum over spanning in-trees rooted at i of the
   product of the counts on the tree's edges (N = 2, 3) *)
TreeW(M, i) ==
  IF N = 1 THEN 1
  ELSE IF N = 2 THEN LET a == CHOOSE a \in Idx : a # i IN M[a][i]
  ELSE LET a == CHOOSE a \in Idx : a # i
           b == CHOOSE b \in Idx : b # i /\ b # a
       IN M[a][i] * M[b][i] + M[a][b] * M[b][i] + M[b][a] * M[a][i]

Init ==
  /\ C \in {M \in Mat : \A i \in Idx : RowSum(M, i) > 0} \cup ExtraC
  /\ builder \in {"normalize", "transpose"}
  /\ prior \in {0, 1, 2}
  /\ P \in (IF prior = 2 THEN (IF C \in ExtraC THEN {} ELSE PriorMats) ELSE {[i \in Idx |-> [j \in Idx |-> prior]]})
  /\ tag \in {"dense", "sparse"}
  /\ W = C /\ wtag = tag
  /\ T = <<>> /\ pi = <<>>
  /\ pc = "prior"

(* _apply_prior_counts: adding a scalar to a sparse matrix raises
   NotImplementedError in scipy and the code densifies; some sparse formats
   (dok) support the addition and stay sparse -- both are allowed. A matrix
   of pseudocounts is added entry by entry BEFORE anything else happens
   (sparse + dense array is dense) *)
ApplyPrior ==
  /\ pc = "prior"
  /\ W' = [i \in Idx |-> [j \in Idx |-> C[i][j] + P[i][j]]]
  /\ wtag' \in (IF prior = 2 /\ tag = "sparse" THEN {"dense"}
                ELSE IF prior # 0 /\ tag = "sparse" THEN {"dense", "sparse"} ELSE {tag})
  /\ pc' = IF builder = "transpose" THEN "sym" ELSE "norm"
  /\ UNCHANGED <<C, builder, prior, P, tag, T, pi>>

Symmetrise ==
  /\ pc = "sym"
  /\ W' = [i \in Idx |-> [j \in Idx |-> W[i][j] + W[j][i]]]
  /\ pc' = "norm"
  /\ UNCHANGED <<C, builder, prior, P, tag, wtag, T, pi>>

RowNormalise ==
  /\ pc = "norm"
  /\ T' = [i \in Idx |-> [j \in Idx |-> <<W[i][j], RowSum(W, i)>>]]
  /\ pc' = "pops"
  /\ UNCHANGED <<C, builder, prior, P, tag, W, wtag, pi>>

Populations ==
  /\ pc = "pops"
  /\ pi' = IF builder = "transpose"
           THEN [i \in Idx |-> <<RowSum(W, i), Total(W)>>]
           ELSE LET den == SumTo([i \in Idx |-> RowSum(W, i) * TreeW(W, i)], N)
                IN [i \in Idx |-> <<RowSum(W, i) * TreeW(W, i), den>>]
  /\ pc' = "done"
  /\ UNCHANGED <<C, builder, prior, P, tag, W, wtag, T>>

Next == ApplyPrior \/ Symmetrise \/ RowNormalise \/ Populations
Spec == Init /\ [][Next]_vars

(* ---- properties (exact rational arithmetic, cross-multiplied) ------------ *)
Done == pc = "done"

CallerUnchanged == [][C' = C]_vars

RowStochastic == Done => \A i \in Idx :
   /\ T[i][1][2] > 0
   /\ SumTo([j \in Idx |-> T[i][j][1]], N) = T[i][1][2]
   /\ \A j \in Idx : T[i][j][1] >= 0

(* normalize: T = (C + prior) / rowsum(C + prior) *)
NormalizeIsCountsOverRowsum == (Done /\ builder = "normalize") =>
   \A i, j \in Idx : /\ T[i][j][1] = C[i][j] + P[i][j]         \* (unreduced fractions: no cross-multiplication,
                      /\ T[i][j][2] = RowSum([a \in Idx |-> [b \in Idx |-> C[a][b] + P[a][b]]], i)   \* no overflow at 2^28)

PriorFirst == Done =>
   \A i, j \in Idx : (P[i][j] > 0 => T[i][j][1] > 0)

(* transpose: the returned model is the one of sym(C + P), whatever the shape of P *)
SymmetricModel == (Done /\ builder = "transpose") =>
   \A i, j \in Idx : W[i][j] = W[j][i] /\ W[i][j] = C[i][j] + P[i][j] + C[j][i] + P[j][i]

PiIsDistribution == Done /\ pi[1][2] > 0 =>
   /\ SumTo([i \in Idx |-> pi[i][1]], N) = pi[1][2]
   /\ \A i \in Idx : pi[i][1] >= 0

(* pi T = pi:  sum_i (p_i/P) (t_ij/r_i) = p_j/P ; all rows share P; multiply by
   prod of r's is avoided: for normalize p_i/r_i = TreeW_i, for transpose p_i = r_i *)
Stationary == Done /\ (builder = "transpose" \/ StronglyConnected(W)) =>
   \A j \in Idx :
     SumTo([i \in Idx |-> (pi[i][1] \div T[i][1][2]) * T[i][j][1]], N) = pi[j][1]
PiDivisible == Done => \A i \in Idx : pi[i][1] % T[i][1][2] = 0

DetailedBalance == (Done /\ builder = "transpose") =>
   \A i, j \in Idx : (pi[i][1] \div T[i][1][2]) * T[i][j][1] = (pi[j][1] \div T[j][1][2]) * T[j][i][1]

ContainerRule == Done => (wtag = tag \/ (prior # 0 /\ tag = "sparse" /\ wtag = "dense"))

Safe == \A i \in Idx : (pc = "done" /\ C \notin ExtraC) => pi[i][2] < 100000000

(* ---- emission -------------------------------------------------------------- *)
SeqMat(M) == [i \in Idx |-> [j \in Idx |-> M[i][j]]]
EmitInv == (Emit /\ Done) =>
  PrintT(<<"CASE", ToJson([C |-> SeqMat(C), builder |-> builder, prior |-> prior, P |-> SeqMat(P),
                           W |-> SeqMat(W), half |-> (builder = "transpose"),
                           T |-> SeqMat(T), pi |-> pi,
                           sc |-> StronglyConnected(W)])>>)
=============================================================================
