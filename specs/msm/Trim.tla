-------------------------------- MODULE Trim --------------------------------
(* Ergodic trimming (enspara.msm.transition_matrices.trim_disconnected and   *)
(* TrimMapping; MSM.fit(trim=True)).  Property C11.                           *)
(*                                                                            *)
(* Input: a square matrix C of non-negative integer counts, a threshold, the  *)
(* renumber flag and the container the matrix arrives in.                     *)
(*                                                                            *)
(* Implementation-shaped part, one action per step of the function:           *)
(*   Threshold    out_type = type(counts); counts.toarray();                  *)
(*                thresholded[counts < threshold] = 0                         *)
(*   Components   connected_components(thresholded, "strong", directed)       *)
(*                (forward/backward search from every state; the numbering of *)
(*                the components is scipy's business and not modelled: the    *)
(*                components are a set)                                       *)
(*   Weigh        pops = counts.sum(axis=1)  (ORIGINAL counts);               *)
(*                subgraph_pops = sum of pops over each component             *)
(*   Keep(c)      argmax: enabled for ANY component of maximal population     *)
(*                (which one wins a tie depends on scipy's numbering)         *)
(*   Extract      renumber: counts[ix_(keep, keep)] into a fresh k x k matrix *)
(*   ZeroRows, ZeroCols   in place: rows, then columns of trimmed states := 0 *)
(*   BuildMapping TrimMapping(zip(keep, range(k))) / zip(keep, keep):         *)
(*                to_original = {t: o}; to_mapped derived as its inverse      *)
(*   Wrap         out_type(trimmed) if the type differs                       *)
(*                                                                            *)
(* Definition-level part: strong connectivity is mutual reachability in the   *)
(* graph that has an edge i -> j iff C[i][j] >= threshold (reflexive          *)
(* transitive closure by Warshall's recurrence, independent of the search     *)
(* used in Components); one invariant per clause of the property.             *)
EXTENDS Integers, Sequences, FiniteSets, FiniteSetsExt, SequencesExt, TLC, Json

CONSTANTS N,           \* states are 0..N-1
          MaxC,        \* matrix entries range over 0..MaxC (exhaustive Init)
          Thresholds,  \* set of thresholds (positive integers)
          Renumbers,   \* subset of BOOLEAN: values of renumber_states explored
          Containers,  \* subset of AllContainers explored as a state variable
          Emit         \* TRUE: print one CASE line per (C, thr)

AllContainers == {"ndarray", "csr_matrix", "coo_matrix", "lil_matrix", "csr_array", "coo_array"}   \* (matrices and sparse arrays are different classes)

ASSUME /\ N \in Nat \ {0}
       /\ Thresholds \subseteq (Nat \ {0})
       /\ Renumbers \subseteq BOOLEAN
       /\ Containers \subseteq AllContainers

VARIABLES C,          \* input: function Idx -> [Idx -> Nat] (C[i][j] = count of i -> j)
          thr, renumber, container,
          outType,    \* out_type remembered at entry
          T,          \* thresholded_counts
          comps,      \* set of components (sets of states)
          pops,       \* row sums of the original counts
          w,          \* component -> population
          kept,       \* keep_states (a set; np.where yields it ascending)
          trimmed,    \* the result matrix: function Dom -> [Dom -> Nat]
          toOrig,     \* TrimMapping.to_original
          toMapped,   \* TrimMapping.to_mapped
          resTag,     \* container type of the returned matrix
          pc

vars == <<C, thr, renumber, container, outType, T, comps, pops, w, kept, trimmed,
          toOrig, toMapped, resTag, pc>>

Idx   == 0..(N - 1)
Mats(vals) == [Idx -> [Idx -> vals]]

Nil == <<>>

(* ---- helpers -------------------------------------------------------------- *)
Sum(S, f(_)) == FoldSet(LAMBDA x, acc : acc + f(x), 0, S)

Asc(S) == SetToSortSeq(S, LAMBDA a, b : a < b)      \* np.where(...)[0]

RangeOf(f) == {f[x] : x \in DOMAIN f}

(* ---- implementation-shaped operators --------------------------------------- *)
ThresholdOp(M, t) == [i \in Idx |-> [j \in Idx |-> IF M[i][j] < t THEN 0 ELSE M[i][j]]]

(* forward / backward search over the non-zero entries of a matrix *)
RECURSIVE Fwd(_, _)
Fwd(S, M) == LET Nx == S \cup {j \in Idx : \E i \in S : M[i][j] # 0}
             IN IF Nx = S THEN S ELSE Fwd(Nx, M)
RECURSIVE Bwd(_, _)
Bwd(S, M) == LET Nx == S \cup {i \in Idx : \E j \in S : M[i][j] # 0}
             IN IF Nx = S THEN S ELSE Bwd(Nx, M)

ComponentOf(i, M) == Fwd({i}, M) \cap Bwd({i}, M)
ComponentsOp(M) == {ComponentOf(i, M) : i \in Idx}

PopsOp(M) == [i \in Idx |-> Sum(Idx, LAMBDA j : M[i][j])]
SubgraphPops(cs, ps) == [c \in cs |-> Sum(c, LAMBDA i : ps[i])]

MaxPop(cs, ws) == {c \in cs : \A d \in cs : ws[d] <= ws[c]}

(* counts[np.ix_(keep, keep)] written to a fresh k x k matrix *)
ExtractOp(M, ks) ==
  LET s == Asc(ks)
      k == Len(s)
  IN [a \in 0..(k - 1) |-> [b \in 0..(k - 1) |-> M[s[a + 1]][s[b + 1]]]]

ZeroRowsOp(M, ks) == [i \in DOMAIN M |-> [j \in DOMAIN M[i] |-> IF i \notin ks THEN 0 ELSE M[i][j]]]
ZeroColsOp(M, ks) == [i \in DOMAIN M |-> [j \in DOMAIN M[i] |-> IF j \notin ks THEN 0 ELSE M[i][j]]]
ZeroOutOp(M, ks)  == ZeroColsOp(TLCEval(ZeroRowsOp(M, ks)), ks)

(* TrimMapping(zip(keep_states, range(k))): to_original = {t: o for o, t in ..} *)
ToOrigOp(ks, ren) ==
  LET s == Asc(ks)
  IN IF ren THEN [t \in 0..(Len(s) - 1) |-> s[t + 1]]
            ELSE [t \in ks |-> t]
(* the to_mapped property: {v: k for k, v in to_original.items()} *)
InverseOp(f) == [o \in RangeOf(f) |-> CHOOSE t \in DOMAIN f : f[t] = o]

OutTag(c) == c          \* the container type is preserved

(* ---- actions ---------------------------------------------------------------- *)
InitWith(M) ==
  /\ C = M
  /\ thr \in Thresholds
  /\ renumber \in Renumbers
  /\ container \in Containers
  /\ outType = "" /\ resTag = ""
  /\ T = Nil /\ comps = {} /\ pops = Nil /\ w = Nil /\ kept = {}
  /\ trimmed = Nil /\ toOrig = Nil /\ toMapped = Nil
  /\ pc = "start"

Init == \E M \in Mats(0..MaxC) : InitWith(M)

Threshold ==
  /\ pc = "start"
  /\ outType' = container
  /\ T' = ThresholdOp(C, thr)
  /\ pc' = "thresholded"
  /\ UNCHANGED <<C, thr, renumber, container, comps, pops, w, kept, trimmed, toOrig, toMapped, resTag>>

Components ==
  /\ pc = "thresholded"
  /\ comps' = ComponentsOp(T)
  /\ pc' = "components"
  /\ UNCHANGED <<C, thr, renumber, container, outType, T, pops, w, kept, trimmed, toOrig, toMapped, resTag>>

Weigh ==
  /\ pc = "components"
  /\ pops' = PopsOp(C)
  /\ w' = SubgraphPops(comps, pops')
  /\ pc' = "weighed"
  /\ UNCHANGED <<C, thr, renumber, container, outType, T, comps, kept, trimmed, toOrig, toMapped, resTag>>

Keep(c) ==
  /\ pc = "weighed"
  /\ c \in MaxPop(comps, w)
  /\ kept' = c
  /\ pc' = "kept"
  /\ UNCHANGED <<C, thr, renumber, container, outType, T, comps, pops, w, trimmed, toOrig, toMapped, resTag>>

Extract ==
  /\ pc = "kept" /\ renumber
  /\ trimmed' = ExtractOp(C, kept)
  /\ pc' = "trimmed"
  /\ UNCHANGED <<C, thr, renumber, container, outType, T, comps, pops, w, kept, toOrig, toMapped, resTag>>

ZeroRows ==
  /\ pc = "kept" /\ ~renumber
  /\ trimmed' = ZeroRowsOp(C, kept)
  /\ pc' = "rows"
  /\ UNCHANGED <<C, thr, renumber, container, outType, T, comps, pops, w, kept, toOrig, toMapped, resTag>>

ZeroCols ==
  /\ pc = "rows"
  /\ trimmed' = ZeroColsOp(trimmed, kept)
  /\ pc' = "trimmed"
  /\ UNCHANGED <<C, thr, renumber, container, outType, T, comps, pops, w, kept, toOrig, toMapped, resTag>>

BuildMapping ==
  /\ pc = "trimmed"
  /\ toOrig' = ToOrigOp(kept, renumber)
  /\ toMapped' = InverseOp(toOrig')
  /\ pc' = "mapped"
  /\ UNCHANGED <<C, thr, renumber, container, outType, T, comps, pops, w, kept, trimmed, resTag>>

Wrap ==
  /\ pc = "mapped"
  /\ resTag' = outType
  /\ pc' = "done"
  /\ UNCHANGED <<C, thr, renumber, container, outType, T, comps, pops, w, kept, trimmed, toOrig, toMapped>>

KeepAny == \E c \in comps : Keep(c)

Next == \/ Threshold \/ Components \/ Weigh \/ KeepAny
        \/ Extract \/ ZeroRows \/ ZeroCols \/ BuildMapping \/ Wrap

Spec == Init /\ [][Next]_vars

(* ---- definition level ------------------------------------------------------- *)
(* Reflexive transitive closure of the graph with an edge i -> j iff the count *)
(* M[i][j] reaches the threshold.  tc[i] is the set of nodes reachable from i.  *)
(* Warshall's recurrence: pivots are removed one at a time.                      *)
(* (TLCEval only forces TLC to materialise the function instead of keeping a    *)
(* closure that is re-evaluated on every application.)                           *)
RECURSIVE Warshall(_, _)
Warshall(R, pivots) ==
  IF pivots = {} THEN R
  ELSE LET k == CHOOSE x \in pivots : TRUE
       IN Warshall(TLCEval([i \in DOMAIN R |-> IF k \in R[i] THEN R[i] \cup R[k] ELSE R[i]]),
                   pivots \ {k})

Reach(M, t, nodes) == Warshall(TLCEval([i \in nodes |-> {i} \cup {j \in nodes : M[i][j] >= t}]), nodes)

Mutual(tc, i, j) == j \in tc[i] /\ i \in tc[j]

(* S is a strongly connected component: mutually reachable and maximal *)
IsSCC(S, tc) ==
  /\ S # {}
  /\ \A i, j \in S : Mutual(tc, i, j)
  /\ \A i \in S : \A s \in Idx \ S : ~Mutual(tc, i, s)

SCCs == LET tc == Reach(C, thr, Idx) IN {S \in SUBSET Idx : IsSCC(S, tc)}

(* total count carried by the states of S: all their outgoing ORIGINAL counts *)
Weight(S) == Sum(S \X Idx, LAMBDA p : C[p[1]][p[2]])

Live == IF renumber THEN 0..(Cardinality(kept) - 1) ELSE kept     \* ids of kept states in the result
Dom  == IF renumber THEN 0..(Cardinality(kept) - 1) ELSE Idx      \* ids the result matrix is indexed by

(* ---- invariants ---------------------------------------------------------------- *)
(* Every clause is evaluated in the state in which the step that establishes it  *)
(* has just been taken; Frozen says that no later step touches the value.        *)
PCs == {"start", "thresholded", "components", "weighed", "kept", "rows", "trimmed", "mapped", "done"}
TypeOK == /\ pc \in PCs
          /\ kept \subseteq Idx
          /\ C \in Mats(Nat)

Frozen == [][/\ C' = C /\ thr' = thr /\ renumber' = renumber /\ container' = container
             /\ (pc # "start" => T' = T /\ outType' = outType)
             /\ (pc \notin {"start", "thresholded"} => comps' = comps)
             /\ (pc \notin {"start", "thresholded", "components"} => w' = w /\ pops' = pops)
             /\ (pc \notin {"start", "thresholded", "components", "weighed"} => kept' = kept)
             /\ (pc \in {"trimmed", "mapped"} => trimmed' = trimmed)
             /\ (pc = "mapped" => toOrig' = toOrig /\ toMapped' = toMapped)]_vars

(* the thresholded matrix keeps exactly the entries >= thr *)
ThresholdOnlyDrops == pc = "thresholded" =>
  \A i, j \in Idx : T[i][j] = (IF C[i][j] >= thr THEN C[i][j] ELSE 0)

(* the components partition the states and are exactly the SCCs by definition *)
ComponentsAreSCCs == pc = "components" =>
  /\ UNION comps = Idx
  /\ \A c, d \in comps : c = d \/ c \cap d = {}
  /\ comps = SCCs

WeightsFromOriginalRows == pc = "weighed" => \A c \in comps : w[c] = Weight(c)

(* the set of choices offered to Keep is exactly the set of heaviest SCCs *)
KeepChoicesComplete == pc = "weighed" =>
  LET sccs == SCCs
  IN MaxPop(comps, w) = {S \in sccs : \A S2 \in sccs : Weight(S2) <= Weight(S)}

KeptIsSCC == pc = "kept" => IsSCC(kept, Reach(C, thr, Idx))

Heaviest == pc = "kept" => \A S \in SCCs : Weight(S) <= Weight(kept)

(* strongly connected w.r.t. the counts >= thr of the RESULT matrix; reflexive
   closure, so a single state counts as connected *)
TrimmedStronglyConnected == pc = "done" =>
  LET tc == Reach(trimmed, thr, Dom)
  IN \A a, b \in Live : Mutual(tc, a, b)

CountsPreserved == pc = "done" =>
  \A i, j \in kept : trimmed[toMapped[i]][toMapped[j]] = C[i][j]

(* removed states have no row/column at all (renumbered) or only zeros (in place) *)
NothingOnRemoved == pc = "done" =>
  /\ DOMAIN trimmed = Dom
  /\ \A a \in Dom : DOMAIN trimmed[a] = Dom
  /\ \A a, b \in Dom : (a \notin Live \/ b \notin Live) => trimmed[a][b] = 0

MappingBijectiveMonotone == pc = "done" =>
  /\ DOMAIN toOrig = Live
  /\ RangeOf(toOrig) = kept
  /\ \A a, b \in DOMAIN toOrig : a < b => toOrig[a] < toOrig[b]
  /\ DOMAIN toMapped = kept
  /\ \A a \in DOMAIN toOrig : toMapped[toOrig[a]] = a
  /\ \A i \in kept : toOrig[toMapped[i]] = i

(* the variant not taken, applied to the same kept set, describes the same
   sub-matrix when read through the mapping *)
VariantsAgree == pc = "done" =>
  LET ex == ExtractOp(C, kept)
      zo == ZeroOutOp(C, kept)
      s  == Asc(kept)
      k  == Len(s)
  IN /\ \A a, b \in 0..(k - 1) : ex[a][b] = zo[s[a + 1]][s[b + 1]]
     /\ \A i, j \in Idx : zo[i][j] # 0 => (i \in kept /\ j \in kept)
     /\ IF renumber
          THEN \A a, b \in Live : trimmed[a][b] = zo[toOrig[a]][toOrig[b]]
          ELSE \A a, b \in 0..(k - 1) : ex[a][b] = trimmed[s[a + 1]][s[b + 1]]

ContainerPreserved == pc = "done" => resTag = OutTag(container)

(* ---- emission for replay ------------------------------------------------------ *)
(* One line per (C, thr), printed in the state in which Keep is about to choose: *)
(* every allowed kept set with the expected result of both variants.  Matrices   *)
(* are flattened row-major.                                                       *)
Flat(M, m) == [q \in 1..(m * m) |-> M[(q - 1) \div m][(q - 1) % m]]

PairsOf(f) == LET s == Asc(DOMAIN f) IN [q \in 1..Len(s) |-> <<s[q], f[s[q]]>>]

Variant(c, ren) ==
  LET M  == IF ren THEN ExtractOp(C, c) ELSE ZeroOutOp(C, c)
      m  == IF ren THEN Cardinality(c) ELSE N
      to == ToOrigOp(c, ren)
  IN [m |-> m, M |-> Flat(M, m), orig |-> PairsOf(to), mapped |-> PairsOf(InverseOp(to))]

Alt(c) == [kept |-> Asc(c), ren |-> Variant(c, TRUE), inp |-> Variant(c, FALSE)]

(* vacuity statistics for the driver *)
OneWay == \E i, j \in Idx : T[i][j] # 0 /\ \E c \in comps : i \in c /\ j \notin c
BiggerLoses == \E c \in comps : \E d \in MaxPop(comps, w) :
                  c \notin MaxPop(comps, w) /\ Cardinality(c) > Cardinality(d)
ThrMatters == \E i, j \in Idx : C[i][j] # 0 /\ C[i][j] < thr

(* CONSTRAINT of the emitting configuration: nothing beyond "weighed" is needed *)
EmitScope == pc \in {"start", "thresholded", "components", "weighed"}

(* The line is printed as one TLA+ string "CASE {json}" (not as a tuple), so that  *)
(* the driver can hand the raw lines to its replay workers and decode them there. *)
EmitInv == (Emit /\ pc = "weighed") =>
  PrintT("CASE " \o ToJson([n |-> N, C |-> Flat(C, N), thr |-> thr,
                            alts |-> SetToSeq({Alt(c) : c \in MaxPop(comps, w)}),
                            nc |-> Cardinality(comps), comps |-> SetToSeq({SetToSeq(c) : c \in comps}), oneway |-> OneWay,
                            bigger |-> BiggerLoses, thrm |-> ThrMatters]))

(* the expected container of the result for every input container, printed once *)
ASSUME PrintT(<<"TAGS", ToJson([c \in AllContainers |-> OutTag(c)])>>)

(* MSM(trim=True).fit hands assigns_to_counts(...) -- a coo_matrix -- to          *)
(* trim_disconnected with the defaults (threshold 1, renumbering); mapping_ and   *)
(* the counts given to the builder are the result of that instance of this spec,  *)
(* i.e. the "ren" variant of a CASE line with thr = 1.                             *)
MSMFitInstance == thr = 1 /\ renumber /\ container = "coo_matrix"
=============================================================================
