--------------------------- MODULE BuildersLarge ---------------------------
(* Property C04 on LARGE structured count matrices (size-dependent code      *)
(* paths: the eigensolver behind calculate_eq_probs switches from LAPACK to   *)
(* ARPACK for sparse input with >= 1000 states).                              *)
(*                                                                            *)
(* Builders.tla enumerates every count matrix with 2 or 3 states.  This       *)
(* module runs the same builder steps (_apply_prior_counts, C + C.T,          *)
(* _row_normalize, recast, populations) on families of count matrices of ANY  *)
(* size n whose row-normalised / transpose-symmetrised models and stationary  *)
(* vectors have closed forms in small integers:                               *)
(*                                                                            *)
(*   reversible families:  C[i][j] = Link(i,j) * u(j) + [i = j] * d(i) with a  *)
(*   symmetric link strength Link and state weights u;  then                  *)
(*   pi(i) = u(i) * rowsum(i) / Z   (detailed balance flux u(i) Link(i,j) u(j))*)
(*     "bd"    birth-death chain (tridiagonal)        Link(i,i+1) = s(i)      *)
(*     "chord" ring with chords of stride Stride(n)   (2-D torus like)        *)
(*     "hub"   star: state 1 linked with every other state                    *)
(*   non-reversible families:                                                 *)
(*     "ring"  directed cycle i -> i+1 (count a(i)) with self counts d(i);    *)
(*             the probability flux around the cycle is constant, so          *)
(*             pi(i) = (L / a(i)) * rowsum(i) / Z,   L = lcm of the a's       *)
(*     "prod"  Kronecker product (aperiodic ring on K states) x (hub on m),   *)
(*             n = K m: row sums, transition matrix and stationary vector of  *)
(*             a Kronecker product are the products of the factors'           *)
(*                                                                            *)
(* u, s, d, a are periodic patterns of small integers (Pats) chosen so that   *)
(* the families are not doubly stochastic: the stationary vector is not the   *)
(* uniform one (NotUniform, checked for every n >= 8).                        *)
(* Matrices are sparse rows  [i -> [j in support(i) -> count]]  plus a scalar *)
(* background bg that stands for "prior added to every entry" (the dense      *)
(* matrix C + prior is never materialised); every sum below runs over         *)
(* supports only, so one evaluation is linear in n.  For n <= DenseMax the    *)
(* same statements are ALSO evaluated with full sums over all n states        *)
(* (nothing outside the declared supports was forgotten).                     *)
(* TLC checks, for every size it is given: the closed form is row-stochastic, *)
(* a distribution, stationary (pi T = pi), reversible where promised,         *)
(* normalize = counts over row totals, prior first, container rule.           *)
EXTENDS Integers, Sequences, FiniteSets, TLC, Json, Functions

CONSTANTS Sizes,      \* set of state counts n to check
          Families,   \* subset of {"bd", "chord", "hub", "ring", "prod"}
          PatIds,     \* subset of DOMAIN Pats
          Priors,     \* subset of {0, 1}: prior_counts None / 1
          Tags,       \* containers of the caller's matrix: subset of {"dense", "sparse"}
          DenseMax,   \* full-sum cross-check for n <= DenseMax
          Emit

VARIABLES n,        \* number of states
          fam,      \* family
          pat,      \* pattern set
          builder,  \* "normalize" | "transpose"
          prior,    \* 0 (None) or 1
          tag,      \* container of the caller's matrix
          C,        \* caller's matrix (sparse rows)
          W, bg,    \* working count matrix: sparse rows + background scalar
          wtag,     \* container of the working matrix
          rs,       \* row sums of the working matrix (set by RowNormalise)
          T, Tbg,   \* T[i][j] = <<num, den>> on the support; <<num, den>> of every other entry of row i
          pi,       \* [1..n -> <<num, den>>];  den = 0: no closed form promised
          pc

vars == <<n, fam, pat, builder, prior, tag, C, W, bg, wtag, rs, T, Tbg, pi, pc>>

Pats == << [U |-> <<1, 2, 3, 2>>,    S |-> <<1, 2, 1>>,    D |-> <<2, 0, 1, 1>>, A |-> <<1, 2, 3>>,    L |-> 6],
           [U |-> <<2, 1, 1, 3, 1>>, S |-> <<1, 1, 2, 3>>, D |-> <<1, 0>>,    A |-> <<2, 1, 2, 4, 1>>, L |-> 4],
           [U |-> <<1, 4>>,          S |-> <<2, 1, 1>>,    D |-> <<3, 0, 1, 1>>, A |-> <<3, 1>>,       L |-> 3] >>

Cyc(q, i) == q[((i - 1) % Len(q)) + 1]
u(i) == Cyc(Pats[pat].U, i)        \* weight of state i
s(i) == Cyc(Pats[pat].S, i)        \* strength of the link i -- i+1 (hub: 1 -- i)
d(i) == Cyc(Pats[pat].D, i)        \* self count
a(i) == Cyc(Pats[pat].A, i)        \* ring: count of i -> i+1
LA == Pats[pat].L

Wrap(x, m) == ((x - 1) % m) + 1                 \* x >= 1 - m
Stride(m) == IF m > 40 THEN 31 ELSE 3
B2I(b) == IF b THEN 1 ELSE 0

(* block count of the product family: the smallest of 3, 4, 5, 7, 11 that divides m (0: none) *)
KOf(m) == IF m % 3 = 0 THEN 3 ELSE IF m % 4 = 0 THEN 4 ELSE IF m % 5 = 0 THEN 5
          ELSE IF m % 7 = 0 THEN 7 ELSE IF m % 11 = 0 THEN 11 ELSE 0

(* ---- the families: support of a row, support of a column, entry, weight --------------------- *)
(* symmetric link strengths of the reversible families on m states *)
Link(f, m, i, j) ==
  CASE f = "bd"    -> B2I(j = i + 1) * s(i) + B2I(i = j + 1) * s(j)
    [] f = "chord" -> B2I(j = Wrap(i + 1, m)) * s(i) + B2I(i = Wrap(j + 1, m)) * s(j)
                      + B2I(j = Wrap(i + Stride(m), m)) + B2I(i = Wrap(j + Stride(m), m))
    [] f = "hub"   -> IF i = 1 /\ j > 1 THEN s(j) ELSE IF j = 1 /\ i > 1 THEN s(i) ELSE 0

RECURSIVE CntF(_, _, _, _), SupF(_, _, _), InF(_, _, _), GF(_, _, _)
CntF(f, m, i, j) ==
  CASE f \in {"bd", "chord", "hub"} -> Link(f, m, i, j) * u(j) + B2I(i = j) * (d(i) + B2I(f = "hub" /\ i = 1))
    [] f = "ring"  -> B2I(j = Wrap(i + 1, m)) * a(i) + B2I(i = j) * d(i)
    [] f = "ringp" -> B2I(j = Wrap(i + 1, m)) * a(i) + B2I(i = j) * (d(i) + 1)      \* aperiodic factor of "prod"
    [] f = "prod"  -> LET K == KOf(m)  mm == m \div K
                      IN CntF("ringp", K, ((i - 1) \div mm) + 1, ((j - 1) \div mm) + 1)
                         * CntF("hub", mm, ((i - 1) % mm) + 1, ((j - 1) % mm) + 1)
(* columns that may be non-zero in row i *)
SupF(f, m, i) ==
  CASE f = "bd"    -> {j \in {i - 1, i, i + 1} : j >= 1 /\ j <= m}
    [] f = "chord" -> {i, Wrap(i + 1, m), Wrap(i + m - 1, m), Wrap(i + Stride(m), m), Wrap(i + 40 * m - Stride(m), m)}
    [] f = "hub"   -> IF i = 1 THEN 1..m ELSE {1, i}
    [] f \in {"ring", "ringp"} -> {i, Wrap(i + 1, m)}
    [] f = "prod"  -> LET K == KOf(m)  mm == m \div K
                      IN {(k - 1) * mm + l : k \in SupF("ringp", K, ((i - 1) \div mm) + 1),
                                             l \in SupF("hub", mm, ((i - 1) % mm) + 1)}
(* rows that may be non-zero in column j *)
InF(f, m, j) ==
  CASE f \in {"bd", "chord", "hub"} -> SupF(f, m, j)
    [] f \in {"ring", "ringp"} -> {j, Wrap(j + m - 1, m)}
    [] f = "prod"  -> LET K == KOf(m)  mm == m \div K
                      IN {(k - 1) * mm + l : k \in InF("ringp", K, ((j - 1) \div mm) + 1),
                                             l \in InF("hub", mm, ((j - 1) % mm) + 1)}
(* closed form: stationary weight per unit of row sum, pi(i) = G(i) rowsum(i) / Z *)
GF(f, m, i) ==
  CASE f \in {"bd", "chord", "hub"} -> u(i)
    [] f \in {"ring", "ringp"} -> LA \div a(i)
    [] f = "prod"  -> LET K == KOf(m)  mm == m \div K
                      IN GF("ringp", K, ((i - 1) \div mm) + 1) * GF("hub", mm, ((i - 1) % mm) + 1)

Idx == 1..n
Cnt(i, j) == CntF(fam, n, i, j)
Sup(i) == SupF(fam, n, i)
In(j) == InF(fam, n, j)
G(i) == GF(fam, n, i)
Reversible == fam \in {"bd", "chord", "hub"}

Add(x, y) == x + y
SumF(f) == FoldFunction(Add, 0, f)                       \* sum of the values of a function
Get(M, i, j) == IF j \in DOMAIN M[i] THEN M[i][j] ELSE 0

Init ==
  /\ n \in Sizes
  /\ fam \in {f \in Families : f = "prod" => KOf(n) # 0}
  /\ pat \in PatIds
  /\ builder \in {"normalize", "transpose"}
  /\ prior \in Priors
  /\ tag \in Tags
  /\ C = [i \in Idx |-> [j \in Sup(i) |-> Cnt(i, j)]]
  /\ W = C /\ bg = 0 /\ wtag = tag
  /\ rs = <<>> /\ T = <<>> /\ Tbg = <<>> /\ pi = <<>>
  /\ pc = "prior"

(* _apply_prior_counts: the scalar goes to every entry; scipy refuses sparse + scalar and the
   code densifies (formats that support the addition may stay sparse -- both allowed) *)
ApplyPrior ==
  /\ pc = "prior"
  /\ bg' = prior
  /\ wtag' \in (IF prior # 0 /\ tag = "sparse" THEN {"dense", "sparse"} ELSE {tag})
  /\ pc' = IF builder = "transpose" THEN "sym" ELSE "norm"
  /\ UNCHANGED <<n, fam, pat, builder, prior, tag, C, W, rs, T, Tbg, pi>>

(* C + C.T *)
Symmetrise ==
  /\ pc = "sym"
  /\ W' = [i \in Idx |-> [j \in (DOMAIN W[i]) \cup In(i) |-> Get(W, i, j) + Get(W, j, i)]]
  /\ bg' = bg + bg
  /\ pc' = "norm"
  /\ UNCHANGED <<n, fam, pat, builder, prior, tag, C, wtag, rs, T, Tbg, pi>>

(* _row_normalize *)
RowNormalise ==
  /\ pc = "norm"
  /\ rs' = [i \in Idx |-> SumF(W[i]) + n * bg]
  /\ T' = [i \in Idx |-> [j \in DOMAIN W[i] |-> <<W[i][j] + bg, rs'[i]>>]]
  /\ Tbg' = [i \in Idx |-> <<bg, rs'[i]>>]
  /\ pc' = "pops"
  /\ UNCHANGED <<n, fam, pat, builder, prior, tag, C, W, bg, wtag, pi>>

(* populations: transpose -> row sums over the total; normalize -> the stationary vector of T, which for these
   families (without prior) is G(i) rowsum(i) / Z; C + prior has no closed form here (Builders.tla covers priors) *)
Populations ==
  /\ pc = "pops"
  /\ pi' = IF builder = "transpose" THEN LET tot == SumF(rs) IN [i \in Idx |-> <<rs[i], tot>>]
           ELSE IF bg = 0 THEN LET z == SumF([i \in Idx |-> G(i) * rs[i]]) IN [i \in Idx |-> <<G(i) * rs[i], z>>]
           ELSE [i \in Idx |-> <<0, 0>>]
  /\ pc' = "done"
  /\ UNCHANGED <<n, fam, pat, builder, prior, tag, C, W, bg, wtag, rs, T, Tbg>>

Next == ApplyPrior \/ Symmetrise \/ RowNormalise \/ Populations
Spec == Init /\ [][Next]_vars

(* ---- properties (exact integer arithmetic; sums over supports) ----------------------------------------- *)
Done == pc = "done"
HasPi == pi[1][2] > 0
TNum(i, j) == IF j \in DOMAIN T[i] THEN T[i][j][1] ELSE Tbg[i][1]        \* numerator of T[i][j]; denominator rs[i]
X(i) == pi[i][1] \div rs[i]                                             \* pi(i) / rowsum(i) (times the common denominator)

CallerUnchanged == [][C' = C /\ n' = n /\ fam' = fam /\ pat' = pat]_vars

(* membership in a row / column support without building the set: the supports of the product family are
   Cartesian products (block index, index inside the block) of the factors' supports *)
IsSup(i, j) == IF fam = "prod"
               THEN LET K == KOf(n)  mm == n \div K
                    IN /\ ((j - 1) \div mm) + 1 \in SupF("ringp", K, ((i - 1) \div mm) + 1)
                       /\ ((j - 1) % mm) + 1 \in SupF("hub", mm, ((i - 1) % mm) + 1)
               ELSE j \in Sup(i)
IsIn(i, j) == IF fam = "prod"
              THEN LET K == KOf(n)  mm == n \div K
                   IN /\ ((i - 1) \div mm) + 1 \in InF("ringp", K, ((j - 1) \div mm) + 1)
                      /\ ((i - 1) % mm) + 1 \in InF("hub", mm, ((j - 1) % mm) + 1)
              ELSE i \in In(j)
CardSup(i) == IF fam = "prod"
              THEN LET K == KOf(n)  mm == n \div K
                   IN Cardinality(SupF("ringp", K, ((i - 1) \div mm) + 1)) * Cardinality(SupF("hub", mm, ((i - 1) % mm) + 1))
              ELSE Cardinality(Sup(i))
CardIn(j) == IF fam = "prod"
             THEN LET K == KOf(n)  mm == n \div K
                  IN Cardinality(InF("ringp", K, ((j - 1) \div mm) + 1)) * Cardinality(InF("hub", mm, ((j - 1) % mm) + 1))
             ELSE Cardinality(In(j))

(* the declared supports are sound: the support sets are what the membership tests say (inclusion + equal size),
   a column support lists exactly the rows whose support contains the column, every count is non-negative,
   the links of the reversible families are symmetric *)
SupportsOK == pc = "prior" => \A i \in Idx :
   /\ Sup(i) \subseteq Idx /\ In(i) \subseteq Idx
   /\ Cardinality(Sup(i)) = CardSup(i) /\ Cardinality(In(i)) = CardIn(i)
   /\ \A j \in Sup(i) : IsSup(i, j) /\ IsIn(i, j) /\ Cnt(i, j) >= 0
   /\ \A r \in In(i) : IsIn(r, i) /\ IsSup(r, i)
   /\ Reversible => \A j \in Sup(i) : Link(fam, n, i, j) = Link(fam, n, j, i)
   /\ u(i) > 0 /\ s(i) > 0 /\ d(i) >= 0 /\ a(i) > 0 /\ LA % a(i) = 0           \* the patterns
(* n <= DenseMax: nothing outside the supports *)
SupportsComplete == (pc = "prior" /\ n <= DenseMax) => \A i, j \in Idx : (j \notin Sup(i) \/ i \notin In(j)) => Cnt(i, j) = 0

(* every state has outgoing counts and the chain is irreducible: a closed walk through all states has
   positive counts (bd: up and down the chain; ring, chord: around the cycle; hub: out and back;
   prod: inside a block via the hub, block to block at the hub states; all its diagonal entries are positive) *)
Irreducible == pc = "prior" =>
  CASE fam = "bd"    -> \A i \in 1..(n - 1) : Cnt(i, i + 1) > 0 /\ Cnt(i + 1, i) > 0
    [] fam \in {"ring", "chord"} -> \A i \in Idx : Cnt(i, Wrap(i + 1, n)) > 0
    [] fam = "hub"   -> \A i \in 2..n : Cnt(1, i) > 0 /\ Cnt(i, 1) > 0
    [] fam = "prod"  -> LET K == KOf(n)  mm == n \div K
                        IN \A k \in 1..K : /\ \A l \in 2..mm : /\ Cnt((k - 1) * mm + 1, (k - 1) * mm + l) > 0
                                                               /\ Cnt((k - 1) * mm + l, (k - 1) * mm + 1) > 0
                                           /\ Cnt((k - 1) * mm + 1, (Wrap(k + 1, K) - 1) * mm + 1) > 0
NotUniform == (Done /\ HasPi /\ n >= 8) => \E i, j \in Idx : pi[i][1] # pi[j][1]

RowStochastic == Done => \A i \in Idx :
   /\ rs[i] > 0
   /\ SumF([j \in DOMAIN T[i] |-> T[i][j][1]]) + (n - Cardinality(DOMAIN T[i])) * Tbg[i][1] = rs[i]
   /\ \A j \in DOMAIN T[i] : T[i][j][1] >= 0 /\ T[i][j][2] = rs[i]
   /\ Tbg[i][1] >= 0 /\ Tbg[i][2] = rs[i]

(* normalize: T = (C + prior) / rowsum(C + prior), from the definition of the family *)
NormalizeIsCountsOverRowsum == (Done /\ builder = "normalize") => \A i \in Idx :
   LET r == SumF([j \in Sup(i) |-> Cnt(i, j)]) + n * prior
   IN /\ \A j \in Sup(i) : TNum(i, j) * r = (Cnt(i, j) + prior) * rs[i]
      /\ Tbg[i][1] * r = prior * rs[i]
      /\ DOMAIN T[i] = Sup(i)

PriorFirst == Done => \A i \in Idx : prior = 1 => (Tbg[i][1] > 0 /\ \A j \in DOMAIN T[i] : T[i][j][1] > 0)

PiIsDistribution == (Done /\ HasPi) =>
   /\ SumF([i \in Idx |-> pi[i][1]]) = pi[1][2]
   /\ \A i \in Idx : pi[i][1] >= 0 /\ pi[i][2] = pi[1][2]

PiDivisible == (Done /\ HasPi) => \A i \in Idx : pi[i][1] % rs[i] = 0

(* pi T = pi:  sum_i (pi_i / r_i) t_ij = pi_j; the background contributes bg * sum_i (pi_i / r_i) to every
   column and the support entries their excess over the background *)
Stationary == (Done /\ HasPi) =>
   LET xs == SumF([i \in Idx |-> X(i)])
   IN \A j \in Idx : bg * xs + SumF([i \in In(j) \cup Sup(j) |-> X(i) * (TNum(i, j) - bg)]) = pi[j][1]
StationaryDense == (Done /\ HasPi /\ n <= DenseMax) =>
   \A j \in Idx : SumF([i \in Idx |-> X(i) * TNum(i, j)]) = pi[j][1]

(* detailed balance: transpose always; normalize on the reversible families *)
DetailedBalance == (Done /\ HasPi /\ (builder = "transpose" \/ Reversible)) =>
   \A i \in Idx : \A j \in DOMAIN T[i] : X(i) * TNum(i, j) = X(j) * TNum(j, i)
(* the non-reversible families really are not reversible (the promise is not made for them) *)
RingNotReversible == (Done /\ HasPi /\ builder = "normalize" /\ fam \in {"ring", "prod"} /\ n >= 3) =>
   \E i \in Idx : \E j \in DOMAIN T[i] : X(i) * TNum(i, j) # X(j) * TNum(j, i)

(* On the reversible families the row-normalised model satisfies detailed balance (above), so it is also the
   likelihood maximiser among the reversible models (the unconstrained maximiser is feasible, and unique on an
   irreducible support): builders.mle has to return normalize's T and pi for these counts *)
MLEIsNormalize == Reversible /\ builder = "normalize" /\ prior = 0

(* transpose returns (C + C.T) / 2 as counts *)
SymmetrisedCounts == (Done /\ builder = "transpose") =>
   /\ bg = 2 * prior
   /\ \A i \in Idx : \A j \in DOMAIN W[i] : W[i][j] = Cnt(i, j) + Cnt(j, i)

ContainerRule == Done => (wtag = tag \/ (prior # 0 /\ tag = "sparse" /\ wtag = "dense"))

Safe == Done => \A i \in Idx : rs[i] < 100000000 /\ pi[i][2] < 1000000000

(* ---- emission ---------------------------------------------------------------------------------------- *)
(* one record per (n, family, pattern, builder, prior); rows as {column: value} objects *)
EmitInv == (Emit /\ Done /\ wtag = (IF prior # 0 THEN "dense" ELSE tag)) =>
  PrintT(<<"CASE", ToJson([n |-> n, fam |-> fam, pat |-> pat, builder |-> builder, prior |-> prior,
                           C |-> C, W |-> W, bg |-> bg, half |-> (builder = "transpose"),
                           T |-> T, Tbg |-> Tbg, pi |-> pi, reversible |-> Reversible,
                           mle_same |-> MLEIsNormalize])>>)
=============================================================================
