------------------------------- MODULE MSMObj -------------------------------
(* The MSM estimator object (enspara.msm.msm.MSM): property C16, first half.  *)
(*                                                                            *)
(* Lifecycle:  New(config) -> Fit(assignments) -> Save -> Load                *)
(* The configuration the object STORES is a variable separate from the one    *)
(* the caller GAVE, so a dropped constructor argument is a visible state      *)
(* difference (ConfigStored).  Fit uses the stored configuration -- as the    *)
(* code does -- and FitIsPipeline compares the fitted parts with the          *)
(* definition-level pipeline  Builder(Trim?(Counts(assignments)))  evaluated  *)
(* on the GIVEN configuration.  Counting, trimming and building are restated  *)
(* here at definition level (cardinality of lagged pairs; heaviest strongly   *)
(* connected component; exact rational row normalisation / symmetrisation);   *)
(* their step-level transcriptions live in Counts.tla, Trim.tla, Builders.tla.*)
EXTENDS Integers, Sequences, FiniteSets, FiniteSetsExt, SequencesExt, TLC, Json

CONSTANTS S, MaxT, MaxLen, MaxLag, Emit

VARIABLES trajs,    \* assignments
          given,    \* configuration passed to the constructor
          stored,   \* configuration kept by the object
          fit,      \* fitted parts, or <<>> before fit
          disk,     \* what save() wrote, or <<>>
          loaded,   \* the object built by load(), or <<>>
          pc

vars == <<trajs, given, stored, fit, disk, loaded, pc>>

Rows == UNION {[1..l -> 0..(S-1)] : l \in 1..MaxLen}
Configs == [lag : 1..MaxLag, method : {"normalize", "transpose"}, trim : BOOLEAN,
            sliding : BOOLEAN, maxn : {0, S, S + 1}]       \* maxn 0 = None

RECURSIVE SumTo(_, _)
SumTo(f, n) == IF n = 0 THEN 0 ELSE f[n] + SumTo(f, n - 1)

(* ---- counting (definition level) ----------------------------------------- *)
Observed(ts) == Max(UNION {{ts[k][c] : c \in 1..Len(ts[k])} : k \in 1..Len(ts)}) + 1
NStates(ts, c) == IF c.maxn = 0 THEN Observed(ts) ELSE c.maxn
PairPos(ts, c, k) == {t \in 1..Len(ts[k]) : t + c.lag <= Len(ts[k]) /\ (c.sliding \/ (t - 1) % c.lag = 0)}
CountsOf(ts, c) ==
  LET n == NStates(ts, c)
  IN [i \in 1..n |-> [j \in 1..n |->
        Cardinality({kt \in UNION {{<<k, t>> : t \in PairPos(ts, c, k)} : k \in 1..Len(ts)} :
                        ts[kt[1]][kt[2]] = i - 1 /\ ts[kt[1]][kt[2] + c.lag] = j - 1})]]

(* ---- trimming (definition level, threshold 1) ---------------------------- *)
RECURSIVE ReachK(_, _, _, _)
ReachK(M, i, j, k) == IF k = 0 THEN i = j
                      ELSE ReachK(M, i, j, k - 1) \/ \E m \in DOMAIN M : ReachK(M, i, m, k - 1) /\ M[m][j] > 0
Mutual(M, i, j) == ReachK(M, i, j, Len(M)) /\ ReachK(M, j, i, Len(M))
Comp(M, i) == {j \in DOMAIN M : Mutual(M, i, j)}
Comps(M) == {Comp(M, i) : i \in DOMAIN M}
Weight(M, comp) == SumTo([i \in DOMAIN M |-> IF i \in comp THEN SumTo(M[i], Len(M)) ELSE 0], Len(M))
Heaviest(M) == {c \in Comps(M) : \A d \in Comps(M) : Weight(M, d) <= Weight(M, c)}
(* sorted sequence of a set of naturals *)
RECURSIVE SortSet(_)
SortSet(X) == IF X = {} THEN <<>> ELSE LET m == Min(X) IN <<m>> \o SortSet(X \ {m})
Extract(M, keep) == LET ks == SortSet(keep)
                    IN [a \in 1..Len(ks) |-> [b \in 1..Len(ks) |-> M[ks[a]][ks[b]]]]

(* ---- builders (definition level, exact rationals <<num, den>>) ----------- *)
RowSum(M, i) == SumTo(M[i], Len(M))
Sym(M) == [i \in DOMAIN M |-> [j \in DOMAIN M |-> M[i][j] + M[j][i]]]
Normalise(M) == [i \in DOMAIN M |-> [j \in DOMAIN M |-> <<M[i][j], RowSum(M, i)>>]]   \* den 0: zero row -> zeros
TotalOf(M) == SumTo([i \in DOMAIN M |-> RowSum(M, i)], Len(M))

(* one admissible result of the pipeline per admissible kept component *)
Pipeline(ts, c) ==
  LET C0 == CountsOf(ts, c)
      keeps == IF c.trim THEN Heaviest(C0) ELSE {DOMAIN C0}
  IN { LET C1 == Extract(C0, keep)
           W  == IF c.method = "transpose" THEN Sym(C1) ELSE C1
       IN [keep   |-> SortSet(keep),                     \* to_original (1-based states)
           counts |-> W, half |-> (c.method = "transpose"),
           tprobs |-> Normalise(W),
           pops   |-> IF c.method = "transpose"
                      THEN [i \in DOMAIN W |-> <<RowSum(W, i), TotalOf(W)>>]
                      ELSE <<>>]                          \* normalize: see Spectrum.tla
       : keep \in keeps }

(* ---- lifecycle ------------------------------------------------------------ *)
ConfigKeys(c) == [lag |-> c.lag, method |-> c.method, trim |-> c.trim, sliding |-> c.sliding, maxn |-> c.maxn]   \* (maxn since repair 30dd8d6)

Init == /\ trajs \in UNION {[1..n -> Rows] : n \in 1..MaxT}
        /\ given \in Configs
        /\ stored = <<>> /\ fit = <<>> /\ disk = <<>> /\ loaded = <<>>
        /\ pc = "new"

New == /\ pc = "new"
       /\ stored' = given                    \* every constructor argument is kept
       /\ pc' = "fit"
       /\ UNCHANGED <<trajs, given, fit, disk, loaded>>

Fit == /\ pc = "fit"
       /\ fit' \in Pipeline(trajs, stored)
       /\ pc' = "save"
       /\ UNCHANGED <<trajs, given, stored, disk, loaded>>

(* save(): config (the four documented keys; max_n_states is not part of the
   persisted configuration in the code either), counts, probabilities,
   populations, mapping as rows (original, mapped) *)
Save == /\ pc = "save"
        /\ disk' = [config |-> ConfigKeys(stored), parts |-> fit]
        /\ pc' = "load"
        /\ UNCHANGED <<trajs, given, stored, fit, loaded>>

Load == /\ pc = "load"
        /\ loaded' = [config |-> disk.config, parts |-> disk.parts]
        /\ pc' = "done"
        /\ UNCHANGED <<trajs, given, stored, fit, disk>>

Next == New \/ Fit \/ Save \/ Load
Spec == Init /\ [][Next]_vars

(* ---- properties ------------------------------------------------------------ *)
ConfigStored == pc # "new" => stored = given
FitIsPipeline == fit # <<>> => fit \in Pipeline(trajs, given)
RoundTrip == pc = "done" => loaded.parts = fit /\ loaded.config = ConfigKeys(given)
MappingMonotone == fit # <<>> => \A a, b \in 1..Len(fit.keep) : a < b => fit.keep[a] < fit.keep[b]
NStatesConsistent == fit # <<>> => Len(fit.counts) = Len(fit.keep) /\ Len(fit.tprobs) = Len(fit.keep)
TrimmedConnected == (fit # <<>> /\ given.trim) =>
   \A i, j \in DOMAIN fit.counts : ReachK(fit.counts, i, j, Len(fit.counts))

EmitBound == pc \in {"new", "fit"}
EmitInv == (Emit /\ pc = "fit") =>
  PrintT(<<"CASE", ToJson([trajs |-> trajs, cfg |-> given,
                           allowed |-> SetToSeq(Pipeline(trajs, given))])>>)
=============================================================================
