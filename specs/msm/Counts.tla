------------------------------- MODULE Counts -------------------------------
(* Transition counting (enspara.msm.transition_matrices.assigns_to_counts /  *)
(* _transitions_helper).  Property C03.                                       *)
(*                                                                            *)
(* The input is a set of state trajectories.  The implementation-shaped part  *)
(* follows the code: every row is masked (padding -1 dropped), sliced into    *)
(* start = a[:-lag:step] and end = a[lag::step] (step = 1 under the sliding   *)
(* window, = lag otherwise), the pairs of all rows are stacked and duplicate  *)
(* coordinates are summed (COO semantics).  The definition-level part counts  *)
(* lagged pairs by cardinality.  TLC checks that both agree on every input    *)
(* in scope and emits each input with the expected matrix for replay into     *)
(* the real function.                                                         *)
EXTENDS Integers, Sequences, FiniteSets, FiniteSetsExt, SequencesExt, TLC, Json, PySlice

CONSTANTS S,        \* states are 0..S-1
          MaxT,     \* at most MaxT trajectories
          MaxLen,   \* each of length 1..MaxLen
          MaxLag,   \* lag in 1..MaxLag
          MaxPad,   \* extra -1 columns appended after padding to the longest row
          Emit      \* TRUE: print every final state as a CASE line

VARIABLES trajs,    \* the input: sequence of sequences over 0..S-1
          lag, sliding,
          nstates,  \* requested number of states: 0 stands for None, else S or S+1
          pad,      \* number of extra padding columns (rectangular form)
          r,        \* next row to process (1-based)
          C,        \* accumulator: function <<i,j>> -> count, over 0..n-1
          pc

vars == <<trajs, lag, sliding, nstates, pad, r, C, pc>>

Rows == UNION {[1..l -> 0..(S-1)] : l \in 1..MaxLen}

MaxLenOf(ts) == Max({Len(ts[k]) : k \in 1..Len(ts)})

(* the rectangular, -1 padded form of the input that the code also accepts *)
Padded(ts, extra) ==
  LET w == MaxLenOf(ts) + extra
  IN [k \in 1..Len(ts) |-> [c \in 1..w |-> IF c <= Len(ts[k]) THEN ts[k][c] ELSE -1]]

(* ---- implementation-shaped steps ---------------------------------------- *)
Mask(row) == SelectSeq(row, LAMBDA x : x # -1)

Step == IF sliding THEN 1 ELSE lag

StartStates(a) == SliceSeq(a, None, -lag, Step)
EndStates(a)   == SliceSeq(a, lag, None, Step)

(* observed number of states: max over all masked entries + 1 *)
Observed == Max(UNION {{trajs[k][c] : c \in 1..Len(trajs[k])} : k \in 1..Len(trajs)}) + 1
NStates == IF nstates = 0 THEN Observed ELSE nstates

ZeroC == [p \in (0..(NStates-1)) \X (0..(NStates-1)) |-> 0]

Init ==
  /\ trajs \in UNION {[1..n -> Rows] : n \in 1..MaxT}
  /\ lag \in 1..MaxLag
  /\ sliding \in BOOLEAN
  /\ nstates \in {0, S, S + 1}
  /\ pad \in 0..MaxPad
  /\ r = 1
  /\ C = <<>>
  /\ pc = "start"

Start ==
  /\ pc = "start"
  /\ C' = ZeroC
  /\ pc' = "rows"
  /\ UNCHANGED <<trajs, lag, sliding, nstates, pad, r>>

(* one row: mask, slice, accumulate *)
CountRow ==
  /\ pc = "rows" /\ r <= Len(trajs)
  /\ LET a  == Mask(Padded(trajs, pad)[r])
         ss == StartStates(a)
         es == EndStates(a)
     IN /\ Len(ss) = Len(es)            \* row_stack needs equal lengths
        /\ C' = [p \in DOMAIN C |->
                   C[p] + Cardinality({k \in 1..Len(ss) : ss[k] = p[1] /\ es[k] = p[2]})]
  /\ r' = r + 1
  /\ UNCHANGED <<trajs, lag, sliding, nstates, pad, pc>>

Finish ==
  /\ pc = "rows" /\ r > Len(trajs)
  /\ pc' = "done"
  /\ UNCHANGED <<trajs, lag, sliding, nstates, pad, r, C>>

Next == Start \/ CountRow \/ Finish

Spec == Init /\ [][Next]_vars

(* ---- definition level ---------------------------------------------------- *)
(* pairs (t, t+lag) (1-based t) inside row k; non-sliding: every lag-th pair  *)
PairPos(k) == {t \in 1..Len(trajs[k]) :
                 /\ t + lag <= Len(trajs[k])
                 /\ (sliding \/ (t - 1) % lag = 0)}

Def(i, j) == Cardinality({kt \in UNION {{<<k, t>> : t \in PairPos(k)} : k \in 1..Len(trajs)} :
                             trajs[kt[1]][kt[2]] = i /\ trajs[kt[1]][kt[2] + lag] = j})

SumC == FoldFunction(LAMBDA x, y : x + y, 0, C)

RECURSIVE SumLens(_, _)
SumLens(ts, k) == IF k = 0 THEN 0
                  ELSE SumLens(ts, k - 1) + (IF Len(ts[k]) > lag THEN Len(ts[k]) - lag ELSE 0)

(* ---- properties ----------------------------------------------------------- *)
TypeOK == pc \in {"start", "rows", "done"}

MaskRestoresInput == \A k \in 1..Len(trajs) : Mask(Padded(trajs, pad)[k]) = trajs[k]

Exact == pc = "done" => \A p \in DOMAIN C : C[p] = Def(p[1], p[2])

Square == pc = "done" => DOMAIN C = (0..(NStates-1)) \X (0..(NStates-1))

Total == (pc = "done" /\ sliding) => SumC = SumLens(trajs, Len(trajs))

(* no pair spans two rows: every counted pair comes from PairPos of one row --
   implied by Exact; stated separately on the partial sums *)
NoLeak == pc = "rows" =>
  \A p \in DOMAIN C :
     C[p] = Cardinality({kt \in UNION {{<<k, t>> : t \in PairPos(k)} : k \in 1..(r-1)} :
                             trajs[kt[1]][kt[2]] = p[1] /\ trajs[kt[1]][kt[2] + lag] = p[2]})

(* additivity / order independence are properties of the partial-sum structure:
   the accumulator after row r is the accumulator before plus that row's own
   contribution, irrespective of the other rows *)
Additive == [][pc = "rows" /\ pc' = "rows" =>
                 \A p \in DOMAIN C : C'[p] - C[p] =
                    Cardinality({t \in PairPos(r) : trajs[r][t] = p[1] /\ trajs[r][t + lag] = p[2]})]_vars

(* ---- emission for replay --------------------------------------------------- *)
CMatrix == [i \in 1..NStates |-> [j \in 1..NStates |-> C[<<i-1, j-1>>]]]

EmitInv == (Emit /\ pc = "done") =>
  PrintT(<<"CASE", ToJson([trajs |-> trajs, lag |-> lag, sliding |-> sliding,
                           nstates |-> nstates, pad |-> pad, n |-> NStates, C |-> CMatrix])>>)
=============================================================================
