----------------------------- MODULE KCentersMPI -----------------------------
(* MPI-striped k-centers (enspara.cluster.kcenters: kcenters(mpi_mode=True),  *)
(* _kcenters_iteration_mpi; enspara.mpi.ops: striped_array_max,               *)
(* distribute_frame, convert_local_indices, assemble_striped_ragged_array).   *)
(* Property C14.                                                              *)
(*                                                                            *)
(* Trajectories are dealt round-robin: trajectory t (1-based) lives on rank   *)
(* (t-1) % R; a rank's local array is the concatenation of its trajectories.  *)
(* Every rank runs the same program; one iteration is the collective sequence *)
(*   allgather(argmax) ; allgather(max) ; Bcast(frame) ; Barrier ; allreduce  *)
(* A collective completes when all ranks have ARRIVED; ranks arrive in any    *)
(* order (TLC explores all of them) and run their local steps between         *)
(* collectives independently.  Each rank keeps its own copy of the center     *)
(* list and of the global maximum, so disagreement between ranks is visible.  *)
EXTENDS Lattice, FiniteSetsExt, TLC, Json

CONSTANTS R,          \* number of ranks
          MaxT,       \* at most MaxT trajectories (at least 1)
          MaxLen,     \* each of 1..MaxLen frames
          P,          \* 1-D positions 0..P
          MaxK,       \* n_clusters in 1..MaxK
          MetricsUsed

Ranks == 0..(R - 1)

VARIABLES trajs,     \* sequence of trajectories; a trajectory is a sequence of points
          metric, k,
          lasg, ldist,   \* per rank: local labels / distances (sequences over the local frames)
          ctrs,          \* per rank: its copy of center_inds = sequence of <<owner, local index (1-based)>>
          gmax,          \* per rank: its copy of the global covering radius
          step,          \* which collective of the iteration program the world is at
          arrived,       \* ranks that have arrived at the current collective
          contrib,       \* their contributions
          box,           \* result of the last allgathers: [locs, vals] ; and the broadcast frame
          pc             \* "run" | "done"

vars == <<trajs, metric, k, lasg, ldist, ctrs, gmax, step, arrived, contrib, box, pc>>

NT == Len(trajs)
Owned(r) == {t \in 1..NT : (t - 1) % R = r}
RECURSIVE ConcatTrajs(_, _)
ConcatTrajs(ts, T) == IF T = {} THEN <<>> ELSE LET t == SetMin(T) IN ts[t] \o ConcatTrajs(ts, T \ {t})
Local(r) == ConcatTrajs(trajs, Owned(r))                  \* local data of rank r
Global == ConcatTrajs(trajs, 1..NT)                       \* the concatenated data set
Lengths == [t \in 1..NT |-> Len(trajs[t])]

(* global (1-based) frame number of local frame i of rank r: the i-th element of the
   concatenation of the global index ranges of the owned trajectories
   (= convert_local_indices) *)
StartOf(t) == SumSeq([u \in 1..(t - 1) |-> Len(trajs[u])])
IndexTrajs == [t \in 1..NT |-> [f \in 1..Len(trajs[t]) |-> StartOf(t) + f]]
GlobalIdx(r, i) == ConcatTrajs(IndexTrajs, Owned(r))[i]
(* inverse: (owner, local) of global frame g (= ctr_ids_mpi / randind's map) *)
OwnerLocal(g) == CHOOSE ol \in {<<r, i>> : r \in Ranks, i \in 1..SumSeq(Lengths)} :
                    ol[2] <= Len(Local(ol[1])) /\ GlobalIdx(ol[1], ol[2]) = g

(* ---- the serial algorithm on the concatenated data (first arg-max, as the code) -- *)
RECURSIVE Serial(_)
Serial(n) ==       \* state after n centers: [ctr, asg, dist]
  IF n = 0 THEN [ctr |-> <<>>, asg |-> [i \in 1..Len(Global) |-> 0], dist |-> [i \in 1..Len(Global) |-> Inf]]
  ELSE LET s == Serial(n - 1)
           c == IF n = 1 THEN 1 ELSE FirstArgMax(s.dist)
           nd == DistVec(metric, Global, Global[c])
       IN [ctr |-> Append(s.ctr, c),
           asg |-> [i \in 1..Len(Global) |-> IF nd[i] < s.dist[i] THEN n ELSE s.asg[i]],
           dist |-> [i \in 1..Len(Global) |-> Min2(nd[i], s.dist[i])]]
(* tie-free: the farthest frame is unique before every choice *)
TieFree(n) == \A m \in 1..(n - 1) : Cardinality(ArgMaxSet(Serial(m).dist)) = 1 \/ SeqMax(Serial(m).dist) = 0

Init ==
  /\ trajs \in UNION {[1..n -> UNION {[1..l -> Line(P)] : l \in 1..MaxLen}] : n \in 1..MaxT}
  /\ \A a, b \in 1..Len(ConcatTrajs(trajs, 1..Len(trajs))) :
        a # b => ConcatTrajs(trajs, 1..Len(trajs))[a] # ConcatTrajs(trajs, 1..Len(trajs))[b]
  /\ Len(trajs) >= R                           \* every rank owns at least one trajectory
  /\ metric \in MetricsUsed
  /\ k \in 1..MaxK
  /\ lasg = [r \in Ranks |-> [i \in 1..Len(Local(r)) |-> 0]]
  /\ ldist = [r \in Ranks |-> [i \in 1..Len(Local(r)) |-> Inf]]
  /\ ctrs = [r \in Ranks |-> <<>>]
  /\ gmax = [r \in Ranks |-> Inf]
  /\ step = "gather" /\ arrived = {} /\ contrib = [r \in Ranks |-> <<>>]
  /\ box = <<>>
  /\ pc = "run"

(* loop guard, evaluated by every rank on its own copies *)
Guard(r) == Len(ctrs[r]) < k /\ gmax[r] > 0

(* arrival of rank r at the current collective with its contribution *)
Arrive(r) ==
  /\ pc = "run" /\ r \notin arrived /\ Guard(r)
  /\ arrived' = arrived \cup {r}
  /\ contrib' = [contrib EXCEPT ![r] =
        CASE step = "gather" -> <<FirstArgMax(ldist[r]), SeqMax(ldist[r])>>      \* two allgathers, one step
          [] step = "bcast"  -> (IF r = box.owner THEN Local(r)[box.loc] ELSE <<>>)
          [] step = "reduce" -> SeqMax(ldist[r])]
  /\ UNCHANGED <<trajs, metric, k, lasg, ldist, ctrs, gmax, step, box, pc>>

(* completion of the collective: every rank receives the result and runs its local step *)
Complete ==
  /\ pc = "run" /\ arrived = Ranks
  /\ arrived' = {} /\ contrib' = [r \in Ranks |-> <<>>]
  /\ CASE step = "gather" ->
            (* first center: frame 0 of rank 0; otherwise owner = first rank with the largest value *)
            LET first == ctrs[0] = <<>>
                vals == [j \in 1..R |-> contrib[j - 1][2]]
                owner == IF first THEN 0 ELSE FirstArgMax(vals) - 1
                loc == IF first THEN 1 ELSE contrib[owner][1]
            IN /\ box' = [owner |-> owner, loc |-> loc]
               /\ step' = "bcast"
               /\ UNCHANGED <<lasg, ldist, ctrs, gmax>>
       [] step = "bcast" ->
            LET frame == contrib[box.owner]
                lab == Len(ctrs[0]) + 1
            IN /\ ldist' = [r \in Ranks |-> [i \in DOMAIN ldist[r] |->
                              Min2(D(metric, Local(r)[i], frame), ldist[r][i])]]
               /\ lasg' = [r \in Ranks |-> [i \in DOMAIN lasg[r] |->
                              IF D(metric, Local(r)[i], frame) < ldist[r][i] THEN lab ELSE lasg[r][i]]]
               /\ ctrs' = [r \in Ranks |-> Append(ctrs[r], <<box.owner, box.loc>>)]
               /\ step' = "reduce"
               /\ UNCHANGED <<gmax, box>>
       [] step = "reduce" ->
            /\ gmax' = [r \in Ranks |-> SetMax({contrib[q] : q \in Ranks})]
            /\ step' = "gather"
            /\ UNCHANGED <<lasg, ldist, ctrs, box>>
  /\ UNCHANGED <<trajs, metric, k, pc>>

Finish ==
  /\ pc = "run" /\ arrived = {} /\ \A r \in Ranks : ~Guard(r)
  /\ pc' = "done"
  /\ UNCHANGED <<trajs, metric, k, lasg, ldist, ctrs, gmax, step, arrived, contrib, box>>

Next == (\E r \in Ranks : Arrive(r)) \/ Complete \/ Finish
Spec == Init /\ [][Next]_vars

(* ---- reassembly (assemble_striped_ragged_array + convert_local_indices) ---------- *)
(* value of global frame g in a per-rank family of local sequences *)
Reassemble(fam) == [g \in 1..Len(Global) |-> LET ol == OwnerLocal(g) IN fam[ol[1]][ol[2]]]
GlobalCtrs == [c \in DOMAIN ctrs[0] |-> GlobalIdx(ctrs[0][c][1], ctrs[0][c][2])]

(* ---- properties -------------------------------------------------------------------- *)
AtRest == arrived = {} /\ step = "gather"
AllRanksAgree == \A r, q \in Ranks : (AtRest => ctrs[r] = ctrs[q] /\ gmax[r] = gmax[q])
(* nobody is left waiting in a collective others will never join *)
NoDeadlock == (pc = "run" /\ arrived # {}) => \A r \in Ranks : Guard(r)
LocalGlobalBijection ==
  \A g \in 1..Len(Global) : GlobalIdx(OwnerLocal(g)[1], OwnerLocal(g)[2]) = g
Refines == (AtRest /\ Len(ctrs[0]) >= 1 /\ TieFree(Len(ctrs[0]))) =>
  LET s == Serial(Len(ctrs[0]))
  IN /\ GlobalCtrs = s.ctr
     /\ Reassemble(ldist) = s.dist
     /\ Reassemble(lasg) = s.asg
     /\ gmax[0] = SeqMax(s.dist)
(* with ties the distributed choice is still a farthest frame: the reassembled state is
   self-consistent and the radius equals the true maximum *)
ReassembledConsistent == (AtRest /\ Len(ctrs[0]) >= 1) =>
  LET d == Reassemble(ldist)  a == Reassemble(lasg)  cs == GlobalCtrs
  IN /\ \A i \in 1..Len(Global) : /\ a[i] \in DOMAIN cs
                                   /\ d[i] = D(metric, Global[i], Global[cs[a[i]]])
                                   /\ \A c \in DOMAIN cs : D(metric, Global[i], Global[cs[c]]) >= d[i]
     /\ gmax[0] = SeqMax(d)
StopsOnCue == pc = "done" => (Len(ctrs[0]) = k \/ gmax[0] = 0)

(* emission: inputs with the serial expectation, for replay on the simulated communicator *)
OnlyInit == step = "gather" /\ arrived = {} /\ ctrs[0] = <<>> /\ pc = "run"
EmitInput == OnlyInit =>
  PrintT(<<"CASE", ToJson([trajs |-> trajs, metric |-> metric, k |-> k, R |-> R,
                           tiefree |-> TieFree(k),
                           serial |-> Serial(IF k <= Len(Global) THEN k ELSE Len(Global))])>>)
=============================================================================
