------------------------------ MODULE StripedOps ------------------------------
(* Striped reductions, gathers and random choice of enspara.mpi.ops            *)
(* (assemble_striped_array, striped_array_max/mean, randind) -- property C14. *)
(*                                                                            *)
(* A "striped array" has element i of the global array on rank i % R.         *)
(* State: the global array of values; each rank holds Local(r).  The actions  *)
(* are the collectives of the routines with arbitrary arrival order; the      *)
(* invariants say that what every rank ends up with is the serial value.      *)
EXTENDS Integers, Sequences, FiniteSets, FiniteSetsExt, TLC, Json

CONSTANTS R, MinN, MaxN, NegV, MaxV   \* MinN < R: some ranks own nothing; values -NegV..MaxV (negative data for max / mean)
MinV == 0 - NegV

Ranks == 0..(R - 1)
NoVal == MinV - 1          \* the contribution of a rank that owns nothing to a maximum

VARIABLES garr,      \* global array (values MinV..MaxV; positive for assemble, whose arrays are trajectory lengths)
          nloc,      \* per rank: number of elements of an arbitrary (not necessarily packed) local array
          op,        \* routine under way: "assemble" | "max" | "mean" | "randind"
          arrived, contrib, result, gidx, pc

vars == <<garr, nloc, op, arrived, contrib, result, gidx, pc>>

RECURSIVE SumSeq(_)
SumSeq(s) == IF s = <<>> THEN 0 ELSE Head(s) + SumSeq(Tail(s))
Local(r) == [j \in 1..((Len(garr) - r + R - 1) \div R) |-> garr[r + 1 + (j - 1) * R]]   \* garr[r::R]

Init ==
  /\ garr \in UNION {[1..n -> MinV..MaxV] : n \in MinN..MaxN}   \* n < R: the last ranks own nothing
  /\ nloc \in [Ranks -> 0..2] /\ SumSeq([j \in 1..R |-> nloc[j - 1]]) >= 1
  /\ op \in {"assemble", "max", "mean", "randind"}
  /\ (op = "assemble" => \A i \in DOMAIN garr : garr[i] >= 1)    \* documented for arrays of lengths
  /\ (op = "randind" => Len(garr) = MaxN /\ \A i \in DOMAIN garr : garr[i] = MaxV)   \* garr is not an input of randind
  /\ arrived = {} /\ contrib = [r \in Ranks |-> <<>>] /\ result = [r \in Ranks |-> <<>>]
  /\ gidx \in 0..(SumSeq([j \in 1..R |-> nloc[j - 1]]) - 1)     \* the index rank 0 draws (any)
  /\ pc = "run"

Arrive(r) ==
  /\ pc = "run" /\ r \notin arrived
  /\ arrived' = arrived \cup {r}
  /\ contrib' = [contrib EXCEPT ![r] =
        CASE op = "assemble" -> Local(r)
          [] op = "max" -> IF Local(r) = <<>> THEN NoVal ELSE Max({Local(r)[j] : j \in DOMAIN Local(r)})
          [] op = "mean" -> <<SumSeq(Local(r)), Len(Local(r))>>
          [] op = "randind" -> nloc[r]]
  /\ UNCHANGED <<garr, nloc, op, result, gidx, pc>>

(* randind: concat = [arange(total)[r::R] for r], cut into rows of lengths nloc;
   the drawn global index is looked up in that ragged array *)
Total == SumSeq([j \in 1..R |-> nloc[j - 1]])
RECURSIVE ConcatResidues(_)
ConcatResidues(r) == IF r = R THEN <<>>
                     ELSE [j \in 1..((Total - r + R - 1) \div R) |-> r + (j - 1) * R] \o ConcatResidues(r + 1)
Flat == ConcatResidues(0)
RowStart(r) == SumSeq([j \in 1..r |-> nloc[j - 1]])          \* 0-based start of row r in Flat
RandMap(g) == CHOOSE ol \in {<<r, i>> : r \in Ranks, i \in 0..(Total - 1)} :
                 ol[2] < nloc[ol[1]] /\ Flat[RowStart(ol[1]) + ol[2] + 1] = g

Complete ==
  /\ pc = "run" /\ arrived = Ranks
  /\ result' = [r \in Ranks |->
        CASE op = "assemble" -> [i \in 1..Len(garr) |-> contrib[(i - 1) % R][((i - 1) \div R) + 1]]
          [] op = "max" -> Max({contrib[q] : q \in {z \in Ranks : contrib[z] # NoVal}})   \* a rank without data contributes nothing
          [] op = "mean" -> <<SumSeq([j \in 1..R |-> contrib[j - 1][1]]), SumSeq([j \in 1..R |-> contrib[j - 1][2]])>>
          [] op = "randind" -> RandMap(gidx)]
  /\ pc' = "done" /\ arrived' = {}
  /\ UNCHANGED <<garr, nloc, op, contrib, gidx>>

Next == (\E r \in Ranks : Arrive(r)) \/ Complete
Spec == Init /\ [][Next]_vars

Done == pc = "done"
AssembleIsGlobal == (Done /\ op = "assemble") => \A r \in Ranks : result[r] = garr
MaxIsSerialMax == (Done /\ op = "max") => \A r \in Ranks : result[r] = Max({garr[i] : i \in DOMAIN garr})
MeanIsSerialMean == (Done /\ op = "mean") => \A r \in Ranks : result[r] = <<SumSeq(garr), Len(garr)>>
(* randind: every rank gets the same valid (owner, local); the map index -> element is a bijection
   onto all elements of all ranks (so a uniform index gives a uniform element) *)
RandindValid == (Done /\ op = "randind") =>
   \A r \in Ranks : result[r][1] \in Ranks /\ result[r][2] >= 0 /\ result[r][2] < nloc[result[r][1]]
RandindBijection == \A g, h \in 0..(Total - 1) : g # h => RandMap(g) # RandMap(h)

OnlyInit == pc = "run" /\ arrived = {}
EmitInput == OnlyInit => PrintT(<<"CASE", ToJson([R |-> R, garr |-> garr, nloc |-> [j \in 1..R |-> nloc[j - 1]],
        op |-> op, gidx |-> gidx,
        randmap |-> [g \in 1..Total |-> RandMap(g - 1)]])>>)
=============================================================================
