-------------------------- MODULE Trace_Collectives --------------------------
(* Semantics of the collectives used by enspara (allgather, allreduce(SUM/MAX), *)
(* bcast, Bcast (in-place buffer), Barrier) and validation of the simulated    *)
(* communicator's log against them (the simulator is part of the trusted base  *)
(* of C14, so every run checks it).                                            *)
(*                                                                            *)
(* A trace is one world execution: a sequence of epochs, each with the kind,   *)
(* root/op, the arrival order, every rank's contribution and every rank's      *)
(* result (integers; floats scaled by 1e6; arrays and objects by digest).      *)
EXTENDS Integers, Sequences, FiniteSets, TLC, Json, IOUtils

Traces == JsonDeserialize(IOEnv.TRACE_FILE)
VARIABLES tid, l, fails
vars == <<tid, l, fails>>
Tr == Traces[tid]
R == Tr.size
Ranks == 1..R                      \* rank r is position r + 1
E == Tr.epochs[l]

RECURSIVE SumSeq(_)
SumSeq(s) == IF s = <<>> THEN 0 ELSE Head(s) + SumSeq(Tail(s))
RECURSIVE MaxSeq(_)
MaxSeq(s) == IF Len(s) = 1 THEN s[1] ELSE LET m == MaxSeq(Tail(s)) IN IF s[1] >= m THEN s[1] ELSE m
Abs(x) == IF x < 0 THEN -x ELSE x

AllArrivedOnce == Len(E.order) = R /\ {E.order[i] : i \in 1..R} = 0..(R - 1)
ResultOK ==
  CASE E.kind = "allgather" -> \A r \in Ranks : E.results[r] = E.contribs
    [] E.kind = "allreduce" /\ E.op = "SUM" -> \A r \in Ranks : Abs(E.results[r] - SumSeq(E.contribs)) <= (IF E.scaled THEN R ELSE 0)
    [] E.kind = "allreduce" /\ E.op = "MAX" -> \A r \in Ranks : E.results[r] = MaxSeq(E.contribs)
    [] E.kind \in {"bcast", "Bcast"} -> \A r \in Ranks : E.results[r] = E.contribs[E.root + 1]
    [] E.kind = "barrier" -> TRUE
    [] OTHER -> FALSE
(* every rank runs the same program: same kind / root / op at every epoch -- enforced by
   the simulator (a mismatch is reported as a dead-lock); here: roots are ranks *)
RootOK == E.kind \in {"bcast", "Bcast"} => E.root \in 0..(R - 1)

Init == tid \in 1..Len(Traces) /\ l = 1 /\ fails = {}
Step == /\ l <= Len(Tr.epochs)
        /\ fails' = fails \cup (IF AllArrivedOnce THEN {} ELSE {<<"AllArrivedOnce", l>>})
                          \cup (IF ResultOK THEN {} ELSE {<<"ResultOK", l>>})
                          \cup (IF RootOK THEN {} ELSE {<<"RootOK", l>>})
        /\ l' = l + 1 /\ UNCHANGED tid
Next == Step
Report == (l = Len(Tr.epochs) + 1) => PrintT(<<"VERDICT", tid, fails>>)
=============================================================================
