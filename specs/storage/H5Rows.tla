------------------------------- MODULE H5Rows -------------------------------
(* Property C15, first half: a ragged or rectangular array stored with        *)
(* enspara.ra.save and read back with enspara.ra.load comes back identical;   *)
(* a stride or a list of keys equals slicing the full load.                   *)
(*                                                                            *)
(* Part 1  node names as character-code sequences: str(i).zfill(w), the name  *)
(*         rule of ra.save, lexicographic order (the order in which PyTables  *)
(*         lists the children of a group)                                     *)
(* Part 2  the file: the list of created nodes (name, dtype tag, items); an   *)
(*         item is one entry along the FIRST axis of the stored array (an     *)
(*         element of a ragged row, a row of a rectangular array), so the     *)
(*         trailing element shape rides along untouched                       *)
(* Part 3  ra.save / _save_old_style / ra.load / the RaggedArray constructor  *)
(*         transcribed from enspara/ra/ra.py, as operators and as a step      *)
(*         machine (one action per loop iteration / branch)                   *)
(* Part 4  the DEFINITION: what the property says load must return, written   *)
(*         with Python slice semantics (PySlice) on the rows of the input,    *)
(*         without a file, a name or a cursor                                 *)
(* Part 5  classes of calls, invariants                                       *)
(* Part 6  scopes: OrderPreserved for every row count, the step machine,      *)
(*         emission of cases for replay against real PyTables files           *)
EXTENDS Integers, Sequences, FiniteSets, TLC, Json, PySlice

SX == INSTANCE SequencesExt   \* (EXTENDS would clash with PySlice!Range)

CONSTANTS MaxRows, MaxLen,    \* step machine: 1..MaxRows rows of 1..MaxLen items
          MaxStride,          \* strides 1..MaxStride
          MaxKeys,            \* explicit key lists of 1..MaxKeys distinct names
          NTags,              \* element type tags 1..NTags (opaque: only equality matters)
          OrderMin, OrderMax, \* OrderPreserved: every row count OrderMin..OrderMax (a run is one shard of 1..1200)
          PairsMax,           \* ... comparing all pairs of names up to PairsMax rows, neighbours beyond
          EmitRows,           \* emission: row counts of the ragged arrays
          EmitRect,           \* emission: first-axis lengths of the rectangular arrays
          SmallN,             \* emission: every combination of row lengths for row counts <= SmallN
          Shifts,             \* emission: larger row counts use Shifts cyclic length patterns
          OldMax,             \* emission: old-style files for row counts <= OldMax
          EDims, CLevels,     \* storage parameters the result must not depend on (element
                              \* width 0 = scalar / 2 = two-vector, zlib level)
          PinnedTree,         \* FALSE: the current (repaired) code; TRUE re-creates the two load branches of the
                              \* pinned tree, used only to show that RoundTripOneRow / OldStyleStrideIsSlice discriminate
          Emit

VARIABLES kind,    \* "ragged" (has .lengths) | "rect" (plain ndarray) | "order"
          x,       \* the saved object as the sequence save() iterates: the rows of the ragged
                   \* array, or <<the ndarray>> (ra.save wraps it: array = [array])
          tag,     \* its element type
          style,   \* "new" = ra.save | "old" = _save_old_style (array + lengths en bloc)
          stride, keys,   \* the arguments of ra.load; keys = [m |-> "all" | "none" | "list", l |-> names]
          file,    \* the nodes created so far, in creation order
          pc, i,
          nz,      \* save: n_zeros
          ks,      \* load: the resolved key list
          lens, concat, start,   \* load: lengths, the allocated array, the cursor
          res      \* what load returned

vars == <<kind, x, tag, style, stride, keys, file, pc, i, nz, ks, lens, concat, start, res>>

(* ========================================================================== *)
(* Part 1: names                                                              *)
(* ========================================================================== *)
TagArr    == <<97, 114, 114>>                          \* "arr", the default tag of ra.save
NmArray   == <<97, 114, 114, 97, 121>>                 \* "array"
NmLengths == <<108, 101, 110, 103, 116, 104, 115>>     \* "lengths"

RECURSIVE DigitsOf(_)
DigitsOf(n) == IF n < 10 THEN <<48 + n>> ELSE Append(DigitsOf(n \div 10), 48 + (n % 10))   \* str(n)
StrLen(n) == Len(DigitsOf(n))                                                            \* len(str(n))

(* str.zfill(w): left-pad with "0" up to width w, never truncate *)
ZFill(s, w) == IF Len(s) >= w THEN s ELSE [k \in 1..(w - Len(s)) |-> 48] \o s

(* t = tag + '_' + str(i).zfill(n_zeros) *)
NodeName(tg, idx, w) == tg \o <<95>> \o ZFill(DigitsOf(idx), w)

(* n_zeros = len(str(len(array.lengths))) + 1 for an object with .lengths, else 1 *)
NZeros(isRagged, nrows) == IF isRagged THEN StrLen(nrows) + 1 ELSE 1

(* code-point lexicographic order (Python str comparison, PyTables' listing order) *)
RECURSIVE LexLessFrom(_, _, _)
LexLessFrom(a, b, k) ==
  IF k > Len(a) THEN k <= Len(b)              \* a is a proper prefix of b (or equal: not less)
  ELSE IF k > Len(b) THEN FALSE
  ELSE IF a[k] # b[k] THEN a[k] < b[k]
  ELSE LexLessFrom(a, b, k + 1)
LexLess(a, b) == LexLessFrom(a, b, 1)

(* the digits after the last '_' read as a number: which row a name denotes   *)
(* (definition side: independent of the padding rule)                         *)
RECURSIVE ValFrom(_, _, _)
ValFrom(nm, k, acc) == IF k > Len(nm) THEN acc ELSE ValFrom(nm, k + 1, 10 * acc + (nm[k] - 48))
RowNumber(nm) == ValFrom(nm, Len(TagArr) + 2, 0)

(* ========================================================================== *)
(* Part 2: the file                                                           *)
(* ========================================================================== *)
Node(nm, dt, items) == [name |-> nm, dt |-> dt, items |-> items]
Names(f)   == [k \in 1..Len(f) |-> f[k].name]
Has(f, nm) == \E k \in 1..Len(f) : f[k].name = nm
Get(f, nm) == f[CHOOSE k \in 1..Len(f) : f[k].name = nm]      \* handle.get_node('/' + nm)

(* handle.list_nodes('/'): children sorted by name *)
ListNodes(f) == SortSeq(Names(f), LexLess)

(* divide-and-conquer helpers (no deep recursion for a thousand rows) *)
RECURSIVE FlatRange(_, _, _)
FlatRange(rows, lo, hi) ==
  IF lo > hi THEN <<>>
  ELSE IF lo = hi THEN rows[lo]
  ELSE LET mid == (lo + hi) \div 2 IN FlatRange(rows, lo, mid) \o FlatRange(rows, mid + 1, hi)
Flatten(rows) == FlatRange(rows, 1, Len(rows))

RECURSIVE SumRange(_, _, _)
SumRange(s, lo, hi) ==
  IF lo > hi THEN 0
  ELSE IF lo = hi THEN s[lo]
  ELSE LET mid == (lo + hi) \div 2 IN SumRange(s, lo, mid) + SumRange(s, mid + 1, hi)
Sum(s) == SumRange(s, 1, Len(s))

RowLens(rows) == [k \in 1..Len(rows) |-> Len(rows[k])]

(* partition_list(flat, lengths) *)
Partition(flat, ls) ==
  [k \in 1..Len(ls) |-> LET st == SumRange(ls, 1, k - 1) IN [p \in 1..ls[k] |-> flat[st + p]]]

(* ========================================================================== *)
(* Part 3: the implementation                                                 *)
(* ========================================================================== *)
(* results: a RaggedArray ("ra": flat data + lengths), a numpy array ("nd") or an exception *)
Ra(dt, ls, items) == [kind |-> "ra", dt |-> dt, lengths |-> ls, items |-> items, err |-> ""]
Nd(dt, items)     == [kind |-> "nd", dt |-> dt, lengths |-> <<Len(items)>>, items |-> items, err |-> ""]
Err(e)            == [kind |-> "err", dt |-> 0, lengths |-> <<>>, items |-> <<>>, err |-> e]
NoRes             == Err("-")

Empty == -1       \* a cell of np.zeros(...) that no key has filled

(* ---- ra.save --------------------------------------------------------------- *)
(* one iteration of `for i in range(len(array))`: atom from the dtype, the name, create_carray, *)
(* node[:] = subarr                                                                            *)
SaveRow(f, idx, w, dt, items) == Append(f, Node(NodeName(TagArr, idx, w), dt, items))

SaveNew(xx, isRagged, dt) ==
  LET w == NZeros(isRagged, Len(xx))
  IN [k \in 1..Len(xx) |-> Node(NodeName(TagArr, k - 1, w), dt, xx[k])]

(* ---- _save_old_style: io.saveh(name, array=ra._data, lengths=ra.lengths), or *)
(* io.saveh(name, ndarray) which stores it as 'arr_0'; dtype tag 0 = the int64 of lengths *)
SaveOld(xx, isRagged, dt) ==
  IF isRagged THEN <<Node(NmArray, dt, Flatten(xx)), Node(NmLengths, 0, RowLens(xx))>>
  ELSE <<Node(NodeName(TagArr, 0, 1), dt, xx[1])>>

(* ---- RaggedArray(array=flat, lengths=ls): the 'rebuild from 1d and lengths' branches *)
RaCtor(dt, flat, ls) == IF Sum(ls) # Len(flat) THEN Err("DataInvalid") ELSE Ra(dt, ls, flat)

(* a[::stride] on a RaggedArray: a slice of its ROWS *)
RaRowSlice(a, s) ==
  IF a.kind # "ra" THEN a
  ELSE LET rows == SliceSeq(Partition(a.items, a.lengths), None, None, s)
       IN Ra(a.dt, RowLens(rows), Flatten(rows))

(* a[:, ::stride] on a RaggedArray: every stride-th item of each row (the repaired old-style   *)
(* branch, fix d8821e5; the pinned tree took a[::stride], RaRowSlice above)                   *)
RaColSlice(a, s) ==
  IF a.kind # "ra" THEN a
  ELSE LET rows == [r \in 1..Len(a.lengths) |-> SliceSeq(Partition(a.items, a.lengths)[r], None, None, s)]
       IN Ra(a.dt, RowLens(rows), Flatten(rows))

(* ---- ra.load, keys is None ------------------------------------------------- *)
LoadNone(f, s) ==
  IF Has(f, NmLengths)
  THEN IF Has(f, NmArray)
       THEN (IF PinnedTree THEN RaRowSlice(RaCtor(Get(f, NmArray).dt, Get(f, NmArray).items, Get(f, NmLengths).items), s) ELSE RaColSlice(RaCtor(Get(f, NmArray).dt, Get(f, NmArray).items, Get(f, NmLengths).items), s))
       ELSE Err("NoSuchNodeError")
  ELSE IF Has(f, NodeName(TagArr, 0, 1))
       THEN Nd(Get(f, NodeName(TagArr, 0, 1)).dt, SliceSeq(Get(f, NodeName(TagArr, 0, 1)).items, None, None, s))
       ELSE Err("NoSuchNodeError")

(* ---- ra.load, keys given or Ellipsis ---------------------------------------- *)
(* warnings.warn(DeprecationWarning, "...", input_name): category and message are swapped and *)
(* the file name lands in `stacklevel`, so the call raises TypeError instead of warning        *)
OldStyleWarnRaises(f) == Has(f, NmLengths) /\ Has(f, NmArray)

(* lengths = [(shape[0] + stride - 1) // stride for shape in shapes] *)
CeilLens(f, kk, s) == [k \in 1..Len(kk) |-> (Len(Get(f, kk[k]).items) + s - 1) \div s]

(* one iteration of the fill loop: node = get_node(key)[::stride]; end = start + len(node);    *)
(* concat[start:end] = node; start = end.  numpy clips the window to the array and then needs   *)
(* equal lengths (or a length-one right-hand side, which it broadcasts).  Result: <<concat,    *)
(* start, ok>>                                                                                  *)
FillOne(cc, st, node) ==
  LET en  == st + Len(node)
      hi  == IF en > Len(cc) THEN Len(cc) ELSE en
      lo  == IF st > Len(cc) THEN Len(cc) ELSE st
      wl  == hi - lo
  IN IF wl = Len(node)
     THEN <<[c \in 1..Len(cc) |-> IF c > lo /\ c <= hi THEN node[c - lo] ELSE cc[c]], en, TRUE>>
     ELSE IF Len(node) = 1
     THEN <<[c \in 1..Len(cc) |-> IF c > lo /\ c <= hi THEN node[1] ELSE cc[c]], en, TRUE>>
     ELSE <<cc, en, FALSE>>

SameDtype(f, kk) == \A k \in 1..Len(kk) : Get(f, kk[k]).dt = Get(f, kk[1]).dt

(* operator form of the multi-key path (the step machine below is checked against it):  *)
(* when the allocated length equals the total of the strided nodes every window fits   *)
(* and the cursor walk is the concatenation                                             *)
LoadMulti(f, kk, s) ==
  LET ls    == CeilLens(f, kk, s)
      nodes == [k \in 1..Len(kk) |-> SliceSeq(Get(f, kk[k]).items, None, None, s)]
      flat  == Flatten(nodes)
  IN IF ~SameDtype(f, kk) THEN Err("DataInvalid")
     ELSE IF \E k \in 1..Len(kk) : Len(nodes[k]) # ls[k] THEN Err("Misfit")   \* never (LengthsAreCeil)
     ELSE RaCtor(Get(f, kk[1]).dt, flat, ls)

(* `len(keys) == 1 and not (listed and keys[0].endswith('_00'))` (fix 8f9eda5): a single node   *)
(* named ..._00 found by listing is the one row of a ragged array, not a stored ndarray         *)
EndsWith00(nm) == Len(nm) >= 3 /\ nm[Len(nm) - 2] = 95 /\ nm[Len(nm) - 1] = 48 /\ nm[Len(nm)] = 48
SingleAsArray(km, kk) == Len(kk) = 1 /\ (PinnedTree \/ ~(km = "all" /\ EndsWith00(kk[1])))

LoadKeys(f, km, kl, s) ==
  LET kk == IF km = "all" THEN ListNodes(f) ELSE kl
  IN IF \E k \in 1..Len(kk) : ~Has(f, kk[k]) THEN Err("NoSuchNodeError")
     ELSE IF OldStyleWarnRaises(f) THEN Err("TypeError")
     ELSE IF SingleAsArray(km, kk) THEN Nd(Get(f, kk[1]).dt, SliceSeq(Get(f, kk[1]).items, None, None, s))
     ELSE LoadMulti(f, kk, s)

Load(f, km, kl, s) == IF km = "none" THEN LoadNone(f, s) ELSE LoadKeys(f, km, kl, s)

(* ========================================================================== *)
(* Part 4: the definition                                                     *)
(* ========================================================================== *)
(* what the property requires of load(save(xx), keys, stride) *)
DefRa(dt, rows) == Ra(dt, RowLens(rows), Flatten(rows))

Strided(row, s) == SliceSeq(row, None, None, s)          \* row[::s]

Def(knd, xx, dt, km, kl, s) ==
  IF knd = "rect"
  THEN Nd(dt, Strided(xx[1], s))                          \* the array itself, sliced along its first axis
  ELSE IF km = "list"
  THEN IF Len(kl) = 1
       THEN Nd(dt, Strided(xx[RowNumber(kl[1]) + 1], s))  \* one requested row: that row as an array
       ELSE DefRa(dt, [k \in 1..Len(kl) |-> Strided(xx[RowNumber(kl[k]) + 1], s)])   \* rows of K in K's order
  ELSE DefRa(dt, [r \in 1..Len(xx) |-> Strided(xx[r], s)])   \* x[:, ::s], every row, in row order

(* ========================================================================== *)
(* Part 5: classes and invariants                                             *)
(* ========================================================================== *)
(* The pinned tree left the definition in two classes of calls (one-row ragged *)
(* arrays listed from the file, strided old-style files); both were repaired   *)
(* (fix 8f9eda5, d8821e5) and the transcription follows the repaired code, so  *)
(* Deviating is empty and RoundTripOneRow / OldStyleStrideIsSlice are ordinary *)
(* invariants.  One class has no stated meaning (Unspecified).                 *)
Class(knd, nrows, sty, km, nk, s) ==
  IF knd = "rect" THEN (IF sty = "old" THEN "rect/old-style" ELSE IF km = "list" THEN "rect/key" ELSE "rect")
  ELSE IF sty = "old"
  THEN IF km = "none" THEN (IF s = 1 THEN "old-style/stride1" ELSE "old-style/strided")
       ELSE "unspecified/old-style-by-keys"
  ELSE IF km = "all" THEN (IF nrows = 1 THEN "ragged-one-row/all" ELSE "ragged/all")
  ELSE IF nk = 1 THEN "ragged/single-key" ELSE "ragged/keys"

Deviating == {}
Unspecified == {"unspecified/old-style-by-keys"}

Cls == Class(kind, Len(x), style, keys.m, Len(keys.l), stride)
Expected == Def(kind, x, tag, keys.m, keys.l, stride)

Done == pc = "done"

TypeOK == pc \in {"order", "s_begin", "s_rows", "saved", "l_open", "l_keys", "l_shapes", "l_fill", "l_wrap", "done"}

(* the padding rule makes listing order = row order: names of rows i < j compare i < j *)
NameOfRow(idx, nrows) == NodeName(TagArr, idx, NZeros(TRUE, nrows))

OrderPreserved ==
  pc = "order" =>
    /\ \A a \in 0..(i - 2) : LexLess(NameOfRow(a, i), NameOfRow(a + 1, i))
    /\ i <= PairsMax => \A a \in 0..(i - 1) : \A b \in 0..(i - 1) :
                           (a < b) = LexLess(NameOfRow(a, i), NameOfRow(b, i))
    /\ \A a \in 0..(i - 1) : RowNumber(NameOfRow(a, i)) = a

(* save creates one node per row, under distinct names *)
SaveInjective ==
  pc \in {"saved", "l_open", "done"} /\ style = "new" =>
    /\ Len(file) = Len(x)
    /\ \A a \in 1..Len(file) : \A b \in 1..Len(file) : file[a].name = file[b].name => a = b
    /\ \A a \in 1..Len(file) : file[a].items = x[a] /\ file[a].dt = tag

(* the listing is the sorted permutation of the names, and for ra.save files it is row order *)
ListedIsRowOrder ==
  pc \in {"saved", "done"} /\ style = "new" =>
    LET ln == ListNodes(file)
    IN /\ Len(ln) = Len(file)
       /\ \A a \in 1..Len(ln) : Cardinality({b \in 1..Len(file) : LexLess(file[b].name, ln[a])}) = a - 1
       /\ ln = Names(file)

(* the ceil arithmetic of the allocation equals the length of every strided node *)
LengthsAreCeil ==
  pc \in {"l_fill", "l_wrap"} =>
    \A k \in 1..Len(ks) : lens[k] = Len(Strided(Get(file, ks[k]).items, stride))

(* the cursor never runs over the allocation; after the loop nothing is left unfilled *)
FillInBounds ==
  /\ pc = "l_fill" => start <= Len(concat) /\ \A c \in 1..Len(concat) : (c > start) = (concat[c] = Empty)
  /\ pc = "l_wrap" => start = Len(concat) /\ \A c \in 1..Len(concat) : concat[c] # Empty

(* the step machine and the operator form used for emission agree *)
StepMatchesOp == Done => res = Load(file, keys.m, keys.l, stride)

RoundTrip ==
  (Done /\ stride = 1 /\ keys.m \in {"all", "none"} /\ Cls \notin Deviating \cup Unspecified) => res = Expected

StrideIsSlice ==
  (Done /\ keys.m \in {"all", "none"} /\ Cls \notin Deviating \cup Unspecified) => res = Expected

KeysSubset ==
  (Done /\ keys.m = "list" /\ Cls \notin Unspecified) => res = Expected

(* the two classes the pinned tree broke (the what-if constant below re-creates that tree to show *)
(* that the invariants do discriminate)                                                            *)
RoundTripOneRow == (Done /\ Cls = "ragged-one-row/all") => res = Expected
OldStyleStrideIsSlice == (Done /\ Cls = "old-style/strided") => res = Expected

(* ========================================================================== *)
(* Part 6: scopes                                                             *)
(* ========================================================================== *)
Id(r, p) == 16 * r + p        \* every item distinct: row r (0-based), position p (0-based), p < 16

RaggedOf(ls) == [r \in 1..Len(ls) |-> [p \in 1..ls[r] |-> Id(r - 1, p - 1)]]
RectOf(n)    == <<[p \in 1..n |-> Id(0, p - 1)]>>

KAll  == [m |-> "all",  l |-> <<>>]
KNone == [m |-> "none", l |-> <<>>]
KList(l) == [m |-> "list", l |-> l]

(* ordered selections without repetition of 1..mx names out of a set *)
InjSeqs(S, mx) == UNION {{q \in [1..m -> S] : \A a \in 1..m : \A b \in 1..m : q[a] = q[b] => a = b} : m \in 1..mx}

Blank == /\ file = <<>> /\ nz = 0 /\ ks = <<>> /\ lens = <<>> /\ concat = <<>> /\ start = 0 /\ res = NoRes
         /\ stride = 1 /\ keys = KAll

(* ---- OrderPreserved: one state per row count -------------------------------- *)
InitOrder ==
  /\ kind = "order" /\ x = <<>> /\ tag = 1 /\ style = "new" /\ pc = "order" /\ i \in OrderMin..OrderMax /\ Blank

(* ---- the step machine -------------------------------------------------------- *)
InitMC ==
  /\ kind \in {"ragged", "rect"}
  /\ x \in IF kind = "ragged" THEN {RaggedOf(ls) : ls \in UNION {[1..n -> 1..MaxLen] : n \in 1..MaxRows}}
                              ELSE {RectOf(n) : n \in 1..MaxLen}
  /\ tag \in 1..NTags
  /\ style \in {"new", "old"}
  /\ pc = "s_begin" /\ i = 0 /\ Blank

SBegin ==
  /\ pc = "s_begin"
  /\ IF style = "new"
     THEN /\ nz' = NZeros(kind = "ragged", Len(x))
          /\ i' = 1 /\ pc' = "s_rows" /\ UNCHANGED file
     ELSE /\ file' = SaveOld(x, kind = "ragged", tag)
          /\ pc' = "saved" /\ UNCHANGED <<nz, i>>
  /\ UNCHANGED <<kind, x, tag, style, stride, keys, ks, lens, concat, start, res>>

SRow ==
  /\ pc = "s_rows" /\ i <= Len(x)
  /\ ~Has(file, NodeName(TagArr, i - 1, nz))            \* create_carray would raise NodeError
  /\ file' = SaveRow(file, i - 1, nz, tag, x[i])
  /\ i' = i + 1
  /\ UNCHANGED <<kind, x, tag, style, stride, keys, pc, nz, ks, lens, concat, start, res>>

SEnd ==
  /\ pc = "s_rows" /\ i > Len(x)
  /\ pc' = "saved"
  /\ UNCHANGED <<kind, x, tag, style, stride, keys, file, i, nz, ks, lens, concat, start, res>>

(* the caller picks the load arguments: keys=None is the old-style entry point (and works on a  *)
(* stored ndarray, 'arr_0'); explicit keys name nodes of the file                                *)
KeyChoices ==
  {KAll}
    \cup (IF style = "old" \/ kind = "rect" THEN {KNone} ELSE {})
    \cup (IF style = "new" THEN {KList(q) : q \in InjSeqs({file[k].name : k \in 1..Len(file)}, MaxKeys)} ELSE {})

ChooseLoad ==
  /\ pc = "saved"
  /\ stride' \in 1..MaxStride
  /\ keys' \in KeyChoices
  /\ pc' = "l_open"
  /\ UNCHANGED <<kind, x, tag, style, file, i, nz, ks, lens, concat, start, res>>

LOpen ==
  /\ pc = "l_open"
  /\ IF keys.m = "none"
     THEN /\ res' = LoadNone(file, stride) /\ pc' = "done" /\ UNCHANGED ks
     ELSE /\ ks' = (IF keys.m = "all" THEN ListNodes(file) ELSE keys.l)
          /\ pc' = "l_keys" /\ UNCHANGED res
  /\ UNCHANGED <<kind, x, tag, style, stride, keys, file, i, nz, lens, concat, start>>

LKeys ==
  /\ pc = "l_keys"
  /\ IF OldStyleWarnRaises(file) THEN res' = Err("TypeError") /\ pc' = "done"
     ELSE IF SingleAsArray(keys.m, ks)
     THEN /\ res' = (IF Has(file, ks[1])
                     THEN Nd(Get(file, ks[1]).dt, SliceSeq(Get(file, ks[1]).items, None, None, stride))
                     ELSE Err("NoSuchNodeError"))
          /\ pc' = "done"
     ELSE res' = res /\ pc' = "l_shapes"
  /\ UNCHANGED <<kind, x, tag, style, stride, keys, file, i, nz, ks, lens, concat, start>>

(* shapes, lengths, dtype check, allocation *)
LShapes ==
  /\ pc = "l_shapes"
  /\ IF \E k \in 1..Len(ks) : ~Has(file, ks[k])
     THEN res' = Err("NoSuchNodeError") /\ pc' = "done" /\ UNCHANGED <<lens, concat, start, i>>
     ELSE IF ~SameDtype(file, ks)
     THEN res' = Err("DataInvalid") /\ pc' = "done" /\ UNCHANGED <<lens, concat, start, i>>
     ELSE /\ lens' = CeilLens(file, ks, stride)
          /\ concat' = [c \in 1..Sum(CeilLens(file, ks, stride)) |-> Empty]
          /\ start' = 0 /\ i' = 1 /\ pc' = "l_fill" /\ UNCHANGED res
  /\ UNCHANGED <<kind, x, tag, style, stride, keys, file, nz, ks>>

LFill ==
  /\ pc = "l_fill" /\ i <= Len(ks)
  /\ LET st == FillOne(concat, start, SliceSeq(Get(file, ks[i]).items, None, None, stride))
     IN IF st[3]
        THEN concat' = st[1] /\ start' = st[2] /\ i' = i + 1 /\ UNCHANGED <<pc, res>>
        ELSE res' = Err("ValueError") /\ pc' = "done" /\ UNCHANGED <<concat, start, i>>
  /\ UNCHANGED <<kind, x, tag, style, stride, keys, file, nz, ks, lens>>

LFillEnd ==
  /\ pc = "l_fill" /\ i > Len(ks)
  /\ pc' = "l_wrap"
  /\ UNCHANGED <<kind, x, tag, style, stride, keys, file, i, nz, ks, lens, concat, start, res>>

(* return RaggedArray(array=concat, lengths=lengths, copy=False) *)
LWrap ==
  /\ pc = "l_wrap"
  /\ res' = RaCtor(Get(file, ks[1]).dt, concat, lens)
  /\ pc' = "done"
  /\ UNCHANGED <<kind, x, tag, style, stride, keys, file, i, nz, ks, lens, concat, start>>

Next == SBegin \/ SRow \/ SEnd \/ ChooseLoad \/ LOpen \/ LKeys \/ LShapes \/ LFill \/ LFillEnd \/ LWrap

NoNext == FALSE /\ UNCHANGED vars

Spec == InitMC /\ [][Next]_vars

(* ---- emission: inputs with the calls to make and what they must return ------- *)
Pattern(n, sh) == [r \in 1..n |-> 1 + ((r - 1 + sh) % MaxLen)]

InitEmit ==
  /\ kind \in {"ragged", "rect"}
  /\ x \in IF kind = "ragged"
           THEN {RaggedOf(ls) : ls \in UNION {IF n <= SmallN THEN [1..n -> 1..MaxLen]
                                                  ELSE {Pattern(n, sh) : sh \in 0..(Shifts - 1)} : n \in EmitRows}}
           ELSE {RectOf(n) : n \in EmitRect}
  /\ tag = 1
  /\ style \in {"new", "old"}
  /\ (style = "old" => Len(x) <= OldMax)
  /\ pc = "done" /\ i = 0 /\ Blank

IsRagged == kind = "ragged"
Saved == IF style = "new" THEN SaveNew(x, IsRagged, tag) ELSE SaveOld(x, IsRagged, tag)

(* every storage parameter for the reference length pattern, one (rotating) for the others *)
AllStorages == {<<e, t, c>> : e \in EDims, t \in 1..NTags, c \in (IF style = "old" THEN {1} ELSE CLevels)}
Storages ==
  LET all == SX!SetToSeq(AllStorages)
      ref == IsRagged => RowLens(x) = Pattern(Len(x), 0)
  IN IF ref THEN all ELSE <<all[1 + ((Sum(RowLens(x)) + 7 * Len(x)) % Len(all))]>>

(* rows whose names sit on both sides of the places where the number of digits changes *)
Cand == LET n == Len(x) IN {r \in {0, 1, 10, n - 1} : r < n}
EmitKeys ==
  {KAll}
    \cup (IF style = "old" \/ kind = "rect" THEN {KNone} ELSE {})
    \cup (IF style = "new"
          THEN {KList(q) : q \in InjSeqs({NodeName(TagArr, r, NZeros(IsRagged, Len(x))) : r \in Cand}, MaxKeys)}
          ELSE {})

OneLoad(f, k, s) ==
  LET tr == Load(f, k.m, k.l, s)
      df == Def(kind, x, tag, k.m, k.l, s)
  IN [stride |-> s, km |-> k.m, keys |-> k.l,
      cls |-> Class(kind, Len(x), style, k.m, Len(k.l), s),
      expKind |-> df.kind, expLengths |-> df.lengths, expItems |-> df.items,
      trKind |-> tr.kind, trErr |-> tr.err, trLengths |-> tr.lengths, trItems |-> tr.items]

EmitInv ==
  (Emit /\ pc = "done") =>
    LET f  == Saved
        kq == SX!SetToSeq(EmitKeys)
    IN PrintT(<<"CASE", ToJson([kind |-> kind, style |-> style, lens |-> RowLens(x), rows |-> x,
                                names |-> Names(f), listed |-> ListNodes(f),
                                storages |-> Storages,
                                loads |-> [q \in 1..(Len(kq) * MaxStride) |->
                                             OneLoad(f, kq[1 + ((q - 1) \div MaxStride)], 1 + ((q - 1) % MaxStride))]])>>)
=============================================================================
