----------------------------- MODULE ParallelLoad -----------------------------
(* Property C15, second half: enspara.util.load.load_as_concatenated returns   *)
(* exactly the concatenation, in file order, of the individually loaded        *)
(* (strided, frame- and atom-selected) trajectories with their lengths, for    *)
(* every number of workers and every order in which workers finish.            *)
(*                                                                            *)
(* Transcribed from enspara/util/load.py: argument configuration (kwargs XOR  *)
(* per-file args), sounding (sound_trajectory = ceil(n / stride), files with  *)
(* frame= count 1 and are inserted afterwards), the optional `lengths` hint,  *)
(* the shared buffer sized from the lengths and from an example load of the   *)
(* first file, the tasks (position, file, kwargs) with position = sum of the  *)
(* lengths before, workers that take tasks and execute                        *)
(* arr[position:position+len(xyz)] = xyz with numpy's clipping and            *)
(* broadcasting rules, the gathering of the returned shapes and the total     *)
(* check.  A cell of the buffer holds <<file, frame, atom selection,          *)
(* broadcast flag>> or Empty (the zero-initialised shared array).             *)
EXTENDS Integers, Sequences, FiniteSets, TLC, Json, PySlice

SX == INSTANCE SequencesExt

CONSTANTS MinF, MaxF, \* MinF..MaxF files
          LSet,       \* true lengths (frames on disk) of a file
          StrideSet,  \* stride keywords in scope (0 = no stride keyword)
          WSet,       \* numbers of workers in scope
          NAtoms,     \* atoms in every file
          KwMode,     \* "shared": the same keywords for every file; "perfile": one dict per file
          Frames,     \* TRUE: frame= loads are in scope
          AtomMode,   \* "none" | "shared" | "perfile": atom_indices selections in scope
          HintMode,   \* "none" | "any": without / also with a `lengths` hint (right or wrong)
          Orders,     \* "all": workers take tasks in any order; "few": first-to-last or last-to-first
          TrackOrder, \* TRUE: the order of the writes is part of the state (emission)
          WidthCheck, PerFileCheck,   \* TRUE: the repaired code (fix 17c5db0 / cac8fbf); FALSE re-creates the pinned
                      \* tree, used only to show that WidthOneNeverSilent / WrongHintNeverSilent discriminate
          Emit

VARIABLES L,        \* L[j]: frames in file j
          kw,       \* kw[j] = [st, fr, at]: stride (0 absent), frame (None absent), atom selection (0 = all)
          hashint, hint,
          W,
          pc, j,
          lengths,  \* the list named `lengths` in the code
          bufw,     \* second dimension of the shared buffer (atoms of the example load)
          buf, wcount,   \* the shared buffer; how often each cell has been written
          pos,      \* pos[t]: the position of task t
          taken, wtask,  \* tasks handed out; wtask[w] = task in flight at worker w (0 idle)
          shapes,   \* shapes[t]: number of frames task t returned (-1: none yet)
          werr,     \* the first exception raised in a worker ("" none)
          order,    \* the tasks in the order of their writes
          err       \* the exception leaving load_as_concatenated ("" none)

vars == <<L, kw, hashint, hint, W, pc, j, lengths, bufw, buf, wcount, pos, taken, wtask, shapes, werr, order, err>>

NF == Len(L)

(* atom_indices values in scope: selection a > 0 is AtomSels[a]; 0 means no keyword (all atoms) *)
AtomSels == << <<0, 2>>, <<1>>, <<3, 1>> >>      \* (the third one NOT in increasing order: md.load keeps the listed order)
Width(a) == IF a = 0 THEN NAtoms ELSE Len(AtomSels[a])

Empty == <<0, 0, 0, 0>>

Min(a, b) == IF a < b THEN a ELSE b

RECURSIVE SumRange(_, _, _)
SumRange(s, lo, hi) == IF lo > hi THEN 0 ELSE s[hi] + SumRange(s, lo, hi - 1)
Sum(s) == SumRange(s, 1, Len(s))

RECURSIVE Flatten(_)
Flatten(ss) == IF Len(ss) = 0 THEN <<>> ELSE Flatten(SubSeq(ss, 1, Len(ss) - 1)) \o ss[Len(ss)]

StrideOf(k) == IF k.st = 0 THEN 1 ELSE k.st               \* kw.get('stride', 1)

(* ---- primitives -------------------------------------------------------------- *)
(* md.load(file_j, **kw[j]).xyz as the list of frame numbers it holds (frame= wins over stride) *)
MdLoad(f) == IF kw[f].fr # None THEN <<kw[f].fr>> ELSE SliceIdx(None, None, StrideOf(kw[f]), L[f])

(* sound_trajectory(file, stride): math.ceil(len(file) / stride) *)
Sound(f) == (L[f] + StrideOf(kw[f]) - 1) \div StrideOf(kw[f])

(* list.insert(i0, v), i0 0-based, clamped to the end *)
InsertAt(s, i0, v) == LET k == Min(i0, Len(s)) IN SubSeq(s, 1, k) \o <<v>> \o SubSeq(s, k + 1, Len(s))

(* ---- the definition ------------------------------------------------------------ *)
(* every stride-th frame from frame 0, by counting -- not by slicing *)
DefFrames(f) ==
  IF kw[f].fr # None THEN <<kw[f].fr>>
  ELSE LET s == StrideOf(kw[f])
       IN [k \in 1..Cardinality({t \in 0..(L[f] - 1) : t % s = 0}) |-> (k - 1) * s]

DefLengths == [f \in 1..NF |-> Len(DefFrames(f))]
DefCells   == Flatten([f \in 1..NF |-> [k \in 1..Len(DefFrames(f)) |-> <<f, DefFrames(f)[k], kw[f].at, 0>>]])

WidthsEqual == \A f \in 1..NF : Width(kw[f].at) = Width(kw[1].at)

(* classes of calls by their arguments; every class but "ok" must end in an exception *)
Cls ==
  IF ~WidthsEqual
  THEN IF \A f \in 1..NF : Width(kw[f].at) \in {Width(kw[1].at), 1}
       THEN "atoms-mismatch/width-one" ELSE "atoms-mismatch"
  ELSE IF hashint /\ hint # DefLengths
  THEN IF Len(hint) # NF THEN "hint-wrong/count"
       ELSE IF Sum(hint) = Sum(DefLengths) THEN "hint-wrong/same-total" ELSE "hint-wrong/total-differs"
  ELSE "ok"

(* ---- scope --------------------------------------------------------------------- *)
KwChoices(len) ==
  {[st |-> s, fr |-> None, at |-> a] : s \in StrideSet, a \in (IF AtomMode = "none" THEN {0} ELSE 0..Len(AtomSels))}
    \cup (IF Frames THEN {[st |-> 0, fr |-> t, at |-> a] : t \in {0, len - 1},
                                                          a \in (IF AtomMode = "none" THEN {0} ELSE 0..Len(AtomSels))}
                    ELSE {})

(* the keyword dictionaries of a call: one shared by every file (frame numbers must exist in the *)
(* shortest file), or one per file                                                               *)
MinOf(ll) == CHOOSE m \in {ll[f] : f \in 1..Len(ll)} : \A f \in 1..Len(ll) : m <= ll[f]
KwSets(ll) ==
  IF KwMode = "shared"
  THEN {[f \in 1..Len(ll) |-> k] : k \in KwChoices(MinOf(ll))}
  ELSE {kk \in [1..Len(ll) -> UNION {KwChoices(l) : l \in LSet}] :
          /\ \A f \in 1..Len(ll) : kk[f] \in KwChoices(ll[f])
          /\ AtomMode = "shared" => \A f \in 1..Len(ll) : kk[f].at = kk[1].at}

MaxLen == CHOOSE m \in LSet : \A l \in LSet : l <= m

HintChoices(n, dl) ==
  IF HintMode = "none" THEN {<<>>}
  ELSE {<<>>} \cup [1..n -> 1..MaxLen] \cup {Append(dl, 1)}

Init ==
  /\ L \in UNION {[1..n -> LSet] : n \in MinF..MaxF}
  /\ kw \in KwSets(L)
  /\ hint \in HintChoices(Len(L), [f \in 1..Len(L) |->
                 IF kw[f].fr # None THEN 1 ELSE (L[f] + StrideOf(kw[f]) - 1) \div StrideOf(kw[f])])
  /\ hashint = (hint # <<>>)
  /\ W \in WSet
  /\ pc = "start" /\ j = 0 /\ lengths = <<>> /\ bufw = 0 /\ buf = <<>> /\ wcount = <<>> /\ pos = <<>>
  /\ taken = {} /\ wtask = [w \in 1..W |-> 0] /\ shapes = <<>> /\ werr = "" /\ order = <<>> /\ err = ""

(* ---- actions --------------------------------------------------------------------- *)
(* `if lengths is None`: sound the files without frame= (a pool of pure calls); else check the count *)
Start ==
  /\ pc = "start"
  /\ IF hashint
     THEN IF Len(hint) # NF
          THEN err' = "ImproperlyConfigured" /\ pc' = "done" /\ UNCHANGED <<lengths, j>>
          ELSE lengths' = hint /\ pc' = "alloc" /\ UNCHANGED <<err, j>>
     ELSE /\ lengths' = LET nf == SelectSeq([f \in 1..NF |-> f], LAMBDA f : kw[f].fr = None)
                        IN [k \in 1..Len(nf) |-> Sound(nf[k])]
          /\ j' = 1 /\ pc' = "insert" /\ UNCHANGED err
  /\ UNCHANGED <<L, kw, hashint, hint, W, bufw, buf, wcount, pos, taken, wtask, shapes, werr, order>>

(* for i, kw in enumerate(args): if 'frame' in kw: lengths.insert(i, 1) *)
Insert ==
  /\ pc = "insert" /\ j <= NF
  /\ lengths' = (IF kw[j].fr # None THEN InsertAt(lengths, j - 1, 1) ELSE lengths)
  /\ j' = j + 1
  /\ UNCHANGED <<L, kw, hashint, hint, W, pc, bufw, buf, wcount, pos, taken, wtask, shapes, werr, order, err>>

InsertEnd ==
  /\ pc = "insert" /\ j > NF
  /\ pc' = "alloc"
  /\ UNCHANGED <<L, kw, hashint, hint, W, j, lengths, bufw, buf, wcount, pos, taken, wtask, shapes, werr, order, err>>

(* shared_array_like_trj(lengths, md.load(filenames[0], frame=0, **args[0] without frame)) and   *)
(* zip([sum(lengths[0:i]) for i in range(len(lengths))], filenames, args)                         *)
NTasks == Min(Len(lengths), NF)
Alloc ==
  /\ pc = "alloc"
  /\ bufw' = Width(kw[1].at)
  /\ buf' = [c \in 1..Sum(lengths) |-> Empty]
  /\ wcount' = [c \in 1..Sum(lengths) |-> 0]
  /\ pos' = [t \in 1..NTasks |-> SumRange(lengths, 1, t - 1)]
  /\ shapes' = [t \in 1..NTasks |-> -1]
  /\ pc' = "run"
  /\ UNCHANGED <<L, kw, hashint, hint, W, j, lengths, taken, wtask, werr, order, err>>

TakeAllowed(t) ==
  \/ Orders = "all"
  \/ (taken = {} \/ 1 \in taken) /\ t = Cardinality(taken) + 1
  \/ (taken = {} \/ NTasks \in taken) /\ t = NTasks - Cardinality(taken)

(* workers are interchangeable: the idle worker with the lowest number takes (symmetry reduction) *)
Take(w, t) ==
  /\ pc = "run" /\ wtask[w] = 0 /\ t \notin taken /\ TakeAllowed(t)
  /\ \A v \in 1..(w - 1) : wtask[v] # 0
  /\ wtask' = [wtask EXCEPT ![w] = t]
  /\ taken' = taken \cup {t}
  /\ UNCHANGED <<L, kw, hashint, hint, W, pc, j, lengths, bufw, buf, wcount, pos, shapes, werr, order, err>>

(* _load_to_position: xyz = md.load(filename, **kw).xyz; the per-frame shape is checked against the  *)
(* buffer (fix 17c5db0: a one-atom selection used to be broadcast); arr[position:position+len(xyz)]  *)
(* = xyz; return xyz.shape.  The slice is clipped to the buffer; the assignment needs equal extents   *)
(* along frames, except that a single frame on the right-hand side is broadcast                      *)
Write(w) ==
  /\ pc = "run" /\ wtask[w] # 0
  /\ LET t   == wtask[w]
         xyz == MdLoad(t)
         n   == Len(xyz)
         wa  == Width(kw[t].at)
         lo  == Min(pos[t], Len(buf))
         hi  == Min(pos[t] + n, Len(buf))
         wok == IF WidthCheck THEN wa = bufw ELSE (wa = bufw \/ wa = 1)
         fits == (hi - lo = n \/ n = 1) /\ wok
     IN IF fits
        THEN /\ buf' = [c \in 1..Len(buf) |->
                          IF c > lo /\ c <= hi
                          THEN <<t, xyz[IF n = 1 THEN 1 ELSE c - lo], kw[t].at, IF wa = bufw THEN 0 ELSE 1>>
                          ELSE buf[c]]
             /\ wcount' = [c \in 1..Len(buf) |-> IF c > lo /\ c <= hi THEN wcount[c] + 1 ELSE wcount[c]]
             /\ shapes' = [shapes EXCEPT ![t] = n]
             /\ UNCHANGED werr
        ELSE /\ werr' = (IF werr # "" THEN werr ELSE IF WidthCheck /\ wa # bufw THEN "DataInvalid" ELSE "ValueError")
             /\ UNCHANGED <<buf, wcount, shapes>>
  /\ order' = (IF TrackOrder THEN Append(order, wtask[w]) ELSE order)
  /\ wtask' = [wtask EXCEPT ![w] = 0]
  /\ UNCHANGED <<L, kw, hashint, hint, W, pc, j, lengths, bufw, pos, taken, err>>

(* shapes = proc.get() re-raises a worker's exception; then the returned frame counts are compared  *)
(* with `lengths` file by file (fix cac8fbf; the pinned tree compared only the totals)               *)
Gather ==
  /\ pc = "run" /\ taken = 1..NTasks /\ \A w \in 1..W : wtask[w] = 0
  /\ err' = (IF werr # "" THEN werr ELSE IF (IF PerFileCheck THEN shapes # lengths ELSE Sum(shapes) # Len(buf)) THEN "DataInvalid" ELSE "")
  /\ pc' = "done"
  /\ UNCHANGED <<L, kw, hashint, hint, W, j, lengths, bufw, buf, wcount, pos, taken, wtask, shapes, werr, order>>

Takes  == \E w \in 1..W : \E t \in 1..NTasks : Take(w, t)
Writes == \E w \in 1..W : Write(w)

Next == Start \/ Insert \/ InsertEnd \/ Alloc \/ Takes \/ Writes \/ Gather

Spec == Init /\ [][Next]_vars

(* ---- invariants ------------------------------------------------------------------- *)
Done == pc = "done"
Running == pc \in {"run", "done"} /\ err # "ImproperlyConfigured"

TypeOK == /\ pc \in {"start", "insert", "alloc", "run", "done"}
          /\ Cardinality({w \in 1..W : wtask[w] # 0}) <= W
          /\ \A w \in 1..W : wtask[w] # 0 => wtask[w] \in taken

(* the slicing primitive and the counting definition of "every stride-th frame" agree *)
MdLoadIsDef == \A f \in 1..NF : MdLoad(f) = DefFrames(f)

(* Sound: without a hint the list `lengths` is, file by file, the length of the individual load *)
(* (ceil division for strides; ones at the right places for frame= loads)                       *)
SoundExact == (pc \in {"alloc", "run", "done"} /\ ~hashint) => lengths = DefLengths

(* Offsets: prefix sums *)
OffsetsArePrefixSums ==
  Running => /\ Len(pos) = NF
             /\ pos[1] = 0
             /\ \A t \in 2..NF : pos[t] = pos[t - 1] + lengths[t - 1]

LengthsCorrect == lengths = DefLengths
Window(t) == (pos[t] + 1)..(pos[t] + Len(DefFrames(t)))

WindowsDisjoint ==
  (Running /\ LengthsCorrect /\ WidthsEqual) =>
     /\ \A t \in 1..NF : \A u \in 1..NF : t # u => Window(t) \cap Window(u) = {}
     /\ \A c \in 1..Len(buf) : wcount[c] <= 1

WindowsCover ==
  (Running /\ LengthsCorrect /\ WidthsEqual) =>
     /\ UNION {Window(t) : t \in 1..NF} = 1..Len(buf)
     /\ Done => \A c \in 1..Len(buf) : wcount[c] = 1
     /\ \A c \in 1..Len(buf) : (wcount[c] = 0) = (buf[c] = Empty)

(* holds in every final state, that is for every order of the writes and every number of workers *)
FinalIsConcatenation ==
  (Done /\ Cls = "ok") => /\ err = ""
                           /\ buf = DefCells
                           /\ lengths = DefLengths

(* DESIGN: total of the actual shapes # allocation => error *)
WrongHintRejected ==
  (Done /\ Cls \in {"hint-wrong/count", "hint-wrong/total-differs"}) => err # ""

ShapeMismatchRejected == (Done /\ Cls = "atoms-mismatch") => err # ""

(* the pinned tree broke these two (a wrong hint with the right total, or a one-atom selection    *)
(* next to wider ones, returned without error); ordinary invariants of the repaired transcription  *)
WrongHintNeverSilent == (Done /\ Cls = "hint-wrong/same-total") => err # ""
WidthOneNeverSilent  == (Done /\ Cls = "atoms-mismatch/width-one") => err # ""

(* whatever is returned without an error has every cell filled from the right file region or is a *)
(* silent misplacement: used to describe the deviating classes                                     *)
SilentGarbage == Done /\ err = "" /\ (buf # DefCells \/ lengths # DefLengths)
NoSilentGarbage == ~SilentGarbage

(* ---- emission ----------------------------------------------------------------------- *)
Forms ==
  IF \A f \in 1..NF : kw[f] = [st |-> 0, fr |-> None, at |-> 0] THEN <<"none", "args">>
  ELSE IF \A f \in 1..NF : kw[f] = kw[1] THEN <<"kwargs", "args">>
  ELSE <<"args">>

EmitInv ==
  (Emit /\ Done) =>
    PrintT(<<"CASE", ToJson([L |-> L, kw |-> kw, hashint |-> hashint, hint |-> hint, W |-> W, order |-> order,
                             forms |-> Forms, cls |-> Cls,
                             expLengths |-> DefLengths, expCells |-> DefCells,
                             trErr |-> err, trLengths |-> lengths, trCells |-> buf])>>)
=============================================================================
