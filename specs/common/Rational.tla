------------------------------ MODULE Rational ------------------------------
(* Exact rational arithmetic over TLC's 32-bit integers.                      *)
(*                                                                            *)
(* A rational is a pair <<num, den>> with den > 0.  Every constructor below   *)
(* returns the reduced form (gcd(|num|, den) = 1), so structural equality of  *)
(* results is value equality; REq / RLt / RLe compare by cross-multiplication *)
(* and are valid on unreduced pairs too.  Sums use the least common           *)
(* denominator, so intermediate values stay as small as the result allows.    *)
(* TLC raises an error (it does not wrap) when an Integers operator           *)
(* overflows; Safe / SafeProd let a specification state its own range         *)
(* assumption as an invariant with headroom.                                  *)
EXTENDS Integers, Sequences

MaxInt == 2147483647

RAbs(x) == IF x < 0 THEN -x ELSE x

RECURSIVE GcdNat(_, _)
GcdNat(a, b) == IF b = 0 THEN a ELSE GcdNat(b, a % b)
Gcd(a, b) == GcdNat(RAbs(a), RAbs(b))                      \* Gcd(0, 0) = 0

Lcm(a, b) == IF a = 0 \/ b = 0 THEN 0 ELSE (RAbs(a) \div Gcd(a, b)) * RAbs(b)

(* reduced form of n/d; d = 0 yields the invalid pair <<0, 0>> (see IsRat) *)
Rat(n, d) == IF d = 0 THEN <<0, 0>>
             ELSE LET g == Gcd(n, d)
                      s == IF d < 0 THEN -1 ELSE 1
                  IN <<(s * n) \div g, (s * d) \div g>>

RInt(k) == <<k, 1>>
RZero   == <<0, 1>>
ROne    == <<1, 1>>
Num(r)  == r[1]
Den(r)  == r[2]

IsRat(r) == r[2] > 0
Reduced(r) == r[2] > 0 /\ Gcd(r[1], r[2]) = 1

RNeg(a)    == <<-a[1], a[2]>>
RAdd(a, b) == IF a[2] = 0 \/ b[2] = 0 THEN <<0, 0>>          \* invalid stays invalid
              ELSE LET l == Lcm(a[2], b[2])
                   IN Rat(a[1] * (l \div a[2]) + b[1] * (l \div b[2]), l)
RSub(a, b) == RAdd(a, RNeg(b))
RMul(a, b) == LET g1 == Gcd(a[1], b[2])        \* cross-cancel before multiplying
                  g2 == Gcd(b[1], a[2])
                  n1 == IF g1 = 0 THEN 0 ELSE a[1] \div g1
                  d2 == IF g1 = 0 THEN 1 ELSE b[2] \div g1
                  n2 == IF g2 = 0 THEN 0 ELSE b[1] \div g2
                  d1 == IF g2 = 0 THEN 1 ELSE a[2] \div g2
              IN Rat(n1 * n2, d1 * d2)
RDiv(a, b) == RMul(a, IF b[1] < 0 THEN <<-b[2], -b[1]>> ELSE <<b[2], b[1]>>)   \* b # 0
RScale(k, a) == RMul(<<k, 1>>, a)

(* cross-multiplied comparisons (denominators are positive) *)
REq(a, b) == a[1] * b[2] = b[1] * a[2]
RLt(a, b) == a[1] * b[2] < b[1] * a[2]
RLe(a, b) == a[1] * b[2] <= b[1] * a[2]
RIsZero(a) == a[1] = 0
RPos(a)    == a[1] > 0
RMax(a, b) == IF RLt(a, b) THEN b ELSE a

(* sum of a sequence of rationals *)
RECURSIVE RSumTo(_, _)
RSumTo(s, k) == IF k = 0 THEN RZero ELSE RAdd(RSumTo(s, k - 1), s[k])
RSum(s) == RSumTo(s, Len(s))

(* dot product of an integer vector with a rational vector, both 1..n *)
RDot(ints, rats) == RSum([k \in 1..Len(ints) |-> RScale(ints[k], rats[k])] \o <<>>)   \* \o <<>>: force TLC's lazy function

(* ---- range assumptions ---------------------------------------------------- *)
SafeBound == 1073741823                         \* 2^30 - 1: one addition of headroom
SafeInt(x) == -SafeBound <= x /\ x <= SafeBound
Safe(r) == SafeInt(r[1]) /\ r[2] > 0 /\ r[2] <= SafeBound
(* |a * b| <= SafeBound, decided without forming the product *)
SafeProd(a, b) == a = 0 \/ b = 0 \/ RAbs(b) <= SafeBound \div RAbs(a)
SafeCmp(a, b) == SafeProd(a[1], b[2]) /\ SafeProd(b[1], a[2])
=============================================================================
