------------------------------ MODULE Lattice ------------------------------
(* Point sets on the integer lattice Z^d and the three metrics used by the   *)
(* clustering specifications (arithmetic bridge, DESIGN.md section 3).       *)
(*                                                                            *)
(* A point is a tuple of integers (<<x>> in 1-D, <<x, y>> in 2-D; the        *)
(* operators work for any dimension).  L1 and Linf distances are exact       *)
(* integers in the specification and in float64/float32; the Euclidean       *)
(* distance is represented by its SQUARE ("l2sq"): sqrt is monotone, so      *)
(* every comparison the code makes on sqrt values has the same outcome as    *)
(* the integer comparison on squares.  Operators that involve anything but   *)
(* order (halving, triangle inequality) have a metric-aware form here so     *)
(* that the clustering modules never manipulate a squared distance as if it  *)
(* were a distance.                                                           *)
(*                                                                            *)
(* Shared by cluster/Assign (C10) and meant to be EXTENDed by the other      *)
(* clustering modules (C01/C02/C09/C14).                                      *)
EXTENDS Integers, Sequences, FiniteSets

Abs(x) == IF x < 0 THEN -x ELSE x
Max2(a, b) == IF a >= b THEN a ELSE b
Min2(a, b) == IF a <= b THEN a ELSE b

(* "no distance yet" (np.inf): larger than any lattice distance in scope,    *)
(* below 2^31                                                                 *)
Inf == 999999999

(* ---- point sets ----------------------------------------------------------- *)
Line(p)     == {<<x>> : x \in 0..p}                       \* 1-D positions 0..p
Grid(w, h)  == {<<x, y>> : x \in 0..(w - 1), y \in 0..(h - 1)}
(* the lattice cube {0..p}^dim for dim in {1, 2, 3} *)
Cube(dim, p) == CASE dim = 1 -> Line(p)
                  [] dim = 2 -> Grid(p + 1, p + 1)
                  [] dim = 3 -> {<<x, y, z>> : x \in 0..p, y \in 0..p, z \in 0..p}

(* all sequences of 1..n points, n in lo..hi *)
PointSeqs(S, lo, hi) == UNION {[1..n -> S] : n \in lo..hi}

(* ---- metrics ---------------------------------------------------------------- *)
Metrics == {"l1", "l2sq", "linf"}

(* dimensions 1 and 2 are written out (TLC evaluates them much faster than  *)
(* the general recursive form, which is kept for d >= 3)                     *)
Sq(x) == x * x

L1(p, q) ==
  CASE Len(p) = 1 -> Abs(p[1] - q[1])
    [] Len(p) = 2 -> Abs(p[1] - q[1]) + Abs(p[2] - q[2])
    [] OTHER -> LET S[k \in 0..Len(p)] == IF k = 0 THEN 0 ELSE S[k - 1] + Abs(p[k] - q[k])
                IN S[Len(p)]

L2sq(p, q) ==
  CASE Len(p) = 1 -> Sq(p[1] - q[1])
    [] Len(p) = 2 -> Sq(p[1] - q[1]) + Sq(p[2] - q[2])
    [] OTHER -> LET S[k \in 0..Len(p)] == IF k = 0 THEN 0 ELSE S[k - 1] + Sq(p[k] - q[k])
                IN S[Len(p)]

Linf(p, q) ==
  CASE Len(p) = 1 -> Abs(p[1] - q[1])
    [] Len(p) = 2 -> Max2(Abs(p[1] - q[1]), Abs(p[2] - q[2]))
    [] OTHER -> LET S[k \in 0..Len(p)] == IF k = 0 THEN 0 ELSE Max2(S[k - 1], Abs(p[k] - q[k]))
                IN S[Len(p)]

(* D("l2sq", p, q) is the SQUARED Euclidean distance *)
D(metric, p, q) == CASE metric = "l1"   -> L1(p, q)
                     [] metric = "l2sq" -> L2sq(p, q)
                     [] metric = "linf" -> Linf(p, q)

(* distance vector from every point of the sequence xs to the point y        *)
(* (what a call  distance_method(X, y)  returns)                              *)
DistVec(metric, xs, y) == [i \in 1..Len(xs) |-> D(metric, xs[i], y)]

(* ---- metric-aware comparisons ------------------------------------------------ *)
(* d > cc / 2 (the test of the triangle-inequality shortcut) on represented   *)
(* values: sqrt(d2) > sqrt(c2)/2  <=>  4*d2 > c2                               *)
GtHalf(metric, d, cc) == IF metric = "l2sq" THEN 4 * d > cc ELSE 2 * d > cc

(* a <= b + c on represented values; for squares:                            *)
(*   sqrt(a) <= sqrt(b) + sqrt(c)  <=>  a - b - c <= 2 sqrt(bc)              *)
LeSum(metric, a, b, c) ==
  IF metric = "l2sq"
  THEN (a - b - c <= 0) \/ ((a - b - c) * (a - b - c) <= 4 * b * c)
  ELSE a <= b + c

(* ---- metric axioms on a finite point set (checked by TLC, not assumed) ------- *)
SymmetricOK(metric, S) == \A p, q \in S : D(metric, p, q) = D(metric, q, p)
IdentityOK(metric, S)  == \A p, q \in S : (D(metric, p, q) = 0) <=> (p = q)
TriangleOK(metric, S)  ==
  \A p, q, r \in S : LeSum(metric, D(metric, p, r), D(metric, p, q), D(metric, q, r))
MetricOK(metric, S) == SymmetricOK(metric, S) /\ IdentityOK(metric, S) /\ TriangleOK(metric, S)

(* ---- minima over sequences of integers --------------------------------------- *)
SeqMin(s) == LET M[k \in 1..Len(s)] == IF k = 1 THEN s[1] ELSE Min2(M[k - 1], s[k]) IN M[Len(s)]
SeqMax(s) == LET M[k \in 1..Len(s)] == IF k = 1 THEN s[1] ELSE Max2(M[k - 1], s[k]) IN M[Len(s)]
ArgMinSet(s) == LET m == SeqMin(s) IN {i \in 1..Len(s) : s[i] = m}   \* every minimiser (1-based)
ArgMaxSet(s) == LET m == SeqMax(s) IN {i \in 1..Len(s) : s[i] = m}
SetMin(S) == CHOOSE m \in S : \A x \in S : m <= x
SetMax(S) == CHOOSE m \in S : \A x \in S : m >= x
FirstArgMin(s) == SetMin(ArgMinSet(s))                      \* np.argmin
FirstArgMax(s) == SetMin(ArgMaxSet(s))                      \* np.argmax

(* ---- nearest center, definition level ---------------------------------------- *)
(* distance from p to the nearest element of the non-empty sequence cs *)
MinDist(metric, p, cs) == SeqMin([k \in 1..Len(cs) |-> D(metric, p, cs[k])])
(* every (1-based) position of cs at that distance: ties are all allowed *)
NearestSet(metric, p, cs) ==
  LET md == MinDist(metric, p, cs) IN {k \in 1..Len(cs) : D(metric, p, cs[k]) = md}

(* sum of a sequence of integers *)
SumSeq(s) ==
  LET S[k \in 0..Len(s)] == IF k = 0 THEN 0 ELSE S[k - 1] + s[k]
  IN S[Len(s)]
=============================================================================
