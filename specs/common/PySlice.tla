------------------------------ MODULE PySlice ------------------------------
(* Python slice semantics: slice.indices(), range(), negative-index           *)
(* normalisation.  0-based indices, sequences are 1-based TLA+ sequences, so  *)
(* element at Python index i of sequence s is s[i+1].                         *)
(* Validated against CPython by harness/selftest.py.                          *)
EXTENDS Integers, Sequences

\* None is an integer sentinel (TLC cannot compare an integer with a string)
None == 1000000

(* slice.indices(n) for slice(start, stop, step); each may be None.  step # 0 *)
Norm(start, stop, step, n) ==
  LET st == IF step = None THEN 1 ELSE step
      lo == IF st > 0 THEN 0 ELSE -1
      hi == IF st > 0 THEN n ELSE n - 1
      Clip(v) == IF v < 0 THEN (IF v + n < lo THEN lo ELSE v + n)
                          ELSE (IF v > hi THEN hi ELSE v)
      a == IF start = None THEN (IF st > 0 THEN lo ELSE hi) ELSE Clip(start)
      b == IF stop  = None THEN (IF st > 0 THEN hi ELSE lo) ELSE Clip(stop)
  IN <<a, b, st>>

(* len(range(a, b, st)) *)
RangeLen(a, b, st) ==
  IF st > 0 THEN (IF b > a THEN (b - a + st - 1) \div st ELSE 0)
            ELSE (IF a > b THEN (a - b + (-st) - 1) \div (-st) ELSE 0)

(* list(range(a, b, st)) as a TLA+ sequence of 0-based indices *)
Range(a, b, st) == [k \in 1..RangeLen(a, b, st) |-> a + (k - 1) * st]

(* indices selected by x[start:stop:step] on a sequence of length n *)
SliceIdx(start, stop, step, n) ==
  LET nm == Norm(start, stop, step, n) IN Range(nm[1], nm[2], nm[3])

(* x[start:stop:step] *)
SliceSeq(s, start, stop, step) ==
  LET ix == SliceIdx(start, stop, step, Len(s)) IN [k \in 1..Len(ix) |-> s[ix[k] + 1]]

(* integer index normalisation; result -1 means IndexError *)
NormIdx(i, n) == IF i >= 0 THEN (IF i < n THEN i ELSE -1)
                          ELSE (IF i + n >= 0 THEN i + n ELSE -1)
=============================================================================
