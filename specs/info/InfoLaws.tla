------------------------------ MODULE InfoLaws ------------------------------
(* Mutual information, entropy and relative entropy (enspara.info_theory     *)
(* mutual_info.py / entropy.py).  Property C18, laws part.  Trace validation: *)
(* the outputs of the real code are recorded as scaled integers (x1e6, x1e4)  *)
(* and TLC evaluates every clause on them; the verdict is total and names the *)
(* failing clause and event.                                                  *)
(*                                                                            *)
(* A trace of kind "mi" is a METAMORPHIC SESSION on one data set (X : T x Fx, *)
(* Y : T x Fy, declared per-feature state counts nx, ny -- the two sides have *)
(* different numbers of features and states).  The state of the machine is    *)
(* the current data set plus the last observations.  Events:                  *)
(*   observe    mi_matrix(normalize=False), joint_counts, shannon_entropy of  *)
(*              every marginal                                                *)
(*   self       mi_matrix / mi_matrix_serial of X against itself              *)
(*   weighted   weighted_mi(X, w / sum w) for integer weights w               *)
(*   relabel    RelabelStates(side, one permutation per feature)   } the data *)
(*   reorder    ReorderFrames(perm)                                } set is   *)
(*   replicate  every frame k times (tiling)                       } changed, *)
(*   swap       SwapSides                                          } the MI   *)
(*   split      SplitIntoTrajectories(cuts): same data, several    } must not *)
(*   pooled     e.parts trajectories, each the data tiled e.k times: the pooled    *)
(*              counts are e.parts * e.k times the counts of the data, so the      *)
(*              mutual information is that of the data (InvariantUnderReplication  *)
(*              + PooledEqualsConcatenated composed; the data are not materialised *)
(*              in the specification, which is what lets k * parts * T exceed 10^6)*)
(*              trajectories, pooled counts                        } (or: ^T) *)
(*   normalise  channel_capacity_normalization(last, n_x, n_y) (directly, via *)
(*              mi_matrix(normalize=True) or weighted_mi(normalize=True))     *)
(*   check / poolmismatch   check_features_states, mi_matrix on trajectories  *)
(*              with different feature counts                                 *)
(*   raise      the implementation raised where the property admits no error  *)
(* The spec applies each transformation to its own copy of the data set and   *)
(* requires the recorded arrays to be equal to it (TransformOK), so that the  *)
(* driver cannot silently test something else.                                *)
(* Besides the relations between outputs there is a definition-level clause:  *)
(* MI = sum c_uv/W (ln c_uv + ln W - ln c_u - ln c_v) over the (weighted)     *)
(* joint counts, evaluated with the constant table Ln6[k] = round(1e6 ln k).  *)
(* A trace of kind "kl" is one pair of rational distributions P = p / sum p,  *)
(* Q = q / sum q and the outputs of kl_divergence (nats, bits, 2-D call).     *)
(* For dyadic data (all counts powers of two) entropies in BITS are rationals *)
(* and the verdict carries the exact expected values <<num, den>> (direction  *)
(* spec -> code; the driver compares the float with 1e-9).                    *)
EXTENDS Integers, Sequences, FiniteSets, TLC, Json, IOUtils

Traces == JsonDeserialize(IOEnv.TRACE_FILE)

Ln6 == <<
  0, 693147, 1098612, 1386294, 1609438, 1791759, 1945910, 2079442, 2197225, 2302585, 2397895,
  2484907, 2564949, 2639057, 2708050, 2772589, 2833213, 2890372, 2944439, 2995732, 3044522,
  3091042, 3135494, 3178054, 3218876, 3258097, 3295837, 3332205, 3367296, 3401197, 3433987,
  3465736, 3496508, 3526361, 3555348, 3583519, 3610918, 3637586, 3663562, 3688879, 3713572,
  3737670, 3761200, 3784190, 3806662, 3828641, 3850148, 3871201, 3891820, 3912023, 3931826,
  3951244, 3970292, 3988984, 4007333, 4025352, 4043051, 4060443, 4077537, 4094345, 4110874,
  4127134, 4143135, 4158883 >>
Ln4 == <<
  0, 6931, 10986, 13863, 16094, 17918, 19459, 20794, 21972, 23026, 23979, 24849, 25649, 26391,
  27081, 27726, 28332, 28904, 29444, 29957, 30445, 30910, 31355, 31781, 32189, 32581, 32958, 33322,
  33673, 34012, 34340, 34657, 34965, 35264, 35553, 35835, 36109, 36376, 36636, 36889, 37136, 37377,
  37612, 37842, 38067, 38286, 38501, 38712, 38918, 39120, 39318, 39512, 39703, 39890, 40073, 40254,
  40431, 40604, 40775, 40943, 41109, 41271, 41431, 41589 >>
MaxW == 64                    \* table size = largest total weight / frame count / denominator
Inf == 2000000000             \* projection of +inf
Big == 5000000                \* sanity bound of a x1e6 observation (MI <= ln 64 < 4.2)

VARIABLES tid, l,
          X, Y, nx, ny,       \* the current data set of the session
          last,               \* MI matrix (x1e6) the next observation must reproduce
          lastself, lastw,    \* last self / weighted observation
          fails, expect

vars == <<tid, l, X, Y, nx, ny, last, lastself, lastw, fails, expect>>

Tr == Traces[tid]
Ev == Tr.events

Abs(x) == IF x < 0 THEN -x ELSE x
Min2(a, b) == IF a < b THEN a ELSE b
RECURSIVE SumTo(_, _)
SumTo(f, k) == IF k = 0 THEN 0 ELSE f[k] + SumTo(f, k - 1)
Sum(s) == SumTo(s, Len(s))
RECURSIVE MaxTo(_, _)
MaxTo(f, k) == IF k = 1 THEN f[1] ELSE LET m == MaxTo(f, k - 1) IN IF f[k] > m THEN f[k] ELSE m
MaxSeq(s) == MaxTo(s, Len(s))
Ones(n) == [t \in 1..n |-> 1]
IsPerm(p, S) == Len(p) = Cardinality(S) /\ {p[k] : k \in 1..Len(p)} = S

ShapeOK(m, r, c) == Len(m) = r /\ \A i \in 1..r : Len(m[i]) = c
Sane(m) == \A i \in 1..Len(m) : \A j \in 1..Len(m[i]) : m[i][j] >= -Big /\ m[i][j] <= Big
SaneVec(v) == \A i \in 1..Len(v) : v[i] >= -Big /\ v[i] <= Big
Close(a, b, r, c, tol) == ShapeOK(a, r, c) /\ ShapeOK(b, r, c) /\ Sane(a) /\
                          \A i \in 1..r, j \in 1..c : Abs(a[i][j] - b[i][j]) <= tol
Transpose(m) == [j \in 1..Len(m[1]) |-> [i \in 1..Len(m) |-> m[i][j]]]

(* ---- the data set ------------------------------------------------------------- *)
Fx == Len(nx)
Fy == Len(ny)
WellFormed(D, n) == /\ Len(D) >= 1
                    /\ \A t \in 1..Len(D) : Len(D[t]) = Len(n) /\ \A f \in 1..Len(n) : D[t][f] \in 0..(n[f] - 1)

Relabel(D, perms) == [t \in 1..Len(D) |-> [f \in 1..Len(D[t]) |-> perms[f][D[t][f] + 1]]]
Reorder(D, perm) == [t \in 1..Len(D) |-> D[perm[t]]]
Replicate(D, k) == [t \in 1..(k * Len(D)) |-> D[((t - 1) % Len(D)) + 1]]

(* ---- definition level: (weighted) counts, MI and entropy with the ln table ------ *)
Cw(DX, DY, w, a, b, u, v) ==
  SumTo([t \in 1..Len(DX) |-> IF DX[t][a] = u /\ DY[t][b] = v THEN w[t] ELSE 0], Len(DX))
Mw(D, w, a, u) == SumTo([t \in 1..Len(D) |-> IF D[t][a] = u THEN w[t] ELSE 0], Len(D))

(* W * MI(a, b) * 1e6 *)
MIScaled(DX, DY, w, a, b, mx, my) ==
  LET W == Sum(w)
  IN SumTo([k \in 1..(mx * my) |->
       LET u == (k - 1) \div my
           v == (k - 1) % my
           c == Cw(DX, DY, w, a, b, u, v)
       IN IF c = 0 THEN 0 ELSE c * (Ln6[c] + Ln6[W] - Ln6[Mw(DX, w, a, u)] - Ln6[Mw(DY, w, b, v)])], mx * my)

MIByDef(m6, DX, DY, w, mx, my) ==
  Sane(m6) /\ \A a \in 1..Len(m6), b \in 1..Len(m6[1]) :
     Abs(m6[a][b] * Sum(w) - MIScaled(DX, DY, w, a, b, mx, my)) <= 3 * Sum(w)

(* W * H(a) * 1e6 *)
HScaled(D, w, a, m) ==
  LET W == Sum(w)
  IN W * Ln6[W] - SumTo([k \in 1..m |-> LET c == Mw(D, w, a, k - 1) IN IF c = 0 THEN 0 ELSE c * Ln6[c]], m)
HByDef(h6, D, m) == SaneVec(h6) /\ \A a \in 1..Len(h6) :
     Abs(h6[a] * Len(D) - HScaled(D, Ones(Len(D)), a, m)) <= 2 * Len(D)

(* exact values in bits for dyadic counts *)
Pow2 == {1, 2, 4, 8, 16, 32, 64}
Lg(k) == CHOOSE e \in 0..6 : 2 ^ e = k
DyadicPair(DX, DY, a, b, mx, my) ==
  /\ Len(DX) \in Pow2
  /\ \A u \in 0..(mx - 1) : Mw(DX, Ones(Len(DX)), a, u) \in Pow2 \cup {0}
  /\ \A v \in 0..(my - 1) : Mw(DY, Ones(Len(DY)), b, v) \in Pow2 \cup {0}
  /\ \A u \in 0..(mx - 1), v \in 0..(my - 1) : Cw(DX, DY, Ones(Len(DX)), a, b, u, v) \in Pow2 \cup {0}
MIBitsNum(DX, DY, a, b, mx, my) ==
  LET w == Ones(Len(DX))
  IN SumTo([k \in 1..(mx * my) |->
       LET u == (k - 1) \div my
           v == (k - 1) % my
           c == Cw(DX, DY, w, a, b, u, v)
       IN IF c = 0 THEN 0 ELSE c * (Lg(c) + Lg(Len(DX)) - Lg(Mw(DX, w, a, u)) - Lg(Mw(DY, w, b, v)))], mx * my)
HBitsNum(D, a, m) ==
  SumTo([k \in 1..m |-> LET c == Mw(D, Ones(Len(D)), a, k - 1) IN IF c = 0 THEN 0 ELSE c * (Lg(Len(D)) - Lg(c))], m)

(* ---- clauses per event ------------------------------------------------------------ *)
MX == MaxSeq(nx)
MY == MaxSeq(ny)
T == Len(X)
U == Ones(T)

NonNeg(m) == \A i \in 1..Len(m) : \A j \in 1..Len(m[i]) : m[i][j] >= -1

JCTable(e) ==
  /\ Len(e.jc) = Fx
  /\ \A a \in 1..Fx : Len(e.jc[a]) = Fy /\ \A b \in 1..Fy :
       /\ ShapeOK(e.jc[a][b], MX, MY)
       /\ \A u \in 0..(MX - 1), v \in 0..(MY - 1) : e.jc[a][b][u + 1][v + 1] = Cw(X, Y, U, a, b, u, v)

MarginalInputs(e) ==
  /\ ShapeOK(e.cx, Fx, MX) /\ \A a \in 1..Fx, u \in 0..(MX - 1) : e.cx[a][u + 1] = Mw(X, U, a, u)
  /\ ShapeOK(e.cy, Fy, MY) /\ \A b \in 1..Fy, v \in 0..(MY - 1) : e.cy[b][v + 1] = Mw(Y, U, b, v)

Bounded(e) == \A i \in 1..Fx, j \in 1..Fy : e.mi6[i][j] <= Min2(e.hx6[i], e.hy6[j]) + 2

ObserveClauses(e) ==
  IF ~(ShapeOK(e.mi6, Fx, Fy) /\ Sane(e.mi6) /\ Len(e.hx6) = Fx /\ Len(e.hy6) = Fy)
  THEN {<<"ObservationShape", FALSE>>}
  ELSE {<<"BadTrace", MarginalInputs(e) /\ T <= MaxW>>,
        <<"JCExact", JCTable(e)>>,
        <<"NonNegative", NonNeg(e.mi6)>>,
        <<"BoundedByMarginals", Bounded(e)>>,
        <<"MIByDefinition", MIByDef(e.mi6, X, Y, U, MX, MY)>>,
        <<"EntropyByDefinition", HByDef(e.hx6, X, MX) /\ HByDef(e.hy6, Y, MY)>>,
        <<"EntropyNormaliseFlag", \A a \in 1..Fx : Abs(e.hx6[a] - e.hxp6[a]) <= 1>>}

ObserveExpect(e) ==
  {<<l, "mi", p[1], p[2], MIBitsNum(X, Y, p[1], p[2], MX, MY), T>> :
       p \in {p \in (1..Fx) \X (1..Fy) : DyadicPair(X, Y, p[1], p[2], MX, MY)}}
  \cup {<<l, "hx", a, 0, HBitsNum(X, a, MX), T>> : a \in {a \in 1..Fx : DyadicPair(X, X, a, a, MX, MX)}}
  \cup {<<l, "hy", b, 0, HBitsNum(Y, b, MY), T>> : b \in {b \in 1..Fy : DyadicPair(Y, Y, b, b, MY, MY)}}

SelfClauses(e) ==
  IF ~(ShapeOK(e.smi6, Fx, Fx) /\ Sane(e.smi6) /\ Len(e.hx6) = Fx) THEN {<<"ObservationShape", FALSE>>}
  ELSE {<<"NonNegative", NonNeg(e.smi6)>>,
        <<"SelfSymmetric", \A i, j \in 1..Fx : Abs(e.smi6[i][j] - e.smi6[j][i]) <= 2>>,
        <<"DiagonalIsEntropy", \A i \in 1..Fx : Abs(e.smi6[i][i] - e.hx6[i]) <= 2>>,
        <<"SerialEqualsMatrix", Close(e.ser6, e.smi6, Fx, Fx, 2)>>,
        <<"MIByDefinition", MIByDef(e.smi6, X, X, U, MX, MX)>>}

WeightsOK(w) == Len(w) = T /\ (\A t \in 1..T : w[t] >= 0) /\ Sum(w) >= 1 /\ Sum(w) <= MaxW
WeightedClauses(e) ==
  IF ~WeightsOK(e.w) THEN {<<"BadTrace", FALSE>>}
  ELSE IF ~(ShapeOK(e.wmi6, Fx, Fx) /\ Sane(e.wmi6)) THEN {<<"ObservationShape", FALSE>>}
  ELSE {<<"NonNegative", NonNeg(e.wmi6)>>,
        <<"WeightedByDefinition", MIByDef(e.wmi6, X, X, e.w, MX, MX)>>,
        <<"WeightedEqualsUnweightedUniform",
          ((\A t \in 1..T : e.w[t] = e.w[1]) /\ lastself # <<>>) => Close(e.wmi6, lastself, Fx, Fx, 2)>>}

Invariant(name, e) == {<<"NonNegative", Sane(e.mi6) /\ NonNeg(e.mi6)>>, <<name, Close(e.mi6, last, Fx, Fy, 2)>>}

RelabelOK(e) ==
  LET n == IF e.side = "x" THEN nx ELSE ny
      D == IF e.side = "x" THEN X ELSE Y
  IN /\ Len(e.perms) = Len(n)
     /\ \A f \in 1..Len(n) : IsPerm(e.perms[f], 0..(n[f] - 1))
     /\ e.X = (IF e.side = "x" THEN Relabel(X, e.perms) ELSE X)
     /\ e.Y = (IF e.side = "y" THEN Relabel(Y, e.perms) ELSE Y)
ReorderOK(e) == IsPerm(e.perm, 1..T) /\ e.X = Reorder(X, e.perm) /\ e.Y = Reorder(Y, e.perm)
ReplicateOK(e) == e.k >= 1 /\ e.k * T <= MaxW /\ e.X = Replicate(X, e.k) /\ e.Y = Replicate(Y, e.k)
SplitOK(e) == /\ Len(e.cuts) >= 1
              /\ \A k \in 1..Len(e.cuts) : e.cuts[k] \in 1..(T - 1)
              /\ \A k \in 1..(Len(e.cuts) - 1) : e.cuts[k] < e.cuts[k + 1]
SwapOK(e) == e.X = Y /\ e.Y = X

(* channel-capacity normalisation: entry (i, j) is divided by ln min(n_x[i], n_y[j]) *)
RefOf(e) == IF e.of = "last" THEN last ELSE IF e.of = "self" THEN lastself ELSE lastw
NVec(s, scalar, F) == IF scalar = 1 THEN [i \in 1..F |-> s[1]] ELSE s
NormArgsValid(e, r, c) ==
  /\ Len(e.nxs) = (IF e.xscalar = 1 THEN 1 ELSE r)
  /\ Len(e.nys) = (IF e.yscalar = 1 THEN 1 ELSE c)
  /\ \A k \in 1..Len(e.nxs) : e.nxs[k] >= 2
  /\ \A k \in 1..Len(e.nys) : e.nys[k] >= 2
CN(e, R, transposed) ==
  LET r == Len(R)
      c == Len(R[1])
      nxv == NVec(e.nxs, e.xscalar, r)
      nyv == NVec(e.nys, e.yscalar, c)
  IN \A i \in 1..r, j \in 1..c :
       LET m == IF transposed THEN Min2(nxv[j], nyv[i]) ELSE Min2(nxv[i], nyv[j])
       IN /\ Abs(e.nmi4[i][j]) <= 40000
          /\ Abs(e.nmi4[i][j] * Ln4[m] - R[i][j] * 100) <= (Ln4[m] \div 2) + (Abs(e.nmi4[i][j]) \div 2) + 160
NormaliseClauses(e) ==
  LET R == RefOf(e)
      r == Len(R)
      c == Len(R[1])
  IN IF R = <<>> THEN {<<"BadTrace", FALSE>>}
     ELSE IF ~NormArgsValid(e, r, c) THEN {<<"NormaliseRejectsBadCounts", e.raised = 1>>}
     ELSE IF e.raised = 1 THEN {<<IF r # c THEN "NormaliseRaisesNonSquare" ELSE "NormaliseRaises", FALSE>>}
     ELSE IF ~ShapeOK(e.nmi4, r, c) THEN {<<"NormaliseShape", FALSE>>}
     ELSE IF CN(e, R, FALSE) THEN {<<"ChannelNormalisation", TRUE>>}
     ELSE IF r = c /\ CN(e, R, TRUE) THEN {<<"ChannelNormalisationTransposedGrid", FALSE>>}
     ELSE {<<"ChannelNormalisation", FALSE>>}

CheckClauses(e) ==
  {<<"CheckFeaturesStates",
     (e.raised = 1) <=> (e.nlen # e.lens[1] \/ \E k \in 1..Len(e.lens) : e.lens[k] # e.lens[1])>>}

(* relative entropy of P = p / sum p and Q = q / sum q *)
KLClauses(e) ==
  LET p == Tr.p
      q == Tr.q
      n == Len(p)
      Dp == Sum(p)
      Dq == Sum(q)
      equal == \A i \in 1..n : p[i] * Dq = q[i] * Dp
      unsupported == \E i \in 1..n : p[i] > 0 /\ q[i] = 0
      defn == SumTo([i \in 1..n |-> IF p[i] = 0 THEN 0 ELSE p[i] * (Ln6[p[i]] - Ln6[q[i]])], n)
              + Dp * (Ln6[Dq] - Ln6[Dp])
      finite == e.nat6 # Inf /\ Abs(e.nat6) <= 20 * Big /\ Abs(e.bit4) <= 200000
  IN IF ~(Len(q) = n /\ Dp \in 1..MaxW /\ Dq \in 1..MaxW /\ \A i \in 1..n : p[i] >= 0 /\ q[i] >= 0)
     THEN {<<"BadTrace", FALSE>>}
     ELSE {<<"KLNonNegative", e.nat6 >= -1 /\ e.bit6 >= -1>>,
           <<"KLZeroIffEqual", (equal <=> Abs(e.nat6) <= 1) /\ (equal => Abs(e.bit6) <= 1)>>,
           <<"KLInfiniteIffUnsupported", (unsupported <=> e.nat6 = Inf) /\ (unsupported <=> e.bit6 = Inf)>>,
           <<"KLByDefinition", ~unsupported => (finite /\ Abs(e.nat6 * Dp - defn) <= 4 * Dp)>>,
           <<"KLBaseChange", ~unsupported =>
                (finite /\ Abs(e.bit4 * Ln4[2] - e.nat6 * 100) <= (Abs(e.bit4) \div 2) + 3466 + 160)>>,
           <<"KLRowsEqualVectors", e.row6 = e.nat6>>}
KLExpect(e) ==
  LET p == Tr.p
      q == Tr.q
      n == Len(p)
      Dp == Sum(p)
      Dq == Sum(q)
  IN IF /\ Len(q) = n /\ Dp \in Pow2 /\ Dq \in Pow2
        /\ \A i \in 1..n : p[i] \in Pow2 \cup {0} /\ q[i] \in Pow2 /\ p[i] >= 0
     THEN {<<l, "klbits", 0, 0,
             SumTo([i \in 1..n |-> IF p[i] = 0 THEN 0 ELSE p[i] * (Lg(p[i]) - Lg(q[i]))], n) + Dp * (Lg(Dq) - Lg(Dp)),
             Dp>>}
     ELSE {}

ClausesOf(e) ==
  CASE e.ev = "observe"   -> ObserveClauses(e)
    [] e.ev = "self"      -> SelfClauses(e)
    [] e.ev = "weighted"  -> WeightedClauses(e)
    [] e.ev = "relabel"   -> {<<"BadTrace", RelabelOK(e)>>} \cup Invariant("InvariantUnderRelabel", e)
    [] e.ev = "reorder"   -> {<<"BadTrace", ReorderOK(e)>>} \cup Invariant("InvariantUnderReorder", e)
    [] e.ev = "replicate" -> {<<"BadTrace", ReplicateOK(e)>>} \cup Invariant("InvariantUnderReplication", e)
    [] e.ev = "split"     -> {<<"BadTrace", SplitOK(e)>>} \cup Invariant("PooledEqualsConcatenated", e)
    [] e.ev = "pooled"    -> {<<"BadTrace", e.k >= 1 /\ e.parts >= 1>>} \cup Invariant("PooledReplicasEqualOne", e)
    [] e.ev = "swap"      -> {<<"BadTrace", SwapOK(e)>>, <<"NonNegative", Sane(e.mi6) /\ NonNeg(e.mi6)>>,
                              <<"SwapTransposes", Close(e.mi6, Transpose(last), Fy, Fx, 2)>>}
    [] e.ev = "normalise" -> NormaliseClauses(e)
    [] e.ev = "check"     -> CheckClauses(e)
    [] e.ev = "poolmismatch" -> {<<"PoolRejectsMismatch", e.raised = 1>>}
    [] e.ev = "kl"        -> KLClauses(e)
    [] e.ev = "raise"     -> {<<"NoException", FALSE>>}

ExpectOf(e) == CASE e.ev = "observe" -> ObserveExpect(e)
                 [] e.ev = "kl" -> KLExpect(e)
                 [] OTHER -> {}

(* the data set after the event *)
DataAfter(e) ==
  CASE e.ev = "relabel" /\ e.side = "x" -> <<Relabel(X, e.perms), Y, nx, ny>>
    [] e.ev = "relabel" /\ e.side = "y" -> <<X, Relabel(Y, e.perms), nx, ny>>
    [] e.ev = "reorder"   -> <<Reorder(X, e.perm), Reorder(Y, e.perm), nx, ny>>
    [] e.ev = "replicate" -> <<Replicate(X, e.k), Replicate(Y, e.k), nx, ny>>
    [] e.ev = "swap"      -> <<Y, X, ny, nx>>
    [] OTHER              -> <<X, Y, nx, ny>>

Init ==
  /\ tid \in 1..Len(Traces)
  /\ l = 1
  /\ X = Traces[tid].X /\ Y = Traces[tid].Y /\ nx = Traces[tid].nx /\ ny = Traces[tid].ny
  /\ last = <<>> /\ lastself = <<>> /\ lastw = <<>>
  /\ fails = IF Traces[tid].kind = "kl" \/ (WellFormed(Traces[tid].X, Traces[tid].nx) /\ WellFormed(Traces[tid].Y, Traces[tid].ny)
                                             /\ Len(Traces[tid].X) = Len(Traces[tid].Y))
             THEN {} ELSE {<<"BadTrace", 0>>}
  /\ expect = {}

Step ==
  /\ l <= Len(Ev)
  /\ fails = {} \/ \A f \in fails : f[1] # "BadTrace"     \* a malformed trace is not evaluated further
  /\ LET e == Ev[l]
         d == DataAfter(e)
     IN /\ fails' = fails \cup {<<c[1], l>> : c \in {c \in ClausesOf(e) : ~c[2]}}
        /\ expect' = expect \cup ExpectOf(e)
        /\ X' = d[1] /\ Y' = d[2] /\ nx' = d[3] /\ ny' = d[4]
        /\ last' = IF e.ev = "observe" THEN e.mi6 ELSE IF e.ev = "swap" THEN Transpose(last) ELSE last
        /\ lastself' = IF e.ev = "self" THEN e.smi6
                       ELSE IF e.ev \in {"relabel", "swap"} THEN <<>> ELSE lastself
        /\ lastw' = IF e.ev = "weighted" THEN e.wmi6
                    ELSE IF e.ev \in {"relabel", "swap", "reorder", "replicate"} THEN <<>> ELSE lastw
  /\ l' = l + 1
  /\ UNCHANGED tid

Next == Step

Finished == l = Len(Ev) + 1 \/ \E f \in fails : f[1] = "BadTrace"
Report == Finished => PrintT(<<"VERDICT", tid, fails, expect>>)
=============================================================================
