---------------------------- MODULE JointCounts ----------------------------
(* Joint-count tables (enspara.info_theory.libinfo.matrix_bincount2d /        *)
(* bincount2d, mutual_info.joint_counts).  Property C18, counting part.       *)
(*                                                                            *)
(* Input: feature trajectories XI : Tx x Fx and YI : Ty x Fy of state ids and *)
(* the declared state counts NX, NY (the API takes one scalar per side).      *)
(* The implementation-shaped part follows the kernel: Validate (the asserts   *)
(* at the top of matrix_bincount2d), a zero-initialised flat buffer of        *)
(* Fx*Fy*NX*NY cells, and one loop iteration per first-side feature a (the    *)
(* prange): iteration a walks the frames and, for every second-side feature   *)
(* b, increments the cell at flat offset ((a*Fy+b)*NX + XI[t][a])*NY+YI[t][b] *)
(* -- unchecked C indexing (boundscheck/wraparound are off), so an id outside *)
(* 0..n-1 would be counted in another cell or written outside the buffer.     *)
(* Iterations of different a interleave arbitrarily (Sched = "any").          *)
(* The definition-level part counts frames by cardinality.                    *)
(*                                                                            *)
(* What must hold: JCExact (table = cardinality definition), Partial (every   *)
(* prefix), Total, OwnBlock (an iteration writes only cells of its own block: *)
(* race freedom of the prange), NoOutOfBounds, and Rejected: ids < 0, ids >= n *)
(* and unequal lengths end in an explicit error terminal and never reach the  *)
(* counting loop.  CheckLower = FALSE is a what-if model of a validator that  *)
(* only asserts the upper bound; TLC then exhibits the forbidden outcomes.    *)
(* With Emit = TRUE every input is printed with its expected table (declared  *)
(* and default state counts) or its expected error terminal.                  *)
EXTENDS Integers, Sequences, FiniteSets, TLC, Json

CONSTANTS TMax,        \* 1..TMax frames
          Fx, FyC,     \* features per side
          NX, NYC,     \* declared state counts
          Self,        \* TRUE: Y is None in the API = X against itself (FY = Fx, NY = NX)
          Mode,        \* "valid" | "badid" (one id out of range, every placement) | "badlen"
          CheckLower,  \* TRUE: validator demanded by the property; FALSE: upper bound only
          Sched,       \* "any": iterations interleave; "seq": a = 0, 1, ... in order
          Emit

VARIABLES X, Y,        \* well-formed base input
          bad,         \* the single corruption applied to it (side "n" = none)
          pc, mem, ta, oob, stray

vars == <<X, Y, bad, pc, mem, ta, oob, stray>>

FY == IF Self THEN Fx ELSE FyC
NY == IF Self THEN NX ELSE NYC
Size == Fx * FY * NX * NY
Rows(F, n) == [1..F -> 0..(n - 1)]
NoBad == [side |-> "n", t |-> 0, f |-> 0, val |-> 0]

(* the arrays as handed to the code *)
XI == IF bad.side = "x" THEN [X EXCEPT ![bad.t][bad.f] = bad.val] ELSE X
YI == IF Self THEN XI
      ELSE IF bad.side = "y" THEN [Y EXCEPT ![bad.t][bad.f] = bad.val] ELSE Y

BadChoices(x, y) ==
  {[side |-> "x", t |-> t, f |-> f, val |-> v] : t \in 1..Len(x), f \in 1..Fx, v \in {-1, -NX, NX, NX + 1}}
  \cup (IF Self THEN {} ELSE
  {[side |-> "y", t |-> t, f |-> f, val |-> v] : t \in 1..Len(y), f \in 1..FY, v \in {-1, -NY, NY, NY + 1}})

Init ==
  /\ \E Tx \in 1..TMax :
       /\ X \in [1..Tx -> Rows(Fx, NX)]
       /\ IF Self THEN Y = X
          ELSE \E Ty \in (IF Mode = "badlen" THEN (1..TMax) \ {Tx} ELSE {Tx}) : Y \in [1..Ty -> Rows(FY, NY)]
  /\ bad \in (IF Mode = "badid" THEN BadChoices(X, Y) ELSE {NoBad})
  /\ pc = "validate"
  /\ mem = <<>>
  /\ ta = [a \in 0..(Fx - 1) |-> 0]
  /\ oob = FALSE
  /\ stray = {}

(* ---- classification of the input (definition level) ------------------------- *)
Ids(D) == UNION {{D[t][f] : f \in 1..Len(D[t])} : t \in 1..Len(D)}
LenBad == Len(XI) # Len(YI)
NegBad == \E v \in Ids(XI) \cup Ids(YI) : v < 0
BigBad == (\E v \in Ids(XI) : v >= NX) \/ (\E v \in Ids(YI) : v >= NY)
Invalid == LenBad \/ NegBad \/ BigBad
ExpectedTerminal == IF LenBad THEN "err_length" ELSE IF NegBad THEN "err_negative"
                    ELSE IF BigBad THEN "err_toolarge" ELSE "done"
ErrTerminals == {"err_length", "err_negative", "err_toolarge"}

(* ---- implementation-shaped steps --------------------------------------------- *)
Off(a, b, i, j) == ((a * FY + b) * NX + i) * NY + j          \* C-order flat offset, 0-based
InBuffer(o) == o >= 0 /\ o < Size
Block(a) == {o \in 0..(Size - 1) : o \div (FY * NX * NY) = a}

Validate ==
  /\ pc = "validate"
  /\ pc' = IF Len(XI) # Len(YI) THEN "err_length"            \* assert a.shape[0] == b.shape[0]
           ELSE IF CheckLower /\ NegBad THEN "err_negative"  \* demanded by the property
           ELSE IF BigBad THEN "err_toolarge"                \* assert a.max() < n_a, b.max() < n_b
           ELSE "count"
  /\ mem' = [o \in 0..(Size - 1) |-> 0]                      \* np.zeros
  /\ UNCHANGED <<X, Y, bad, ta, oob, stray>>

(* iteration a of the prange handles its next frame: one increment per b *)
CountFrame(a) ==
  /\ pc = "count" /\ ta[a] < Len(XI)
  /\ (Sched = "seq") => \A a2 \in 0..(a - 1) : ta[a2] = Len(XI)
  /\ LET t == ta[a] + 1
         offs == [b \in 0..(FY - 1) |-> Off(a, b, XI[t][a + 1], YI[t][b + 1])]
     IN /\ mem' = [o \in DOMAIN mem |-> mem[o] + Cardinality({b \in 0..(FY - 1) : offs[b] = o})]
        /\ oob' = (oob \/ \E b \in 0..(FY - 1) : ~InBuffer(offs[b]))
        /\ stray' = stray \cup {<<a, offs[b]>> : b \in {b \in 0..(FY - 1) : offs[b] \notin Block(a)}}
        /\ ta' = [ta EXCEPT ![a] = t]
  /\ UNCHANGED <<X, Y, bad, pc>>

Finish ==
  /\ pc = "count" /\ \A a \in 0..(Fx - 1) : ta[a] = Len(XI)
  /\ pc' = "done"
  /\ UNCHANGED <<X, Y, bad, mem, ta, oob, stray>>

Next == Validate \/ (\E a \in 0..(Fx - 1) : CountFrame(a)) \/ Finish
Spec == Init /\ [][Next]_vars

(* ---- definition level ----------------------------------------------------------- *)
Def(a, b, i, j, upto) == Cardinality({t \in 1..upto : XI[t][a + 1] = i /\ YI[t][b + 1] = j})
Cells == (0..(Fx - 1)) \X (0..(FY - 1)) \X (0..(NX - 1)) \X (0..(NY - 1))

RECURSIVE SumTo(_, _)
SumTo(f, k) == IF k < 0 THEN 0 ELSE f[k] + SumTo(f, k - 1)

(* ---- properties -------------------------------------------------------------------- *)
TypeOK == pc \in {"validate", "count", "done"} \cup ErrTerminals

JCExact == pc = "done" => \A c \in Cells : mem[Off(c[1], c[2], c[3], c[4])] = Def(c[1], c[2], c[3], c[4], Len(XI))

Partial == pc = "count" => \A c \in Cells : mem[Off(c[1], c[2], c[3], c[4])] = Def(c[1], c[2], c[3], c[4], ta[c[1]])

Total == pc = "done" =>
  \A a \in 0..(Fx - 1), b \in 0..(FY - 1) :
     SumTo([k \in 0..(NX * NY - 1) |-> mem[Off(a, b, 0, 0) + k]], NX * NY - 1) = Len(XI)

Rejected == Invalid => pc \in {"validate", ExpectedTerminal}
AcceptedOnlyValid == pc \in {"count", "done"} => ~Invalid
NoOutOfBounds == ~oob
OwnBlock == stray = {}            \* race freedom: iteration a touches block a only

(* ---- emission for replay ------------------------------------------------------------- *)
Table == [a \in 1..Fx |-> [b \in 1..FY |-> [i \in 1..NX |-> [j \in 1..NY |-> mem[Off(a - 1, b - 1, i - 1, j - 1)]]]]]
MaxOf(S) == CHOOSE m \in S : \A v \in S : v <= m
NXd == MaxOf(Ids(XI)) + 1         \* n_x = None: max(X) + 1
NYd == MaxOf(Ids(YI)) + 1
TableD == [a \in 1..Fx |-> [b \in 1..FY |-> [i \in 1..NXd |-> [j \in 1..NYd |->
             Def(a - 1, b - 1, i - 1, j - 1, Len(XI))]]]]
(* flat offsets an unchecked kernel would write in the corrupted frame *)
WouldWrite == IF bad.side = "n" \/ Len(XI) # Len(YI) THEN {}
              ELSE {Off(a, b, XI[bad.t][a + 1], YI[bad.t][b + 1]) : a \in 0..(Fx - 1), b \in 0..(FY - 1)}
                   \ {Off(a, b, X[bad.t][a + 1], (IF Self THEN X ELSE Y)[bad.t][b + 1]) : a \in 0..(Fx - 1), b \in 0..(FY - 1)}

EmitInv == Emit =>
  /\ (pc = "done" =>
        PrintT(<<"CASE", ToJson([X |-> XI, Y |-> YI, nx |-> NX, ny |-> NY, self |-> Self, err |-> "none",
                                 jc |-> Table, nxd |-> NXd, nyd |-> NYd, jcd |-> TableD])>>))
  /\ (pc \in ErrTerminals =>
        PrintT(<<"CASE", ToJson([X |-> XI, Y |-> YI, nx |-> NX, ny |-> NY, self |-> Self, err |-> pc,
                                 bad |-> bad, hits |-> WouldWrite, size |-> Size])>>))
=============================================================================
