------------------------------- MODULE Rotamer -------------------------------
(* Rotamer assignment with buffered transitions                               *)
(* (enspara.geometry.rotamer: _rotamers / is_buffered_transition / get_gates, *)
(* callers phi_rotamers, psi_rotamers, chi_rotamers).  Property C20.          *)
(*                                                                            *)
(* All angles are in HALF-DEGREE units: the circle is 0..719.  Boundaries and *)
(* buffer widths are even (integer degrees), angles are odd (x.5 degrees), so *)
(* no angle ever equals a boundary or a gate and the closed/open choice of    *)
(* the comparisons is immaterial (the property quantifies over angle          *)
(* sequences that avoid the finitely many gate values).                       *)
(*                                                                            *)
(* Two machines run in lockstep on the same angle history:                    *)
(*   cur   the DEFINITION: the first frame gets the basin containing its      *)
(*         angle; afterwards the state changes only when the angle leaves the *)
(*         current basin widened by the buffer on both sides -- stated as     *)
(*         circular-interval membership (InWidened), with no reference to     *)
(*         gates -- and then becomes the basin containing the new angle;      *)
(*   icur  the IMPLEMENTATION, transcribed from the code: first-frame loop,   *)
(*         get_gates (0 -> 360 / 360 -> 0 swap for the seam basins, then      *)
(*         -buf / +buf), is_buffered_transition (two branches chosen by the   *)
(*         order of the gates), np.digitize re-binning.                       *)
(* TLC decides on every (boundary set, buffer, state, angle) in scope whether *)
(* the two agree (ImplMatchesDef) and checks the hysteresis clauses on the    *)
(* implementation-shaped machine.  With MaxLen > 0 the histories are recorded *)
(* and emitted (expected states of both machines) for replay into the real    *)
(* code.                                                                      *)
EXTENDS Integers, Sequences, FiniteSets, TLC, Json

CONSTANTS BSets,        \* subset of 1..3: library boundary sets to include
          BufLo, BufHi, BufStep,  \* buffers BufLo, BufLo+BufStep, .. <= BufHi (half-degrees, even)
          Range,        \* "accepted": every buffer _rotamers accepts;
                        \* "regular":  accepted and no widened basin overlaps itself;
                        \* "wide":     accepted and some widened basin overlaps itself
          AngleStep,    \* alphabet of the histories: uniform grid AngleStep*k + 1 (even step; 0 = none)
          FineStep,     \* quantifier domain of the per-(state, angle) formulas: FineStep*k + 1 (0 = none)
          NearGates,    \* TRUE: add the two odd angles next to every boundary and gate
          FirstMid,     \* TRUE: the first frame is one interior representative per basin
          MaxLen,       \* 0: histories not recorded (transition graph); n: walks of <= n frames
          Emit,         \* TRUE: print walks as WALK lines
          EmitPrefixes  \* TRUE: every walk of 1..MaxLen frames, FALSE: only MaxLen frames

VARIABLES bi,     \* index of the boundary set
          buf,    \* buffer width
          pc,     \* "first": no frame seen yet, "run": at least one frame seen
          a,      \* angle of the last frame (-1 before the first)
          cur,    \* state of the definition machine
          icur,   \* state of the implementation-shaped machine (cur_state in _rotamers)
          hist,   \* recorded angles (only if MaxLen > 0)
          out,    \* recorded states of the definition machine
          iout    \* recorded states of the implementation-shaped machine (rotamers[])

vars == <<bi, buf, pc, a, cur, icur, hist, out, iout>>

Full == 720

(* hard_boundaries used by the library: phi [0,180,360]; psi [0,160,360] on    *)
(* angles shifted by -100 degrees; chi [0,120,240,360]                         *)
Lib == << <<0, 360, 720>>, <<0, 320, 720>>, <<0, 240, 480, 720>> >>

HB(b) == Lib[b]
NB(b) == Len(HB(b)) - 1
Basins(b) == 0..(NB(b) - 1)
Lo(b, c) == HB(b)[c + 1]          \* basins are 0-based, sequences 1-based
Hi(b, c) == HB(b)[c + 2]
Width(b, c) == Hi(b, c) - Lo(b, c)

(* ---- which buffers are in range ------------------------------------------- *)
(* _rotamers raises DataInvalid iff  buf < 0  or  buf >= 360./n_basins          *)
Accepted(b, w) == w >= 0 /\ w * NB(b) < Full

(* the widened basin (width + 2 buf) is longer than the circle                  *)
SelfOverlap(b, w, c) == Width(b, c) + 2 * w > Full
Wide(b, w) == \E c \in Basins(b) : SelfOverlap(b, w, c)

InRange(b, w) == /\ Accepted(b, w)
                 /\ Range = "regular" => ~Wide(b, w)
                 /\ Range = "wide" => Wide(b, w)

BufGrid == {BufLo + BufStep * k : k \in 0..((BufHi - BufLo) \div BufStep)}
Buffers(b) == {w \in BufGrid : InRange(b, w)}

(* ---- definition level ------------------------------------------------------- *)
Basin(b, x) == CHOOSE c \in Basins(b) : Lo(b, c) <= x /\ x < Hi(b, c)

(* circular-interval membership: x lies within [lo - w, hi + w] on the circle   *)
InWidened(b, w, c, x) ==
  ((x - (Lo(b, c) - w) + Full) % Full) <= Width(b, c) + 2 * w

Step(b, w, c, x) == IF InWidened(b, w, c, x) THEN c ELSE Basin(b, x)

(* ---- implementation shaped (transcribed) ------------------------------------ *)
(* for i in range(n_basins): if angles[0] < hard_boundaries[i+1]: rotamers[0]=i; break
   (rotamers is initialised to -1) *)
FirstBin(b, x) ==
  LET hit == {i \in Basins(b) : x < Hi(b, i)}
  IN IF hit = {} THEN -1 ELSE CHOOSE i \in hit : \A j \in hit : i <= j

(* np.digitize(x, bins) for increasing bins, right=False: number of bins <= x   *)
Digitize(b, x) == Cardinality({k \in 1..Len(HB(b)) : HB(b)[k] <= x})

(* get_gates: <<lower_bound, upper_bound>> *)
GetGates(b, w, c) ==
  LET lower == IF Lo(b, c) = 0 THEN Full ELSE Lo(b, c)
      upper == IF Hi(b, c) = Full THEN 0 ELSE Hi(b, c)
  IN <<lower - w, upper + w>>

LowerGate(b, w, c) == GetGates(b, w, c)[1]
UpperGate(b, w, c) == GetGates(b, w, c)[2]

(* is_buffered_transition: the branch is chosen by the order of the gates       *)
WrapBranch(b, w, c)  == UpperGate(b, w, c) < LowerGate(b, w, c)
PlainBranch(b, w, c) == UpperGate(b, w, c) > LowerGate(b, w, c)

IsBufferedTransition(b, w, c, x) ==
  LET lb == LowerGate(b, w, c)
      ub == UpperGate(b, w, c)
  IN \/ ub < lb /\ (ub <= x /\ x <= lb)
     \/ ub > lb /\ ~(lb <= x /\ x <= ub)

ImplStep(b, w, c, x) == IF IsBufferedTransition(b, w, c, x) THEN Digitize(b, x) - 1 ELSE c

(* ---- angle grids -------------------------------------------------------------- *)
Grid(step) == IF step = 0 THEN {}
              ELSE {x \in {step * k + 1 : k \in 0..(Full \div step)} : x < Full}
Uniform == Grid(AngleStep)
Fine == Grid(FineStep)

(* boundaries and gates, reduced to the circle *)
Cuts(b, w) == {HB(b)[k] % Full : k \in 1..Len(HB(b))}
              \cup {(Lo(b, c) - w + Full) % Full : c \in Basins(b)}
              \cup {(Hi(b, c) + w) % Full : c \in Basins(b)}

Near(b, w) == {(g + 1) % Full : g \in Cuts(b, w)} \cup {(g + Full - 1) % Full : g \in Cuts(b, w)}

(* alphabet of the histories *)
Angles(b, w) == Uniform \cup (IF NearGates THEN Near(b, w) ELSE {})
(* every angle any formula quantifies over *)
AllAngles(b, w) == Angles(b, w) \cup Fine

(* one interior angle per basin (odd) *)
Mid(b, c) == Lo(b, c) + 2 * (Width(b, c) \div 4) + 1
FirstAngles(b, w) == IF FirstMid THEN {Mid(b, c) : c \in Basins(b)} ELSE Angles(b, w)

(* psi_rotamers is given raw angles and shifts them by -100 degrees             *)
PsiShift(raw) == (raw - 200 + Full) % Full
PsiRaw(x) == (x + 200) % Full

PsiRoundTrip == pc = "first" => \A x \in AllAngles(bi, buf) : PsiShift(PsiRaw(x)) = x

(* ---- the machines ----------------------------------------------------------------- *)
Init ==
  /\ bi \in BSets
  /\ buf \in Buffers(bi)
  /\ pc = "first"
  /\ a = -1 /\ cur = -1 /\ icur = -1
  /\ hist = <<>> /\ out = <<>> /\ iout = <<>>

Room == MaxLen = 0 \/ Len(hist) < MaxLen

Record(x, c, ic) ==
  IF MaxLen = 0 THEN UNCHANGED <<hist, out, iout>>
  ELSE /\ hist' = Append(hist, x)
       /\ out' = Append(out, c)
       /\ iout' = Append(iout, ic)

(* frame 0 *)
First(x) ==
  /\ pc = "first" /\ Room
  /\ a' = x
  /\ cur' = Basin(bi, x)
  /\ icur' = FirstBin(bi, x)
  /\ pc' = "run"
  /\ Record(x, cur', icur')
  /\ UNCHANGED <<bi, buf>>

(* frames 1.. : the definition machine moves by Step; the implementation-shaped
   machine by one of five branches of is_buffered_transition *)
Frame(x, newi) ==
  /\ pc = "run" /\ Room
  /\ a' = x
  /\ cur' = Step(bi, buf, cur, x)
  /\ icur' = newi
  /\ Record(x, cur', icur')
  /\ UNCHANGED <<bi, buf, pc>>

InGates(c, x) == LowerGate(bi, buf, c) <= x /\ x <= UpperGate(bi, buf, c)
BetweenSwapped(c, x) == UpperGate(bi, buf, c) <= x /\ x <= LowerGate(bi, buf, c)

ExitWrapAt(x)  == WrapBranch(bi, buf, icur) /\ BetweenSwapped(icur, x) /\ Frame(x, Digitize(bi, x) - 1)
StayWrapAt(x)  == WrapBranch(bi, buf, icur) /\ ~BetweenSwapped(icur, x) /\ Frame(x, icur)
ExitPlainAt(x) == PlainBranch(bi, buf, icur) /\ ~InGates(icur, x) /\ Frame(x, Digitize(bi, x) - 1)
StayPlainAt(x) == PlainBranch(bi, buf, icur) /\ InGates(icur, x) /\ Frame(x, icur)
StayEqualAt(x) == ~WrapBranch(bi, buf, icur) /\ ~PlainBranch(bi, buf, icur) /\ Frame(x, icur)

Running == pc = "run" /\ Room /\ icur \in Basins(bi)

(* one named action per branch, so that TLC's coverage counts each of them *)
FirstFrame == pc = "first" /\ Room /\ \E x \in FirstAngles(bi, buf) : First(x)
ExitWrap   == Running /\ \E x \in Angles(bi, buf) : ExitWrapAt(x)
StayWrap   == Running /\ \E x \in Angles(bi, buf) : StayWrapAt(x)
ExitPlain  == Running /\ \E x \in Angles(bi, buf) : ExitPlainAt(x)
StayPlain  == Running /\ \E x \in Angles(bi, buf) : StayPlainAt(x)
StayEqual  == Running /\ \E x \in Angles(bi, buf) : StayEqualAt(x)

Next == FirstFrame \/ ExitWrap \/ StayWrap \/ ExitPlain \/ StayPlain \/ StayEqual

Spec == Init /\ [][Next]_vars

(* ---- properties ----------------------------------------------------------------------- *)
TypeOK == /\ pc \in {"first", "run"}
          /\ bi \in 1..3 /\ Accepted(bi, buf)
          /\ Len(hist) = Len(out) /\ Len(hist) = Len(iout)
          /\ MaxLen > 0 => Len(hist) <= MaxLen

(* the grid avoids every boundary and gate and stays on the circle; boundaries,
   buffers even *)
GridAvoidsGates == pc = "first" =>
                   /\ \A x \in AllAngles(bi, buf) \cup FirstAngles(bi, buf) :
                         x \in 0..(Full - 1) /\ x % 2 = 1 /\ x \notin Cuts(bi, buf)
                   /\ buf % 2 = 0
                   /\ \A k \in 1..Len(HB(bi)) : HB(bi)[k] % 2 = 0

(* definition sanity: the basins partition the circle and each lies inside its
   widened version *)
BasinsPartition == pc = "first" => \A x \in AllAngles(bi, buf) :
                      /\ Cardinality({c \in Basins(bi) : Lo(bi, c) <= x /\ x < Hi(bi, c)}) = 1
                      /\ InWidened(bi, buf, Basin(bi, x), x)

(* the implementation-shaped machine makes the step of the definition from every
   state on every angle -- including first-frame binning.  Every basin is a
   reachable state, so the (state, angle) pairs are decided once per (boundary
   set, buffer), in the initial state; afterwards the two machines must coincide *)
ImplMatchesDef ==
  /\ pc = "first" =>
       /\ \A x \in FirstAngles(bi, buf) \cup AllAngles(bi, buf) : FirstBin(bi, x) = Basin(bi, x)
       /\ \A c \in Basins(bi) : \A x \in AllAngles(bi, buf) :
             ImplStep(bi, buf, c, x) = Step(bi, buf, c, x)
  /\ pc = "run" => icur = cur

ValidState == pc = "run" => icur \in Basins(bi) /\ cur \in Basins(bi)

ZeroBufferIsBinning == buf = 0 =>
  /\ pc = "first" => \A c \in Basins(bi) : \A x \in AllAngles(bi, buf) :
                         ImplStep(bi, buf, c, x) = Basin(bi, x)
  /\ pc = "run" => /\ icur = Basin(bi, a)
                   /\ \A k \in 1..Len(hist) : iout[k] = Basin(bi, hist[k])

(* the assigned state always contains the current angle in its widened basin *)
StateContainsAngle == pc = "run" => InWidened(bi, buf, icur, a)

(* first frame: the basin containing the angle *)
FirstIsBasin == [][pc = "first" /\ pc' = "run" => icur' = Basin(bi, a')]_vars

(* the state changes only when the angle leaves the widened current basin ... *)
Hysteresis == [][(pc = "run" /\ pc' = "run" /\ icur' # icur) => ~InWidened(bi, buf, icur, a')]_vars

(* ... and then it becomes the basin containing the new angle *)
ExitRebins == [][(pc = "run" /\ pc' = "run" /\ ~InWidened(bi, buf, icur, a')) => icur' = Basin(bi, a')]_vars

(* recorded sequences agree (walk mode) *)
OutputsAgree == iout = out

(* ---- summary of the range where the gate order degenerates -------------------------- *)
(* per (boundary set, buffer): for every basin the number of angles on which the
   transcribed step differs from the definition, and the smallest such angle *)
DevSet(c) == {x \in AllAngles(bi, buf) : ImplStep(bi, buf, c, x) # Step(bi, buf, c, x)}
MinOf(S) == IF S = {} THEN -1 ELSE CHOOSE x \in S : \A y \in S : x <= y

WideSummary == pc = "first" =>
  PrintT(<<"WIDE", ToJson([b |-> bi, buf |-> buf, wide |-> Wide(bi, buf),
                           ndev |-> [k \in 1..NB(bi) |-> Cardinality(DevSet(k - 1))],
                           wit |-> [k \in 1..NB(bi) |-> MinOf(DevSet(k - 1))],
                           gates |-> [k \in 1..NB(bi) |-> GetGates(bi, buf, k - 1)]])>>)

(* ---- emission for replay ------------------------------------------------------------------ *)
EmitInv == (Emit /\ Len(hist) >= 1 /\ (EmitPrefixes \/ Len(hist) = MaxLen)) =>
  PrintT(<<"WALK", ToJson([b |-> bi, buf |-> buf, nb |-> NB(bi), w |-> Wide(bi, buf), a |-> hist,
                           h |-> Cardinality({k \in 1..Len(hist) : out[k] # Basin(bi, hist[k])}),
                           raw |-> IF bi = 2 THEN [k \in 1..Len(hist) |-> PsiRaw(hist[k])] ELSE <<>>,
                           e |-> out, i |-> iout])>>)
=============================================================================
