------------------------------ MODULE Disorder ------------------------------
(* Order / disorder bookkeeping of the CARDS pipeline                          *)
(* (enspara.cards.disorder: traj_ord_disord_times, create_disorder_traj,       *)
(* aggregate_mean_times, transition_stats, assign_order_disorder, composed     *)
(* with `transitions` (Transitions.tla, reused by INSTANCE), and the argument  *)
(* plumbing of enspara.cards.cards.cards_matrices at definition level).        *)
(* Grown beyond the listed properties (DESIGN 10); runs as a part of C20.      *)
(*                                                                             *)
(* WHAT EACH FUNCTION IS DEFINED TO COMPUTE                                    *)
(* A transition "at frame n" means frames n and n+1 differ (Transitions.tla).  *)
(* tt = <<t_1 < t_2 < .. < t_m>> are the transition frames of one feature in   *)
(* one trajectory (0-based).                                                   *)
(*                                                                             *)
(* traj_ord_disord_times(tt) -> (ord_time, n_ord, disord_time, n_disord)       *)
(*   disord_time  "average waiting time between events": the mean of the gaps  *)
(*                t_(k+1) - t_k, k = 1..m-1; 0 when m < 2.                     *)
(*   ord_time     "average waiting time until event from any starting point":  *)
(*                the mean, over the starting frames f = 0 .. t_m - 1, of      *)
(*                (first transition frame > f) - f.  Equivalently, with the    *)
(*                waiting times w_1 = t_1, w_k = t_k - t_(k-1):                *)
(*                sum_k w_k (w_k + 1) / 2  divided by  sum_k w_k (= t_m).      *)
(*                0 when there is no starting frame (m = 0, or m = 1, t_1 = 0) *)
(*   n_ord        "time until last event counts towards ordered time": t_m,    *)
(*                the number of starting frames; 0 when m = 0.                 *)
(*   n_disord     "time between first and last event": t_m - t_1; 0 if m < 2.  *)
(*   A trajectory without transitions gives (0, 0, 0, 0).                      *)
(*   The statement is DefTimes below (sum over frames, no closed form).        *)
(*                                                                             *)
(*   DEVIATION OF THE CODE (class "single-transition-ord-time-is-sum").  For   *)
(*   m = 1 the code has a separate branch returning ord_time = w (w + 1) / 2   *)
(*   -- the SUM of the waiting times from the w starting frames, not their     *)
(*   average (w + 1) / 2 which the m > 1 branch computes for every interval    *)
(*   and which the comment and the docstring ("the order time") document.      *)
(*   Decision: the documented average is the definition (it is the only        *)
(*   reading under which a trajectory with one transition is commensurable     *)
(*   with one with two: tt = <<9>> gives 45, tt = <<9, 10>> gives 4.6).  The   *)
(*   transcription ImplTimes keeps the branch as coded; TLC proves that the    *)
(*   two differ EXACTLY on m = 1, t_1 >= 2, and there by the factor t_1        *)
(*   (TimesImplIsDefExceptKnown, TimesDeviationIsExactlyTheSum).  Cases of     *)
(*   the class are emitted with cmp = "i" (compare with the transcription)     *)
(*   while the class name is in the constant KnownDeviation, and with          *)
(*   cmp = "e" (the definition) when it is removed from it.                    *)
(*                                                                             *)
(* aggregate_mean_times(times, n_times, weight) -> mean_times[n_features]      *)
(*   "Mean transition time across trajectories for each dihedral", "weights    *)
(*   for each trajectory ... any nonnegative weights": the weighted mean       *)
(*   sum_i times[i][j] weight[i] / sum_i weight[i]   (sum of weights > 0).     *)
(*   Docstring and code agree on this; it is the definition (DefAgg).  Two     *)
(*   code COMMENTS are stale and are not the definition: "normalize by the     *)
(*   maximum weight" (the code and the docstring normalise by the sum) and     *)
(*   "if we never see a transition the result of the divide by zero (a NaN)"   *)
(*   (there is no such division: a feature never seen to transition gets 0).   *)
(*   n_times is documented as an argument but has no documented role and none  *)
(*   in the code: the result does not depend on it (AggIgnoresNTimes); a       *)
(*   trajectory in which a feature has no transition therefore enters the      *)
(*   mean with time 0 and its full weight.  That the aggregate is NOT the mean *)
(*   over the trajectories that observed the feature is recorded by the        *)
(*   formula AggIsMeanOverObservers, which TLC refutes (checked as a           *)
(*   model-level note, not as a finding).                                      *)
(*                                                                             *)
(* create_disorder_traj(tt, traj_len, ord_time, disord_time) -> float[traj_len]*)
(*   (no docstring; comments + code).  Frame f is disordered (1) iff it lies   *)
(*   in a segment [t_k, t_(k+1)) between two CONSECUTIVE transitions whose     *)
(*   spacing s = t_(k+1) - t_k favours the disordered regime,                  *)
(*       LR(s) = (O / D) exp(-s (1/D - 1/O)) >= 3,   O = ord_time, D = disord. *)
(*   Everything else is ordered (0): frames before the first and from the last *)
(*   transition on, and the whole trajectory when m < 2 ("default to ordered", *)
(*   "no ordered/disordered segments if too few transitions").  DefDTraj.      *)
(*   exp is outside TLC's vocabulary: LR(s) >= 3 is decided as                 *)
(*   ln(O / 3D) >= s (1/D - 1/O) with rigorous integer INTERVALS for both      *)
(*   sides at scale 10^4 (table Ln4 of round(10^4 ln k), k = 1..128, range     *)
(*   reduction a/b = (u/v)(1 + dl), dl/(1+dl) <= ln(1+dl) <= dl).  When the    *)
(*   intervals overlap (|ln LR - ln 3| below about 10^-3) the decision is 2 =  *)
(*   "either": the driver does not compare those frames.  e^x is irrational    *)
(*   for rational x # 0, so LR = 3 exactly never happens on rational inputs.   *)
(*                                                                             *)
(* transition_stats(rotamer_trajs) -> (transition_times, mean_ord, mean_dis)   *)
(*   rotamer_trajs: sequence of trajectories, each (n_frames_i, n_features)    *)
(*   (the docstring says (n_features, n_frames); the code, cards_matrices and  *)
(*   mi_matrix all use frames x features: the code is the definition).         *)
(*   transition_times[i][j] = transitions(column j of trajectory i);           *)
(*   mean_ord[j] = aggregate(ord_time of the columns j, weight = n_frames_i),  *)
(*   mean_dis[j] likewise with disord_time.  n_features is taken from the      *)
(*   first trajectory.                                                         *)
(*                                                                             *)
(* assign_order_disorder(rotamer_trajs) -> (disordered_trajs, n_states)        *)
(*   disordered_trajs[i][:, j] = create_disorder_traj(transition_times[i][j],  *)
(*   n_frames_i, mean_ord[j], mean_dis[j]) as int16, shape of trajectory i;    *)
(*   n_states = 2 for every feature (int16).  A trajectory influences another  *)
(*   one only through the two mean times of the same feature.                  *)
(*                                                                             *)
(* cards_matrices(F, nF, n_procs) (definition level, CardsPlumbing): with      *)
(*   (D, nD) = assign_order_disorder(F) the result is                          *)
(*   (MI(F,F,nF,nF), MI(D,D,nD,nD), MI(F,D,nF,nD), MI(D,F,nD,nF)).             *)
(*   The docstring says "Generators are accepted"; the code indexes and takes  *)
(*   len() of the argument and passes it to four consumers: a generator raises *)
(*   TypeError.  Class "cards_matrices-generator-input" (the documented        *)
(*   behaviour is the definition; disabled while in KnownDeviation).           *)
(*   n_procs ("number of cores to use") is accepted and not passed on to       *)
(*   mi_matrix, which has no such parameter: it has no effect (not a clause    *)
(*   here; the plumbing table simply has no n_procs column).                   *)
(*                                                                             *)
(* COMPOSITION WITH Transitions.tla.  transition_stats calls transitions() on  *)
(* one column at a time, i.e. its 1-D branch, for which Transitions.tla proves *)
(* machine = Def (Exact1D, C20).  The pipeline here therefore uses Tr!DefRow,  *)
(* obtained by INSTANCE with Transitions' variables bound to constants.        *)
(*                                                                             *)
(* STRUCTURE.  (1) definition-level operators Def*, (2) transcriptions in      *)
(* operator form Impl* and a step machine per function (Mode selects which     *)
(* one runs: "times", "dtraj", "agg", "pipe"), one action per branch / loop    *)
(* iteration of the code; the pipeline machine calls the Impl* operators of    *)
(* the callees, which the callee machines are proved equal to, (3) invariants: *)
(* machine = transcription = definition (up to the named deviation class) and  *)
(* the laws, (4) EmitInv prints every input in scope with the expected         *)
(* observables for replay into the real functions.  The variable `ref` holds    *)
(* the definition's value for the input (computed in Init, read only by        *)
(* invariants), so that the clauses do not recompute it.                       *)
(* Integers only: times are rationals <<num, den>> (Rational.tla).             *)
EXTENDS Integers, Sequences, FiniteSets, FiniteSetsExt, SequencesExt, TLC, Json, Rational

CONSTANTS Mode,            \* "times" | "dtraj" | "agg" | "pipe": the function whose machine runs
          KnownDeviation,  \* set of deviation-class names that are bound to the transcription instead of the definition
          Emit,
          MaxT,            \* times: tt ranges over all strictly increasing sequences over 0..MaxT
          MinL, MaxL,      \* dtraj: traj_len; pipe (Family "all"): trajectory lengths
          TimeNums, TimeDens,   \* dtraj: ord_time and disord_time range over {a/b : a \in TimeNums, b \in TimeDens}
          Shapes,          \* agg, pipe: set of 10 * n_trajectories + n_features
          MaxTime, TimeDen, MaxW,   \* agg: times[i][j] \in (0..MaxTime)/TimeDen, weights 0..MaxW (not all zero)
          S,               \* pipe: rotamer states 0..S-1
          Family,          \* pipe: "all": every array of states; "long": columns of LongLen frames that alternate
          LongLen,         \*        between 0 and 1 at a subset of LongFrames (reaches disordered segments)
          LongFrames

VARIABLES inp,   \* the arguments of the call (a record, per Mode)
          pc,
          i, j,  \* loop counters of the code
          loc,   \* local variables of the running function (a record)
          out,   \* the returned value
          ref    \* what the DEFINITION says about inp; computed once in Init, never read by an action

vars == <<inp, pc, i, j, loc, out, ref>>

DevSingle == "single-transition-ord-time-is-sum"
DevGenerator == "cards_matrices-generator-input"
DeviationClasses == {DevSingle, DevGenerator}
ASSUME KnownDeviation \subseteq DeviationClasses

(* `transitions` is specified in Transitions.tla; only its definition-level     *)
(* operators are used here, so its variables are instantiated by constants.     *)
Tr == INSTANCE Transitions WITH S <- S, Dim <- 1, MaxR <- 1, MinL <- 1, MaxL <- 1, Ragged <- FALSE,
                                Variant <- "rowwise", NParts <- 1, Part <- 0, Emit <- FALSE,
                                arr <- <<>>, pc <- "done", d <- <<>>, rows <- <<>>, cols <- <<>>,
                                lengths <- <<>>, tt <- <<>>, raised <- FALSE

(* ---- small helpers ----------------------------------------------------------- *)
RECURSIVE SumTo(_, _)
SumTo(q, k) == IF k = 0 THEN 0 ELSE SumTo(q, k - 1) + q[k]
SumSeq(q) == SumTo(q, Len(q))
SortedSeq(set) == SetToSortSeq(set, LAMBDA a, b : a < b)
(* TLC keeps [k \in 1..n |-> e] as an unevaluated function whose body is re-evaluated at every
   application; concatenation with the empty tuple turns it into an explicit tuple *)
Fix(f) == f \o <<>>
Zeros(n) == Fix([f \in 1..n |-> 0])
LastOf(q) == q[Len(q)]
(* np.diff *)
Diff(q) == Fix([k \in 1..(Len(q) - 1) |-> q[k + 1] - q[k]])
Increasing(q) == \A k \in 1..(Len(q) - 1) : q[k] < q[k + 1]

(* ============================================================================ *)
(* (1a) traj_ord_disord_times: definition                                        *)
(* ============================================================================ *)
Events(tt) == {tt[k] : k \in 1..Len(tt)}
StartFrames(tt) == IF tt = <<>> THEN {} ELSE 0..(LastOf(tt) - 1)
NextEvent(tt, f) == Min({t \in Events(tt) : t > f})
RECURSIVE SumWaitsFrom(_, _)       \* sum over the starting frames 0..f of the waiting time until the next event
SumWaitsFrom(tt, f) == IF f < 0 THEN 0 ELSE (NextEvent(tt, f) - f) + SumWaitsFrom(tt, f - 1)

DefOrd(tt) == IF StartFrames(tt) = {} THEN RZero
              ELSE Rat(SumWaitsFrom(tt, LastOf(tt) - 1), Cardinality(StartFrames(tt)))
DefNOrd(tt) == Cardinality(StartFrames(tt))
DefDis(tt) == IF Len(tt) < 2 THEN RZero ELSE Rat(SumSeq(Diff(tt)), Len(tt) - 1)
DefNDis(tt) == IF Len(tt) < 2 THEN 0 ELSE Cardinality(tt[1]..(LastOf(tt) - 1))

ZeroTimes == [ord |-> RZero, n_ord |-> 0, dis |-> RZero, n_dis |-> 0]
DefTimes(tt) == [ord |-> DefOrd(tt), n_ord |-> DefNOrd(tt), dis |-> DefDis(tt), n_dis |-> DefNDis(tt)]

(* (2a) transcription in operator form (the branches as coded) *)
ImplTimes(tt) ==
  LET m == Len(tt) IN
  IF m = 1 THEN LET w == tt[1] IN [ord |-> Rat(w * (w + 1), 2), n_ord |-> w, dis |-> RZero, n_dis |-> 0]
  ELSE IF m > 1 THEN
    LET tbe == Diff(tt)                                     \* time_between_events
        mw == <<tt[1]>> \o tbe                              \* max_waiting_times
        sw2 == Fix([k \in 1..Len(mw) |-> mw[k] * (mw[k] + 1)])   \* 2 * sum_waiting_times
    IN [ord |-> Rat(SumSeq(sw2), 2 * SumSeq(mw)), n_ord |-> tt[m],
        dis |-> Rat(SumSeq(tbe), Len(tbe)), n_dis |-> tt[m] - tt[1]]
  ELSE ZeroTimes

IsDevSingle(tt) == Len(tt) = 1 /\ tt[1] >= 2

(* ============================================================================ *)
(* (1b) the likelihood-ratio rule, decided with integer intervals                *)
(* ============================================================================ *)
LnMax == 128
(* round(10^4 ln k), k = 1..128 *)
Ln4 == <<    0,  6931, 10986, 13863, 16094, 17918, 19459, 20794,
         21972, 23026, 23979, 24849, 25649, 26391, 27081, 27726,
         28332, 28904, 29444, 29957, 30445, 30910, 31355, 31781,
         32189, 32581, 32958, 33322, 33673, 34012, 34340, 34657,
         34965, 35264, 35553, 35835, 36109, 36376, 36636, 36889,
         37136, 37377, 37612, 37842, 38067, 38286, 38501, 38712,
         38918, 39120, 39318, 39512, 39703, 39890, 40073, 40254,
         40431, 40604, 40775, 40943, 41109, 41271, 41431, 41589,
         41744, 41897, 42047, 42195, 42341, 42485, 42627, 42767,
         42905, 43041, 43175, 43307, 43438, 43567, 43694, 43820,
         43944, 44067, 44188, 44308, 44427, 44543, 44659, 44773,
         44886, 44998, 45109, 45218, 45326, 45433, 45539, 45643,
         45747, 45850, 45951, 46052, 46151, 46250, 46347, 46444,
         46540, 46634, 46728, 46821, 46913, 47005, 47095, 47185,
         47274, 47362, 47449, 47536, 47622, 47707, 47791, 47875,
         47958, 48040, 48122, 48203, 48283, 48363, 48442, 48520 >>

Big == 200000      \* 10000 * Big < 2^31

(* floor / ceiling of 10^4 n / dd for 0 <= n, 0 < dd <= Big, n \div dd <= Big; signed variants *)
Floor4(n, dd) == 10000 * (n \div dd) + (10000 * (n % dd)) \div dd
Ceil4(n, dd) == Floor4(n, dd) + (IF (10000 * (n % dd)) % dd = 0 THEN 0 ELSE 1)
FloorS4(n, dd) == IF n >= 0 THEN Floor4(n, dd) ELSE -Ceil4(-n, dd)
CeilS4(n, dd) == IF n >= 0 THEN Ceil4(n, dd) ELSE -Floor4(-n, dd)

(* bounds on 10^4 ln(a/b) for a >= b > 0, a \div b <= LnMax - 1, b <= Big:       *)
(* a/b = (u/v)(1 + dl), u = floor(a v / b), dl = r/(b u), r = a v - b u < b;      *)
(* dl u/(u+1) < dl/(1+dl) <= ln(1+dl) <= dl; c <= 10^4 r/b <= c + 1;              *)
(* the two table entries are off by at most 1/2 each.                            *)
PickV(a, b) == (LnMax * b - 1) \div a        \* the largest v with (a v) \div b <= LnMax - 1; 1 <= v < LnMax
LnLoGE1(a, b) == LET v == PickV(a, b)
                     u == (a * v) \div b
                     c == Floor4(a * v - b * u, b)
                 IN Ln4[u] - Ln4[v] - 1 + (c \div (u + 1))
LnHiGE1(a, b) == LET v == PickV(a, b)
                     u == (a * v) \div b
                     c == Floor4(a * v - b * u, b)
                 IN Ln4[u] - Ln4[v] + 1 + ((c + u) \div u)
InTable(a, b) == /\ a > 0 /\ b > 0 /\ a <= Big /\ b <= Big
                 /\ (IF a >= b THEN a \div b ELSE b \div a) <= LnMax - 1
LnLo(a, b) == IF a >= b THEN LnLoGE1(a, b) ELSE -LnHiGE1(b, a)
LnHi(a, b) == IF a >= b THEN LnHiGE1(a, b) ELSE -LnLoGE1(b, a)

(* sanity of the table and of the interval arithmetic (evaluated once by TLC) *)
ASSUME Len(Ln4) = LnMax /\ Ln4[1] = 0 /\ \A k \in 2..LnMax : Ln4[k] > Ln4[k - 1]
ASSUME \A a, b \in 1..LnMax : a * b <= LnMax => RAbs(Ln4[a * b] - Ln4[a] - Ln4[b]) <= 1
ASSUME \A a, b \in 1..LnMax : InTable(a, b) =>
          /\ LnLo(a, b) <= Ln4[a] - Ln4[b] + 1
          /\ LnHi(a, b) >= Ln4[a] - Ln4[b] - 1
          /\ LnHi(a, b) - LnLo(a, b) <= 8
ASSUME \A k \in 1..(LnMax - 1) : \A c \in {3, 7, 1000} :
          LnLo(k * c, c) <= Ln4[k] /\ Ln4[k] <= LnHi(k * c, c)

(* Decision(s, O, D): 1 = LR(s) >= 3 for certain, 0 = LR(s) < 3 for certain, 2 = cannot tell.    *)
(* O = p/q, D = r/t:  LR(s) >= 3  <=>  ln(p t / (3 q r)) >= s (t p - q r) / (r p).               *)
Decision(s, O, D) ==
  LET p == O[1]
      q == O[2]
      r == D[1]
      t == D[2]
  IN IF ~(p > 0 /\ q > 0 /\ r > 0 /\ t > 0 /\ s > 0) THEN 2
     ELSE IF ~(p <= 20000 /\ q <= 20000 /\ r <= 20000 /\ t <= 20000) THEN 2
     ELSE LET rho == Rat(p * t, 3 * q * r)
              dx == r * p
              df == t * p - q * r
          IN IF ~(InTable(rho[1], rho[2]) /\ dx <= Big /\ SafeProd(s, df)) THEN 2
             ELSE IF RAbs(s * df) \div dx > Big THEN 2
             ELSE IF LnLo(rho[1], rho[2]) >= CeilS4(s * df, dx) THEN 1
             ELSE IF LnHi(rho[1], rho[2]) < FloorS4(s * df, dx) THEN 0
             ELSE 2

(* ============================================================================ *)
(* (1c) create_disorder_traj                                                     *)
(* ============================================================================ *)
(* the segment (index k: [tt[k], tt[k+1]) ) containing the 0-based frame fr, or 0 *)
SegmentOf(tt, fr) == IF \E k \in 1..(Len(tt) - 1) : tt[k] <= fr /\ fr < tt[k + 1]
                     THEN CHOOSE k \in 1..(Len(tt) - 1) : tt[k] <= fr /\ fr < tt[k + 1]
                     ELSE 0
DefDTraj(tt, L, O, D) ==
  Fix([f \in 1..L |-> LET k == SegmentOf(tt, f - 1)
                      IN IF k = 0 THEN 0 ELSE Decision(tt[k + 1] - tt[k], O, D)])

(* traj[a:b] = v (0-based slice, clipped like numpy) *)
WriteSlice(traj, a, b, v) == Fix([f \in 1..Len(traj) |-> IF a <= f - 1 /\ f - 1 < b THEN v ELSE traj[f]])
RECURSIVE ImplSegs(_, _, _, _, _)
ImplSegs(traj, tt, k, O, D) ==
  IF k > Len(tt) - 1 THEN traj
  ELSE LET v == Decision(tt[k + 1] - tt[k], O, D)
       IN ImplSegs(WriteSlice(traj, tt[k], tt[k + 1], v), tt, k + 1, O, D)
ImplDTraj(tt, L, O, D) == IF Len(tt) < 2 THEN Zeros(L) ELSE ImplSegs(Zeros(L), tt, 1, O, D)

(* ============================================================================ *)
(* (1d) aggregate_mean_times; times are tables [1..NT -> [1..NF -> rational]]     *)
(* ============================================================================ *)
DefAgg(times, w, nt, nf) ==
  Fix([f \in 1..nf |-> RDiv(RSumTo([a \in 1..nt |-> RScale(w[a], times[a][f])], nt), RInt(SumTo(w, nt)))])

(* transcription: nl_weight = weight / sum(weight); mean[f] = sum(times[:, f] * nl_weight) *)
ImplAggFeature(times, nlw, nt, f) == RSumTo([a \in 1..nt |-> RMul(times[a][f], nlw[a])], nt)
ImplAgg(times, w, nt, nf) ==
  LET nlw == Fix([a \in 1..nt |-> Rat(w[a], SumTo(w, nt))])
  IN Fix([f \in 1..nf |-> ImplAggFeature(times, nlw, nt, f)])

(* the mean over the trajectories that observed the feature (n_times > 0); NOT what is computed *)
ObserverMean(times, ntimes, w, nt, f) ==
  LET obs == [a \in 1..nt |-> IF ntimes[a][f] > 0 THEN w[a] ELSE 0]
  IN IF SumTo(obs, nt) = 0 THEN RZero
     ELSE RDiv(RSumTo([a \in 1..nt |-> RScale(obs[a], times[a][f])], nt), RInt(SumTo(obs, nt)))

(* ============================================================================ *)
(* (1e) transition_stats / assign_order_disorder on x = sequence of trajectories  *)
(*      (trajectory = sequence of frames, frame = sequence of feature states)     *)
(* ============================================================================ *)
NT(x) == Len(x)
NF(x) == Len(x[1][1])                         \* rotamer_trajs[0].shape[1]
Lens(x) == Fix([a \in 1..NT(x) |-> Len(x[a])])     \* trj_lengths
Col(x, a, f) == Fix([n \in 1..Len(x[a]) |-> x[a][n][f]])
TT(x, a, f) == Tr!DefRow(Col(x, a, f))        \* transitions(rotamer_trajs[a][:, f])

Pipe(x, T(_)) ==
  LET nt == NT(x)
      nf == NF(x)
      lens == Lens(x)
      tts == Fix([a \in 1..nt |-> Fix([f \in 1..nf |-> TT(x, a, f)])])
      tab == Fix([a \in 1..nt |-> Fix([f \in 1..nf |-> T(tts[a][f])])])
      mo == DefAgg([a \in 1..nt |-> [f \in 1..nf |-> tab[a][f].ord]], lens, nt, nf)
      md == DefAgg([a \in 1..nt |-> [f \in 1..nf |-> tab[a][f].dis]], lens, nt, nf)
      cols == Fix([a \in 1..nt |-> Fix([f \in 1..nf |-> DefDTraj(tts[a][f], lens[a], mo[f], md[f])])])
  IN [tt |-> tts, mo |-> mo, md |-> md,
      dt |-> Fix([a \in 1..nt |-> Fix([n \in 1..lens[a] |-> Fix([f \in 1..nf |-> cols[a][f][n]])])]),
      ns |-> Fix([f \in 1..nf |-> 2])]

DefPipe(x) == Pipe(x, DefTimes)
TransPipe(x) == Pipe(x, ImplTimes)       \* the pipeline with traj_ord_disord_times as coded
PipeHasDevSingle(x) == \E a \in 1..NT(x), f \in 1..NF(x) : IsDevSingle(TT(x, a, f))

(* ============================================================================ *)
(* (1f) cards_matrices, definition level: which arguments each mi_matrix call gets *)
(* ============================================================================ *)
CardsPlumbing == << <<"F", "F", "nF", "nF">>,      \* structural_mi
                    <<"D", "D", "nD", "nD">>,      \* disorder_mi
                    <<"F", "D", "nF", "nD">>,      \* struct_to_disorder_mi
                    <<"D", "F", "nD", "nF">> >>    \* disorder_to_struct_mi
CardsContainers == {"list", "tuple"} \cup (IF DevGenerator \in KnownDeviation THEN {} ELSE {"generator"})
ASSUME /\ \A k \in 1..4 : LET c == CardsPlumbing[k]
                          IN /\ c[1] \in {"F", "D"} /\ c[2] \in {"F", "D"}
                             /\ c[3] = "n" \o c[1] /\ c[4] = "n" \o c[2]
       /\ Cardinality({<<CardsPlumbing[k][1], CardsPlumbing[k][2]>> : k \in 1..4}) = 4

(* ============================================================================ *)
(* inputs                                                                        *)
(* ============================================================================ *)
TimeGrid == {Rat(a, b) : a \in TimeNums, b \in TimeDens}

ShapeNT(sh) == sh \div 10
ShapeNF(sh) == sh % 10

AltCol(set, L) == [n \in 1..L |-> Cardinality({t \in set : t < n - 1}) % 2]
LongTraj(sets, nf) == [n \in 1..LongLen |-> [f \in 1..nf |-> AltCol(sets[f], LongLen)[n]]]

Inputs ==
  CASE Mode = "times" -> {[tt |-> SortedSeq(s)] : s \in SUBSET (0..MaxT)}
    [] Mode = "dtraj" -> UNION {{[tt |-> SortedSeq(s), len |-> L, O |-> o, D |-> dd] :
                                    s \in SUBSET (0..(L - 2)), o \in TimeGrid, dd \in TimeGrid} : L \in MinL..MaxL}
    [] Mode = "agg" -> UNION {{[times |-> tm, nt |-> [a \in 1..ShapeNT(sh) |-> [f \in 1..ShapeNF(sh) |-> v * (a + f)]],
                                w |-> w] :
                                  tm \in [1..ShapeNT(sh) -> [1..ShapeNF(sh) -> 0..MaxTime]],
                                  w \in {ww \in [1..ShapeNT(sh) -> 0..MaxW] : SumTo(ww, ShapeNT(sh)) > 0},
                                  v \in {0, 1}} : sh \in Shapes}
    [] Mode = "pipe" ->
         IF Family = "all"
         THEN UNION {{[x |-> x] : x \in [1..ShapeNT(sh) ->
                          UNION {[1..L -> [1..ShapeNF(sh) -> 0..(S - 1)]] : L \in MinL..MaxL}]} : sh \in Shapes}
         ELSE UNION {{[x |-> [a \in 1..ShapeNT(sh) |-> LongTraj(q[a], ShapeNF(sh))]] :
                          q \in [1..ShapeNT(sh) -> [1..ShapeNF(sh) -> SUBSET LongFrames]]} : sh \in Shapes}

AggTimes(r) == Fix([a \in 1..Len(r.times) |-> Fix([f \in 1..Len(r.times[1]) |-> Rat(r.times[a][f], TimeDen)])])

(* ============================================================================ *)
(* (2) the step machines                                                         *)
(* ============================================================================ *)
RefOf(r) == CASE Mode = "times" -> DefTimes(r.tt)
              [] Mode = "dtraj" -> DefDTraj(r.tt, r.len, r.O, r.D)
              [] Mode = "agg" -> DefAgg(AggTimes(r), r.w, Len(r.times), Len(r.times[1]))
              [] Mode = "pipe" -> DefPipe(r.x)

Init == /\ inp \in Inputs
        /\ pc = Mode
        /\ i = 0 /\ j = 0
        /\ loc = [none |-> 0]
        /\ out = [none |-> 0]
        /\ ref = RefOf(inp)

(* ---- traj_ord_disord_times --------------------------------------------------- *)
(* num_transitions == 0: the four initial zeros are returned *)
T_None == /\ pc = "times" /\ Len(inp.tt) = 0
          /\ out' = ZeroTimes /\ pc' = "done"
          /\ UNCHANGED <<ref, inp, i, j, loc>>
(* if num_transitions == 1 *)
T_One == /\ pc = "times" /\ Len(inp.tt) = 1
         /\ LET w == inp.tt[1]
            IN out' = [ord |-> Rat(w * (w + 1), 2), n_ord |-> w, dis |-> RZero, n_dis |-> 0]
         /\ pc' = "done"
         /\ UNCHANGED <<ref, inp, i, j, loc>>
(* elif num_transitions > 1: time_between_events = np.diff(transition_times) *)
T_Diff == /\ pc = "times" /\ Len(inp.tt) > 1
          /\ loc' = [tbe |-> Diff(inp.tt)]
          /\ pc' = "t_dis"
          /\ UNCHANGED <<ref, inp, i, j, out>>
(* disord_time = time_between_events.mean() *)
T_Disord == /\ pc = "t_dis"
            /\ loc' = [tbe |-> loc.tbe, dis |-> Rat(SumSeq(loc.tbe), Len(loc.tbe))]
            /\ pc' = "t_waits"
            /\ UNCHANGED <<ref, inp, i, j, out>>
(* max_waiting_times = [transition_times[0]] + time_between_events *)
T_Waits == /\ pc = "t_waits"
           /\ loc' = [tbe |-> loc.tbe, dis |-> loc.dis, mw |-> <<inp.tt[1]>> \o loc.tbe]
           /\ pc' = "t_ord"
           /\ UNCHANGED <<ref, inp, i, j, out>>
(* sum_waiting_times = mw*(mw+1)/2; ord_time = sum_waiting_times.sum()/mw.sum() *)
T_Ord == /\ pc = "t_ord"
         /\ LET sw2 == [k \in 1..Len(loc.mw) |-> loc.mw[k] * (loc.mw[k] + 1)]
            IN loc' = [tbe |-> loc.tbe, dis |-> loc.dis, mw |-> loc.mw,
                       ord |-> Rat(SumSeq(sw2), 2 * SumSeq(loc.mw))]
         /\ pc' = "t_counts"
         /\ UNCHANGED <<ref, inp, i, j, out>>
(* n_disord = tt[-1] - tt[0]; n_ord = tt[-1]; return *)
T_Counts == /\ pc = "t_counts"
            /\ out' = [ord |-> loc.ord, n_ord |-> LastOf(inp.tt), dis |-> loc.dis,
                       n_dis |-> LastOf(inp.tt) - inp.tt[1]]
            /\ pc' = "done"
            /\ UNCHANGED <<ref, inp, i, j, loc>>

(* ---- create_disorder_traj ---------------------------------------------------- *)
(* traj = np.zeros(traj_len); if num_transitions < 2: return traj *)
D_Few == /\ pc = "dtraj" /\ Len(inp.tt) < 2
         /\ out' = Zeros(inp.len) /\ pc' = "done"
         /\ UNCHANGED <<ref, inp, i, j, loc>>
D_Enter == /\ pc = "dtraj" /\ Len(inp.tt) >= 2
           /\ loc' = [traj |-> Zeros(inp.len)]
           /\ i' = 0 /\ pc' = "d_loop"
           /\ UNCHANGED <<ref, inp, j, out>>
(* one iteration of `for i in range(num_transitions-1)`, one action per branch taken *)
SegStart == inp.tt[i + 1]          \* seg_start = transition_times[i]   (i is 0-based)
SegEnd == inp.tt[i + 2]            \* seg_end = transition_times[i+1]
SegVerdict == Decision(SegEnd - SegStart, inp.O, inp.D)
(* likelihood_ratio >= 3.0: traj[seg_start:seg_end] = 1. *)
D_SegDisordered == /\ pc = "d_loop" /\ i < Len(inp.tt) - 1 /\ SegVerdict = 1
                   /\ loc' = [traj |-> WriteSlice(loc.traj, SegStart, SegEnd, 1)]
                   /\ i' = i + 1
                   /\ UNCHANGED <<ref, inp, pc, j, out>>
(* else: traj[seg_start:seg_end] = 0. *)
D_SegOrdered == /\ pc = "d_loop" /\ i < Len(inp.tt) - 1 /\ SegVerdict = 0
                /\ loc' = [traj |-> WriteSlice(loc.traj, SegStart, SegEnd, 0)]
                /\ i' = i + 1
                /\ UNCHANGED <<ref, inp, pc, j, out>>
(* the integer intervals cannot tell which branch is taken: the frames are marked 2 *)
D_SegEither == /\ pc = "d_loop" /\ i < Len(inp.tt) - 1 /\ SegVerdict = 2
               /\ loc' = [traj |-> WriteSlice(loc.traj, SegStart, SegEnd, 2)]
               /\ i' = i + 1
               /\ UNCHANGED <<ref, inp, pc, j, out>>
D_Return == /\ pc = "d_loop" /\ i = Len(inp.tt) - 1
            /\ out' = loc.traj /\ pc' = "done"
            /\ UNCHANGED <<ref, inp, i, j, loc>>

(* ---- aggregate_mean_times ---------------------------------------------------- *)
ANT == Len(inp.times)
ANF == Len(inp.times[1])
(* mean_times = np.zeros(n_features); nl_weight = weight / np.sum(weight) *)
A_Normalise == /\ pc = "agg"
               /\ loc' = [mean |-> [f \in 1..ANF |-> RZero],
                          nlw |-> [a \in 1..ANT |-> Rat(inp.w[a], SumTo(inp.w, ANT))]]
               /\ i' = 0 /\ pc' = "a_loop"
               /\ UNCHANGED <<ref, inp, j, out>>
(* for i in range(n_features): mean_times[i] = (times[:, i] * nl_weight).sum() *)
A_Feature == /\ pc = "a_loop" /\ i < ANF
             /\ loc' = [loc EXCEPT !.mean[i + 1] = ImplAggFeature(AggTimes(inp), loc.nlw, ANT, i + 1)]
             /\ i' = i + 1
             /\ UNCHANGED <<ref, inp, pc, j, out>>
A_Return == /\ pc = "a_loop" /\ i = ANF
            /\ out' = loc.mean /\ pc' = "done"
            /\ UNCHANGED <<ref, inp, i, j, loc>>

(* ---- assign_order_disorder, which starts by calling transition_stats ---------- *)
PNT == NT(inp.x)
PNF == NF(inp.x)
P_Enter == /\ pc = "pipe"
           /\ loc' = [tts |-> [a \in 1..PNT |-> <<>>],            \* transition_times = []
                      tab |-> [a \in 1..PNT |-> [f \in 1..PNF |-> ZeroTimes]]]   \* the four np.zeros tables
           /\ i' = 1 /\ j' = 1 /\ pc' = "p_stats"
           /\ UNCHANGED <<ref, inp, out>>
(* body of `for i in range(n_traj): for j in range(n_features):` in transition_stats:
   tt = transitions(rotamer_trajs[i][:, j]); transition_times[i].append(tt);
   (ordered_times[i, j], ...) = traj_ord_disord_times(tt) *)
P_StatsCol == /\ pc = "p_stats" /\ i <= PNT
              /\ LET tt == TT(inp.x, i, j)
                 IN loc' = [loc EXCEPT !.tts[i] = Append(@, tt), !.tab[i][j] = ImplTimes(tt)]
              /\ IF j < PNF THEN j' = j + 1 /\ i' = i ELSE j' = 1 /\ i' = i + 1
              /\ UNCHANGED <<ref, inp, pc, out>>
(* trj_lengths; mean_ordered_times = aggregate_mean_times(ordered_times, n_ordered_times, trj_lengths) *)
P_AggOrdered == /\ pc = "p_stats" /\ i > PNT
                /\ loc' = [tts |-> loc.tts, tab |-> loc.tab,
                           mo |-> ImplAgg([a \in 1..PNT |-> [f \in 1..PNF |-> loc.tab[a][f].ord]],
                                          Lens(inp.x), PNT, PNF)]
                /\ pc' = "p_aggd"
                /\ UNCHANGED <<ref, inp, i, j, out>>
(* mean_disordered_times = aggregate_mean_times(disordered_times, n_disordered_times, trj_lengths);
   back in assign_order_disorder: disordered_trajs = [] *)
P_AggDisordered == /\ pc = "p_aggd"
                   /\ loc' = [tts |-> loc.tts, tab |-> loc.tab, mo |-> loc.mo,
                              md |-> ImplAgg([a \in 1..PNT |-> [f \in 1..PNF |-> loc.tab[a][f].dis]],
                                             Lens(inp.x), PNT, PNF),
                              dt |-> <<>>, cur |-> <<>>]
                   /\ i' = 1 /\ j' = 0 /\ pc' = "p_assign"
                   /\ UNCHANGED <<ref, inp, out>>
(* for i in range(len(rotamer_trajs)): dis_traj = np.zeros((traj_len, n_features)) *)
P_AssignTraj == /\ pc = "p_assign" /\ i <= PNT /\ j = 0
                /\ loc' = [loc EXCEPT !.cur = [n \in 1..Len(inp.x[i]) |-> [f \in 1..PNF |-> 0]]]
                /\ j' = 1
                /\ UNCHANGED <<ref, inp, pc, i, out>>
(* for j in range(n_features): dis_traj[:, j] = create_disorder_traj(transition_times[i][j], traj_len,
   mean_ordered_times[j], mean_disordered_times[j]) *)
P_AssignCol == /\ pc = "p_assign" /\ i <= PNT /\ j >= 1 /\ j <= PNF
               /\ LET c == ImplDTraj(loc.tts[i][j], Len(inp.x[i]), loc.mo[j], loc.md[j])
                  IN loc' = [loc EXCEPT !.cur = [n \in 1..Len(@) |-> [@[n] EXCEPT ![j] = c[n]]]]
               /\ j' = j + 1
               /\ UNCHANGED <<ref, inp, pc, i, out>>
(* disordered_trajs.append(dis_traj.astype('int16')) *)
P_AppendTraj == /\ pc = "p_assign" /\ i <= PNT /\ j = PNF + 1
                /\ loc' = [loc EXCEPT !.dt = Append(@, loc.cur)]
                /\ i' = i + 1 /\ j' = 0
                /\ UNCHANGED <<ref, inp, pc, out>>
(* disorder_n_states = 2*np.ones(n_features); return *)
P_Return == /\ pc = "p_assign" /\ i > PNT
            /\ out' = [tt |-> loc.tts, mo |-> loc.mo, md |-> loc.md, dt |-> loc.dt,
                       ns |-> [f \in 1..PNF |-> 2]]
            /\ pc' = "done"
            /\ UNCHANGED <<ref, inp, i, j, loc>>

Next == \/ T_None \/ T_One \/ T_Diff \/ T_Disord \/ T_Waits \/ T_Ord \/ T_Counts
        \/ D_Few \/ D_Enter \/ D_SegDisordered \/ D_SegOrdered \/ D_SegEither \/ D_Return
        \/ A_Normalise \/ A_Feature \/ A_Return
        \/ P_Enter \/ P_StatsCol \/ P_AggOrdered \/ P_AggDisordered \/ P_AssignTraj \/ P_AssignCol
        \/ P_AppendTraj \/ P_Return

Spec == Init /\ [][Next]_vars

(* ============================================================================ *)
(* (3) invariants                                                                *)
(* ============================================================================ *)
Done == pc = "done"
IsRatOK(r) == Reduced(r) /\ Safe(r)

TypeOK == /\ pc \in {"times", "t_dis", "t_waits", "t_ord", "t_counts", "dtraj", "d_loop", "agg", "a_loop",
                     "pipe", "p_stats", "p_aggd", "p_assign", "done"}
          /\ i \in Nat /\ j \in Nat
          /\ Mode \in {"times", "dtraj", "agg", "pipe"}

(* ---- traj_ord_disord_times ---------------------------------------------------- *)
TimesInputOK == Mode = "times" => Increasing(inp.tt) /\ \A k \in 1..Len(inp.tt) : inp.tt[k] >= 0
TimesMachineIsTranscription == (Mode = "times" /\ Done) => out = ImplTimes(inp.tt)
TimesImplIsDefExceptKnown == (Mode = "times" /\ Done) =>
  (out = ref <=> ~IsDevSingle(inp.tt))
(* the deviation is exactly "sum instead of mean": ord is t_1 times the definition's, the rest agrees *)
TimesDeviationIsExactlyTheSum == (Mode = "times" /\ Done /\ IsDevSingle(inp.tt)) =>
  LET e == ref
  IN /\ out.ord = RScale(inp.tt[1], e.ord)
     /\ out.n_ord = e.n_ord /\ out.dis = e.dis /\ out.n_dis = e.n_dis
TimesNonNegative == (Mode = "times" /\ Done) =>
  /\ IsRatOK(out.ord) /\ IsRatOK(out.dis) /\ out.ord[1] >= 0 /\ out.dis[1] >= 0
  /\ out.n_ord >= 0 /\ out.n_dis >= 0
  /\ LET e == ref IN IsRatOK(e.ord) /\ IsRatOK(e.dis) /\ e.ord[1] >= 0 /\ e.dis[1] >= 0
TimesNoTransitions == (Mode = "times" /\ Done /\ inp.tt = <<>>) => out = ZeroTimes /\ DefTimes(<<>>) = ZeroTimes
(* laws of the definition *)
TimesLaws == (Mode = "times" /\ Done) =>
  LET tt == inp.tt
      e == ref
      m == Len(tt)
  IN /\ m >= 2 => /\ e.dis = Rat(LastOf(tt) - tt[1], m - 1)            \* the gaps telescope
                  /\ e.n_ord = e.n_dis + tt[1]
                  /\ RLe(ROne, e.dis)                                   \* consecutive transitions are >= 1 apart
     /\ m >= 1 => e.n_ord = LastOf(tt)
     /\ e.n_ord > 0 =>                                                  \* 1 <= ord <= (longest wait + 1)/2
          LET ws == <<tt[1]>> \o Diff(tt)
              wmax == Max({ws[k] : k \in 1..Len(ws)})
          IN /\ RLe(ROne, e.ord) /\ RLe(e.ord, Rat(wmax + 1, 2))
             \* closed form of the frame sum
             /\ e.ord = Rat(SumSeq([k \in 1..Len(ws) |-> ws[k] * (ws[k] + 1)]), 2 * SumSeq(ws))
     /\ m < 2 => e.dis = RZero /\ e.n_dis = 0
     \* appending a transition right after the last one never changes what happened before:
     \* sum of waits grows by exactly 1 and the number of starting frames by 1
     /\ (m >= 1 /\ LastOf(tt) < MaxT) =>
          LET e2 == DefTimes(Append(tt, LastOf(tt) + 1))
          IN e2.n_ord = e.n_ord + 1 /\ RScale(e2.n_ord, e2.ord) = RAdd(RScale(e.n_ord, e.ord), ROne)

(* ---- create_disorder_traj ------------------------------------------------------ *)
DTrajMachineIsTranscription == (Mode = "dtraj" /\ Done) => out = ImplDTraj(inp.tt, inp.len, inp.O, inp.D)
DTrajIsDef == (Mode = "dtraj" /\ Done) => out = ref
DTrajShape == (Mode = "dtraj" /\ Done) =>
  /\ Len(out) = inp.len
  /\ \A f \in 1..Len(out) : out[f] \in {0, 1, 2}
  /\ \A f \in 1..Len(out) : out[f] = 2 => SegmentOf(inp.tt, f - 1) # 0
DTrajFewTransitions == (Mode = "dtraj" /\ Done /\ Len(inp.tt) < 2) => out = Zeros(inp.len)
DTrajOutsideIsOrdered == (Mode = "dtraj" /\ Done /\ Len(inp.tt) >= 1) =>
  \A f \in 1..inp.len : (f - 1 < inp.tt[1] \/ f - 1 >= LastOf(inp.tt)) => out[f] = 0
DTrajSegmentsConstant == (Mode = "dtraj" /\ Done) =>
  \A f, g \in 1..inp.len : (SegmentOf(inp.tt, f - 1) = SegmentOf(inp.tt, g - 1) /\ SegmentOf(inp.tt, f - 1) # 0)
                            => out[f] = out[g]
(* the rule itself: a disordered verdict needs O > 3 D or O < D; if O > D shorter gaps are disordered
   whenever longer ones are; if O < D the other way round; O = D never *)
DecisionLaws == (Mode = "dtraj" /\ pc = "dtraj" /\ inp.tt = <<>> /\ inp.len = MinL) =>    \* once per (O, D)
  LET O == inp.O
      D == inp.D
  IN /\ \A s \in 1..MaxL : Decision(s, O, D) = 1 => (RLt(RScale(3, D), O) \/ RLt(O, D))
     /\ \A s \in 1..MaxL : O = D => Decision(s, O, D) = 0
     /\ \A s1, s2 \in 1..MaxL : (s1 < s2 /\ RLt(D, O) /\ Decision(s2, O, D) = 1) => Decision(s1, O, D) = 1
     /\ \A s1, s2 \in 1..MaxL : (s1 < s2 /\ RLt(O, D) /\ Decision(s1, O, D) = 1) => Decision(s2, O, D) = 1

(* ---- aggregate_mean_times ------------------------------------------------------ *)
AggMachineIsDef == (Mode = "agg" /\ Done) =>
  /\ out = ImplAgg(AggTimes(inp), inp.w, ANT, ANF)
  /\ out = ref
AggIsWeightedMean == (Mode = "agg" /\ Done) =>
  LET tm == AggTimes(inp)
      pos == {a \in 1..ANT : inp.w[a] > 0}
  IN \A f \in 1..ANF :
       /\ IsRatOK(out[f]) /\ out[f][1] >= 0
       /\ \E a \in pos : RLe(tm[a][f], out[f])              \* between the least and the largest
       /\ \E a \in pos : RLe(out[f], tm[a][f])              \* time of the weighted trajectories
       /\ (\A a, b \in pos : tm[a][f] = tm[b][f]) => \A a \in pos : out[f] = tm[a][f]
       \* defining equation: sum_a w_a (t_a - mean) = 0
       /\ RSumTo([a \in 1..ANT |-> RScale(inp.w[a], RSub(tm[a][f], out[f]))], ANT) = RZero
AggLaws == (Mode = "agg" /\ Done) =>
  LET tm == AggTimes(inp)
      rev == [a \in 1..ANT |-> ANT + 1 - a]
  IN /\ out = DefAgg(tm, [a \in 1..ANT |-> 2 * inp.w[a]], ANT, ANF)                  \* scale of the weights
     /\ out = DefAgg([a \in 1..ANT |-> tm[rev[a]]], [a \in 1..ANT |-> inp.w[rev[a]]], ANT, ANF)   \* order of the trajectories
     /\ \A f \in 1..ANF : out[f] = DefAgg([a \in 1..ANT |-> <<tm[a][f]>>], inp.w, ANT, 1)[1]     \* features do not mix
(* n_times plays no role (the machine never reads inp.nt); stated on the definition for the record *)
AggIgnoresNTimes == (Mode = "agg" /\ Done) =>
  out = RefOf([inp EXCEPT !.nt = <<>>])
(* NOT a property of the code or of its docstring: see the module header.  TLC refutes it, e.g.
   times = <<<<1/2>>, <<0>>>>, weight = <<1, 1>> gives 1/4, the observer mean is 1/2.  In the pipeline
   "time > 0" is "the trajectory saw the feature change" (>= 2 transitions for the disordered time). *)
AggIsMeanOverObservers == (Mode = "agg" /\ Done) =>
  LET tm == AggTimes(inp)
      seen == [a \in 1..ANT |-> [f \in 1..ANF |-> IF inp.times[a][f] > 0 THEN 1 ELSE 0]]
  IN \A f \in 1..ANF : out[f] = ObserverMean(tm, seen, inp.w, ANT, f)

(* ---- the pipeline ---------------------------------------------------------------- *)
PipeInputOK == Mode = "pipe" =>
  /\ PNT >= 1 /\ PNF >= 1
  /\ \A a \in 1..PNT : Len(inp.x[a]) >= 1 /\ \A n \in 1..Len(inp.x[a]) : Len(inp.x[a][n]) = PNF
PipeMachineIsTranscription == (Mode = "pipe" /\ Done) => out = TransPipe(inp.x)
PipeIsDefExceptKnown == (Mode = "pipe" /\ Done) =>
  LET e == ref
  IN /\ ~PipeHasDevSingle(inp.x) => out = e
     /\ out.tt = e.tt /\ out.md = e.md /\ out.ns = e.ns
PipeShape == (Mode = "pipe" /\ Done) =>
  /\ Len(out.tt) = PNT /\ Len(out.dt) = PNT /\ Len(out.mo) = PNF /\ Len(out.md) = PNF /\ Len(out.ns) = PNF
  /\ \A a \in 1..PNT :
       /\ Len(out.tt[a]) = PNF /\ Len(out.dt[a]) = Len(inp.x[a])
       /\ \A n \in 1..Len(inp.x[a]) : /\ Len(out.dt[a][n]) = PNF
                                      /\ \A f \in 1..PNF : out.dt[a][n][f] \in {0, 1, 2} /\ out.dt[a][n][f] <= out.ns[f]
       /\ \A f \in 1..PNF : Increasing(out.tt[a][f]) /\
                            \A k \in 1..Len(out.tt[a][f]) : out.tt[a][f][k] \in 0..(Len(inp.x[a]) - 2)
  /\ \A f \in 1..PNF : IsRatOK(out.mo[f]) /\ IsRatOK(out.md[f]) /\ out.mo[f][1] >= 0 /\ out.md[f][1] >= 0
(* wherever create_disorder_traj reaches the likelihood ratio, both mean times are positive *)
PipeUsedTimesPositive == (Mode = "pipe" /\ Done) =>
  LET e == ref
  IN \A a \in 1..PNT, f \in 1..PNF : Len(out.tt[a][f]) >= 2 =>
        /\ out.mo[f][1] > 0 /\ out.md[f][1] > 0
        /\ e.mo[f][1] > 0 /\ e.md[f][1] > 0
(* a trajectory without transitions in feature f: no transition frames, ordered throughout *)
PipeNoTransitions == (Mode = "pipe" /\ Done) =>
  \A a \in 1..PNT, f \in 1..PNF :
     (\A n \in 1..Len(inp.x[a]) : inp.x[a][n][f] = inp.x[a][1][f]) =>
        /\ out.tt[a][f] = <<>>
        /\ \A n \in 1..Len(inp.x[a]) : out.dt[a][n][f] = 0
(* nothing leaks.  The per-(trajectory, feature) entries of the machine's tables are those of that
   column alone although the loops reuse their locals (out.tt = ref.tt above, and the first clause
   here for the four tables); a feature's results are those of the pipeline run on that feature
   alone; another trajectory acts only through the two mean times of the feature; the order of the
   trajectories is immaterial *)
PipeNoLeak == (Mode = "pipe" /\ Done) =>
  LET x == inp.x
      e == ref
  IN /\ \A a \in 1..PNT, f \in 1..PNF : loc.tab[a][f] = ImplTimes(TT(<<x[a]>>, 1, f))
     /\ PNF > 1 => \A f \in 1..PNF :
          LET xf == [a \in 1..PNT |-> [n \in 1..Len(x[a]) |-> <<x[a][n][f]>>]]
              ef == DefPipe(xf)
          IN /\ ef.mo[1] = e.mo[f] /\ ef.md[1] = e.md[f]
             /\ \A a \in 1..PNT : \A n \in 1..Len(x[a]) : ef.dt[a][n][1] = e.dt[a][n][f]
     /\ \A a \in 1..PNT, f \in 1..PNF :
          LET c == DefDTraj(e.tt[a][f], Len(x[a]), e.mo[f], e.md[f])
          IN \A n \in 1..Len(x[a]) : e.dt[a][n][f] = c[n]
     /\ PNT > 1 => LET rx == [a \in 1..PNT |-> x[PNT + 1 - a]]
                       er == DefPipe(rx)
                   IN er.mo = e.mo /\ er.md = e.md /\ \A a \in 1..PNT : er.dt[a] = e.dt[PNT + 1 - a]
(* a single trajectory: the means are its own times *)
PipeSingleTrajectory == (Mode = "pipe" /\ Done /\ PNT = 1) =>
  LET e == ref
  IN \A f \in 1..PNF : LET t == DefTimes(e.tt[1][f])
                       IN e.mo[f] = t.ord /\ e.md[f] = t.dis

(* ============================================================================ *)
(* (4) emission                                                                  *)
(* ============================================================================ *)
CmpOf(dev) == IF dev # "" /\ dev \in KnownDeviation THEN "i" ELSE "e"

EmitInv == (Emit /\ Done) =>
  CASE Mode = "times" ->
         LET dev == IF IsDevSingle(inp.tt) THEN DevSingle ELSE ""
         IN PrintT(<<"TIMES", ToJson([tt |-> inp.tt, e |-> ref, i |-> out,
                                      dev |-> dev, cmp |-> CmpOf(dev)])>>)
    [] Mode = "dtraj" ->
         PrintT(<<"DTRAJ", ToJson([tt |-> inp.tt, len |-> inp.len, O |-> inp.O, D |-> inp.D,
                                   e |-> ref, i |-> out])>>)
    [] Mode = "agg" ->
         PrintT(<<"AGG", ToJson([times |-> inp.times, den |-> TimeDen, nt |-> inp.nt, w |-> inp.w,
                                 e |-> ref, i |-> out])>>)
    [] Mode = "pipe" ->
         LET dev == IF PipeHasDevSingle(inp.x) THEN DevSingle ELSE ""
             e == ref
         IN PrintT(<<"PIPE", ToJson([x |-> inp.x, tt |-> e.tt, ns |-> e.ns,
                                     e |-> [mo |-> e.mo, md |-> e.md, dt |-> e.dt],
                                     i |-> [mo |-> out.mo, md |-> out.md, dt |-> out.dt],
                                     dev |-> dev, cmp |-> CmpOf(dev)])>>)

(* constant-level records, printed once per run: the plumbing of cards_matrices, and the table and   *)
(* samples of the logarithm intervals (the driver checks them against the float logarithm: that is a *)
(* check of the arithmetic bridge, a failure is a machinery failure)                                 *)
LnSamples == {<<a, b>> \in {1, 2, 3, 7, 19, 100, 127, 155, 997, 8047, 20000, 199999}
                      \X {1, 3, 19, 64, 997, 1999, 20000, 199999} : InTable(a, b)}
ASSUME Emit => PrintT(<<"PLUMB", ToJson([calls |-> CardsPlumbing, containers |-> CardsContainers,
                                         returns |-> <<1, 2, 3, 4>>])>>)
ASSUME Emit => PrintT(<<"LN", ToJson([table |-> Ln4,
                                      samples |-> {<<ab[1], ab[2], LnLo(ab[1], ab[2]), LnHi(ab[1], ab[2])>> :
                                                     ab \in LnSamples}])>>)
=============================================================================
