----------------------------- MODULE Transitions -----------------------------
(* Transition bookkeeping on rotamer state sequences                          *)
(* (enspara.cards.disorder.transitions).  Property C20, second clause:        *)
(* a transition is reported at frame n exactly when frames n and n+1 differ,  *)
(* per trajectory (row); rows without transitions give empty rows and keep    *)
(* their position.                                                            *)
(*                                                                            *)
(* The implementation-shaped part follows the code step by step:              *)
(*   1-D:  d = a[1:] - a[:-1];  tt = np.where(d != 0)[0]                      *)
(*   2-D:  d = a[:, 1:] - a[:, :-1];  rows, columns = ra.where(d != 0)        *)
(*         lengths = np.bincount(rows);  tt = RaggedArray(columns, lengths)   *)
(* Variant selects the transcription: "pinned" is the code above;             *)
(* "minlength" passes minlength = number of rows to bincount; "rowwise"       *)
(* builds the ragged array from one np.where per row.  The RaggedArray        *)
(* constructor cannot be built from empty data with a lengths argument (it    *)
(* raises), which is modelled by the flag `raised`.                           *)
(* The definition-level part is the set {n : s[n] # s[n+1]} per row.          *)
EXTENDS Integers, Sequences, FiniteSets, FiniteSetsExt, SequencesExt, TLC, Json

CONSTANTS S,        \* states 0..S-1
          Dim,      \* 1: one-dimensional input, 2: rows are trajectories
          MaxR,     \* Dim = 2: 1..MaxR rows
          MinL, MaxL,  \* row length MinL..MaxL
          Ragged,   \* Dim = 2: FALSE all rows have one length (ndarray), TRUE rows of
                    \* differing lengths (RaggedArray; equal lengths excluded)
          Variant,  \* "pinned", "minlength", "rowwise"
          NParts, Part,  \* inputs are split into NParts classes by the sum of their entries; this run takes class Part
          Emit

VARIABLES arr,      \* input: sequence of rows (Dim = 1: exactly one row)
          pc,
          d,        \* first differences per row
          rows, cols,   \* flattened coordinates of the non-zero differences (0-based)
          lengths,  \* row lengths handed to the RaggedArray constructor
          tt,       \* result: Dim = 1 a sequence of frames; Dim = 2 a sequence of rows
          raised    \* the constructor raised

vars == <<arr, pc, d, rows, cols, lengths, tt, raised>>

RowsOfLen(l) == [1..l -> 0..(S - 1)]
AnyRow == UNION {RowsOfLen(l) : l \in MinL..MaxL}

Inputs ==
  IF Dim = 1 THEN {<<r>> : r \in AnyRow}
  ELSE IF ~Ragged THEN UNION {[1..n -> RowsOfLen(l)] : n \in 1..MaxR, l \in MinL..MaxL}
  ELSE {x \in UNION {[1..n -> AnyRow] : n \in 2..MaxR} : \E j, k \in DOMAIN x : Len(x[j]) # Len(x[k])}

RECURSIVE SumSeq(_, _)
SumSeq(q, k) == IF k = 0 THEN 0 ELSE SumSeq(q, k - 1) + q[k]
RECURSIVE SumRows(_, _)
SumRows(x, k) == IF k = 0 THEN 0 ELSE SumRows(x, k - 1) + SumSeq(x[k], Len(x[k]))
InPart(x) == NParts = 1 \/ SumRows(x, Len(x)) % NParts = Part

R == Len(arr)

(* ---- definition level ---------------------------------------------------------- *)
DefSet(row) == {n \in 0..(Len(row) - 2) : row[n + 1] # row[n + 2]}   \* 0-based frame n: s[n] # s[n+1]
DefRow(row) == SetToSortSeq(DefSet(row), LAMBDA x, y : x < y)
Def == [k \in 1..R |-> DefRow(arr[k])]

(* number of maximal constant runs of a row *)
Runs(row) == Cardinality({n \in 1..Len(row) : n = 1 \/ row[n] # row[n - 1]})

NoTransitionsAnywhere == \A k \in 1..R : DefSet(arr[k]) = {}
(* rows after the last row that has a transition *)
LastWithTransition == IF NoTransitionsAnywhere THEN 0
                      ELSE Max({k \in 1..R : DefSet(arr[k]) # {}})
TrailingEmpty == R - LastWithTransition

(* ---- helpers for the implementation-shaped part ----------------------------------- *)
RECURSIVE Cat(_, _)
Cat(f, k) == IF k = 0 THEN <<>> ELSE Cat(f, k - 1) \o f[k]

(* np.where on one row of differences: 0-based positions of non-zero entries *)
NonZeroPos(dk) == SelectSeq([n \in 1..Len(dk) |-> n - 1], LAMBDA n : dk[n + 1] # 0)

(* np.bincount(x, minlength=m) *)
Bincount(x, m) ==
  LET top == IF x = <<>> THEN 0 ELSE Max({x[j] : j \in 1..Len(x)}) + 1
      n == IF top > m THEN top ELSE m
  IN [i \in 1..n |-> Cardinality({j \in 1..Len(x) : x[j] = i - 1})]

RECURSIVE SumTo(_, _)
SumTo(ls, k) == IF k = 0 THEN 0 ELSE SumTo(ls, k - 1) + ls[k]

(* RaggedArray(flat, lengths=ls): rows are consecutive pieces of flat *)
Partition(flat, ls) == [k \in 1..Len(ls) |-> SubSeq(flat, SumTo(ls, k - 1) + 1, SumTo(ls, k))]

(* ---- the steps ------------------------------------------------------------------------ *)
Init ==
  /\ arr \in {x \in Inputs : InPart(x)}
  /\ pc = "diff"
  /\ d = <<>> /\ rows = <<>> /\ cols = <<>> /\ lengths = <<>> /\ tt = <<>>
  /\ raised = FALSE

(* d = a[.., 1:] - a[.., :-1] *)
Diff ==
  /\ pc = "diff"
  /\ d' = [k \in 1..R |-> [n \in 1..(Len(arr[k]) - 1) |-> arr[k][n + 1] - arr[k][n]]]
  /\ pc' = IF Variant = "rowwise" /\ Dim = 2 THEN "rowwise" ELSE "where"
  /\ UNCHANGED <<arr, rows, cols, lengths, tt, raised>>

(* np.where / ra.where: coordinates in row-major order *)
Where ==
  /\ pc = "where"
  /\ cols' = Cat([k \in 1..R |-> NonZeroPos(d[k])], R)
  /\ rows' = Cat([k \in 1..R |-> [n \in 1..Len(NonZeroPos(d[k])) |-> k - 1]], R)
  /\ IF Dim = 1 THEN tt' = cols' /\ pc' = "done"
                ELSE tt' = tt /\ pc' = "count"
  /\ UNCHANGED <<arr, d, lengths, raised>>

(* lengths = np.bincount(rows [, minlength]) *)
Count ==
  /\ pc = "count"
  /\ lengths' = Bincount(rows, IF Variant = "minlength" THEN R ELSE 0)
  /\ pc' = "build"
  /\ UNCHANGED <<arr, d, rows, cols, tt, raised>>

(* tt = RaggedArray(columns, lengths=lengths); empty data cannot be given lengths:
   pinned: lengths is empty and lengths[0] raises IndexError; minlength: lengths
   is all zero, the constructor takes the equal-lengths branch and touches the
   data attribute it never set (AttributeError) *)
Build ==
  /\ pc = "build"
  /\ IF cols = <<>> THEN raised' = TRUE /\ tt' = tt
                    ELSE raised' = FALSE /\ tt' = Partition(cols, lengths)
  /\ pc' = "done"
  /\ UNCHANGED <<arr, d, rows, cols, lengths>>

(* proposed replacement: RaggedArray([np.where(r != 0)[0] for r in d]) *)
RowWise ==
  /\ pc = "rowwise"
  /\ tt' = [k \in 1..R |-> NonZeroPos(d[k])]
  /\ pc' = "done"
  /\ UNCHANGED <<arr, d, rows, cols, lengths, raised>>

Next == Diff \/ Where \/ Count \/ Build \/ RowWise

Spec == Init /\ [][Next]_vars

(* ---- properties ---------------------------------------------------------------------------- *)
TypeOK == /\ pc \in {"diff", "where", "count", "build", "rowwise", "done"}
          /\ raised \in BOOLEAN
          /\ Len(rows) = Len(cols)
          /\ Dim = 1 => R = 1

Done == pc = "done"

(* definition sanity: frames are increasing, in range, and split the row into
   one more run than there are transitions *)
DefShape == \A k \in 1..R :
  /\ \A j \in 1..Len(Def[k]) : Def[k][j] \in 0..(Len(arr[k]) - 2)
  /\ \A j \in 1..(Len(Def[k]) - 1) : Def[k][j] < Def[k][j + 1]
  /\ Len(Def[k]) + 1 = Runs(arr[k])

(* the clause itself, on the implementation-shaped result *)
TransitionIffDiffer == (Done /\ ~raised) =>
  IF Dim = 1
  THEN \A n \in 0..(Len(arr[1]) - 2) :
          (\E j \in 1..Len(tt) : tt[j] = n) <=> arr[1][n + 1] # arr[1][n + 2]
  ELSE \A k \in 1..Len(tt) : k <= R /\ \A n \in 0..(Len(arr[k]) - 2) :
          (\E j \in 1..Len(tt[k]) : tt[k][j] = n) <=> arr[k][n + 1] # arr[k][n + 2]

Exact1D == (Done /\ Dim = 1) => ~raised /\ tt = Def[1]

(* 2-D: the rows that are present are exact and in order *)
PrefixExact == (Done /\ Dim = 2 /\ ~raised) =>
  /\ Len(tt) <= R
  /\ \A k \in 1..Len(tt) : tt[k] = Def[k]

(* 2-D: only rows without transitions can be missing, and only at the end *)
DroppedAreEmpty == (Done /\ Dim = 2 /\ ~raised) =>
  \A k \in (Len(tt) + 1)..R : Def[k] = <<>>

(* the constructor failure happens only when no row has a transition *)
RaisesOnlyWithoutTransitions == (Done /\ raised) => NoTransitionsAnywhere

(* rows without transitions keep their position: one result row per input row *)
KeepPosition == (Done /\ Dim = 2 /\ ~raised) => Len(tt) = R

NeverRaises == ~raised

(* ---- emission for replay --------------------------------------------------------------------- *)
EmitInv == (Emit /\ Done) =>
  PrintT(<<"TRANS", ToJson([dim |-> Dim, arr |-> arr,
                            e |-> IF Dim = 1 THEN Def[1] ELSE Def,
                            i |-> tt, raised |-> raised,
                            trailing |-> TrailingEmpty, none |-> NoTransitionsAnywhere])>>)
=============================================================================
