------------------------------ MODULE Committor ------------------------------
(* Forward committors and mean first-passage times                            *)
(* (enspara.tpt.core: _I_m_Q, committors, mfpts).  Property C07.              *)
(*                                                                            *)
(* A chain is an integer matrix A whose row i sums to den[i]; the transition  *)
(* matrix is T[i][j] = A[i][j] / den[i] (den[i] = D for every row in C07;     *)
(* Flux.tla reuses this module with den = row sums of a symmetric matrix).    *)
(* All arithmetic is exact: integers and reduced rationals <<num, den>>.      *)
(*                                                                            *)
(* Implementation-shaped part.  The code builds the n x n matrix I - T,       *)
(* zeroes the columns and the rows of the absorbing states and puts 1 on      *)
(* their diagonal (_I_m_Q), builds a right-hand side, calls a linear solver   *)
(* and post-processes the solution.  The model carries the same objects with  *)
(* row i multiplied by den[i] (an exact row scaling of "I_m_Q x = rhs", which *)
(* does not change x).  The linear solver is modelled by Solve: it works on   *)
(* whatever matrix the previous steps left in IQ -- rows that are unit rows   *)
(* pin their unknown, the remaining <= 4 unknowns are obtained by Cramer's    *)
(* rule -- so a wrong mask gives a wrong (but exactly computed) solution.     *)
(*                                                                            *)
(* Definition-level part.  First-step equations (FirstStep, MFPTFirstStep)    *)
(* and their direct solution on the non-absorbing states only (QDef, MDef1;   *)
(* DESIGN.md A.6).  Irreducibility makes the solution unique.                 *)
(*                                                                            *)
(* States are 1..N here and 0..N-1 in Python.  src and snk are SETS: a printed *)
(* case lists them in increasing order, but every listing of the same sets     *)
(* (any order, any integer container) is the same input with the same expected *)
(* values -- the driver replays each case with several listings.  Chains with  *)
(* about a thousand states: LineChain.tla (closed forms checked against the    *)
(* first-step equations below).                                                *)
EXTENDS Integers, Sequences, FiniteSets, TLC, Json, Rational

CONSTANTS N,        \* number of states
          D,        \* common row sum of A (C07)
          Chains,   \* {} : every irreducible A in scope; else an explicit set of matrices
          Lags,     \* set of lag times <<num, den>> used by the mfpt modes
          Modes,    \* subset of {"committor", "mfpt_sinks", "mfpt_all"}  ("flux": see Flux.tla)
          Part, Parts,  \* the chains are split over Parts TLC processes; this one takes Part (0-based)
          Emit      \* TRUE: print every final state as a CASE line

VARIABLES A, den,          \* the chain
          src, snk,        \* source / sink sets (src = {} in the mfpt modes)
          lag,             \* <<num, den>>; <<1, 1>> until the last step of an mfpt mode draws it
          mode,
          pc,
          R,               \* committors: right-hand sides, N x |snk| integers (scaled by den[i])
          IQ,              \* masked I - T, N x N integers (row i scaled by den[i])
          B,               \* committors: solution columns, N x |snk| rationals
          q,               \* committors (rationals)
          c, t, m,         \* mfpts to a sink set: rhs, unit-lag solution, result
          pi, K, Z, mAll   \* all-pairs mfpts: populations, I - T + W, its inverse, result

cvars == <<A, den, src, snk, lag, mode, pc, R, IQ, B, q, c, t, m, pi, K, Z, mAll>>
cvars_but_pc == <<A, den, src, snk, lag, mode, R, IQ, B, q, c, t, m, pi, K, Z, mAll>>

Idx == 1..N

(* ---- small helpers -------------------------------------------------------- *)
(* TLC represents [x \in S |-> e] lazily and re-evaluates e at every application; *)
(* V forces a function on 1..k into an explicit tuple (semantically the identity). *)
V(f) == f \o <<>>

RECURSIVE SumTo(_, _)
SumTo(f, k) == IF k = 0 THEN 0 ELSE SumTo(f, k - 1) + f[k]
SumSet(S, f) == SumTo(V([k \in Idx |-> IF k \in S THEN f[k] ELSE 0]), N)

RECURSIVE SortedSeq(_)
SortedSeq(S) == IF S = {} THEN <<>>
                ELSE LET x == CHOOSE x \in S : \A y \in S : x <= y
                     IN <<x>> \o SortedSeq(S \ {x})

RECURSIVE LcmSet(_)
LcmSet(S) == IF S = {} THEN 1 ELSE LET x == CHOOSE x \in S : TRUE IN Lcm(x, LcmSet(S \ {x}))

(* explicit determinants, k <= 4 *)
Det1(M) == M[1][1]
Det2(M) == M[1][1] * M[2][2] - M[1][2] * M[2][1]
Det3(M) == M[1][1] * (M[2][2] * M[3][3] - M[2][3] * M[3][2])
         - M[1][2] * (M[2][1] * M[3][3] - M[2][3] * M[3][1])
         + M[1][3] * (M[2][1] * M[3][2] - M[2][2] * M[3][1])
Minor(M, k, r, cc) == V([i \in 1..(k - 1) |-> V([j \in 1..(k - 1) |->
                         M[IF i < r THEN i ELSE i + 1][IF j < cc THEN j ELSE j + 1]])])
Det4(M) == M[1][1] * Det3(Minor(M, 4, 1, 1)) - M[1][2] * Det3(Minor(M, 4, 1, 2))
         + M[1][3] * Det3(Minor(M, 4, 1, 3)) - M[1][4] * Det3(Minor(M, 4, 1, 4))
Det(M, k) == CASE k = 0 -> 1 [] k = 1 -> Det1(M) [] k = 2 -> Det2(M)
               [] k = 3 -> Det3(M) [] k = 4 -> Det4(M)
Repl(M, k, col, b) == V([i \in 1..k |-> V([j \in 1..k |-> IF j = col THEN b[i] ELSE M[i][j]])])
MaxUnknowns == 4

(* Cramer's rule for the k x k integer system Mu x = bu; x as reduced rationals *)
Cramer(Mu, bu, k) == LET d == Det(Mu, k) IN V([u \in 1..k |-> Rat(Det(Repl(Mu, k, u, bu), k), d)])

(* ---- the chain -------------------------------------------------------------- *)
Rows == {r \in [Idx -> 0..D] : SumTo(r, N) = D}

Succ(a, S) == S \cup {j \in Idx : \E i \in S : a[i][j] > 0}
RECURSIVE ReachN(_, _, _)
ReachN(a, S, k) == IF k = 0 THEN S ELSE ReachN(a, Succ(a, S), k - 1)
Irreducible(a) == \A i \in Idx : ReachN(a, {i}, N - 1) = Idx

(* a positional hash of the matrix (Horner, base 31, modulo a prime) spreads the chains *)
(* evenly over the Parts processes                                                       *)
RECURSIVE HornerTo(_, _)
HornerTo(a, k) == IF k = 0 THEN 7
                  ELSE (HornerTo(a, k - 1) * 31 + a[((k - 1) \div N) + 1][((k - 1) % N) + 1]) % 1000003
PartOf(a) == HornerTo(a, N * N) % Parts

Absorbing == IF mode = "mfpt_sinks" THEN snk ELSE src \cup snk

(* ---- implementation-shaped operators ---------------------------------------- *)
(* np.eye(n) - tprob, row i times den[i] *)
IminusT == V([i \in Idx |-> V([j \in Idx |-> (IF i = j THEN den[i] ELSE 0) - A[i][j]])])
ZeroCols(M, S) == V([i \in Idx |-> V([j \in Idx |-> IF j \in S THEN 0 ELSE M[i][j]])])       \* L34
ZeroRows(M, S) == V([i \in Idx |-> V([j \in Idx |-> IF i \in S THEN 0 ELSE M[i][j]])])       \* L35
UnitDiag(M, S) == V([i \in Idx |-> V([j \in Idx |-> IF i \in S /\ j = i THEN den[i] ELSE M[i][j]])])  \* L36
Masked(S) == UnitDiag(ZeroRows(ZeroCols(IminusT, S), S), S)

(* R = tprob[:, sinks]; R[sinks] = 1.0; R[sources] = 0.0   (row i times den[i]) *)
RhsCols == LET ss == SortedSeq(snk)
           IN V([i \in Idx |-> V([k \in 1..Len(ss) |->
                 IF i \in src THEN 0 ELSE IF i \in snk THEN den[i] ELSE A[i][ss[k]]])])

(* c = ones(n); c[sinks] = 0   (row i times den[i]) *)
OnesOffSinks == V([i \in Idx |-> IF i \in snk THEN 0 ELSE den[i]])

(* The linear solver: the x with M x = rhs, for ANY integer matrix M whose     *)
(* non-unit rows number at most MaxUnknowns.  Unit row j (den[j] on the        *)
(* diagonal, 0 elsewhere) pins x[j] = rhs[j] / den[j]; those values are moved  *)
(* to the right-hand side of the other rows (a no-op when the pinned columns   *)
(* were zeroed); the rest is Cramer's rule.  A singular system gives <<0, 0>>. *)
IsUnitRow(M, i) == \A j \in Idx : M[i][j] = IF j = i THEN den[i] ELSE 0
Solve(M, rhs) ==
  LET P  == {i \in Idx : IsUnitRow(M, i)}
      us == SortedSeq(Idx \ P)
      k  == Len(us)
      cp == {j \in P : \E u \in 1..k : M[us[u]][j] # 0}          \* pinned columns still coupled
      L  == LcmSet({den[j] : j \in cp})
      Mu == V([u \in 1..k |-> V([v \in 1..k |-> L * M[us[u]][us[v]]])])
      bu == V([u \in 1..k |-> L * rhs[us[u]]
                            - SumSet(cp, V([j \in Idx |-> M[us[u]][j] * rhs[j] * (L \div den[j])]))])
      x  == Cramer(Mu, bu, k)
      Pos(i) == CHOOSE u \in 1..k : us[u] = i
  IN V([i \in Idx |-> IF i \in P THEN Rat(rhs[i], den[i]) ELSE x[Pos(i)]])

Unknowns(M) == Cardinality({i \in Idx : ~IsUnitRow(M, i)})

(* stationary populations (mfpts(populations=None) -> eq_probs): the left null *)
(* vector of den.I - A is given by its principal minors (Markov-chain tree     *)
(* theorem); PiStationary checks the defining equations                        *)
Stationary ==
  LET L0 == IminusT
      w  == V([j \in Idx |-> den[j] * Det(Minor(L0, N, j, j), N - 1)])
      S  == SumTo(w, N)
  IN V([j \in Idx |-> Rat(w[j], S)])

(* I - T + W with W[i][j] = pi[j], as rationals *)
KMat == V([i \in Idx |-> V([j \in Idx |->
           RAdd(Rat((IF i = j THEN den[i] ELSE 0) - A[i][j], den[i]), pi[j])])])

RMatMul(X, Y) == V([i \in Idx |-> V([j \in Idx |-> RSum(V([k \in Idx |-> RMul(X[i][k], Y[k][j])]))])])
RIdentity == V([i \in Idx |-> V([j \in Idx |-> IF i = j THEN ROne ELSE RZero])])
IsInverse(KK, X) == RMatMul(KK, X) = RIdentity         \* square: one side suffices

(* ---- definition level --------------------------------------------------------- *)
(* direct solution on the non-absorbing states U only (DESIGN.md A.6):            *)
(* (den.I - A)[U,U] x = rhs[U]                                                      *)
CramerOn(U, rhs) ==
  LET us == SortedSeq(U)
      k  == Len(us)
      Mu == V([u \in 1..k |-> V([v \in 1..k |-> (IF u = v THEN den[us[u]] ELSE 0) - A[us[u]][us[v]]])])
      bu == V([u \in 1..k |-> rhs[us[u]]])
      x  == Cramer(Mu, bu, k)
      Pos(i) == CHOOSE u \in 1..k : us[u] = i
  IN V([i \in Idx |-> IF i \in U THEN x[Pos(i)] ELSE RZero])

QDef == LET x == CramerOn(Idx \ (src \cup snk), V([i \in Idx |-> SumSet(snk, A[i])]))
        IN V([i \in Idx |-> IF i \in snk THEN ROne ELSE x[i]])

(* unit-lag mean first-passage times into the set S *)
MDef1(S) == CramerOn(Idx \ S, den)

(* the fundamental matrix written in terms of the first-step mfpts (pi Z = pi and  *)
(* Z[i][j] = Z[j][j] - pi[j] M[i][j]); only used as the WITNESS for "Z is the        *)
(* inverse of I - T + W": FundamentalIsInverse checks K Z = I on the state after Invert *)
ZWitness ==
  LET M1  == V([j \in Idx |-> MDef1({j})])                       \* M1[j][i]: i -> j
      zjj == V([j \in Idx |-> RMul(pi[j], RAdd(ROne, RSum(V([i \in Idx |-> RMul(pi[i], M1[j][i])]))))])
  IN V([i \in Idx |-> V([j \in Idx |-> RSub(zjj[j], RMul(pi[j], M1[j][i]))])])

(* ---- state machine -------------------------------------------------------------- *)
None == <<>>

NonEmptySubsets(S) == SUBSET S \ {{}}

Init ==
  /\ A \in (IF Chains = {} THEN {a \in [Idx -> Rows] : Irreducible(a) /\ PartOf(a) = Part}
                           ELSE {a \in Chains : Irreducible(a)})
  /\ den = V([i \in Idx |-> D])
  /\ mode \in Modes
  /\ snk \in (IF mode = "mfpt_all" THEN {{}} ELSE NonEmptySubsets(Idx))
  /\ src \in (IF mode = "committor" THEN NonEmptySubsets(Idx \ snk) ELSE {{}})
  /\ (IF mode = "mfpt_all" THEN N - 1 ELSE Cardinality(Idx \ (src \cup snk))) <= MaxUnknowns
  /\ lag = <<1, 1>>
  /\ pc = "start"
  /\ R = None /\ IQ = None /\ B = None /\ q = None /\ c = None /\ t = None /\ m = None
  /\ pi = None /\ K = None /\ Z = None /\ mAll = None

(* committors L82-85 *)
BuildR ==
  /\ pc = "start" /\ mode \in {"committor", "flux"}
  /\ R' = RhsCols
  /\ pc' = "mask"
  /\ UNCHANGED <<A, den, src, snk, lag, mode, IQ, B, q, c, t, m, pi, K, Z, mAll>>

(* _I_m_Q L33-36, called with sources+sinks (committors) or sinks (mfpts) *)
MaskAbsorbing ==
  /\ \/ pc = "mask"
     \/ pc = "start" /\ mode = "mfpt_sinks"
  /\ IQ' = Masked(Absorbing)
  /\ pc' = IF mode = "mfpt_sinks" THEN "ones" ELSE "solve"
  /\ UNCHANGED <<A, den, src, snk, lag, mode, R, B, q, c, t, m, pi, K, Z, mAll>>

(* committors L96: B = spsolve(I_m_Q, R), one column per sink *)
SolveColumns ==
  /\ pc = "solve"
  /\ B' = LET ss  == SortedSeq(snk)
              col == V([k \in 1..Len(ss) |-> Solve(IQ, V([i \in Idx |-> R[i][k]]))])
          IN V([i \in Idx |-> V([k \in 1..Len(ss) |-> col[k][i]])])
  /\ pc' = "sum"
  /\ UNCHANGED <<A, den, src, snk, lag, mode, R, IQ, q, c, t, m, pi, K, Z, mAll>>

(* L98: B.reshape(n_states, n_sinks).sum(axis=1) *)
SumSinkColumns ==
  /\ pc = "sum"
  /\ q' = V([i \in Idx |-> RSum(B[i])])
  /\ pc' = "pin"
  /\ UNCHANGED <<A, den, src, snk, lag, mode, R, IQ, B, c, t, m, pi, K, Z, mAll>>

(* L100: committors[sinks] = 1.0 *)
PinSinks ==
  /\ pc = "pin"
  /\ q' = V([i \in Idx |-> IF i \in snk THEN ROne ELSE q[i]])
  /\ pc' = "done"
  /\ UNCHANGED <<A, den, src, snk, lag, mode, R, IQ, B, c, t, m, pi, K, Z, mAll>>

(* mfpts L152-153 *)
BuildOnes ==
  /\ pc = "ones"
  /\ c' = OnesOffSinks
  /\ pc' = "solve_t"
  /\ UNCHANGED <<A, den, src, snk, lag, mode, R, IQ, B, q, t, m, pi, K, Z, mAll>>

(* L154: np.linalg.solve(I_m_Q, c) ... *)
SolveT ==
  /\ pc = "solve_t"
  /\ t' = Solve(IQ, c)
  /\ pc' = "lag"
  /\ UNCHANGED <<A, den, src, snk, lag, mode, R, IQ, B, q, c, m, pi, K, Z, mAll>>

(* ... lagtime * (.)   -- lagtime is an input that no earlier step reads, so the
   model draws it here: same behaviours, half the states *)
ScaleLag ==
  /\ pc = "lag"
  /\ \E l \in Lags : /\ lag' = l
                     /\ m' = V([i \in Idx |-> RMul(l, t[i])])
  /\ pc' = "done"
  /\ UNCHANGED <<A, den, src, snk, mode, R, IQ, B, q, c, t, pi, K, Z, mAll>>

(* mfpts L128-129: populations (None -> eq_probs) *)
Populations ==
  /\ pc = "start" /\ mode = "mfpt_all"
  /\ pi' = Stationary
  /\ pc' = "fund"
  /\ UNCHANGED <<A, den, src, snk, lag, mode, R, IQ, B, q, c, t, m, K, Z, mAll>>

(* L137-138: W = [populations] * n;  np.eye(n) - tprob + W *)
BuildFundamental ==
  /\ pc = "fund"
  /\ K' = KMat
  /\ pc' = "invert"
  /\ UNCHANGED <<A, den, src, snk, lag, mode, R, IQ, B, q, c, t, m, pi, Z, mAll>>

(* L138: Z = np.linalg.inv(.).  The inverse is unique, so the step is "Z' is the
   matrix with K Z' = I"; TLC cannot search for it, the model proposes ZWitness and
   the invariant FundamentalIsInverse verifies K Z = I on the successor state. *)
Invert ==
  /\ pc = "invert"
  /\ Z' = ZWitness
  /\ pc' = "formula"
  /\ UNCHANGED <<A, den, src, snk, lag, mode, R, IQ, B, q, c, t, m, pi, K, mAll>>

(* L139: lagtime * (np.diag(Z) - Z) / W *)
AllPairsFormula ==
  /\ pc = "formula"
  /\ \E l \in Lags :
       /\ lag' = l
       /\ mAll' = V([i \in Idx |-> V([j \in Idx |-> RMul(l, RDiv(RSub(Z[j][j], Z[i][j]), pi[j]))])])
  /\ pc' = "done"
  /\ UNCHANGED <<A, den, src, snk, mode, R, IQ, B, q, c, t, m, pi, K, Z>>

CNext == BuildR \/ MaskAbsorbing \/ SolveColumns \/ SumSinkColumns \/ PinSinks
         \/ BuildOnes \/ SolveT \/ ScaleLag
         \/ Populations \/ BuildFundamental \/ Invert \/ AllPairsFormula
Next == CNext
Spec == Init /\ [][Next]_cvars

(* ---- properties ------------------------------------------------------------------- *)
TypeOK == /\ pc \in {"start", "mask", "solve", "sum", "pin", "ones", "solve_t", "lag",
                     "fund", "invert", "formula", "done"}
          /\ src \cap snk = {}
          /\ \A i \in Idx : SumTo(A[i], N) = den[i]

HasQ == q # None /\ pc = "done"
HasM == mode = "mfpt_sinks" /\ pc = "done"
HasAll == mode = "mfpt_all" /\ pc = "done"
Inter == Idx \ (src \cup snk)

(* the masked system is square-solvable in scope and not singular *)
Solvable == pc \in {"solve", "solve_t"} =>
              /\ Unknowns(IQ) <= MaxUnknowns
              /\ \A i \in Absorbing : IsUnitRow(IQ, i)
              /\ \A i \in Idx \ Absorbing : \A j \in Absorbing : IQ[i][j] = 0

RatOK == /\ (pc \in {"sum", "pin", "done"} /\ B # None => \A i \in Idx : \A k \in DOMAIN B[i] : Safe(B[i][k]))
         /\ (q # None => \A i \in Idx : Safe(q[i]))
         /\ (m # None => \A i \in Idx : Safe(m[i]))
         /\ (pi # None => \A i \in Idx : Safe(pi[i]))
         /\ (mAll # None => \A i, j \in Idx : Safe(mAll[i][j]))

(* committors *)
PinnedSources == HasQ => \A i \in src : q[i] = RZero
PinnedSinks   == HasQ => \A i \in snk : q[i] = ROne
InUnit        == HasQ => \A i \in Idx : RLe(RZero, q[i]) /\ RLe(q[i], ROne)
FirstStep     == HasQ => \A i \in Inter : REq(RScale(den[i], q[i]), RDot(A[i], q))
(* the masked n x n formulation has exactly the solution of the restricted system *)
MaskedEqualsRestricted == HasQ => q = QDef
(* before the columns are summed, column k is the probability of being absorbed in
   sink k first: its own first-step equation on the intermediate states *)
SplitBySink == pc = "sum" =>
  LET ss == SortedSeq(snk)
  IN \A k \in 1..Len(ss) : \A i \in Inter :
       REq(RScale(den[i], B[i][k]),
           RAdd(RInt(A[i][ss[k]]), RSum(V([j \in Idx |-> IF j \in Inter THEN RScale(A[i][j], B[j][k]) ELSE RZero]))))

(* mfpts to a sink set *)
MZeroOnSinks  == HasM => \A i \in snk : m[i] = RZero
MFPTFirstStep == HasM => \A i \in Idx \ snk :
                   REq(RScale(den[i], m[i]), RAdd(RScale(den[i], lag), RDot(A[i], m)))
LagLinear     == HasM => LET m1 == MDef1(snk) IN \A i \in Idx : m[i] = RMul(lag, m1[i])

(* all-pairs mfpts *)
PiStationary == pc = "fund" =>
                  /\ RSum(pi) = ROne
                  /\ \A j \in Idx : RPos(pi[j])
                  /\ \A j \in Idx : REq(pi[j], RSum(V([i \in Idx |-> RMul(pi[i], Rat(A[i][j], den[i]))])))
FundamentalIsInverse == pc = "formula" => IsInverse(K, Z)
(* column s of the all-pairs table = what the sink-set branch computes for {s}:
   lag * Solve(mask({s}), ones off s) -- and that satisfies the first-step equations *)
AllPairsColumn == HasAll =>
  \A s \in Idx :
    LET col == Solve(Masked({s}), V([i \in Idx |-> IF i = s THEN 0 ELSE den[i]]))
    IN \A i \in Idx : mAll[i][s] = RMul(lag, col[i])
AllPairsFirstStep == HasAll =>
  \A s \in Idx : /\ mAll[s][s] = RZero
                 /\ \A i \in Idx \ {s} :
                      REq(RScale(den[i], mAll[i][s]),
                          RAdd(RScale(den[i], lag), RDot(A[i], V([j \in Idx |-> mAll[j][s]]))))

(* ---- emission for replay (direction A) ---------------------------------------------- *)
EmitInv == (Emit /\ pc = "done") =>
  PrintT(<<"CASE", ToJson([n |-> N, D |-> D, A |-> A, mode |-> mode,
                           src |-> SortedSeq(src), snk |-> SortedSeq(snk), lag |-> lag,
                           q |-> q, m |-> m, mAll |-> mAll, pi |-> pi])>>)
=============================================================================
