-------------------------------- MODULE Paths --------------------------------
(* enspara.tpt.path.paths -- property C17, clauses on the sequence of pathways. *)
(*                                                                            *)
(* Implementation-shaped part: the peeling loop transcribed from the code:     *)
(*   net_flux = copy(net_flux); total = net_flux[sources, :].sum()              *)
(*   loop: (path, flux) = top_path(residual)      -- Peel / PeelNone            *)
(*         record; expl += flux/total; counter += 1                             *)
(*         if counter >= num_paths or expl >= flux_cutoff: break -- StopLimit   *)
(*         residual = remove_path(residual, path) -- Subtract / RemoveBn (copy) *)
(* top_path is abstracted by its contract, which WidestPath.tla establishes:    *)
(* Peel may return ANY widest path of the current residual.                     *)
(* Fractions are kept as integers: expl = sum of fluxes, cutoff = cnum/cden.    *)
(*                                                                            *)
(* Definition-level part: the sequence clauses NonIncreasing, SumWithinTotal,   *)
(* ReachesFraction, RespectsNumPaths, CallerMatrixUntouched.                    *)
EXTENDS TptGraph, TLC, SequencesExt

CONSTANTS NN, Srcs, Snks,
          Family,    \* "digraph": every weighting 0..MaxW of Edges
                     \* "dagflow": sums of path flows (multiplicity 0..MaxW per
                     \*            source->sink path of the acyclic edge set Edges)
                     \* "random-digraph" / "random-dagflow": the same families sampled
                     \*            with RandomElement in a first step (only for
                     \*            TLC -simulate: one random input per behaviour)
          Edges, MaxW,
          Schemes,   \* subset of {"subtract", "bottleneck"}
          NumPaths,  \* set of num_paths values, None = unbounded
          Cutoffs    \* set of <<cnum, cden, st>> (st = 1: just above cnum/cden)

None == 1000000

VARIABLES caller,    \* the caller's matrix object
          W0,        \* ghost: its value at the call
          tptflow,   \* ghost: W0 is a conserved acyclic flow (TptGraph!TPTFlow)
          net,       \* the local residual
          scheme, numpaths, cutoff,
          total, paths, fluxes, counter, expl,
          pc

vars == <<caller, W0, tptflow, net, scheme, numpaths, cutoff, total, paths, fluxes, counter, expl, pc>>

S == Rng(Srcs)
T == Rng(Snks)

Mat(f) == [i \in 1..NN |-> [j \in 1..NN |->
             IF <<i - 1, j - 1>> \in Edges THEN f[<<i - 1, j - 1>>] ELSE 0]]

(* conserved acyclic flows: every such flow is a sum of path flows *)
UnitMat == Mat([e \in Edges |-> 1])
DagPaths == STPaths(UnitMat, S, T)
FlowOf(mult) ==
  LET ps == SetToSeq(DagPaths)
  IN [i \in 1..NN |-> [j \in 1..NN |->
        SumSeq([k \in 1..Len(ps) |-> IF OnPath(ps[k], i - 1, j - 1) THEN mult[ps[k]] ELSE 0])]]

Inputs == IF Family = "digraph" THEN {Mat(f) : f \in [Edges -> 0..MaxW]}
          ELSE IF Family = "dagflow" THEN {FlowOf(m) : m \in [DagPaths -> 0..MaxW]}
          ELSE {<<>>}

Sampled == Family \in {"random-digraph", "random-dagflow"}

Init ==
  /\ caller \in Inputs
  /\ W0 = caller
  /\ tptflow = (~Sampled /\ TPTFlow(caller, S, T))
  /\ net = <<>>
  /\ scheme \in Schemes
  /\ numpaths \in NumPaths
  /\ cutoff \in Cutoffs
  /\ total = 0
  /\ paths = <<>> /\ fluxes = <<>>
  /\ counter = 0 /\ expl = 0
  /\ pc = IF Sampled THEN "gen" ELSE "start"

(* simulation only: draw the caller's matrix at random *)
Gen ==
  /\ pc = "gen"
  /\ caller' = IF Family = "random-digraph"
                THEN Mat([e \in Edges |-> RandomElement(0..MaxW)])
                ELSE FlowOf([p \in DagPaths |-> RandomElement(0..MaxW)])
  /\ W0' = caller'
  /\ tptflow' = TPTFlow(caller', S, T)
  /\ pc' = "start"
  /\ UNCHANGED <<net, scheme, numpaths, cutoff, total, paths, fluxes, counter, expl>>

(* net_flux = copy.copy(net_flux); total_flux = net_flux[sources, :].sum() *)
Start ==
  /\ pc = "start"
  /\ net' = caller
  /\ total' = TotalOut(caller, Srcs)
  /\ pc' = "loop"
  /\ UNCHANGED <<caller, W0, tptflow, scheme, numpaths, cutoff, paths, fluxes, counter, expl>>

(* top_path found no path: flux is -inf, np.isinf -> break *)
PeelNone ==
  /\ pc = "loop" /\ ~HasPath(net, S, T)
  /\ pc' = "done"
  /\ UNCHANGED <<caller, W0, tptflow, net, scheme, numpaths, cutoff, total, paths, fluxes, counter, expl>>

(* any widest path of the residual; its flux is its bottleneck *)
Peel ==
  /\ pc = "loop"
  /\ \E p \in OptPaths(net, S, T) :
       /\ paths' = Append(paths, p)
       /\ fluxes' = Append(fluxes, Bottleneck(net, p))
       /\ expl' = expl + Bottleneck(net, p)
  /\ counter' = counter + 1
  /\ pc' = "check"
  /\ UNCHANGED <<caller, W0, tptflow, net, scheme, numpaths, cutoff, total>>

(* a cutoff <<cnum, cden, st>>: the fraction cnum/cden itself (st = 0), or a value just above it (st = 1),
   which the explained fraction reaches only by exceeding cnum/cden -- "within rounding of the cutoff" is
   not "reached" *)
Reached(e) == IF cutoff[3] = 1 THEN e * cutoff[2] > cutoff[1] * total ELSE e * cutoff[2] >= cutoff[1] * total
LimitReached == counter >= numpaths \/ Reached(expl)

StopLimit ==
  /\ pc = "check" /\ LimitReached
  /\ pc' = "done"
  /\ UNCHANGED <<caller, W0, tptflow, net, scheme, numpaths, cutoff, total, paths, fluxes, counter, expl>>

(* remove_path returns a modified COPY, which replaces the local residual *)
Subtract ==
  /\ pc = "check" /\ ~LimitReached /\ scheme = "subtract"
  /\ net' = SubtractPath(net, LastOf(paths))
  /\ pc' = "loop"
  /\ UNCHANGED <<caller, W0, tptflow, scheme, numpaths, cutoff, total, paths, fluxes, counter, expl>>

RemoveBn ==
  /\ pc = "check" /\ ~LimitReached /\ scheme = "bottleneck"
  /\ net' = RemoveBottleneck(net, LastOf(paths))
  /\ pc' = "loop"
  /\ UNCHANGED <<caller, W0, tptflow, scheme, numpaths, cutoff, total, paths, fluxes, counter, expl>>

(* TLC checks deadlock freedom: the loop always ends in "done" *)
Terminated == pc = "done" /\ UNCHANGED vars

Step == Gen \/ Start \/ PeelNone \/ Peel \/ StopLimit \/ Subtract \/ RemoveBn   \* (-simulate uses this)
Next == Step \/ Terminated

Spec == Init /\ [][Next]_vars

(* ---- properties --------------------------------------------------------------- *)
TypeOK == pc \in {"gen", "start", "loop", "check", "done"}

Started  == pc \notin {"gen", "start"}
IsTPTFlow == tptflow

NonIncreasing == \A k \in 1..(Len(fluxes) - 1) : fluxes[k + 1] <= fluxes[k]

SumOK == Started => SumSeq(fluxes) <= total

(* SumWithinTotal, split by the class of input so that the classes can be      *)
(* decided separately                                                          *)
SumWithinTotal_Subtract             == scheme = "subtract" => SumOK
SumWithinTotal_BottleneckConserved  == (scheme = "bottleneck" /\ IsTPTFlow) => SumOK
SumWithinTotal_BottleneckNonConserved == (scheme = "bottleneck" /\ ~IsTPTFlow) => SumOK

(* conserved flow, subtract scheme, no path-count limit: the loop ends only     *)
(* when the requested fraction is explained                                     *)
ReachesFraction ==
  (pc = "done" /\ scheme = "subtract" /\ IsTPTFlow /\ numpaths = None /\ total > 0)   \* (no flux: the fraction is 0/0)
     => Reached(expl)

RespectsNumPaths == Len(paths) <= numpaths /\ counter = Len(paths) /\ Len(fluxes) = Len(paths)

CallerMatrixUntouched == caller = W0

(* no early stop: the loop ends at a limit or when no path is left *)
StopsForAReason ==
  pc = "done" => (counter >= numpaths \/ Reached(expl)
                  \/ ~HasPath(net, S, T))
(* no path is peeled once a limit has been reached *)
NoOvershoot ==
  \A k \in 1..(Len(fluxes) - 1) :
     k < numpaths /\ ~Reached(SumSeq(SubSeq(fluxes, 1, k)))

(* supporting facts *)
ResidualWithinOriginal == Started => (NonNegMat(net) /\ LeqMat(net, W0))
(* hence every reported pathway is a real pathway of the caller's matrix *)
PathsRealInOriginal ==
  \A k \in 1..Len(paths) :
     /\ IsSimpleST(W0, S, T, paths[k]) /\ AlongPositive(W0, paths[k])
     /\ fluxes[k] <= Bottleneck(W0, paths[k]) /\ fluxes[k] > 0
(* subtracting a path flow keeps a conserved flow conserved (why ReachesFraction holds) *)
SubtractKeepsConservation ==
  (Started /\ scheme = "subtract" /\ IsTPTFlow) => TPTFlow(net, S, T)
ExpIsSum == expl = SumSeq(fluxes)
=============================================================================
