------------------------------ MODULE LineFlux ------------------------------
(* Property C08 on the chains of LineChain.tla: LARGE reversible chains, and   *)
(* small ones with parameters of very different MAGNITUDE (an edge of weight    *)
(* 1 000 000 next to edges of weight 1: two fluxes that agree to 2e-6 of their  *)
(* size and whose difference is the whole net flux; a state of weight 2 between *)
(* basins of weight 1e8: net fluxes of 1e-9).  Exact values need more than 32   *)
(* bits there: all values are rationals over BigNat.                            *)
(*                                                                              *)
(* The steps continue from the state in which LineChain put the committors      *)
(* into q (checked there against the first-step equations), one per statement   *)
(* of reactive_fluxes / net_fluxes / reactive_populations, on the three         *)
(* diagonals of the matrix (everything else is zero because T is zero there;    *)
(* the main diagonal is set to zero by the code):                               *)
(*    fu[i] = flux i -> i+1,  fd[i] = flux i+1 -> i,  nu / nd the net fluxes.   *)
(*                                                                              *)
(* Populations.  The caller hands in  pops = pscale * pi  with pi = den/Total   *)
(* stationary (pscale = 1: the stationary PROBABILITIES, which is also what     *)
(* populations=None makes the code compute).  Fluxes and net fluxes are         *)
(* homogeneous of degree one in the populations and reactive populations of     *)
(* degree zero:                                                                 *)
(*    reactive_fluxes(T, A, B, c.p) = c . reactive_fluxes(T, A, B, p),          *)
(*    net_fluxes likewise,  reactive_populations(T, A, B, c.p) = (same).        *)
(* ScalingLaw checks this for every case (c = pscale), and the cases with       *)
(* pscale = 1 / 2^30 put ALL fluxes below 1e-8 exactly.  The driver of the      *)
(* small exhaustive scopes of Flux.tla applies the same law with c = 2^-30      *)
(* (an exact scaling in binary floating point) to the values printed there.     *)
EXTENDS LineChain

CONSTANT EmitF

VARIABLES pops,     \* populations handed to the code
          qm,       \* reverse committors
          fu, fd,   \* reactive fluxes on the two off-diagonals
          nu, nd,   \* net fluxes
          dens,     \* populations x forward x reverse committor
          tot,      \* their sum
          rp        \* reactive populations (None: 0/0, no state has 0 < q+ < 1)

fvars == <<pops, qm, fu, fd, nu, nd, dens, tot, rp>>
vars == <<lvars, fvars>>

PScale == BR(cs.pscale[1], cs.pscale[2])
EdgeIdx == 1..(N - 1)

FInit == LInit /\ pops = None /\ qm = None /\ fu = None /\ fd = None /\ nu = None /\ nd = None
               /\ dens = None /\ tot = None /\ rp = None

(* _get_data_from_tprob: populations, forward committors (q), reverse = 1 - forward *)
GetData ==
  /\ pc = "f_data"
  /\ pops' = V([i \in Idx |-> BRMul(PScale, Pi(i))])
  /\ qm' = V([i \in Idx |-> BRCompl(q[i])])
  /\ pc' = "f_flux"
  /\ UNCHANGED <<lvars_but_pc, fu, fd, nu, nd, dens, tot, rp>>

(* flux from i to j for populations p(.): T[i][j] scaled by (p q-)[i], then by q+[j] *)
FluxOf(p(_), i, j) == BRMul(BRMul(Tr(i, j), BRMul(p(i), qm[i])), q[j])
Given(i) == pops[i]

(* reactive_fluxes: tprob * (populations * reverse)[:, None] * forward, diagonal zeroed *)
Fluxes ==
  /\ pc = "f_flux"
  /\ fu' = V([i \in EdgeIdx |-> FluxOf(Given, i, i + 1)])
  /\ fd' = V([i \in EdgeIdx |-> FluxOf(Given, i + 1, i)])
  /\ pc' = "f_net"
  /\ UNCHANGED <<lvars_but_pc, pops, qm, nu, nd, dens, tot, rp>>

PosPart(x, y) == IF BRLt(y, x) THEN BRSub(x, y) ELSE BRZero       \* max(x - y, 0)

(* net_fluxes: fluxes - fluxes.T, negative entries set to zero *)
NetPositivePart ==
  /\ pc = "f_net"
  /\ nu' = V([i \in EdgeIdx |-> PosPart(fu[i], fd[i])])
  /\ nd' = V([i \in EdgeIdx |-> PosPart(fd[i], fu[i])])
  /\ pc' = "f_pops"
  /\ UNCHANGED <<lvars_but_pc, pops, qm, fu, fd, dens, tot, rp>>

(* sum of the rationals x[i], i in lo..hi; entries between two consecutive absorbing states   *)
(* share their denominator, so the sum is formed gap by gap (BRAdd adds numerators there) and *)
(* the few gap sums are added at the end                                                      *)
RangeSum(x, lo, hi) == IF lo > hi THEN BRZero
                       ELSE FoldLeft(LAMBDA acc, y : BRAdd(acc, y), BRZero, SubSeq(x, lo, hi))
GapBounds == LET z == Sorted(src \cup snk) IN <<0>> \o z \o <<N + 1>>
SumOverStates(x) ==
  LET gb == GapBounds
      gs == V([k \in 1..(Len(gb) - 1) |-> RangeSum(x, gb[k] + 1, gb[k + 1] - 1)])
  IN FoldLeft(LAMBDA acc, y : BRAdd(acc, y), BRZero, gs)
(* (absorbing states have q+ q- = 0 and are left out of the sum) *)

DensityOf(p(_), i) == BRMul(p(i), BRMul(q[i], qm[i]))

(* reactive_populations: densities = populations * forward * reverse ... *)
Densities ==
  /\ pc = "f_pops"
  /\ dens' = V([i \in Idx |-> DensityOf(Given, i)])
  /\ pc' = "f_total"
  /\ UNCHANGED <<lvars_but_pc, pops, qm, fu, fd, nu, nd, tot, rp>>

(* ... np.sum(densities) ... *)
TotalDensity ==
  /\ pc = "f_total"
  /\ tot' = SumOverStates(dens)
  /\ pc' = "f_norm"
  /\ UNCHANGED <<lvars_but_pc, pops, qm, fu, fd, nu, nd, dens, rp>>

(* ... densities / sum *)
ReactivePops ==
  /\ pc = "f_norm"
  /\ rp' = IF BRIsZero(tot) THEN None ELSE V([i \in Idx |-> BRDiv(dens[i], tot)])
  /\ pc' = "fdone"
  /\ UNCHANGED <<lvars_but_pc, pops, qm, fu, fd, nu, nd, dens, tot>>

FNext == (LNext /\ UNCHANGED fvars) \/ GetData \/ Fluxes \/ NetPositivePart
         \/ Densities \/ TotalDensity \/ ReactivePops
FSpec == FInit /\ [][FNext]_vars

(* ---- properties ---------------------------------------------------------------------- *)
HasFlux == fu # None
HasNet  == nu # None

(* reverse committor = 1 - forward is the backward committor of the reversible chain *)
BackwardFirstStep == qm # None =>
  /\ \A i \in src : BREq(qm[i], BROne)
  /\ \A i \in snk : BRIsZero(qm[i])
  /\ \A i \in Inter : BREq(BRScale(Den(i), qm[i]), Lin3(i, qm))

(* definition: population x backward committor x transition probability x forward committor *)
FluxDef == HasFlux => \A i \in EdgeIdx :
  /\ BREq(fu[i], BRMul(BRMul(pops[i], qm[i]), BRMul(Tr(i, i + 1), q[i + 1])))
  /\ BREq(fd[i], BRMul(BRMul(pops[i + 1], qm[i + 1]), BRMul(Tr(i + 1, i), q[i])))

NetDef == HasNet => \A i \in EdgeIdx :
  /\ (BRLt(fd[i], fu[i]) => BREq(BRAdd(nu[i], fd[i]), fu[i]) /\ BRIsZero(nd[i]))
  /\ (BRLt(fu[i], fd[i]) => BREq(BRAdd(nd[i], fu[i]), fd[i]) /\ BRIsZero(nu[i]))
  /\ (BREq(fu[i], fd[i]) => BRIsZero(nu[i]) /\ BRIsZero(nd[i]))
NetOneDirection == HasNet => \A i \in EdgeIdx : BRIsZero(nu[i]) \/ BRIsZero(nd[i])

Inflow(i)  == BRAdd(IF i > 1 THEN nu[i - 1] ELSE BRZero, IF i < N THEN nd[i] ELSE BRZero)
Outflow(i) == BRAdd(IF i > 1 THEN nd[i - 1] ELSE BRZero, IF i < N THEN nu[i] ELSE BRZero)
SourcesOut == FoldLeft(LAMBDA acc, i : BRAdd(acc, Outflow(i)), BRZero, Sorted(src))
SinksIn    == FoldLeft(LAMBDA acc, i : BRAdd(acc, Inflow(i)), BRZero, Sorted(snk))

Conservation       == HasNet => \A i \in Inter : BREq(Inflow(i), Outflow(i))
NoInflowToSources  == HasNet => \A i \in src : BRIsZero(Inflow(i))
NoOutflowFromSinks == HasNet => \A i \in snk : BRIsZero(Outflow(i))
SourceOutEqSinkIn  == HasNet => BREq(SourcesOut, SinksIn)
(* some flux is carried whenever a source and a sink are consecutive absorbing states *)
Reactive == \E a \in src, b \in snk : \A x \in src \cup snk : ~(x > MinOf({a, b}) /\ x < MaxOf({a, b}))
SomeFlux == HasNet => (Reactive <=> ~BRIsZero(SourcesOut))

PopsProbability == (pc = "fdone" /\ rp # None) =>
  /\ BREq(SumOverStates(rp), BROne)
  /\ \A i \in src \cup snk : BRIsZero(rp[i])
PopsDefinedIffReactive == pc = "fdone" =>
  ((rp # None) <=> (\E i \in Idx : ~BRIsZero(q[i]) /\ ~BRIsZero(qm[i])))

(* homogeneity in the populations: every flux, net flux and density is PScale times the one of the stationary  *)
(* probabilities (degree one); the reactive populations are densities / their sum, so the scale cancels (degree  *)
(* zero): rp = PScale d1 / sum(PScale d1) = d1 / sum(d1)                                                       *)
ScalingLaw == pc = "fdone" =>
  /\ \A i \in EdgeIdx : /\ BREq(fu[i], BRMul(PScale, FluxOf(Pi, i, i + 1)))
                        /\ BREq(fd[i], BRMul(PScale, FluxOf(Pi, i + 1, i)))
                        /\ BREq(nu[i], BRMul(PScale, PosPart(FluxOf(Pi, i, i + 1), FluxOf(Pi, i + 1, i))))
                        /\ BREq(nd[i], BRMul(PScale, PosPart(FluxOf(Pi, i + 1, i), FluxOf(Pi, i, i + 1))))
  /\ \A i \in Idx : BREq(dens[i], BRMul(PScale, DensityOf(Pi, i)))
  /\ (rp # None => \A i \in Idx : BREq(BRMul(rp[i], tot), dens[i]))

(* ---- emission for replay -------------------------------------------------------------- *)
EmitFInv == (EmitF /\ pc = "fdone") =>
  PrintT(<<"CASE", ToJson([family |-> "line", id |-> cs.id, n |-> N, mode |-> mode, w |-> w, s |-> s,
                           src |-> Sorted(src), snk |-> Sorted(snk), pscale |-> cs.pscale,
                           q |-> q, pi |-> V([i \in Idx |-> Pi(i)]), pops |-> pops,
                           fu |-> fu, fd |-> fd, nu |-> nu, nd |-> nd, rp |-> rp])>>)
=============================================================================
