------------------------------ MODULE TptGraph ------------------------------
(* Constant-free graph vocabulary shared by WidestPath, Paths and Trace_Paths *)
(* (property C17, enspara/tpt/path.py).                                        *)
(*                                                                            *)
(* A net-flux matrix M is a sequence of n rows of n non-negative integers;     *)
(* nodes are the Python indices 0..n-1, so entry (i,j) is M[i+1][j+1].         *)
(* Source and sink lists are sequences of nodes (the code receives lists).     *)
(* A path is a sequence of nodes.  +inf / -inf are the integer sentinels       *)
(* Inf / NegInf (weights are far below them).                                  *)
EXTENDS Integers, Sequences, FiniteSets

Inf    == 1000000
NegInf == -1000000

NodesOf(M)  == 0..(Len(M) - 1)
At(M, i, j) == M[i + 1][j + 1]
Rng(s)    == {s[k] : k \in 1..Len(s)}
LastOf(p)   == p[Len(p)]

MaxOf(S) == CHOOSE x \in S : \A y \in S : y <= x
MinOf(S) == CHOOSE x \in S : \A y \in S : x <= y

RECURSIVE SumSeq(_)
SumSeq(s) == IF s = <<>> THEN 0 ELSE Head(s) + SumSeq(Tail(s))

(* ---- definition level: simple paths and their bottlenecks ----------------- *)
Succ(M, u) == {v \in NodesOf(M) : At(M, u, v) > 0}

RECURSIVE Grow(_, _, _)
(* closure of a set of simple paths under extension by one positive edge to a *)
(* node not yet on the path                                                   *)
Grow(M, frontier, acc) ==
  IF frontier = {} THEN acc
  ELSE LET next == UNION {{Append(p, v) : v \in Succ(M, LastOf(p)) \ Rng(p)} : p \in frontier}
       IN Grow(M, next, acc \cup next)

(* every simple path along positive edges that starts in the node set S *)
SimplePathsFrom(M, S) == LET P1 == {<<s>> : s \in S} IN Grow(M, P1, P1)

(* ... and ends in T, with at least one edge *)
STPaths(M, S, T) == {p \in SimplePathsFrom(M, S) : Len(p) >= 2 /\ LastOf(p) \in T}

EdgeVals(M, p)   == [k \in 1..(Len(p) - 1) |-> At(M, p[k], p[k + 1])]
Bottleneck(M, p) == MinOf(Rng(EdgeVals(M, p)))

HasPath(M, S, T) == STPaths(M, S, T) # {}
Best(M, S, T)    == MaxOf({Bottleneck(M, p) : p \in STPaths(M, S, T)})
OptPaths(M, S, T) ==
  LET ps == STPaths(M, S, T)
  IN IF ps = {} THEN {}
     ELSE LET b == MaxOf({Bottleneck(M, p) : p \in ps}) IN {p \in ps : Bottleneck(M, p) = b}

(* the four per-path clauses of the property, on an arbitrary (path, flux)    *)
IsSimpleST(M, S, T, p) ==
  /\ Len(p) >= 2
  /\ \A k \in 1..Len(p) : p[k] \in NodesOf(M)
  /\ \A a, b \in 1..Len(p) : a # b => p[a] # p[b]
  /\ p[1] \in S /\ LastOf(p) \in T
AlongPositive(M, p) == \A k \in 1..(Len(p) - 1) : At(M, p[k], p[k + 1]) > 0
FluxIsMin(M, p, f)  == f = Bottleneck(M, p)

(* ---- an equivalent definition that scales: thresholded reachability -------- *)
(* a path of bottleneck >= w exists iff a sink is reachable through edges of   *)
(* weight >= w.  WidestPath.tla has TLC confirm Best = BestT on every graph in *)
(* scope; Trace_Paths uses BestT where enumeration of all simple paths is too  *)
(* expensive (n > 5).                                                          *)
RECURSIVE ReachFix(_, _, _)
ReachFix(M, w, R) ==
  LET R2 == R \cup {v \in NodesOf(M) : \E u \in R : At(M, u, v) >= w}
  IN IF R2 = R THEN R ELSE ReachFix(M, w, R2)

(* nodes reachable from S by at least one edge of weight >= w *)
ReachPlus(M, w, S) == ReachFix(M, w, {v \in NodesOf(M) : \E u \in S : At(M, u, v) >= w})

PosWeights(M)     == {At(M, i, j) : i, j \in NodesOf(M)} \ {0}
FeasibleW(M, S, T) == {w \in PosWeights(M) : ReachPlus(M, w, S) \cap T # {}}
HasPathT(M, S, T) == FeasibleW(M, S, T) # {}
BestT(M, S, T)    == MaxOf(FeasibleW(M, S, T))

(* ---- path removal (transcribed from _subtract_path_flux/_remove_bottleneck) *)
FirstMinIndex(vals) ==                         \* numpy argmin: first occurrence
  LET m == MinOf(Rng(vals)) IN MinOf({k \in 1..Len(vals) : vals[k] = m})

SetEdge(M, u, v, x) ==
  [i \in 1..Len(M) |-> [j \in 1..Len(M) |-> IF i = u + 1 /\ j = v + 1 THEN x ELSE M[i][j]]]

OnPath(p, u, v) == \E k \in 1..(Len(p) - 1) : p[k] = u /\ p[k + 1] = v

RemoveBottleneck(M, p) ==
  LET b == FirstMinIndex(EdgeVals(M, p)) IN SetEdge(M, p[b], p[b + 1], 0)

SubtractPath(M, p) ==
  LET f  == Bottleneck(M, p)
      M1 == [i \in 1..Len(M) |-> [j \in 1..Len(M) |->
               IF OnPath(p, i - 1, j - 1) THEN M[i][j] - f ELSE M[i][j]]]
      b  == FirstMinIndex(EdgeVals(M1, p))     \* "just set it to zero to be sure"
  IN SetEdge(M1, p[b], p[b + 1], 0)

(* ---- flux bookkeeping -------------------------------------------------------- *)
(* net_flux[sources, :].sum() *)
TotalOut(M, srcs) == SumSeq([k \in 1..Len(srcs) |-> SumSeq(M[srcs[k] + 1])])

OutFlow(M, v) == SumSeq(M[v + 1])
InFlow(M, v)  == SumSeq([i \in 1..Len(M) |-> M[i][v + 1]])

Acyclic(M) == \A v \in NodesOf(M) : v \notin ReachPlus(M, 1, {v})

(* the class of matrices transition path theory produces: an acyclic flow     *)
(* that is conserved at every intermediate node, enters no source and leaves   *)
(* no sink                                                                     *)
TPTFlow(M, S, T) ==
  /\ Acyclic(M)
  /\ \A v \in NodesOf(M) :
       IF v \in S THEN InFlow(M, v) = 0
       ELSE IF v \in T THEN OutFlow(M, v) = 0
       ELSE InFlow(M, v) = OutFlow(M, v)

LeqMat(A, B) == \A i, j \in NodesOf(A) : At(A, i, j) <= At(B, i, j)
NonNegMat(A) == \A i, j \in NodesOf(A) : At(A, i, j) >= 0
=============================================================================
