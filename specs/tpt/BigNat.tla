------------------------------- MODULE BigNat -------------------------------
(* Exact arithmetic on natural numbers and non-negative rationals of any size *)
(* over TLC's 32-bit integers (used by LineChain.tla / LineFlux.tla, where a  *)
(* reactive flux is a product of four fractions and 32 bits are not enough:   *)
(* two fluxes that agree to 1e-6 relatively while their difference is a real  *)
(* net flux need numerators above 1e11).                                      *)
(*                                                                            *)
(* A natural number is the sequence of its digits in base BBase = 4096,       *)
(* least significant first, without leading zero digits; zero is <<>>.  The   *)
(* representation is canonical, so = on sequences is = on numbers.  A product *)
(* of digit columns sums at most 120 terms below 4096^2, so every             *)
(* intermediate integer stays below 2^31 for operands of up to 120 digits     *)
(* (BMul asserts that).                                                       *)
(*                                                                            *)
(* A rational is a pair <<numerator, denominator>> of naturals, denominator   *)
(* not zero, NOT necessarily reduced: compare with BREq / BRLt, never with =. *)
(* In JSON a number is the list of its digits; value = sum digit[k]*4096^k.   *)
EXTENDS Integers, Sequences, TLC

BBase == 4096
BMaxDigits == 120

(* digits of the number sum c[k] * BBase^(k-1), c any sequence of naturals *)
RECURSIVE BCarry(_, _, _)
BCarry(c, k, carry) ==
  IF k > Len(c) /\ carry = 0 THEN <<>>
  ELSE LET v == (IF k <= Len(c) THEN c[k] ELSE 0) + carry
       IN <<v % BBase>> \o BCarry(c, k + 1, v \div BBase)

RECURSIVE BTrim(_)
BTrim(x) == IF x = <<>> THEN x
            ELSE IF x[Len(x)] = 0 THEN BTrim(SubSeq(x, 1, Len(x) - 1)) ELSE x

BNorm(c) == BTrim(BCarry(c, 1, 0))
BFromInt(x) == BNorm(<<x>>)                      \* x >= 0
BZero == <<>>
BOne  == <<1>>

BDigit(a, k) == IF k <= Len(a) THEN a[k] ELSE 0
BMaxLen(a, b) == IF Len(a) < Len(b) THEN Len(b) ELSE Len(a)

BAdd(a, b) == BNorm([k \in 1..BMaxLen(a, b) |-> BDigit(a, k) + BDigit(b, k)] \o <<>>)

(* column k of the schoolbook product: sum over i of a[i] * b[k + 1 - i] *)
RECURSIVE BColumn(_, _, _, _)
BColumn(a, b, k, i) ==
  IF i > Len(a) \/ i > k THEN 0
  ELSE (IF k + 1 - i <= Len(b) THEN a[i] * b[k + 1 - i] ELSE 0) + BColumn(a, b, k, i + 1)

BMul(a, b) ==
  IF a = <<>> \/ b = <<>> THEN <<>>
  ELSE IF a = <<1>> THEN b ELSE IF b = <<1>> THEN a
  ELSE IF Len(a) > BMaxDigits \/ Len(b) > BMaxDigits
       THEN Assert(FALSE, "BigNat.BMul: operand longer than BMaxDigits digits")
  ELSE BNorm([k \in 1..(Len(a) + Len(b) - 1) |-> BColumn(a, b, k, 1)] \o <<>>)

RECURSIVE BLtFrom(_, _, _)
BLtFrom(a, b, k) == IF k = 0 THEN FALSE
                    ELSE IF a[k] # b[k] THEN a[k] < b[k] ELSE BLtFrom(a, b, k - 1)
BLt(a, b) == IF Len(a) # Len(b) THEN Len(a) < Len(b) ELSE BLtFrom(a, b, Len(a))
BLe(a, b) == ~BLt(b, a)

(* a - b for a >= b (asserted) *)
RECURSIVE BBorrow(_, _, _, _)
BBorrow(a, b, k, br) ==
  IF k > Len(a) THEN <<>>
  ELSE LET v == a[k] - BDigit(b, k) - br
       IN IF v < 0 THEN <<v + BBase>> \o BBorrow(a, b, k + 1, 1)
                   ELSE <<v>> \o BBorrow(a, b, k + 1, 0)
BSub(a, b) == IF BLt(a, b) THEN Assert(FALSE, "BigNat.BSub: negative result")
              ELSE BTrim(BBorrow(a, b, 1, 0))

(* ---- non-negative rationals ------------------------------------------------- *)
BR(n, d) == <<BFromInt(n), BFromInt(d)>>          \* integers n >= 0, d > 0
BRZero == <<BZero, BOne>>
BROne  == <<BOne, BOne>>
BRIsZero(x) == x[1] = <<>>
BRIsRat(x) == x[2] # <<>>

BRMul(x, y) == <<BMul(x[1], y[1]), BMul(x[2], y[2])>>
BRScale(k, x) == <<BMul(BFromInt(k), x[1]), x[2]>>           \* integer k >= 0
BRDiv(x, y) == <<BMul(x[1], y[2]), BMul(x[2], y[1])>>        \* y # 0
BRAdd(x, y) == IF BRIsZero(y) THEN x
               ELSE IF BRIsZero(x) THEN y
               ELSE IF x[2] = y[2] THEN <<BAdd(x[1], y[1]), x[2]>>
               ELSE <<BAdd(BMul(x[1], y[2]), BMul(y[1], x[2])), BMul(x[2], y[2])>>
BREq(x, y) == BMul(x[1], y[2]) = BMul(y[1], x[2])
BRLt(x, y) == BLt(BMul(x[1], y[2]), BMul(y[1], x[2]))
BRLe(x, y) == ~BRLt(y, x)
(* x - y for x >= y *)
BRSub(x, y) == IF BRIsZero(y) THEN x
               ELSE IF x[2] = y[2] THEN <<BSub(x[1], y[1]), x[2]>>
               ELSE <<BSub(BMul(x[1], y[2]), BMul(y[1], x[2])), BMul(x[2], y[2])>>
(* 1 - x for x <= 1 *)
BRCompl(x) == <<BSub(x[2], x[1]), x[2]>>
=============================================================================
