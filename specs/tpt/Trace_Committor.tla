--------------------------- MODULE Trace_Committor ---------------------------
(* Direction (B) for property C07: validates recorded outputs of the real      *)
(* enspara.tpt.committors / mfpts against the first-step relations, for chains  *)
(* beyond the exact scope of Committor.tla (n <= 8, random irreducible chains,  *)
(* reversible or not, plus the chains of the pinned test-suite).                *)
(*                                                                              *)
(* A trace is one chain  T[i][j] = A[i][j] / den[i]  (integers) and a list of   *)
(* events, one per call of the real code.  Floats were projected to integers:   *)
(* committors times 10^6, mean first-passage times times the event's scale s    *)
(* (a power of ten chosen by the driver so that every product below stays       *)
(* under 2^30; RangeOK re-checks that here).  Rounding each value to the        *)
(* nearest integer perturbs a relation  den.x[i] = rhs + sum_j A[i][j].x[j]  by *)
(* at most den[i] units, so the budget n.den[i] of DESIGN.md section 3 is safe  *)
(* and still ~10^-6 relative: far below the effect of any semantic change.      *)
(*                                                                              *)
(* event kinds  k = 1: committors(T, src, snk)            -> q (x 10^6)         *)
(*              k = 2: mfpts(T, sinks=snk, lagtime=ln/ld) -> m, and m1 at lag 1 *)
(*              k = 3: mfpts(T, lagtime=ln/ld) all pairs  -> mall, and          *)
(*                     cols[s] = mfpts(T, sinks=[s], lagtime=ln/ld)             *)
(* States are 1-based.  Verdict: one line per trace,                            *)
(*   <<"ACCEPT", tid>>   or   <<"REJECT", json of [tid, bad = {<<event, "Clause">>}]>>. *)
EXTENDS Integers, Sequences, FiniteSets, TLC, Json, IOUtils, Rational

Traces == JsonDeserialize(IOEnv.TRACE_FILE)

VARIABLES tid, l, bad
vars == <<tid, l, bad>>

Tr == Traces[tid]
Nn == Tr.n
Idx == 1..Nn
Q6 == 1000000

RECURSIVE SumTo(_, _)
SumTo(f, k) == IF k = 0 THEN 0 ELSE SumTo(f, k - 1) + f[k]
Dot(row, v) == SumTo([j \in Idx |-> row[j] * v[j]] \o <<>>, Nn)
SetOf(s) == {s[k] : k \in 1..Len(s)}
MaxAbs(v) == LET S == {RAbs(v[k]) : k \in 1..Len(v)} IN CHOOSE x \in S : \A y \in S : y <= x
MaxDen == MaxAbs(Tr.den)

(* ---- the recorded input is a legal one ------------------------------------------ *)
Succ(S) == S \cup {j \in Idx : \E i \in S : Tr.A[i][j] > 0}
RECURSIVE ReachN(_, _)
ReachN(S, k) == IF k = 0 THEN S ELSE ReachN(Succ(S), k - 1)
InputOK == /\ Len(Tr.A) = Nn /\ Len(Tr.den) = Nn
           /\ \A i \in Idx : Len(Tr.A[i]) = Nn /\ SumTo(Tr.A[i], Nn) = Tr.den[i]
           /\ \A i, j \in Idx : Tr.A[i][j] >= 0
           /\ \A i \in Idx : ReachN({i}, Nn - 1) = Idx

(* ---- clauses ---------------------------------------------------------------------- *)
Inter(e) == Idx \ (SetOf(e.src) \cup SetOf(e.snk))

QRange(e)         == Len(e.q) = Nn /\ SafeProd(MaxDen * Nn, Q6)
QPinnedSources(e) == \A i \in SetOf(e.src) : e.q[i] = 0
QPinnedSinks(e)   == \A i \in SetOf(e.snk) : e.q[i] = Q6
QInUnit(e)        == \A i \in Idx : 0 <= e.q[i] /\ e.q[i] <= Q6
QFirstStep(e)     == \A i \in Inter(e) :
                       RAbs(Tr.den[i] * e.q[i] - Dot(Tr.A[i], e.q)) <= Nn * Tr.den[i]

(* every product formed by MFirst / LagLinear stays below 2^30 *)
MRange(v, ln, ld, s) == /\ Len(v) = Nn
                        /\ SafeProd(2 * Nn * MaxDen * ld, MaxAbs(v) + 1)
                        /\ SafeProd(MaxDen * ln, s)
                        /\ SafeProd(ln + ld, MaxAbs(v) + 1)
MZero(v, S) == \A i \in S : v[i] = 0
(* ld.den.m[i] = den.ln.s + ld.sum_j A[i][j].m[j]   (first-step equation times ld.den.s) *)
MFirst(v, S, ln, ld, s) ==
  \A i \in Idx \ S :
     RAbs(ld * Tr.den[i] * v[i] - Tr.den[i] * ln * s - ld * Dot(Tr.A[i], v)) <= Nn * Tr.den[i] * ld
LagLinear(e) == \A i \in Idx : RAbs(e.ld * e.m[i] - e.ln * e.m1[i]) <= e.ln + e.ld

Column(M, s) == [i \in Idx |-> M[i][s]] \o <<>>
AllRange(e)       == /\ Len(e.mall) = Nn /\ Len(e.cols) = Nn
                     /\ \A s \in Idx : MRange(Column(e.mall, s), e.ln, e.ld, e.s)
                                       /\ MRange(e.cols[s], e.ln, e.ld, e.s)
AllDiagZero(e)    == \A s \in Idx : e.mall[s][s] = 0
AllFirstStep(e)   == \A s \in Idx : MFirst(Column(e.mall, s), {s}, e.ln, e.ld, e.s)
AllPairsColumn(e) == \A s, i \in Idx : RAbs(e.mall[i][s] - e.cols[s][i]) <= 1
ColsFirstStep(e)  == \A s \in Idx : MZero(e.cols[s], {s}) /\ MFirst(e.cols[s], {s}, e.ln, e.ld, e.s)

(* set of names of the clauses event e fails; later clauses are only evaluated in range *)
Failing(e) ==
  IF e.k = 1 THEN
     IF ~QRange(e) THEN {"Range"}
     ELSE (IF QPinnedSources(e) THEN {} ELSE {"PinnedSources"})
          \cup (IF QPinnedSinks(e) THEN {} ELSE {"PinnedSinks"})
          \cup (IF QInUnit(e) THEN {} ELSE {"InUnit"})
          \cup (IF QFirstStep(e) THEN {} ELSE {"FirstStep"})
  ELSE IF e.k = 2 THEN
     IF ~(MRange(e.m, e.ln, e.ld, e.s) /\ MRange(e.m1, 1, 1, e.s)) THEN {"Range"}
     ELSE (IF MZero(e.m, SetOf(e.snk)) /\ MZero(e.m1, SetOf(e.snk)) THEN {} ELSE {"MZeroOnSinks"})
          \cup (IF MFirst(e.m, SetOf(e.snk), e.ln, e.ld, e.s) THEN {} ELSE {"MFPTFirstStep"})
          \cup (IF MFirst(e.m1, SetOf(e.snk), 1, 1, e.s) THEN {} ELSE {"MFPTFirstStepUnitLag"})
          \cup (IF LagLinear(e) THEN {} ELSE {"LagLinear"})
  ELSE
     IF ~AllRange(e) THEN {"Range"}
     ELSE (IF AllDiagZero(e) THEN {} ELSE {"AllDiagZero"})
          \cup (IF AllFirstStep(e) THEN {} ELSE {"AllPairsFirstStep"})
          \cup (IF ColsFirstStep(e) THEN {} ELSE {"MFPTFirstStep"})
          \cup (IF AllPairsColumn(e) THEN {} ELSE {"AllPairsColumn"})

(* ---- one step per recorded event ---------------------------------------------------- *)
Init == /\ tid \in 1..Len(Traces)
        /\ l = 0
        /\ bad = IF InputOK THEN {} ELSE {<<0, "Input">>}

Consume == /\ l < Len(Tr.events)
           /\ l' = l + 1
           /\ bad' = bad \cup {<<l + 1, cl>> : cl \in Failing(Tr.events[l + 1])}
           /\ UNCHANGED tid

Next == Consume
Spec == Init /\ [][Next]_vars

Verdict == l = Len(Tr.events) =>
             IF bad = {} THEN PrintT(<<"ACCEPT", tid>>)
             ELSE PrintT(<<"REJECT", ToJson([tid |-> tid, bad |-> bad])>>)     \* one line
=============================================================================
