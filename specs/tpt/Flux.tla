-------------------------------- MODULE Flux --------------------------------
(* Reactive fluxes, net fluxes and reactive populations of transition path    *)
(* theory (enspara.tpt.tpt: _get_data_from_tprob, reactive_fluxes,            *)
(* net_fluxes, reactive_populations).  Property C08.                          *)
(*                                                                            *)
(* The chain is reversible: T[i][j] = A[i][j] / den[i] for a SYMMETRIC        *)
(* integer matrix A with den = its row sums; the stationary populations are   *)
(* then den[i] / sum(A) exactly.  The forward committors q+ come from the     *)
(* implementation-shaped pipeline of Committor.tla (mode "flux" runs          *)
(* BuildR .. PinSinks unchanged, because reactive_fluxes calls committors()). *)
(* The steps below continue from its "done" state, one per statement of the   *)
(* code.  All values are exact reduced rationals, so the conservation laws    *)
(* are checked with equality, for every chain and source/sink pair in scope.  *)
EXTENDS Committor

CONSTANTS MaxX,     \* entries of the symmetric matrix are 0..MaxX
          EmitF     \* TRUE: print every final state as a CASE line

VARIABLES qm,       \* reverse committors 1 - q+
          fl,       \* reactive fluxes (N x N rationals)
          net,      \* net fluxes
          rp        \* reactive populations

fvars == <<qm, fl, net, rp>>
vars  == <<cvars, fvars>>

(* ---- input --------------------------------------------------------------------- *)
UpperPairs == {p \in Idx \X Idx : p[1] <= p[2]}
Sym(u) == V([i \in Idx |-> V([j \in Idx |-> IF i <= j THEN u[<<i, j>>] ELSE u[<<j, i>>]])])
RowSums(a) == V([i \in Idx |-> SumTo(a[i], N)])
Total == SumTo(den, N)

(* populations handed in by the caller: the exact stationary vector of a reversible chain *)
RowSumPi == V([i \in Idx |-> Rat(den[i], Total)])

FInit ==
  /\ \E u \in [UpperPairs -> 0..MaxX] :
        /\ A = Sym(u)
        /\ \A i \in Idx : SumTo(Sym(u)[i], N) > 0
        /\ Irreducible(Sym(u))
        /\ PartOf(Sym(u)) = Part
  /\ den = RowSums(A)
  /\ mode = "flux"
  /\ snk \in NonEmptySubsets(Idx)
  /\ src \in NonEmptySubsets(Idx \ snk)
  /\ Cardinality(Idx \ (src \cup snk)) <= MaxUnknowns
  /\ lag = <<1, 1>>
  /\ pc = "start"
  /\ R = None /\ IQ = None /\ B = None /\ q = None /\ c = None /\ t = None /\ m = None
  /\ pi = None /\ K = None /\ Z = None /\ mAll = None
  /\ qm = None /\ fl = None /\ net = None /\ rp = None

(* ---- implementation-shaped steps ------------------------------------------------ *)
(* _get_data_from_tprob L34-43: populations (given, or eq_probs(tprob) -- the same     *)
(* vector, see GivenEqComputed), forward committors (already in q), reverse = 1 - q+   *)
GetData ==
  /\ pc = "done" /\ mode = "flux"
  /\ pi' = RowSumPi
  /\ qm' = V([i \in Idx |-> RSub(ROne, q[i])])
  /\ pc' = "f_rows"
  /\ UNCHANGED <<A, den, src, snk, lag, mode, R, IQ, B, q, c, t, m, K, Z, mAll, fl, net, rp>>

(* L81 / L86: tprob * (populations * reverse_committors)[:, None]  -- row i scaled *)
ScaleRows ==
  /\ pc = "f_rows"
  /\ fl' = V([i \in Idx |-> V([j \in Idx |-> RMul(Rat(A[i][j], den[i]), RMul(pi[i], qm[i]))])])
  /\ pc' = "f_cols"
  /\ UNCHANGED <<cvars_but_pc, qm, net, rp>>

(* L82 / L87: (.) * forward_committors  -- column j scaled *)
ScaleCols ==
  /\ pc = "f_cols"
  /\ fl' = V([i \in Idx |-> V([j \in Idx |-> RMul(fl[i][j], q[j])])])
  /\ pc' = "f_diag"
  /\ UNCHANGED <<cvars_but_pc, qm, net, rp>>

(* L89: fluxes[(arange(n), arange(n))] = 0 *)
ZeroDiag ==
  /\ pc = "f_diag"
  /\ fl' = V([i \in Idx |-> V([j \in Idx |-> IF i = j THEN RZero ELSE fl[i][j]])])
  /\ pc' = "f_net"
  /\ UNCHANGED <<cvars_but_pc, qm, net, rp>>

(* net_fluxes L123-124: fluxes - fluxes.T, negative entries set to 0 *)
NetPositivePart ==
  /\ pc = "f_net"
  /\ net' = V([i \in Idx |-> V([j \in Idx |->
               LET d == RSub(fl[i][j], fl[j][i]) IN IF d[1] < 0 THEN RZero ELSE d])])
  /\ pc' = "f_pops"
  /\ UNCHANGED <<cvars_but_pc, qm, fl, rp>>

(* reactive_populations L157-158: pi q+ q- / sum(.)   (0/0 when no state has            *)
(* 0 < q+ < 1: the property is silent there, rp stays None)                             *)
ReactivePops ==
  /\ pc = "f_pops"
  /\ LET dens == V([i \in Idx |-> RMul(pi[i], RMul(q[i], qm[i]))])
         tot  == RSum(dens)
     IN rp' = IF RIsZero(tot) THEN None ELSE V([i \in Idx |-> RDiv(dens[i], tot)])
  /\ pc' = "fdone"
  /\ UNCHANGED <<cvars_but_pc, qm, fl, net>>

FNext == \/ (CNext /\ UNCHANGED fvars)
         \/ GetData \/ ScaleRows \/ ScaleCols \/ ZeroDiag \/ NetPositivePart \/ ReactivePops
FSpec == FInit /\ [][FNext]_vars

(* ---- properties -------------------------------------------------------------------- *)
FTypeOK == /\ pc \in {"start", "mask", "solve", "sum", "pin", "done",
                      "f_rows", "f_cols", "f_diag", "f_net", "f_pops", "fdone"}
           /\ \A i, j \in Idx : A[i][j] = A[j][i]
           /\ \A i \in Idx : den[i] = SumTo(A[i], N)

T(i, j) == Rat(A[i][j], den[i])

(* the input: populations are stationary, the chain is reversible w.r.t. them, and a *)
(* caller passing None gets the same vector from the general formula                 *)
GivenEqComputed == pc = "f_rows" => pi = Stationary
DetailedBalance == pc = "f_rows" => \A i, j \in Idx : RMul(pi[i], T(i, j)) = RMul(pi[j], T(j, i))

(* "reverse committor = 1 - forward committor" is the backward committor of a      *)
(* reversible chain: 1 on sources, 0 on sinks, first-step equation in between      *)
BackwardFirstStep == pc = "f_rows" =>
  /\ \A i \in src : qm[i] = ROne
  /\ \A i \in snk : qm[i] = RZero
  /\ \A i \in Inter : REq(RScale(den[i], qm[i]), RDot(A[i], qm))

HasFlux == pc \in {"f_net"}
HasNet  == pc \in {"f_pops"}

FluxDef == HasFlux => \A i, j \in Idx :
  fl[i][j] = IF i = j THEN RZero
             ELSE RMul(RMul(pi[i], RSub(ROne, q[i])), RMul(T(i, j), q[j]))
FluxNonNegative == HasFlux => \A i, j \in Idx : fl[i][j][1] >= 0

NetDef == HasNet => \A i, j \in Idx : net[i][j] = RMax(RZero, RSub(fl[i][j], fl[j][i]))
NetOneDirection == HasNet => \A i, j \in Idx : RPos(net[i][j]) => net[j][i] = RZero

Inflow(i)  == RSum(V([j \in Idx |-> net[j][i]]))
Outflow(i) == RSum(V([j \in Idx |-> net[i][j]]))

Conservation       == HasNet => \A i \in Inter : Inflow(i) = Outflow(i)
NoInflowToSources  == HasNet => \A i \in src : Inflow(i) = RZero
NoOutflowFromSinks == HasNet => \A i \in snk : Outflow(i) = RZero
SourceOutEqSinkIn  == HasNet =>
  RSum(V([i \in Idx |-> IF i \in src THEN Outflow(i) ELSE RZero]))
    = RSum(V([i \in Idx |-> IF i \in snk THEN Inflow(i) ELSE RZero]))
(* a reaction with intermediate or direct paths carries flux at all *)
SomeFlux == HasNet => RPos(RSum(V([i \in Idx |-> IF i \in src THEN Outflow(i) ELSE RZero])))

PopsProbability == (pc = "fdone" /\ rp # None) =>
  /\ RSum(rp) = ROne
  /\ \A i \in Idx : rp[i][1] >= 0
  /\ \A i \in src \cup snk : rp[i] = RZero
(* the normalisation is 0/0 exactly when no state lies strictly between the two sets in
   committor (e.g. path graph 1-3-2 with source 3, sink 1: state 2 is intermediate but
   q+ = 0 there); the property does not speak about that case *)
PopsDefinedIffReactive == pc = "fdone" =>
  ((rp # None) <=> (\E i \in Idx : RPos(q[i]) /\ RLt(q[i], ROne)))

(* Homogeneity in the populations handed in by the caller: the statements above use the   *)
(* populations only as the factor of row i, so for every c > 0                            *)
(*    reactive_fluxes(T, A, B, c.p) = c . reactive_fluxes(T, A, B, p),  net_fluxes alike,  *)
(*    reactive_populations(T, A, B, c.p) = reactive_populations(T, A, B, p).               *)
(* Checked here for some c on every chain in scope and in LineFlux.tla for c = 2^-30 (over *)
(* BigNat); the driver replays every printed case also with populations 2^-30 . pi, where  *)
(* every flux is below 1e-8 (a power of two scales binary floating point exactly).         *)
ScaleSet == {<<3, 64>>}
FluxWith(p, i, j) == IF i = j THEN RZero ELSE RMul(RMul(T(i, j), RMul(p[i], qm[i])), q[j])
PopulationScaling == pc = "fdone" => \A cc \in ScaleSet :
  LET p  == V([i \in Idx |-> RMul(cc, pi[i])])
      sf == V([i \in Idx |-> V([j \in Idx |-> FluxWith(p, i, j)])])
      d  == V([i \in Idx |-> RMul(p[i], RMul(q[i], qm[i]))])
      td == RSum(d)
  IN /\ \A i, j \in Idx :
          /\ sf[i][j] = RMul(cc, fl[i][j])
          /\ RMax(RZero, RSub(sf[i][j], sf[j][i])) = RMul(cc, net[i][j])
     /\ (rp # None => \A i \in Idx : RDiv(d[i], td) = rp[i])

FRatOK == /\ (fl # None => \A i, j \in Idx : Safe(fl[i][j]))
          /\ (net # None => \A i, j \in Idx : Safe(net[i][j]))
          /\ (rp # None => \A i \in Idx : Safe(rp[i]))

(* ---- emission for replay -------------------------------------------------------------- *)
EmitFInv == (EmitF /\ pc = "fdone") =>
  PrintT(<<"CASE", ToJson([n |-> N, A |-> A, den |-> den,
                           src |-> SortedSeq(src), snk |-> SortedSeq(snk),
                           pi |-> pi, q |-> q, fl |-> fl, net |-> net, rp |-> rp])>>)
=============================================================================
