----------------------------- MODULE WidestPath -----------------------------
(* enspara.tpt.path.top_path -- property C17, clauses on a single pathway.     *)
(*                                                                            *)
(* Implementation-shaped part: the Dijkstra-style search transcribed from the  *)
(* code (queue / visited / previous_node / min_fluxes; pop a frontier node of   *)
(* maximal flux, stop once all sinks are visited, relax the positive           *)
(* out-edges with min(edge, upstream) on unvisited nodes under strict           *)
(* improvement, choose the sink of maximal flux, follow previous_node back).    *)
(* Where the code takes "the first" maximal element (argmax) the spec takes     *)
(* any: the property does not fix tie-breaking.                                 *)
(*                                                                            *)
(* Definition-level part: brute force over all simple source->sink paths       *)
(* (TptGraph!STPaths/Best).  TLC checks on every graph in scope that every      *)
(* tie-breaking of the transcription returns a real, simple, optimal path, and  *)
(* emits every graph with its set of optimal paths for replay into top_path.    *)
EXTENDS TptGraph, TLC, Json, SequencesExt

CONSTANTS NN,      \* number of nodes (0..NN-1)
          Srcs,    \* sequence of source nodes
          Snks,    \* sequence of sink nodes (disjoint from the sources)
          Edges,   \* set of <<i, j>> that may carry weight; other entries are 0
          MaxW,    \* weights are 0..MaxW
          Emit,
          ShardK, ShardM   \* only the graphs whose weight sum is ShardK mod ShardM (1: all);
                           \* lets the single-threaded emission be split over several TLC runs

VARIABLES W,        \* the net-flux matrix (input)
          queue,    \* list of nodes to check (may hold a node more than once)
          visited, prev, minflux,
          test,     \* test_node
          path, flux,
          ref,      \* ghost: the definition-level answer for W (brute force over
                    \* all simple paths), computed once when the search returns
          pc

vars == <<W, queue, visited, prev, minflux, test, path, flux, ref, pc>>

Nodes == 0..(NN - 1)
S == Rng(Srcs)
T == Rng(Snks)

Mat(f) == [i \in 1..NN |-> [j \in 1..NN |->
             IF <<i - 1, j - 1>> \in Edges THEN f[<<i - 1, j - 1>>] ELSE 0]]

EdgeSeq == SetToSeq(Edges)
InShard(f) == ShardM = 1 \/ SumSeq([k \in 1..Len(EdgeSeq) |-> f[EdgeSeq[k]]]) % ShardM = ShardK

Init ==
  /\ \E f \in [Edges -> 0..MaxW] : InShard(f) /\ W = Mat(f)
  /\ queue = Srcs
  /\ visited = [v \in Nodes |-> FALSE]
  /\ prev = [v \in Nodes |-> -1]
  /\ minflux = [v \in Nodes |-> IF v \in S THEN Inf ELSE NegInf]
  /\ test = -1
  /\ path = <<>>
  /\ flux = 0
  /\ ref = [reach |-> FALSE, best |-> NegInf, opt |-> {}]
  /\ pc = "loop"

AllSinksVisited == \A t \in T : visited[t]

(* test_node = queue.pop(min_fluxes[queue].argmax()); visited[test_node] = True *)
Pop ==
  /\ pc = "loop" /\ queue # <<>>
  /\ \E i \in 1..Len(queue) :
       /\ \A j \in 1..Len(queue) : minflux[queue[j]] <= minflux[queue[i]]
       /\ test' = queue[i]
       /\ queue' = SubSeq(queue, 1, i - 1) \o SubSeq(queue, i + 1, Len(queue))
       /\ visited' = [visited EXCEPT ![queue[i]] = TRUE]
  /\ pc' = "popped"
  /\ UNCHANGED <<W, prev, minflux, path, flux, ref>>

(* if np.all(visited[sinks]): break *)
StopWhenSinksVisited ==
  /\ pc = "popped" /\ AllSinksVisited
  /\ pc' = "choose"
  /\ UNCHANGED <<W, queue, visited, prev, minflux, test, path, flux, ref>>

NewFlux(v) == IF At(W, test, v) > minflux[test] THEN minflux[test] ELSE At(W, test, v)

Improved == {v \in Succ(W, test) : ~visited[v] /\ NewFlux(v) > minflux[v]}

(* neighbours = where(net_flux[test_node] > 0); min(edge, upstream); update the *)
(* unvisited, strictly improved ones; queue.extend(them) (index order)          *)
Relax ==
  /\ pc = "popped" /\ ~AllSinksVisited
  /\ minflux' = [v \in Nodes |-> IF v \in Improved THEN NewFlux(v) ELSE minflux[v]]
  /\ prev' = [v \in Nodes |-> IF v \in Improved THEN test ELSE prev[v]]
  /\ queue' = queue \o SetToSortSeq(Improved, LAMBDA a, b : a < b)
  /\ pc' = "loop"
  /\ UNCHANGED <<W, visited, test, path, flux, ref>>

(* while len(queue) > 0 falls through *)
Exhausted ==
  /\ pc = "loop" /\ queue = <<>>
  /\ pc' = "choose"
  /\ UNCHANGED <<W, queue, visited, prev, minflux, test, path, flux, ref>>

(* definition level: enumerate every simple source->sink path of W *)
BruteForce ==
  LET ps == STPaths(W, S, T)
  IN IF ps = {} THEN [reach |-> FALSE, best |-> NegInf, opt |-> {}]
     ELSE LET b == MaxOf({Bottleneck(W, p) : p \in ps})
          IN [reach |-> TRUE, best |-> b, opt |-> {p \in ps : Bottleneck(W, p) = b}]

(* top_path.append(sinks[min_fluxes[sinks].argmax()]); flux = min_fluxes[it] *)
ChooseSink ==
  /\ pc = "choose"
  /\ \E t \in T :
       /\ \A u \in T : minflux[u] <= minflux[t]
       /\ path' = <<t>>
       /\ flux' = minflux[t]
  /\ pc' = "back"
  /\ UNCHANGED <<W, queue, visited, prev, minflux, test, ref>>

(* while previous_node[top_path[-1]] != -1: append it  (built reversed) *)
Follow ==
  /\ pc = "back" /\ prev[Head(path)] # -1
  /\ path' = <<prev[Head(path)]>> \o path
  /\ UNCHANGED <<W, queue, visited, prev, minflux, test, flux, ref, pc>>

Return ==
  /\ pc = "back" /\ prev[Head(path)] = -1
  /\ pc' = "done"
  /\ ref' = BruteForce
  /\ UNCHANGED <<W, queue, visited, prev, minflux, test, path, flux>>

(* TLC checks deadlock freedom: every behaviour reaches "done" (no step is stuck) *)
Terminated == pc = "done" /\ UNCHANGED vars

Next == Pop \/ StopWhenSinksVisited \/ Relax \/ Exhausted \/ ChooseSink \/ Follow \/ Return \/ Terminated

Spec == Init /\ [][Next]_vars

(* ---- properties --------------------------------------------------------------- *)
TypeOK ==
  /\ pc \in {"loop", "popped", "choose", "back", "done"}
  /\ \A k \in 1..Len(queue) : queue[k] \in Nodes
  /\ \A v \in Nodes : prev[v] \in Nodes \cup {-1}

Done      == pc = "done"
Reachable == ref.reach          \* only meaningful in the final state

PathIsSimple           == (Done /\ Reachable) => IsSimpleST(W, S, T, path)
PathAlongPositiveEdges == (Done /\ Reachable) => AlongPositive(W, path)
FluxIsMinEdge          == (Done /\ Reachable) => FluxIsMin(W, path, flux)
Optimal                == (Done /\ Reachable) => flux = ref.best
(* no source->sink path: flux = -inf and the "path" is a lone sink *)
Unreachable            == (Done /\ ~Reachable) => (flux = NegInf /\ Len(path) = 1 /\ path[1] \in T)
(* all of the above at once: the result is one of the optimal paths *)
ResultInOptSet         == (Done /\ Reachable) => path \in ref.opt

(* the two definitions of the optimum agree, for every target node (a fact     *)
(* about W alone; evaluated in the final states, which every graph reaches).    *)
(* Licence for VisitedFinal below and for Trace_Paths to use the thresholded    *)
(* definition where path enumeration is too expensive.                          *)
ThresholdEqBrute ==
  Done =>
     /\ HasPathT(W, S, T) <=> Reachable
     /\ Reachable => BestT(W, S, T) = ref.best
     /\ \A v \in Nodes \ (S \cup T) :
          /\ HasPathT(W, S, {v}) <=> HasPath(W, S, {v})
          /\ HasPath(W, S, {v}) => BestT(W, S, {v}) = Best(W, S, {v})

(* the Dijkstra invariant behind Optimal: the node just popped (= newly         *)
(* visited) carries its final widest-path value ...                            *)
WidestTo(v) == IF v \in S THEN Inf
               ELSE IF HasPathT(W, S, {v}) THEN BestT(W, S, {v}) ELSE NegInf
VisitedFinal == (pc = "popped") => minflux[test] = WidestTo(test)
(* ... and the value of a visited node never changes afterwards *)
VisitedFrozen == [][\A v \in Nodes : visited[v] => (minflux'[v] = minflux[v] /\ prev'[v] = prev[v]
                                                     /\ visited'[v])]_vars
(* tentative values are witnessed by the previous_node chain: minflux[v] is the *)
(* bottleneck of a real path from a source to v (so it cannot exceed the       *)
(* optimum for v)                                                              *)
Witnessed == \A v \in Nodes :
  /\ prev[v] # -1 =>
       /\ visited[prev[v]]
       /\ minflux[v] = (IF At(W, prev[v], v) > minflux[prev[v]] THEN minflux[prev[v]]
                        ELSE At(W, prev[v], v))
       /\ At(W, prev[v], v) > 0
  /\ (prev[v] = -1) <=> (minflux[v] \in {Inf, NegInf})

(* ---- emission for replay into the real top_path -------------------------------- *)
(* run with NEXT Stutter: one state per graph *)
Stutter == UNCHANGED vars

EmitInv == Emit =>
  PrintT(<<"CASE", ToJson([W |-> W, srcs |-> Srcs, snks |-> Snks,
                           reach |-> BruteForce.reach,
                           best |-> IF BruteForce.reach THEN BruteForce.best ELSE -1,
                           opt |-> SetToSeq(BruteForce.opt),
                           tptflow |-> TPTFlow(W, S, T)])>>)
=============================================================================
