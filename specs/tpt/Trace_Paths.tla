----------------------------- MODULE Trace_Paths -----------------------------
(* Trace validation (pattern B) of recorded runs of the real                    *)
(* enspara.tpt.path.paths against the Paths/WidestPath specification.           *)
(*                                                                            *)
(* TRACE_FILE is a JSON array of cases                                         *)
(*   [W |-> matrix, srcs |-> seq, snks |-> seq,                                *)
(*    runs |-> seq of [scheme, numpaths (1000000 = unbounded), cnum, cden,      *)
(*                     paths, fluxes, after]]                                  *)
(* where paths/fluxes is the sequence the real function reported (fluxes as    *)
(* integers on the weight lattice; -7 stands for "not on the lattice") and     *)
(* `after` is the caller's matrix after the call.                              *)
(*                                                                            *)
(* The specification keeps its OWN residual: for every reported (path, flux)   *)
(* it decides whether that is a legal Peel of Paths.tla from the current        *)
(* residual (simple source->sink path, along positive residual edges, flux =   *)
(* its smallest edge = the optimum of the residual over all simple paths),     *)
(* then applies the removal of the scheme itself (TptGraph!SubtractPath /       *)
(* RemoveBottleneck) and goes on.  Sequence-level clauses are evaluated on the *)
(* way and at the end.  The verdict names every failing clause.                *)
EXTENDS TptGraph, TLC, Json, IOUtils, SequencesExt

None == 1000000

Traces == JsonDeserialize(IOEnv.TRACE_FILE)

VARIABLES tid, rid,   \* which case / which run of it
          k,          \* number of reported pathways consumed
          net,        \* the specification's residual
          acc,        \* flux explained so far
          lastf,      \* flux of the previous pathway
          failed,     \* names of the clauses that failed
          status      \* "run" | "end"

vars == <<tid, rid, k, net, acc, lastf, failed, status>>

Case == Traces[tid]
Run  == Case.runs[rid]
S == Rng(Case.srcs)
T == Rng(Case.snks)
Total == TotalOut(Case.W, Case.srcs)

(* the optimum of a residual: by enumeration of all simple paths where that is  *)
(* affordable, else by the thresholded-reachability definition (shown equal by  *)
(* WidestPath!ThresholdEqBrute on every graph in its scope)                     *)
HasPathOf(M) == IF Len(M) <= 5 THEN HasPath(M, S, T) ELSE HasPathT(M, S, T)
BestOf(M)    == IF Len(M) <= 5 THEN Best(M, S, T) ELSE BestT(M, S, T)

(* events that can be consumed: pathways that come with a flux *)
NEvents == IF Len(Run.paths) <= Len(Run.fluxes) THEN Len(Run.paths) ELSE Len(Run.fluxes)

RemovePath(M, p) == IF Run.scheme = "subtract" THEN SubtractPath(M, p) ELSE RemoveBottleneck(M, p)

Init ==
  /\ tid \in 1..Len(Traces)
  /\ rid \in 1..Len(Traces[tid].runs)
  /\ k = 0
  /\ net = Traces[tid].W
  /\ acc = 0
  /\ lastf = 0
  /\ failed = {}
  /\ status = "run"

(* the per-pathway clauses; the first four decide whether the event is a legal *)
(* Peel at all (without which the residual cannot be advanced)                  *)
Illegal(p, f) ==
  IF ~IsSimpleST(net, S, T, p) THEN {"PathIsSimple"}
  ELSE IF ~AlongPositive(net, p) THEN {"PathAlongPositiveEdges"}
  ELSE IF ~FluxIsMin(net, p, f) THEN {"FluxIsMinEdge"}
  ELSE IF f # BestOf(net) THEN {"Optimal"}
  ELSE {}

RunReached(a) == IF Run.cst = 1 THEN a * Run.cden > Run.cnum * Total ELSE a * Run.cden >= Run.cnum * Total

SeqClauses(f) ==
     (IF k < Run.numpaths THEN {} ELSE {"RespectsNumPaths"})
  \cup (IF ~RunReached(acc) THEN {} ELSE {"RespectsCutoff"})
  \cup (IF k = 0 \/ f <= lastf THEN {} ELSE {"NonIncreasing"})
  \cup (IF acc + f <= Total THEN {} ELSE {"SumWithinTotal"})

(* one reported pathway: legal Peel?  then remove it from the residual *)
PeelAndRemove ==
  /\ status = "run" /\ k < NEvents
  /\ LET p == Run.paths[k + 1]
         f == Run.fluxes[k + 1]
         bad == Illegal(p, f)
     IN IF bad # {}
        THEN /\ failed' = failed \cup bad
             /\ status' = "end"
             /\ UNCHANGED <<k, net, acc, lastf>>
        ELSE /\ failed' = failed \cup SeqClauses(f)
             /\ k' = k + 1
             /\ acc' = acc + f
             /\ lastf' = f
             /\ net' = RemovePath(net, p)
             /\ UNCHANGED status
  /\ UNCHANGED <<tid, rid>>

EndClauses ==
     (IF \/ k >= Run.numpaths
         \/ RunReached(acc)
         \/ ~HasPathOf(net)
      THEN {} ELSE {"StopsForAReason"})
  \cup (IF (Run.scheme = "subtract" /\ Run.numpaths = None /\ TPTFlow(Case.W, S, T) /\ Total > 0)
            => RunReached(acc)
        THEN {} ELSE {"ReachesFraction"})
  \cup (IF Run.after = Case.W THEN {} ELSE {"CallerMatrixUntouched"})
  \cup (IF Len(Run.fluxes) = Len(Run.paths) THEN {} ELSE {"RespectsNumPaths"})

Finish ==
  /\ status = "run" /\ k = NEvents
  /\ failed' = failed \cup EndClauses
  /\ status' = "end"
  /\ UNCHANGED <<tid, rid, k, net, acc, lastf>>

Next == PeelAndRemove \/ Finish

Spec == Init /\ [][Next]_vars

(* total verdict: one line per run, naming the failing clauses (none = accept) *)
Verdict ==
  status = "end" =>
    PrintT(<<"VERDICT", ToJson([tid |-> tid, rid |-> rid, consumed |-> k,
                                failed |-> SetToSeq(failed),
                                tptflow |-> TPTFlow(Case.W, S, T)])>>)
=============================================================================
