------------------------------ MODULE LineChain ------------------------------
(* Property C07 on LARGE chains: a family of reversible nearest-neighbour      *)
(* (birth-death) chains on the states 1..n, n up to some thousand, for which   *)
(* committors and mean first-passage times are known in closed form, so that   *)
(* TLC can produce and CHECK the exact values in time linear in n.             *)
(*                                                                              *)
(* The chain.  Edge k joins the states k and k+1 and has the integer weight     *)
(* w[k] > 0; state i has the self weight s[i] >= 0.  X is the symmetric         *)
(* tridiagonal matrix of these weights, den[i] = w[i-1] + s[i] + w[i] its row   *)
(* sum and T[i][j] = X[i][j] / den[i] the transition matrix (irreducible; the   *)
(* stationary populations are den[i] / Total).  Weights follow the periodic     *)
(* patterns wpat / spat, with single edges / states overridden by wov / sov     *)
(* (a weak link, a rare state, a large basin).                                  *)
(*                                                                              *)
(* The solutions (electrical network of the line: an edge is a resistor         *)
(* L / w[k], L the least common multiple of the weights; PR = resistance from   *)
(* state 1):                                                                    *)
(*  * committor: 0 / 1 on sources / sinks; between two consecutive absorbing    *)
(*    states a < i < b linear in the resistance, outside the outermost          *)
(*    absorbing state equal to its value;                                       *)
(*  * mean first-passage time to a sink set, in lag times: beyond the outermost *)
(*    sink the sum over the edges towards the sink of (weight of everything     *)
(*    behind the edge) x (resistance of the edge); between two sinks the        *)
(*    two-sided formula of MAt;                                                 *)
(*  * column s of the all-pairs table: the same with the sink set {s}.          *)
(* These are CANDIDATES: the actions put them into q / m / cv, and the          *)
(* invariants check on every case that they satisfy the first-step equations    *)
(* of the property at every state (three terms per state, the matrix is         *)
(* tridiagonal).  The chain is irreducible, so the equations have exactly one   *)
(* solution: a candidate that passes IS the value the property prescribes.      *)
(* For n in SmallNs every placement of sources and sinks is enumerated, for the *)
(* large n the explicit Cases.                                                  *)
(*                                                                              *)
(* src and snk are SETS.  The emitted case lists them in increasing order, but  *)
(* every listing of the same sets (any order, any integer container) is the     *)
(* same input and has the same expected values; so has every container of the   *)
(* matrix.                                                                      *)
(*                                                                              *)
(* Numbers: prefix sums are 32-bit integers (RangeOK), values are unreduced     *)
(* rationals over BigNat.  States are 1..n here and 0..n-1 in Python.           *)
EXTENDS Integers, Sequences, FiniteSets, FiniteSetsExt, TLC, Json, SequencesExt, BigNat

CONSTANTS Cases,     \* explicit cases: records [id, n, wpat, spat, wov, sov, src, snk, cols, lag, mode, pscale]
          SmallNs,   \* sizes for which every source / sink placement is enumerated ...
          SmallW, SmallS,   \* ... with these weight patterns
          Modes,     \* modes enumerated for the small sizes
          Lags,      \* lag times <<num, den>> enumerated for the small sizes
          Emit       \* TRUE: print every final state as a CASE line

VARIABLES cs,        \* the case
          pc,
          w, s,      \* the chain: w[k] for k in 1..n (w[n] = 0), s[i]
          pre,       \* prefix sums (record of sequences)
          q,         \* committors
          m,         \* mean first-passage times to cs.snk
          cv         \* cv[k]: column SortedCols[k] of the all-pairs table

lvars == <<cs, pc, w, s, pre, q, m, cv>>
lvars_but_pc == <<cs, w, s, pre, q, m, cv>>

None == <<>>
NoPre == [L |-> 0, R |-> None, PR |-> None, HD |-> None, H |-> None, G |-> None]
N == cs.n
Idx == 1..N
mode == cs.mode
src == cs.src
snk == cs.snk

V(f) == f \o <<>>                 \* force TLC's lazy function into a tuple

(* ---- small integer helpers -------------------------------------------------- *)
RECURSIVE GcdN(_, _)
GcdN(a, b) == IF b = 0 THEN a ELSE GcdN(b, a % b)
LcmN(a, b) == (a \div GcdN(a, b)) * b
RECURSIVE LcmOf(_)
LcmOf(S) == IF S = {} THEN 1 ELSE LET x == CHOOSE x \in S : TRUE IN LcmN(x, LcmOf(S \ {x}))

RECURSIVE Sorted(_)
Sorted(S) == IF S = {} THEN <<>>
             ELSE LET x == CHOOSE x \in S : \A y \in S : x <= y IN <<x>> \o Sorted(S \ {x})

MaxOf(S) == LET x0 == CHOOSE x \in S : TRUE IN FoldSet(LAMBDA x, acc : IF x > acc THEN x ELSE acc, x0, S)   \* (linear)
MinOf(S) == LET x0 == CHOOSE x \in S : TRUE IN FoldSet(LAMBDA x, acc : IF x < acc THEN x ELSE acc, x0, S)
(* nearest member of S at or below / at or above i; 0 / N+1 when there is none *)
Lo(S, i) == MaxOf({a \in S : a <= i} \cup {0})
Hi(S, i) == MinOf({a \in S : a >= i} \cup {N + 1})

(* ---- the chain ---------------------------------------------------------------- *)
PatAt(p, k) == p[((k - 1) % Len(p)) + 1]
Override(ov, k, dflt) == IF \E j \in 1..Len(ov) : ov[j][1] = k
                         THEN ov[CHOOSE j \in 1..Len(ov) : ov[j][1] = k][2] ELSE dflt

Wt(k)  == IF k = 0 THEN 0 ELSE w[k]                   \* w[N] = 0: no edge beyond the last state
Den(i) == Wt(i - 1) + s[i] + w[i]
X(i, j) == IF j = i THEN s[i] ELSE IF j = i + 1 THEN w[i] ELSE IF j = i - 1 THEN w[j] ELSE 0
L == pre.L                     \* least common multiple of the edge weights
Res(k) == pre.R[k]             \* resistance of edge k, times L:  L / w[k]

PR(i) == pre.PR[i]             \* sum of Res(k), k < i
HD(i) == pre.HD[i + 1]         \* sum of Den(k), k <= i   (HD(0) = 0)
HH(i) == pre.H[i]              \* sum of HD(k) Res(k), k < i
GG(i) == pre.G[i]              \* sum of (Total - HD(k)) Res(k), k < i
Total == HD(N)

(* <<0, x[1], x[1] + x[2], ...>>: running sums, by iteration (no deep recursion) *)
RunSum(terms) == FoldLeft(LAMBDA acc, x : Append(acc, acc[Len(acc)] + x), <<0>>, terms)

(* ---- candidates ----------------------------------------------------------------- *)
Vq(a) == IF a \in snk THEN 1 ELSE 0
QAt(i) ==
  LET S == src \cup snk
      a == Lo(S, i)
      b == Hi(S, i)
  IN IF a = i THEN BR(Vq(i), 1)
     ELSE IF a = 0 THEN BR(Vq(b), 1)
     ELSE IF b = N + 1 THEN BR(Vq(a), 1)
     ELSE BR(Vq(a) * (PR(b) - PR(i)) + Vq(b) * (PR(i) - PR(a)), PR(b) - PR(a))

(* the same value with the nearest absorbing states handed in: SolveQ computes them for all i in two linear
   sweeps (Lo / Hi filter the whole set for every state, which is quadratic in the size of the set and took
   12 minutes for 3338 sinks among 5200 states) *)
QAtW(a, b, i) ==
     IF a = i THEN BR(Vq(i), 1)
     ELSE IF a = 0 THEN BR(Vq(b), 1)
     ELSE IF b = N + 1 THEN BR(Vq(a), 1)
     ELSE BR(Vq(a) * (PR(b) - PR(i)) + Vq(b) * (PR(i) - PR(a)), PR(b) - PR(a))
LoSweep(S) == FoldLeft(LAMBDA acc, i : Append(acc, IF i \in S THEN i ELSE acc[Len(acc)]), <<0>>, [i \in 1..N |-> i])
                                                    \* LoSweep(S)[i + 1] = Lo(S, i)
HiSweep(S) == FoldLeft(LAMBDA acc, k : Append(acc, IF (N + 1 - k) \in S THEN N + 1 - k ELSE acc[Len(acc)]), <<N + 1>>,
                       [k \in 1..N |-> k])         \* HiSweep(S)[N + 2 - i] = Hi(S, i)
SweepsAgree(S) == \A i \in {1, 2, (N + 1) \div 2, N - 1, N} \cap Idx :
                    LoSweep(S)[i + 1] = Lo(S, i) /\ HiSweep(S)[N + 2 - i] = Hi(S, i)

(* unit-lag mean first-passage time from i into the set S *)
MAt(S, i) ==
  LET a == Lo(S, i)
      b == Hi(S, i)
  IN IF a = i THEN BRZero
     ELSE IF a = 0 THEN BR(HH(b) - HH(i), L)
     ELSE IF b = N + 1 THEN BR(GG(i) - GG(a), L)
     ELSE LET dpi == PR(i) - PR(a)
              dpb == PR(b) - PR(a)
              \* sum over the edges a <= k < x of (weight of the states a+1..k) x resistance; the second
              \* term only keeps the numbers small: a multiple of PR(x) - PR(a) cancels in the difference below
              Sp(x) == (HH(x) - HH(a)) - HD(a) * (PR(x) - PR(a))
          IN <<BSub(BMul(BFromInt(Sp(b)), BFromInt(dpi)), BMul(BFromInt(Sp(i)), BFromInt(dpb))),
               BMul(BFromInt(L), BFromInt(dpb))>>

LagBR == BR(cs.lag[1], cs.lag[2])
MVec(S, lg) == V([i \in Idx |-> BRMul(lg, MAt(S, i))])
SortedCols == Sorted(cs.cols)

Pi(i) == BR(Den(i), Total)
Tr(i, j) == BR(X(i, j), Den(i))

(* ---- state machine ---------------------------------------------------------------- *)
Subsets(nn) == SUBSET (1..nn)
SmallCase(nn, md, a, b, cl, lg) ==
  [id |-> 0, n |-> nn, wpat |-> SmallW, spat |-> SmallS, wov |-> <<>>, sov |-> <<>>,
   src |-> a, snk |-> b, cols |-> cl, lag |-> lg, mode |-> md, pscale |-> <<1, 1>>]
SmallCases ==
  UNION {   {SmallCase(nn, md, a, b, {}, <<1, 1>>) :
               md \in Modes \cap {"committor", "flux"},
               a \in Subsets(nn) \ {{}}, b \in Subsets(nn) \ {{}}}
      \cup {SmallCase(nn, "mfpt_sinks", {}, b, {}, lg) :
               md \in Modes \cap {"mfpt_sinks"}, b \in Subsets(nn) \ {{}}, lg \in Lags}
      \cup {SmallCase(nn, "mfpt_cols", {}, {}, 1..nn, lg) :
               md \in Modes \cap {"mfpt_cols"}, lg \in Lags}
         : nn \in SmallNs}

LegalCase(c) == /\ c.n >= 2
                /\ c.src \cap c.snk = {}
                /\ c.src \cup c.snk \cup c.cols \subseteq 1..c.n
                /\ c.mode \in {"committor", "flux"} => c.src # {} /\ c.snk # {}
                /\ c.mode = "mfpt_sinks" => c.snk # {}
                /\ c.mode = "mfpt_cols" => c.cols # {}

LInit ==
  /\ cs \in {c \in Cases \cup SmallCases : LegalCase(c)}
  /\ pc = "chain"
  /\ w = None /\ s = None /\ pre = NoPre /\ q = None /\ m = None /\ cv = None

BuildChain ==
  /\ pc = "chain"
  /\ w' = V([k \in Idx |-> IF k = N THEN 0 ELSE Override(cs.wov, k, PatAt(cs.wpat, k))])
  /\ s' = V([i \in Idx |-> Override(cs.sov, i, PatAt(cs.spat, i))])
  /\ pc' = "lcm"
  /\ UNCHANGED <<cs, pre, q, m, cv>>

(* prefix sums, in three steps so that each one reads finished sequences of the previous state; *)
(* the mean first-passage sums are only formed in the mfpt modes (RangeOK bounds them)           *)
LeastCommonMultiple ==
  /\ pc = "lcm"
  /\ pre' = [pre EXCEPT !.L = LcmOf({w[k] : k \in 1..(N - 1)})]
  /\ pc' = "resist"
  /\ UNCHANGED <<cs, w, s, q, m, cv>>

Resistances ==
  /\ pc = "resist"
  /\ pre' = [pre EXCEPT !.R  = V([k \in 1..(N - 1) |-> pre.L \div w[k]]),
                        !.HD = RunSum(V([i \in Idx |-> Den(i)]))]
  /\ pc' = "prefix"
  /\ UNCHANGED <<cs, w, s, q, m, cv>>

Prefix ==
  /\ pc = "prefix"
  /\ LET mf == mode \in {"mfpt_sinks", "mfpt_cols"}
         tt == pre.HD[N + 1]
     IN pre' = [pre EXCEPT !.PR = RunSum(pre.R),
                           !.H  = IF mf THEN RunSum(V([k \in 1..(N - 1) |-> pre.HD[k + 1] * pre.R[k]])) ELSE None,
                           !.G  = IF mf THEN RunSum(V([k \in 1..(N - 1) |-> (tt - pre.HD[k + 1]) * pre.R[k]]))
                                  ELSE None]
  /\ pc' = IF mode \in {"committor", "flux"} THEN "solve_q" ELSE "solve_m"
  /\ UNCHANGED <<cs, w, s, q, m, cv>>

SolveQ ==
  /\ pc = "solve_q"
  /\ LET S  == src \cup snk
         lo == LoSweep(S)
         hi == HiSweep(S)
     IN q' = V([i \in Idx |-> QAtW(lo[i + 1], hi[N + 2 - i], i)])
  /\ pc' = IF mode = "flux" THEN "f_data" ELSE "done"
  /\ UNCHANGED <<cs, w, s, pre, m, cv>>

SolveM ==
  /\ pc = "solve_m"
  /\ IF mode = "mfpt_sinks"
     THEN m' = MVec(snk, LagBR) /\ cv' = cv
     ELSE m' = m /\ cv' = V([k \in 1..Len(SortedCols) |-> MVec({SortedCols[k]}, LagBR)])
  /\ pc' = "done"
  /\ UNCHANGED <<cs, w, s, pre, q>>

LNext == BuildChain \/ LeastCommonMultiple \/ Resistances \/ Prefix \/ SolveQ \/ SolveM
LSpec == LInit /\ [][LNext]_lvars

(* ---- properties ---------------------------------------------------------------------- *)
HasChain == pc \notin {"chain"}
HasPre   == pc \notin {"chain", "lcm", "resist", "prefix"}
HasQ     == q # None
HasM     == m # None
HasCols  == cv # None
Inter    == Idx \ (src \cup snk)

ChainOK == HasChain => /\ \A k \in 1..(N - 1) : w[k] > 0
                       /\ w[N] = 0
                       /\ \A i \in Idx : s[i] >= 0 /\ Den(i) > 0

(* the 32-bit prefix sums have headroom (TLC stops on an overflow; this states the margin) *)
Bound == 1073741823
RangeOK == HasPre => /\ Total <= Bound /\ PR(N) <= Bound
                     /\ (pre.H # None => HH(N) <= Bound \div 2 /\ GG(N) <= Bound \div 2
                                         /\ HD(N) <= Bound \div (PR(N) + 1))

(* the populations handed to mfpts(populations=...) are stationary and in detailed balance *)
PiStationary == pc = "done" => \A j \in {1, 2, (N + 1) \div 2, N - 1, N} \cap Idx :
  /\ BREq(Pi(j), BRAdd(BRAdd(IF j > 1 THEN BRMul(Pi(j - 1), Tr(j - 1, j)) ELSE BRZero, BRMul(Pi(j), Tr(j, j))),
                       IF j < N THEN BRMul(Pi(j + 1), Tr(j + 1, j)) ELSE BRZero))
  /\ (j < N => BREq(BRMul(Pi(j), Tr(j, j + 1)), BRMul(Pi(j + 1), Tr(j + 1, j))))

(* sum over the neighbours j of i of X[i][j] * x[j] *)
Lin3(i, x) == BRAdd(BRAdd(IF i > 1 THEN BRScale(w[i - 1], x[i - 1]) ELSE BRZero, BRScale(s[i], x[i])),
                    IF i < N THEN BRScale(w[i], x[i + 1]) ELSE BRZero)

(* committors *)
SweepIsDef == HasQ => /\ SweepsAgree(src \cup snk)
                      /\ \A i \in (IF N <= 64 THEN Idx ELSE {1, 2, (N + 1) \div 2, N - 1, N}) : q[i] = QAt(i)
PinnedSources == HasQ => \A i \in src : BRIsZero(q[i])
PinnedSinks   == HasQ => \A i \in snk : BREq(q[i], BROne)
InUnit        == HasQ => \A i \in Idx : BRIsRat(q[i]) /\ BLe(q[i][1], q[i][2])
FirstStep     == HasQ => \A i \in Inter : BREq(BRScale(Den(i), q[i]), Lin3(i, q))

(* mean first-passage times: vec is 0 on S and den[i] vec[i] = den[i] lag + sum_j X[i][j] vec[j] off it *)
MZero(vec, S) == \A i \in S : BRIsZero(vec[i])
MFirstLag(vec, S, lg) == \A i \in Idx \ S :
  /\ BRIsRat(vec[i])
  /\ BREq(BRScale(Den(i), vec[i]), BRAdd(BRScale(Den(i), lg), Lin3(i, vec)))
MFirst(vec, S) == MFirstLag(vec, S, LagBR)
(* vec is the lag time times the solution for lag time one *)
MLagLinear(vec, S) == LET m1 == MVec(S, BROne)
                      IN /\ MZero(m1, S) /\ MFirstLag(m1, S, BROne)
                         /\ \A i \in Idx : BREq(vec[i], BRMul(LagBR, m1[i]))

MZeroOnSinks  == HasM => MZero(m, snk)
MFPTFirstStep == HasM => MFirst(m, snk)
LagLinear     == HasM => MLagLinear(m, snk)

(* all-pairs table: the column of s is the mean first-passage time to the single sink s  *)
(* (SolveM builds cv[k] with the operator of the sink-set mode applied to {s}: AllPairsColumn *)
(* holds by construction), and it satisfies the first-step equations of that sink           *)
AllPairsFirstStep == HasCols => \A k \in 1..Len(SortedCols) :
                       MZero(cv[k], {SortedCols[k]}) /\ MFirst(cv[k], {SortedCols[k]})

(* ---- emission for replay -------------------------------------------------------------- *)
EmitInv == (Emit /\ pc = "done") =>
  PrintT(<<"CASE", ToJson([family |-> "line", id |-> cs.id, n |-> N, mode |-> mode, w |-> w, s |-> s,
                           src |-> Sorted(src), snk |-> Sorted(snk), cols |-> SortedCols, lag |-> cs.lag,
                           q |-> q, m |-> m, cv |-> cv,
                           pi |-> IF mode = "committor" THEN None ELSE V([i \in Idx |-> Pi(i)])])>>)
=============================================================================
