------------------------------ MODULE PurityHist ------------------------------
(* Call histories for the dynamic half of C19: what the process did before the  *)
(* call under test.  A history is a poison pattern for freshly allocated numpy *)
(* memory (0xFF.. = NaN, 0x7F.. = 1.4e306, 0 = zero pages of a fresh process),  *)
(* up to two earlier calls from a "dirtying" routine alphabet (whose results are*)
(* freed before the call under test), and an OpenMP thread count.  A call is a  *)
(* routine of the alphabet (harness/purity_routines.py) with one of its         *)
(* argument sets.  The behaviours of the dynamic half are the product           *)
(*     Calls \X Histories                                                       *)
(* TLC enumerates the two factors (HInit: the histories, CInit: the calls);     *)
(* the driver replays, under the poisoning allocator, for EVERY call the        *)
(* mandatory histories (NaN pattern, no prior call, 1 and 16 threads) and a     *)
(* seed-rotated section of the remaining product (the full product of the       *)
(* widened alphabet, ~1700 calls x ~4100 histories, is not replayable).         *)
EXTENDS Integers, Sequences, TLC, Json
CONSTANTS NRoutines, NDirty, NArgsets, NPriorArgsets
VARIABLES h
Histories == [prior : UNION {[1..n -> (1..NDirty) \X (1..NPriorArgsets)] : n \in 0..2},
              byte : {255, 127, 0}, threads : {1, 2, 4, 16}]
Calls == [routine : 1..NRoutines, argset : 1..NArgsets]
HInit == h \in Histories
CInit == h \in Calls
HNext == UNCHANGED h
Mandatory(x) == x.prior = <<>> /\ x.byte = 255 /\ x.threads \in {1, 16}
EmitHist == PrintT(<<"CASE", ToJson(h)>>)
EmitCall == PrintT(<<"CALL", ToJson(h)>>)
=============================================================================
