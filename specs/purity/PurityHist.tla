------------------------------ MODULE PurityHist ------------------------------
(* Call histories for the dynamic half of C19: what the process did before the  *)
(* call under test.  A history is a poison pattern for freshly allocated numpy *)
(* memory (0xFF.. = NaN, 0x7F.. = 1.4e306, 0 = zero pages of a fresh process),  *)
(* up to two earlier calls from a "dirtying" routine alphabet (whose results are*)
(* freed before the call under test), and an OpenMP thread count.  TLC          *)
(* enumerates them; the driver replays each under the poisoning allocator.      *)
EXTENDS Integers, Sequences, TLC, Json
CONSTANTS NRoutines, NDirty, NArgsets
VARIABLES h
HInit == h \in [routine : 1..NRoutines, argset : 1..NArgsets,
                prior : UNION {[1..n -> (1..NDirty) \X (1..NArgsets)] : n \in 0..2},
                byte : {255, 127, 0}, threads : {1, 2, 4, 16}]
HNext == UNCHANGED h
EmitHist == PrintT(<<"CASE", ToJson(h)>>)
=============================================================================
