-------------------------------- MODULE Purity --------------------------------
(* Property C19: results depend on arguments only -- not on what the process   *)
(* computed and freed before (heap contents), nor on thread / worker counts.   *)
(*                                                                            *)
(* Heap model: a block handed out by the allocator contains, cell by cell,    *)
(* whatever the last owner left there: "zero" in a fresh process, "junk" after *)
(* some earlier routine freed it (History).  A routine is a short program     *)
(* over one working buffer, taken from the ROUTINE TABLE that                  *)
(* harness/extract/masked_sites.py extracts from the library source:          *)
(*   masked_noout      ufunc(..., where=mask) allocates its own output: only   *)
(*                     masked cells are written, the rest is whatever the heap *)
(*                     held; the result is then read as a whole                *)
(*   masked_out_zero   same with out= a zero-initialised buffer                *)
(*   masked_out_init / masked_out_other   out= an initialised array            *)
(*   empty_filled / empty_filled_by_index  np.empty then written completely    *)
(*   empty_unknown     np.empty whose initialisation the extractor cannot see  *)
(* Self-composition: the routine runs in world A (fresh heap) and world B      *)
(* (after an arbitrary history) on the same arguments (same mask).             *)
EXTENDS Integers, Sequences, FiniteSets, TLC, Json

CONSTANTS Sites,      \* sequence of [site, kind]
          NCells,     \* cells of the working buffer
          MaxHist     \* history depth

Cells == 1..NCells

VARIABLES s,       \* index into Sites
          mask,    \* cells selected by the where= mask (an ARGUMENT: same in both worlds)
          junk,    \* cells of the block that hold junk after the history (world B)
          hist,    \* history steps taken
          bufA, bufB, pc, threads

vars == <<s, mask, junk, hist, bufA, bufB, pc, threads>>

Kind == Sites[s].kind

Init == /\ s \in 1..Len(Sites)
        /\ mask \in SUBSET Cells
        /\ junk = {} /\ hist = 0
        /\ bufA = <<>> /\ bufB = <<>>
        /\ threads \in {1, 2, 4, 16}
        /\ pc = "history"

(* an earlier call wrote into cell c and freed it / a zeroed block was freed *)
FreeJunk(c) == /\ pc = "history" /\ hist < MaxHist
               /\ junk' = junk \cup {c} /\ hist' = hist + 1
               /\ UNCHANGED <<s, mask, bufA, bufB, pc, threads>>
FreeZero(c) == /\ pc = "history" /\ hist < MaxHist /\ c \in junk
               /\ junk' = junk \ {c} /\ hist' = hist + 1
               /\ UNCHANGED <<s, mask, bufA, bufB, pc, threads>>

(* allocation of the working buffer *)
Alloc == /\ pc = "history"
         /\ bufA' = [c \in Cells |-> IF Kind \in {"masked_out_init", "masked_out_other"} THEN "val" ELSE "zero"]
         /\ bufB' = [c \in Cells |->
                       IF Kind \in {"masked_out_init", "masked_out_other"} THEN "val"
                       ELSE IF Kind = "masked_out_zero" THEN "zero"
                       ELSE IF c \in junk THEN "junk" ELSE "zero"]       \* uninitialised allocation
         /\ pc' = "write"
         /\ UNCHANGED <<s, mask, junk, hist, threads>>

(* the write: masked cells only, or the whole buffer; any split over threads writes the
   same cells (each cell is written by exactly one iteration) *)
Write == /\ pc = "write"
         /\ LET W == IF Kind \in {"empty_filled", "empty_filled_by_index"} THEN Cells
                     ELSE IF Kind = "empty_unknown" THEN {} ELSE mask
            IN /\ bufA' = [c \in Cells |-> IF c \in W THEN "val" ELSE bufA[c]]
               /\ bufB' = [c \in Cells |-> IF c \in W THEN "val" ELSE bufB[c]]
         /\ pc' = "read"
         /\ UNCHANGED <<s, mask, junk, hist, threads>>

(* the result is computed from every cell of the buffer *)
Read == /\ pc = "read" /\ pc' = "done"
        /\ UNCHANGED <<s, mask, junk, hist, bufA, bufB, threads>>

Next == (\E c \in Cells : FreeJunk(c) \/ FreeZero(c)) \/ Alloc \/ Write \/ Read
Spec == Init /\ [][Next]_vars

JunkRead == pc = "done" /\ \E c \in Cells : bufB[c] = "junk"
SameResult == pc = "done" => bufA = bufB
NoJunkRead == ~JunkRead
(* per-site verdicts (the driver turns them into findings keyed by the source site) *)
Report == JunkRead => PrintT(<<"JUNKREAD", Sites[s].site, Sites[s].kind>>)
Modelled == pc = "done" => PrintT(<<"SITE", Sites[s].site, Sites[s].kind>>)

SameResultOrReported == (pc = "done" /\ bufA # bufB) => JunkRead
=============================================================================
