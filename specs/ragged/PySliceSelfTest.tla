-------------------------- MODULE PySliceSelfTest --------------------------
(* Self-test of specs/common/PySlice.tla against CPython.  TLC prints, for    *)
(* every axis length n in 0..MaxN and every step, the table over all          *)
(* (start, stop) in (-B..B and None)^2 of                                     *)
(*     <<Norm(start, stop, step, n), SliceIdx(start, stop, step, n)>>         *)
(* and, per n, NormIdx(i, n) for i in -B..B.  props/c05.py:selftest compares  *)
(* the table with slice(start, stop, step).indices(n), list(range(n))[slice]  *)
(* and Python's integer indexing.  (The definitions in RaggedRead rest on     *)
(* these operators, so they are validated against the language itself.)       *)
EXTENDS Integers, Sequences, TLC, Json, PySlice

CONSTANTS MaxN, B

VARIABLES n, step

StepSeq == <<-3, -2, -1, 1, 2, 3, None>>
Bnd(k) == IF k = 2 * B + 2 THEN None ELSE k - B - 1        \* k in 1..2B+2

Init == n \in 0..MaxN /\ step \in {StepSeq[k] : k \in 1..Len(StepSeq)}
Next == UNCHANGED <<n, step>>

Table == [i \in 1..(2 * B + 2) |-> [j \in 1..(2 * B + 2) |->
            <<Norm(Bnd(i), Bnd(j), step, n), SliceIdx(Bnd(i), Bnd(j), step, n)>>]]

(* internal consistency, checked by TLC itself: the selected positions lie on  *)
(* the axis, are strictly monotone in the direction of the step, and their     *)
(* number is RangeLen                                                          *)
Consistent ==
  \A i \in 1..(2 * B + 2), j \in 1..(2 * B + 2) :
     LET nm == Norm(Bnd(i), Bnd(j), step, n)
         ix == SliceIdx(Bnd(i), Bnd(j), step, n)
     IN /\ Len(ix) = RangeLen(nm[1], nm[2], nm[3])
        /\ \A k \in 1..Len(ix) : ix[k] \in 0..(n - 1)
        /\ \A k \in 1..(Len(ix) - 1) : ix[k + 1] - ix[k] = nm[3]

EmitInv ==
  PrintT(<<"SLICE", ToJson([n |-> n, step |-> step, B |-> B, table |-> Table,
                            normidx |-> [k \in 1..(2 * B + 1) |-> NormIdx(k - B - 1, n)]])>>)
=============================================================================
