-------------------------- MODULE Trace_RaggedRead --------------------------
(* Trace validation for property C05 (binding B).  The file named by the       *)
(* environment variable TRACE_FILE holds one JSON record per line:             *)
(*    {"rows": [[..], ..], "ix": <index>, "res": <projected result>}           *)
(* recorded from RaggedArray.__getitem__ calls of the real code (the reads     *)
(* performed by enspara/test/test_ra.py).  <index> is {"i": n} | {"s": [start, *)
(* stop, step]} (1000000 = None) | {"l": [..]} | {"m": boolean rows} |         *)
(* {"r": <index>, "c": <index>}; <result> is {"r": rows} | {"f": flat} |       *)
(* {"v": element} | {"e": exception name}.                                     *)
(*                                                                             *)
(* For every record TLC evaluates the definition Get(rows, ix) of RaggedRead   *)
(* and prints a verdict: ACCEPT, or REJECT with the index class and the        *)
(* expected result.  Verdicts are total: one line per record.                  *)
EXTENDS RaggedRead, IOUtils

Traces == ndJsonDeserialize(IOEnv.TRACE_FILE)

DecIx1(j) == IF "i" \in DOMAIN j THEN I(j.i)
             ELSE IF "s" \in DOMAIN j THEN S(j.s[1], j.s[2], j.s[3])
             ELSE L(j.l)

DecIx(j) == IF "m" \in DOMAIN j THEN M(j.m)
            ELSE IF "r" \in DOMAIN j THEN P(DecIx1(j.r), DecIx1(j.c))
            ELSE DecIx1(j)

DecRes(j) == IF "e" \in DOMAIN j THEN Err
             ELSE IF "r" \in DOMAIN j THEN Rows(j.r)
             ELSE IF "f" \in DOMAIN j THEN Flat(j.f)
             ELSE Scalar(j.v)

TraceInit ==
  /\ ix \in {[t |-> "T", tid |-> k] : k \in 1..Len(Traces)}
  /\ lens = <<>> /\ edim = 0 /\ pc = "trace"
  /\ Blank

TraceNext == UNCHANGED vars

Verdict ==
  pc = "trace" =>
     LET tr  == Traces[ix.tid]
         x   == DecIx(tr.ix)
         g   == Get(tr.rows, x)
         obs == DecRes(tr.res)
     IN IF ~WellFormed(tr.rows) THEN PrintT(<<"TV", ix.tid, "MALFORMED", "", 0>>)
        ELSE IF ResEq(g, obs) THEN PrintT(<<"TV", ix.tid, "ACCEPT", "", 0>>)
        ELSE PrintT(<<"TV", ix.tid, "REJECT", ClassG(Lengths(tr.rows), x, g), ToJson(EncRes(g))>>)
=============================================================================
