----------------------------- MODULE RaggedRead -----------------------------
(* Property C05: reading a ragged array equals reading the list of its rows.  *)
(*                                                                            *)
(* Part 1  index grammar as data                                              *)
(* Part 2  Get(rows, ix): the DEFINITION -- what the same index expression    *)
(*         returns on a Python list of per-row numpy arrays                   *)
(* Part 3  the implementation's flat-offset arithmetic, transcribed from       *)
(*         enspara/ra/ra.py (_slice_to_list, _get_iis_from_slices,            *)
(*         _get_iis_from_list, where/_convert_from_1d, _convert_from_2d with  *)
(*         _handle_negative_indices and the bounds check, the result          *)
(*         constructor), as operators and as a step machine; constant Patched *)
(*         selects the pinned tree or the tree with the proposed repairs      *)
(* Part 4  index classes, and the design-level statement: for which classes   *)
(*         the transcription equals the definition                            *)
(* Part 5  enumeration scope, Init/Next, emission for replay                  *)
(* Part 6  long rows / many rows: a catalogue of shapes whose axes are longer  *)
(*         than a narrow integer type can count, index expressions around the  *)
(*         ends of the axes and the limits of int8 / uint8 / int16, and the    *)
(*         dtype-aware transcription of _convert_from_2d that tells for which  *)
(*         (case, index dtype) the arithmetic of the code leaves the range     *)
EXTENDS Ragged, FiniteSets, TLC, Json

SX == INSTANCE SequencesExt   \* (EXTENDS would clash with PySlice!Range)

CONSTANTS MaxRows, MaxLen,  \* shapes: 1..MaxRows rows of length 1..MaxLen
          Bound,            \* integer indices and slice bounds range over -Bound..Bound (bounds also None)
          MaxList,          \* index lists of length 0..MaxList
          MaskMax,          \* all boolean masks for shapes with <= MaskMax elements, 5 typical ones otherwise
          Pairwise,         \* TRUE: two-slot products "every x representative" instead of "every x every"
          ShardN, ShardK,   \* this run handles the shapes whose ordinal mod ShardN = ShardK
          SampleN, SampleK, \* full products (not Pairwise) keep the pairs whose mix mod SampleN = SampleK
          Emit,             \* TRUE: batch emission of cases for replay
          Patched,          \* FALSE: Part 3 is the pinned tree; TRUE: Part 3 with the repairs proposed for
                            \* ra.py (slice.indices per axis / per row, integer-typed empty index arrays,
                            \* constructor accepts empty data and keeps trailing element dimensions,
                            \* ra[i, j] returns the element)
          LongSel,          \* Part 6: the shapes of LongCatalogue (by position) this run handles ({} = none)
          LongKinds,        \*         the index kinds this run handles
          LongMaxSel,       \*         slices of the long family select at most this many positions per axis ...
          LongMaxTot        \*         ... except a few representatives; no emitted result holds more elements

VARIABLES lens,   \* the shape: sequence of row lengths
          ix,     \* the index expression
          edim,   \* element width: 0 scalars, 2 two-vectors (only the result constructor cares)
          pc, first, fi, si, nl, nlnd, flat, vals, out   \* the implementation's intermediate values

Lo == -Bound
Hi == Bound

vars == <<lens, ix, edim, pc, first, fi, si, nl, nlnd, flat, vals, out>>

(* every cell holds a distinct value, so data from a wrong place is visible:   *)
(* cell (r, c) holds Stride * r + c, with a stride wider than the longest row  *)
(* (10 for the exhaustive small shapes, 100000 for the long ones of Part 6;    *)
(* props/c05.py `_stride` is the same rule; values stay far below 2^31)        *)
Stride(ls) == IF \A k \in 1..Len(ls) : ls[k] <= 10 THEN 10 ELSE 100000
Cell(st, r, c) == st * r + c
RowsOf(ls) == LET st == Stride(ls) IN [k \in 1..Len(ls) |-> [j \in 1..ls[k] |-> Cell(st, k - 1, j - 1)]]

(* ========================================================================== *)
(* Part 1: index grammar                                                      *)
(* ========================================================================== *)
Ix(t, i, a, b, c, l) == [t |-> t, i |-> i, a |-> a, b |-> b, c |-> c, l |-> l]
I(n)       == Ix("I", n, 0, 0, 0, <<>>)          \* integer
S(a, b, c) == Ix("S", 0, a, b, c, <<>>)          \* slice(a, b, c); each may be None; c # 0
L(l)       == Ix("L", 0, 0, 0, 0, l)             \* list of integers
P(r, c)    == [t |-> "P", r |-> r, c |-> c]      \* the pair ra[r, c]
M(m)       == [t |-> "M", m |-> m]               \* boolean ragged mask of the array's own shape

(* tagged results                                                             *)
Rows(v)   == [tag |-> "Rows",   v |-> v]    \* a ragged array / list of rows
Flat(v)   == [tag |-> "Flat",   v |-> v]    \* a 1-d array of elements
Col(v)    == [tag |-> "Col",    v |-> v]    \* one element per selected row: ra[rows, j]
Scalar(v) == [tag |-> "Scalar", v |-> v]    \* one element
Err       == [tag |-> "Err",    v |-> <<>>] \* an exception

(* A column read ra[a:b, j] is `[r[j] for r in rows[a:b]]`; numpy would give  *)
(* a 1-d array, the library documents and tests rows of length one            *)
(* (test_RaggedArray_numpy_compatability).  Both are accepted for Col.        *)
ResEq(g, o) ==
  IF g.tag = "Col"
  THEN \/ o.tag \in {"Col", "Flat"} /\ o.v = g.v
       \/ o.tag = "Rows" /\ o.v = [k \in 1..Len(g.v) |-> <<g.v[k]>>]
  ELSE g.tag = o.tag /\ (g.tag = "Err" \/ g.v = o.v)

(* ========================================================================== *)
(* Part 2: the definition (list-of-rows meaning)                              *)
(* ========================================================================== *)
Bad == <<-1>>     \* "IndexError" marker for a selection (real selections hold numbers >= 0)

(* positions selected on an axis of length n by an int, a slice or a list     *)
Sel(n, x) ==
  CASE x.t = "I" -> IF NormIdx(x.i, n) = -1 THEN Bad ELSE <<NormIdx(x.i, n)>>
    [] x.t = "S" -> SliceIdx(x.a, x.b, x.c, n)
    [] x.t = "L" -> IF \E k \in 1..Len(x.l) : NormIdx(x.l[k], n) = -1 THEN Bad
                    ELSE [k \in 1..Len(x.l) |-> NormIdx(x.l[k], n)]

Take(s, sel) == [k \in 1..Len(sel) |-> s[sel[k] + 1]]

MaskRow(row, mrow) == Take(row, SelectSeq([j \in 1..Len(row) |-> j - 1], LAMBDA j : mrow[j + 1]))

(* ra[[r1, r2, ..], [c1, c2, ..]]: element k is rows[rk][ck]                   *)
GetPaired(rows, rl, cl) ==
  LET n == Len(rows)
      okk(k) == /\ NormIdx(rl[k], n) # -1
                /\ NormIdx(cl[k], Len(rows[NormIdx(rl[k], n) + 1])) # -1
  IN IF Len(rl) # Len(cl) \/ \E k \in 1..Len(rl) : ~okk(k) THEN Err
     ELSE Flat([k \in 1..Len(rl) |->
                  LET row == rows[NormIdx(rl[k], n) + 1] IN row[NormIdx(cl[k], Len(row)) + 1]])

(* ra[r, c] for the other pairs: [row[c] for row in rows[r]]                   *)
GetPair(rows, r, c) ==
  LET sel == Sel(Len(rows), r) IN
  IF sel = Bad THEN Err
  ELSE LET cs   == [k \in 1..Len(sel) |-> Sel(Len(rows[sel[k] + 1]), c)]
           vs   == [k \in 1..Len(sel) |-> Take(rows[sel[k] + 1], cs[k])]
       IN IF \E k \in 1..Len(sel) : cs[k] = Bad THEN Err
          ELSE CASE r.t = "I" /\ c.t = "I" -> Scalar(vs[1][1])
                 [] r.t = "I" /\ c.t = "S" -> Flat(vs[1])
                 [] r.t = "I" /\ c.t = "L" -> Flat(vs[1])              \* rows[i][[c1, c2, ..]]
                 [] r.t = "S" /\ c.t = "I" -> Col([k \in 1..Len(sel) |-> vs[k][1]])
                 [] r.t = "L" /\ c.t = "I" -> Flat([k \in 1..Len(sel) |-> vs[k][1]])
                 [] OTHER                  -> Rows(vs)      \* (S|L, S) and (S, L)

Get(rows, x) ==
  CASE x.t = "I" -> LET s == Sel(Len(rows), x) IN IF s = Bad THEN Err ELSE Flat(rows[s[1] + 1])
    [] x.t \in {"S", "L"} -> LET s == Sel(Len(rows), x) IN IF s = Bad THEN Err ELSE Rows(Take(rows, s))
    [] x.t = "M" -> Flat(Flatten([k \in 1..Len(rows) |-> MaskRow(rows[k], x.m[k])]))
    [] x.t = "P" -> IF x.r.t = "L" /\ x.c.t = "L" THEN GetPaired(rows, x.r.l, x.c.l)
                    ELSE GetPair(rows, x.r, x.c)

(* An element access outside a row is an error, never a neighbour's data.     *)
(* (a theorem about Get, checked by TLC on every shape in scope)              *)
NoNeighbourLeakDef(rows) ==
  \A r \in Lo..Hi, c \in Lo..Hi :
     LET g == Get(rows, P(I(r), I(c)))
         n == Len(rows)
     IN IF NormIdx(r, n) # -1 /\ NormIdx(c, Len(rows[NormIdx(r, n) + 1])) # -1
        THEN g.tag = "Scalar" /\ g.v \in {rows[NormIdx(r, n) + 1][j] : j \in 1..Len(rows[NormIdx(r, n) + 1])}
        ELSE g.tag = "Err"

(* ========================================================================== *)
(* Part 3: the implementation's arithmetic (pinned tree), transcribed         *)
(* ========================================================================== *)
Fail(why) == [ok |-> FALSE, why |-> why]

(* _slice_to_list(slice, length): start/stop made non-negative by adding the  *)
(* length ONCE, no clipping; the `step < 0` branch of the code is dead (start *)
(* and stop have been replaced before it is reached)                          *)
ISliceToList(s, n) ==
  IF Patched THEN SliceIdx(s.a, s.b, s.c, n) ELSE        \* range(*slice.indices(n))
  LET start == IF s.a = None THEN 0 ELSE IF s.a < 0 THEN n + s.a ELSE s.a
      stop  == IF s.b = None THEN n ELSE IF s.b < 0 THEN n + s.b ELSE s.b
      step  == IF s.c = None THEN 1 ELSE s.c
  IN Range(start, stop, step)

(* per-row stop of _get_iis_from_slices: negative stop is relative to the     *)
(* row, stops beyond the row are cut to the row length; start is NOT adjusted *)
IStop(s, len) ==
  LET raw == IF s.b = None THEN len ELSE IF s.b < 0 THEN len + s.b ELSE s.b
  IN IF raw > len THEN len ELSE raw

IColRange(s, len) ==
  IF Patched THEN SliceIdx(s.a, s.b, s.c, len) ELSE      \* np.arange(*slice.indices(len(row)))
  Range(IF s.a = None THEN 0 ELSE s.a, IStop(s, len), IF s.c = None THEN 1 ELSE s.c)

Repeat(v, k) == [j \in 1..k |-> v]

(* _get_iis_from_slices(first_dimension_iis, slice, lengths)                   *)
IisFromSlices(fst, s, ls) ==
  LET n == Len(ls)
      m == Len(fst)
  IN IF \E k \in 1..m : NormIdx(fst[k], n) = -1
     THEN Fail("IndexError/stops[num]: row number outside the array")
     ELSE LET cols == [k \in 1..m |-> IColRange(s, ls[NormIdx(fst[k], n) + 1])] IN
          IF ~Patched /\ m = 0 THEN Fail("ValueError/concatenate: no row selected")
          ELSE IF ~Patched /\ \E k \in 1..m : Len(cols[k]) = 0
          THEN Fail("TypeError/concatenate(dtype=int): a row comes out empty")
          ELSE [ok |-> TRUE, why |-> "",
                fi |-> Flatten([k \in 1..m |-> Repeat(fst[k], Len(cols[k]))]),
                si |-> Flatten(cols),
                nl |-> [k \in 1..m |-> Len(cols[k])]]

(* _get_iis_from_list(first, second): itertools.product, transposed; the      *)
(* unpacking of an empty product fails in _convert_from_2d                    *)
IisFromList(fst, l) ==
  IF ~Patched /\ (Len(fst) = 0 \/ Len(l) = 0)
  THEN Fail("ValueError/unpack: empty index product")
  ELSE [ok |-> TRUE, why |-> "",
        fi |-> Flatten([k \in 1..Len(fst) |-> Repeat(fst[k], Len(l))]),
        si |-> Flatten([k \in 1..Len(fst) |-> l]),
        nl |-> [k \in 1..Len(fst) |-> Len(l)]]

(* where(mask): np.where on the flat mask, _convert_from_1d by `starts`        *)
WhereMask(m) ==
  LET ls == Lengths(m)
      fm == Flatten(m)
      pos == SelectSeq([f \in 1..Len(fm) |-> f - 1], LAMBDA f : fm[f + 1])
  IN [fi |-> [k \in 1..Len(pos) |-> RowOfFlat(ls, pos[k])],
      si |-> [k \in 1..Len(pos) |-> ColOfFlat(ls, pos[k])]]

(* _convert_from_2d((fi, si), lengths, starts) incl. _handle_negative_indices *)
(* and the "row too short" check; fi and si have equal length here (a single  *)
(* column index has been repeated before)                                     *)
(*                                                                            *)
(* The two index arrays keep the dtype the caller gave them (np.array(x) of    *)
(* an int8 array / np.int8 scalar / list of np.int8 is an int8 array), and     *)
(* _handle_negative_indices adds the axis length IN PLACE, i.e. in that dtype. *)
(* rb / cb name the dtype of the row / column index array: 0 = a type as wide  *)
(* as intp (nothing in scope leaves its range), 8 / 16 = a signed type of that *)
(* many bits, U64 = uint64.                                                    *)
(*   rows:    `first += len(starts)` adds a Python int: when the row count     *)
(*            does not fit the dtype numpy (NEP 50) raises OverflowError;      *)
(*   columns: `second[neg] += lengths[first[neg]]` adds an int64 array with    *)
(*            same-kind casting: the sum wraps modulo 2^bits;                  *)
(*   uint64:  `starts[first] + second` of an int64 and a uint64 array is a     *)
(*            float64 array, which cannot index the data.                      *)
(* (Proposed repair: cast both arrays to intp first; then rb = cb = 0 always.   *)
(* Whether the tree still computes in the caller's dtype is recorded in        *)
(* props/c05.py, NARROW_INDEX_DEFECT_REPAIRED / UINT64_INDEX_DEFECT_REPAIRED.) *)
U64 == -64
TMax(bits) == 2^(bits - 1) - 1
WrapT(v, bits) == IF bits = 0 THEN v ELSE LET m == 2^bits IN ((v + m \div 2) % m) - m \div 2

ConvertFrom2dT(f, s, ls, rb, cb) ==
  LET n == Len(ls)
      m == Len(f)
      r1(k) == IF f[k] < 0 THEN f[k] + n ELSE f[k]
  IN IF ~Patched /\ m = 0 THEN Fail("IndexError/empty (float) index array")
     ELSE IF rb \in {8, 16} /\ n > TMax(rb) /\ \E k \in 1..m : f[k] < 0
     THEN Fail("OverflowError/the row count does not fit the dtype of the row index")
     ELSE IF \E k \in 1..m : r1(k) < 0 THEN Fail("IndexError/row below -n")
     ELSE IF \E k \in 1..m : r1(k) >= n THEN Fail("IndexError/row beyond n")
     ELSE LET c1(k) == IF s[k] < 0 THEN WrapT(s[k] + ls[r1(k) + 1], IF cb \in {8, 16} THEN cb ELSE 0) ELSE s[k] IN
          IF \E k \in 1..m : c1(k) < 0 THEN Fail("IndexError/column below -len")
          ELSE IF \E k \in 1..m : ls[r1(k) + 1] <= c1(k) THEN Fail("IndexError/row too short")
          ELSE IF cb = U64 /\ m > 0 THEN Fail("IndexError/int64 + uint64 gives a float64 index array")
          ELSE [ok |-> TRUE, why |-> "",
                rows |-> [k \in 1..m |-> r1(k)],
                flat |-> [k \in 1..m |-> Starts(ls)[r1(k) + 1] + c1(k)]]

ConvertFrom2d(f, s, ls) == ConvertFrom2dT(f, s, ls, 0, 0)

Gather(data, fl) == [k \in 1..Len(fl) |-> data[fl[k] + 1]]

(* RaggedArray(sliced_data, lengths=new_lengths): when the lengths arrive as  *)
(* an ndarray and are all equal, `_array = _data.reshape(-1, lengths[0])`,    *)
(* which regroups SCALARS -- right for scalar elements only                   *)
Misshaped == [tag |-> "Misshaped", v |-> <<>>]
Wrap(vs, newl, isnd, ed) ==
  IF ~Patched /\ isnd /\ AllEqual(newl) /\ ed > 0 THEN Misshaped ELSE Rows(Partition(vs, newl))

ImplErr(why) == [tag |-> "Err", v |-> <<>>, why |-> why]

(* the whole of __getitem__ as one expression (the step machine below does    *)
(* the same in steps; StepsAgree checks that both coincide)                   *)
(* rows = RowsOf(ls) and data = Flatten(rows) are passed in so that an emission  *)
(* over many indices of one shape builds them once                             *)
(* rb / cb: the dtype of the caller's row / column index (see ConvertFrom2dT);   *)
(* it reaches _convert_from_2d only in the forms without a slice: the other    *)
(* forms build their index arrays themselves (np.asarray(.., dtype=int),       *)
(* np.arange, np.where)                                                        *)
ImplGetT(rows, data, ls, x, ed, rb, cb) ==
  LET FinishT(ii, wrap, isnd, typed) ==
        IF ~ii.ok THEN ImplErr(ii.why)
        ELSE LET cv == IF typed THEN ConvertFrom2dT(ii.fi, ii.si, ls, rb, cb)
                       ELSE ConvertFrom2d(ii.fi, ii.si, ls) IN
             IF ~cv.ok THEN ImplErr(cv.why)
             ELSE IF wrap THEN Wrap(Gather(data, cv.flat), ii.nl, isnd, ed)
                  ELSE Flat(Gather(data, cv.flat))
      Finish(ii, wrap, isnd) == FinishT(ii, wrap, isnd, FALSE)
      Direct(f, s) == [ok |-> TRUE, why |-> "", fi |-> f, si |-> s, nl |-> <<>>]
  IN CASE x.t \in {"I", "S", "L"} -> Get(rows, x)          \* handled by numpy on _array
       [] x.t = "M" -> LET w == WhereMask(x.m) IN Finish(Direct(w.fi, w.si), FALSE, FALSE)
       [] x.t = "P" ->
            CASE x.r.t = "S" /\ x.c.t = "S" -> Finish(IisFromSlices(ISliceToList(x.r, Len(ls)), x.c, ls), TRUE, TRUE)
              [] x.r.t = "S" /\ x.c.t = "I" -> Finish(IisFromList(ISliceToList(x.r, Len(ls)), <<x.c.i>>), TRUE, FALSE)
              [] x.r.t = "S" /\ x.c.t = "L" -> Finish(IisFromList(ISliceToList(x.r, Len(ls)), x.c.l), TRUE, FALSE)
              [] x.r.t = "I" /\ x.c.t = "S" -> Get(rows, x)  \* self._array[i][slice]: numpy
              [] x.r.t = "L" /\ x.c.t = "S" -> Finish(IisFromSlices(x.r.l, x.c, ls), TRUE, TRUE)
              [] x.r.t = "I" /\ x.c.t = "I" ->
                   LET o == FinishT(Direct(<<x.r.i>>, <<x.c.i>>), FALSE, FALSE, TRUE)
                   IN IF Patched /\ o.tag = "Flat" THEN Scalar(o.v[1]) ELSE o   \* pinned: array of one
              [] x.r.t = "L" /\ x.c.t = "I" -> FinishT(Direct(x.r.l, Repeat(x.c.i, Len(x.r.l))), FALSE, FALSE, TRUE)
              [] x.r.t = "L" /\ x.c.t = "L" -> FinishT(Direct(x.r.l, x.c.l), FALSE, FALSE, TRUE)
              [] x.r.t = "I" /\ x.c.t = "L" ->     \* one row, several columns: lengths[[i]] / starts[[i]] broadcast;
                   \* the row index [i] is resolved (and can fail) whatever the columns, even without any
                   LET rowalone == ConvertFrom2dT(<<x.r.i>>, <<0>>, ls, rb, 0)
                   IN IF ~rowalone.ok THEN ImplErr(rowalone.why)
                      ELSE FinishT(Direct(Repeat(x.r.i, Len(x.c.l)), x.c.l), FALSE, FALSE, TRUE)

ImplGetR(rows, data, ls, x, ed) == ImplGetT(rows, data, ls, x, ed, 0, 0)

ImplGet(ls, x, ed) == ImplGetR(RowsOf(ls), Flatten(RowsOf(ls)), ls, x, ed)

(* ========================================================================== *)
(* Part 4: index classes                                                      *)
(* ========================================================================== *)
(* A class names the form of the index and the first feature (in the order    *)
(* below) that applies; the features are stated on the index and the shape,   *)
(* never on what the implementation does.                                     *)
RowFeature(n, r) ==
  CASE r.t = "I" -> ""
    [] r.t = "L" -> IF Len(r.l) = 0 THEN "row-list-empty" ELSE ""
    [] r.t = "S" -> IF r.c # None /\ r.c < 0 THEN
                       "row-step-negative"
                    ELSE IF r.a # None /\ r.a < -n THEN "row-start-below-minus-n"
                    ELSE IF r.b # None /\ r.b > n THEN "row-stop-beyond-n"
                    ELSE IF Sel(n, r) = <<>> THEN "row-selection-empty"
                    ELSE ""

ColFeature(ls, sel, c) ==
  LET lensel == [k \in 1..Len(sel) |-> ls[sel[k] + 1]] IN
  CASE c.t = "I" -> "plain"
    [] c.t = "L" -> IF Len(c.l) = 0 THEN "col-list-empty" ELSE "plain"
    [] c.t = "S" -> IF c.c # None /\ c.c < 0 THEN
                       "col-step-negative"
                    ELSE IF c.a # None /\ c.a < 0 THEN "col-start-negative"
                    ELSE IF \E k \in 1..Len(sel) : Sel(lensel[k], c) = <<>> THEN "col-some-row-empty"
                    ELSE "plain"

(* indices for which the definition itself is an error come first: the class  *)
(* says which axis is left                                                    *)
ClassG(ls, x, g) ==        \* g = Get(RowsOf(ls), x), passed in to avoid recomputation
  LET n == Len(ls)
  IN CASE x.t = "I" -> IF Sel(n, x) = Bad THEN "I/row-index-outside" ELSE "I/plain"
       [] x.t = "S" -> IF Sel(n, x) = <<>> THEN "S/row-selection-empty" ELSE "S/plain"
       [] x.t = "L" -> IF Len(x.l) = 0 THEN "L/row-list-empty"
                       ELSE IF Sel(n, x) = Bad THEN "L/row-index-outside" ELSE "L/plain"
       [] x.t = "M" -> IF \A k \in 1..n : \A j \in 1..ls[k] : ~x.m[k][j] THEN "M/all-false" ELSE "M/plain"
       [] x.t = "P" ->
            LET rf == RowFeature(n, x.r)
                form == "(" \o x.r.t \o "," \o x.c.t \o ")"
            IN IF g.tag = "Err" THEN
                 (IF x.r.t = "S" /\ rf \notin {"", "row-selection-empty"} THEN "(S,*)/" \o rf \o "/def-error"
                  ELSE IF Sel(n, x.r) = Bad THEN form \o "/row-index-outside" ELSE form \o "/col-index-outside")
               ELSE IF x.r.t = "L" /\ x.c.t = "L" THEN
                 (IF rf # "" THEN form \o "/" \o rf ELSE form \o "/plain")
               ELSE IF rf # "" THEN "(" \o x.r.t \o ",*)/" \o rf
               ELSE LET cf == ColFeature(ls, Sel(n, x.r), x.c) IN
                    IF x.c.t = "S" /\ x.r.t # "I" THEN "(*,S)/" \o cf ELSE form \o "/" \o cf

Class(ls, x) == ClassG(ls, x, Get(RowsOf(ls), x))

(* Design-level result, checked by TLC on every case it enumerates (ReadEq,    *)
(* DepartAlwaysIsTight on the step machine; the `ok` field of EmitCase on the  *)
(* emitted cases; scopes in props/c05.py): the pinned arithmetic equals the    *)
(* definition on every class that is not listed here; on the classes of        *)
(* DepartAlways it differs on EVERY case, on those of DepartSometimes on some. *)
(* With the proposed repairs (Patched) it equals the definition everywhere.    *)
DepartAlways ==
  IF Patched THEN {} ELSE
  {"(I,I)/plain",                  \* a one-element array instead of the element
   "M/all-false",                  \* empty index arrays are float arrays -> IndexError
   "(L,L)/row-list-empty",         \* the same
   "(L,*)/row-list-empty",         \* nothing to concatenate (L,S) / float index array (L,I)
   "(S,*)/row-selection-empty",    \* nothing to concatenate / to unpack
   "(S,L)/col-list-empty",         \* nothing to unpack
   "(*,S)/col-some-row-empty"}     \* np.concatenate(dtype=int) over an empty list -> TypeError
DepartSometimes ==
  IF Patched THEN {} ELSE
  {"(S,*)/row-step-negative",            \* range(start, stop, -1) from unclipped bounds: empty, or rows outside
   "(S,*)/row-start-below-minus-n",      \* n + start stays negative: wraps to the last rows
   "(S,*)/row-stop-beyond-n",            \* stop is not cut to n: row numbers outside the array
   "(S,*)/row-step-negative/def-error",  \* (the definition raises because of the column index,
   "(S,*)/row-start-below-minus-n/def-error",  \* the implementation looks at other rows and may not)
   "(S,*)/row-stop-beyond-n/def-error",
   "(*,S)/col-start-negative",           \* start is not made relative to the row: arange(start<0, stop) wraps
   "(*,S)/col-step-negative"}            \* start/stop defaults and clipping are those of a positive step

(* ========================================================================== *)
(* Part 5: scope, state machine, invariants, emission                         *)
(* ========================================================================== *)
Ints  == Lo..Hi
Bnds  == Ints \cup {None}
Steps == {None, 1, 2, -1, -2}

IntIx   == {I(n) : n \in Ints}
SliceIx == {S(a, b, c) : a \in Bnds, b \in Bnds, c \in Steps}
ListIx  == {L(l) : l \in UNION {[1..k -> Ints] : k \in 0..MaxList}}

(* representatives used for the second slot when Pairwise                     *)
RepS == {S(None, None, None), S(1, None, None), S(None, -1, None), S(None, 2, None), S(-2, None, None),
         S(None, None, -1), S(None, None, 2), S(None, None, -2), S(0, Hi, None), S(Lo, None, None)}
RepL == {L(<<>>), L(<<0>>), L(<<-1>>), L(<<0, 1>>), L(<<1, 0>>), L(<<0, 0>>), L(<<-1, 0>>), L(<<2, -3>>)} \cap ListIx
RepI == {I(0), I(-1), I(Hi - 1)}
RepP == {<<0, 0>>, <<-1, -1>>, <<1, 2>>, <<Lo, 0>>, <<0, Hi>>}

Shapes == UNION {[1..n -> 1..MaxLen] : n \in 1..MaxRows}

RECURSIVE Ordinal(_, _)
Ordinal(ls, k) == IF k = 0 THEN 0 ELSE Ordinal(ls, k - 1) * (MaxLen + 1) + ls[k]
MyShapes == {ls \in Shapes : (Ordinal(ls, Len(ls)) + Len(ls)) % ShardN = ShardK}

Masks(ls) ==
  LET tot == Total(ls)
      every == [f \in 1..tot |-> TRUE]
      fl == IF tot <= MaskMax THEN [1..tot -> BOOLEAN]
            ELSE {[f \in 1..tot |-> FALSE], every, [f \in 1..tot |-> f = 1], [f \in 1..tot |-> f = tot],
                  [f \in 1..tot |-> f % 2 = 0]}
  IN {M(Partition(f, ls)) : f \in fl}

Kinds == {"I", "S", "L", "M", "II", "IS", "SS", "SI", "SL", "LS", "LL", "LI"}

Firsts(kind, ls) ==
  CASE kind \in {"I", "II", "IS"}       -> IntIx
    [] kind \in {"S", "SS", "SI", "SL"} -> SliceIx
    [] kind \in {"L", "LS", "LL", "LI"} -> ListIx
    [] kind = "M"                       -> Masks(ls)

(* deterministic thinning of the three large products (thorough tier)          *)
Mix(x) == IF x.t = "S" THEN (x.a % 97) * 31 + (x.b % 89) * 17 + (x.c % 83) * 5
          ELSE Len(x.l) * 7 + (IF Len(x.l) > 0 THEN (x.l[1] + 50) * 13 ELSE 0)
                            + (IF Len(x.l) > 1 THEN (x.l[2] + 50) * 29 ELSE 0)
Thin(a, set) == IF SampleN = 1 THEN set ELSE {b \in set : (Mix(a) + Mix(b)) % SampleN = SampleK}

Seconds(kind, a) ==
  CASE kind \in {"I", "S", "L", "M"} -> {I(0)}        \* unused
    [] kind \in {"II", "SI", "LI"}   -> IntIx
    [] kind = "IS" -> IF ~Pairwise \/ a \in RepI THEN SliceIx ELSE RepS
    [] kind = "SS" -> IF ~Pairwise THEN Thin(a, SliceIx) ELSE IF a \in RepS THEN SliceIx ELSE RepS
    [] kind = "LS" -> IF ~Pairwise THEN Thin(a, SliceIx) ELSE IF a \in RepL THEN SliceIx ELSE RepS
    [] kind = "SL" -> IF ~Pairwise THEN Thin(a, ListIx)  ELSE IF a \in RepS THEN ListIx ELSE RepL
    [] kind = "LL" -> {L(l) : l \in {q \in [1..Len(a.l) -> Ints] :
                                        \/ ~Pairwise \/ Len(q) < 2
                                        \/ <<a.l[1], q[1]>> \in RepP \/ <<a.l[2], q[2]>> \in RepP}}

Mk(kind, a, b) == IF kind \in {"I", "S", "L", "M"} THEN a ELSE P(a, b)

(* ---- the step machine ------------------------------------------------------ *)
NoSeq == <<>>

Blank ==
  /\ first = NoSeq /\ fi = NoSeq /\ si = NoSeq /\ nl = NoSeq /\ nlnd = FALSE
  /\ flat = NoSeq /\ vals = NoSeq /\ out = Err

(* a shape and the first slot of the index; the second slot is chosen by the  *)
(* first step (this keeps TLC's serial computation of initial states short),  *)
(* the element width where it first matters (the result constructor); under   *)
(* Emit the initial state is printed instead                                  *)
Init ==
  /\ lens \in MyShapes
  /\ \E kind \in Kinds : \E a \in Firsts(kind, lens) : ix = [t |-> "B", kind |-> kind, a |-> a]
  /\ edim = 0
  /\ pc = "choose"
  /\ Blank

Choose ==
  /\ pc = "choose" /\ ~Emit
  /\ \E b \in Seconds(ix.kind, ix.a) : ix' = Mk(ix.kind, ix.a, b)
  /\ pc' = "dispatch"
  /\ UNCHANGED <<lens, edim, first, fi, si, nl, nlnd, flat, vals, out>>

Stop(o) == pc' = "done" /\ out' = o

(* __getitem__: the isinstance ladder                                          *)
Dispatch ==
  /\ pc = "dispatch"
  /\ \/ /\ ix.t \in {"I", "S", "L"}                         \* numpy on self._array
        /\ Stop(Get(RowsOf(lens), ix))
        /\ UNCHANGED <<first, fi, si, nl, nlnd>>
     \/ /\ ix.t = "M"                                      \* where(mask), then __getitem__ again
        /\ fi' = WhereMask(ix.m).fi /\ si' = WhereMask(ix.m).si
        /\ pc' = "convert" /\ UNCHANGED <<first, nl, nlnd, out>>
     \/ /\ ix.t = "P" /\ ix.r.t = "S"
        /\ pc' = "slice2list" /\ UNCHANGED <<first, fi, si, nl, nlnd, out>>
     \/ /\ ix.t = "P" /\ ix.r.t = "I" /\ ix.c.t = "S"      \* self._array[i][slice]
        /\ Stop(Get(RowsOf(lens), ix))
        /\ UNCHANGED <<first, fi, si, nl, nlnd>>
     \/ /\ ix.t = "P" /\ ix.r.t = "L" /\ ix.c.t = "S"
        /\ first' = ix.r.l
        /\ pc' = "iis" /\ UNCHANGED <<fi, si, nl, nlnd, out>>
     \/ /\ ix.t = "P" /\ ix.r.t \in {"I", "L"} /\ ix.c.t \in {"I", "L"}   \* no slice: straight to conversion
        /\ fi' = IF ix.r.t = "I" THEN <<ix.r.i>> ELSE ix.r.l
        /\ si' = IF ix.c.t = "L" THEN ix.c.l
                 ELSE IF ix.r.t = "I" THEN <<ix.c.i>> ELSE Repeat(ix.c.i, Len(ix.r.l))
        /\ pc' = "convert" /\ UNCHANGED <<first, nl, nlnd, out>>
  /\ UNCHANGED <<lens, ix, edim, flat, vals>>

SliceToList ==
  /\ pc = "slice2list"
  /\ first' = ISliceToList(ix.r, Len(lens))
  /\ pc' = "iis"
  /\ UNCHANGED <<lens, ix, edim, fi, si, nl, nlnd, flat, vals, out>>

Iis ==
  /\ pc = "iis"
  /\ LET ii == IF ix.c.t = "S" THEN IisFromSlices(first, ix.c, lens)
               ELSE IisFromList(first, IF ix.c.t = "I" THEN <<ix.c.i>> ELSE ix.c.l)
     IN IF ii.ok
        THEN /\ fi' = ii.fi /\ si' = ii.si /\ nl' = ii.nl /\ nlnd' = (ix.c.t = "S")
             /\ pc' = "convert" /\ UNCHANGED out
        ELSE /\ Stop(ImplErr(ii.why)) /\ UNCHANGED <<fi, si, nl, nlnd>>
  /\ UNCHANGED <<lens, ix, edim, first, flat, vals>>

Convert ==
  /\ pc = "convert"
  /\ LET cv == ConvertFrom2d(fi, si, lens)
     IN IF cv.ok THEN /\ flat' = cv.flat /\ fi' = cv.rows /\ pc' = "gather" /\ UNCHANGED out
        ELSE /\ Stop(ImplErr(cv.why)) /\ UNCHANGED <<flat, fi>>
  /\ UNCHANGED <<lens, ix, edim, first, si, nl, nlnd, vals>>

GatherStep ==
  /\ pc = "gather"
  /\ vals' = Gather(Flatten(RowsOf(lens)), flat)
  /\ pc' = "wrap"
  /\ UNCHANGED <<lens, ix, edim, first, fi, si, nl, nlnd, flat, out>>

WrapStep ==
  /\ pc = "wrap"
  /\ IF ix.t = "P" /\ (ix.r.t = "S" \/ ix.c.t = "S")
     THEN \E e \in {0, 2} : edim' = e /\ Stop(Wrap(vals, nl, nlnd, e))   \* RaggedArray(sliced_data, lengths=new_lengths)
     ELSE /\ edim' = edim                                                \* self._data[flat]
          /\ Stop(IF Patched /\ ix.t = "P" /\ ix.r.t = "I" /\ ix.c.t = "I" THEN Scalar(vals[1]) ELSE Flat(vals))
  /\ UNCHANGED <<lens, ix, first, fi, si, nl, nlnd, flat, vals>>

Next == Choose \/ Dispatch \/ SliceToList \/ Iis \/ Convert \/ GatherStep \/ WrapStep

Spec == Init /\ [][Next]_vars

(* ---- invariants -------------------------------------------------------------- *)
TypeOK == pc \in {"dispatch", "slice2list", "iis", "convert", "gather", "wrap", "done", "choose", "attr", "long"}

(* representation lemmas of Ragged.tla on every shape                          *)
Representation ==
  (pc = "choose" /\ ix.kind = "I" /\ ix.a = I(0)) =>
     /\ WellFormed(RowsOf(lens))
     /\ RoundTripRows(RowsOf(lens))
     /\ RoundTripFlat(Flatten(RowsOf(lens)), lens)
     /\ FlatIndexBijective(lens)
     /\ NoNeighbourLeakDef(RowsOf(lens))

StepsAgree == pc = "done" => out = ImplGet(lens, ix, edim)

(* design-level NoNeighbourLeak: whatever the index, every flat position the  *)
(* implementation is about to read lies inside the row it was computed for    *)
NoNeighbourLeakImpl ==
  pc = "gather" => \A k \in 1..Len(flat) :
                      /\ fi[k] \in 0..(Len(lens) - 1)
                      /\ Starts(lens)[fi[k] + 1] <= flat[k]
                      /\ flat[k] < Starts(lens)[fi[k] + 1] + lens[fi[k] + 1]

(* ... and an (int, int) access outside the row raises                         *)
ElementOutsideRaises ==
  (pc = "done" /\ ix.t = "P" /\ ix.r.t = "I" /\ ix.c.t = "I" /\ Get(RowsOf(lens), ix).tag = "Err") => out.tag = "Err"

Departs == out.tag = "Misshaped" \/ ~ResEq(Get(RowsOf(lens), ix), out)

(* equality outside the listed classes; vector elements additionally depart   *)
(* whenever a 2-d slice result has rows of equal length                       *)
ReadEq ==
  pc = "done" =>
     \/ Class(lens, ix) \in DepartAlways \cup DepartSometimes
     \/ out.tag = "Misshaped"
     \/ ~Departs

MisshapedOnlyVectorEqualLengths ==
  (pc = "done" /\ out.tag = "Misshaped") =>
     edim > 0 /\ ix.t = "P" /\ ix.c.t = "S" /\ ix.r.t \in {"S", "L"} /\ AllEqual(nl)

DepartAlwaysIsTight == (pc = "done" /\ Class(lens, ix) \in DepartAlways) => Departs

(* For which dtype of the caller's index does the arithmetic of the code leave  *)
(* the definition?  <<row int8, row int16, column int8, column int16, column    *)
(* uint64>>, 1 = the transcription computing in that dtype departs from Get.    *)
(* The driver hands every index over in every integer form and uses these bits  *)
(* only to name the cases that wait for the repair.                             *)
Hazards(rows, data, ls, x, g) ==
  LET H(rb, cb) == IF ResEq(g, ImplGetT(rows, data, ls, x, 0, rb, cb)) THEN 0 ELSE 1
  IN IF x.t = "P" /\ x.r.t # "S" /\ x.c.t # "S"
     THEN <<H(8, 0), H(16, 0), H(0, 8), H(0, 16), H(0, U64)>>
     ELSE <<0, 0, 0, 0, 0>>

(* ---- batch emission for replay ------------------------------------------------ *)
(* one line per (shape, kind, first slot) with every second slot of the scope  *)
EncIx(x) == CASE x.t = "I" -> [i |-> x.i]
              [] x.t = "S" -> [s |-> <<x.a, x.b, x.c>>]
              [] x.t = "L" -> [l |-> x.l]
              [] x.t = "M" -> [m |-> x.m]
EncRes(r) == CASE r.tag = "Err"       -> (IF "why" \in DOMAIN r THEN [e |-> r.why] ELSE [e |-> ""])
               [] r.tag = "Misshaped" -> [x |-> 1]
               [] r.tag = "Rows"      -> [r |-> r.v]
               [] r.tag = "Flat"      -> [f |-> r.v]
               [] r.tag = "Col"       -> [c |-> r.v]
               [] r.tag = "Scalar"    -> [v |-> r.v]

(* a case: <<second slot, Get, class, transcription (0 when it equals Get),     *)
(* 1 when the transcription for vector elements is Misshaped, ok, hazards>>    *)
(* (hazards: see Part 6) where `ok`                                            *)
(* is the design-level ReadEq for the case: TLC evaluates it on everything it  *)
(* emits and the driver only looks for a FALSE.                                *)
EmitCase(ls, x, b) ==
  LET g   == Get(RowsOf(ls), x)
      m0  == ImplGet(ls, x, 0)
      mis == ~Patched /\ x.t = "P" /\ x.c.t = "S" /\ x.r.t \in {"S", "L"} /\ m0.tag = "Rows" /\ AllEqual(Lengths(m0.v))
                                   \* = (ImplGet(ls, x, 2) = Misshaped), see Wrap
      cls == ClassG(ls, x, g)
      eq0 == ResEq(g, m0)
  IN <<EncIx(b), EncRes(g), cls, IF eq0 THEN 0 ELSE EncRes(m0), IF mis THEN 1 ELSE 0,
       /\ cls \in DepartAlways => ~eq0
       /\ cls \notin (DepartAlways \cup DepartSometimes) => eq0,
       Hazards(RowsOf(ls), Flatten(RowsOf(ls)), ls, x, g)>>     \* Part 6: index dtypes that leave the definition

EmitInv ==
  (Emit /\ pc = "choose") =>
     LET bs == SX!SetToSeq(Seconds(ix.kind, ix.a)) IN
     PrintT(<<"CASE", ToJson([lens |-> lens, kind |-> ix.kind, a |-> EncIx(ix.a),
                              res |-> [k \in 1..Len(bs) |-> EmitCase(lens, Mk(ix.kind, ix.a, bs[k]), bs[k])]])>>)

(* attributes, one line per shape and element width                            *)
InitAttr ==
  /\ lens \in MyShapes
  /\ ix = [t |-> "A"]
  /\ edim \in {0, 2}
  /\ pc = "attr"
  /\ Blank

AttrInv ==
  (Emit /\ pc = "attr") =>
     PrintT(<<"ATTR", ToJson([lens |-> lens, edim |-> edim, attr |-> Attributes(RowsOf(lens), edim)])>>)

(* ========================================================================== *)
(* Part 6: long rows, many rows                                               *)
(* ========================================================================== *)
(* The exhaustive family above has axes of at most 4.  Here: a few shapes      *)
(* whose rows (or whose number of rows) exceed what int8 / uint8 / int16 can   *)
(* count, read with index expressions whose bounds sit at the ends of the      *)
(* axes and at the limits of those types.  The expected result is the same     *)
(* Get; what is new is only the scope (and the stride of the cell ids).        *)
Fix(f) == f \o <<>>      \* forces TLC to build the sequence once

LongCatalogue ==
  << <<300, 5, 260>>,                                  \* 1 beyond int8 and uint8, next to a short row
     <<130, 129>>,                                     \* 2 just beyond int8: -1, -2, -3 do / do not leave the range
     <<127, 128, 3>>,                                  \* 3 at the limit itself
     Fix([k \in 1..130 |-> IF k % 3 = 0 THEN 2 ELSE 1]),  \* 4 more ROWS than int8 can count
     <<5, 40000>>,                                     \* 5 beyond int16
     <<33000, 2, 32768>> >>                            \* 6 the same, two long rows

LongShapes == {LongCatalogue[i] : i \in LongSel}

(* interesting positions on an axis of length n: its two ends from both sides, *)
(* the limits of the narrow types and, for a negative index c, the pair        *)
(* c + n = limit (fits) / limit + 1 (does not)                                 *)
TypeMarks == {127, 128, 255, 256, 32767, 32768}
SignedMax == {127, 32767}
AxisPts(n) ==
  {0, 1, -1, -2, n - 1, n, -n, -n - 1}
  \cup {m \in TypeMarks : m <= n}
  \cup UNION {{-m - 1, -m - 2} : m \in {q \in SignedMax : q < n}}
  \cup UNION {{m - n, m + 1 - n} : m \in {q \in SignedMax : q < n}}

RowPts(ls) == AxisPts(Len(ls))
ColPts(ls) == UNION {AxisPts(ls[k]) : k \in 1..Len(ls)}
LenSet(ls) == {ls[k] : k \in 1..Len(ls)}

SelLen(s, n) == LET nm == Norm(s.a, s.b, s.c, n) IN RangeLen(nm[1], nm[2], nm[3])

(* slices with bounds at the interesting positions, selecting few positions    *)
LSlices(pts, axes) ==
  {s \in {S(a, b, c) : a \in pts \cup {None}, b \in pts \cup {None}, c \in Steps} :
      \A n \in axes : SelLen(s, n) <= LongMaxSel}

(* ... and representatives that select much (the result-size bound LongMaxTot  *)
(* decides at emission whether a case is kept)                                 *)
LRepS == {S(None, None, None), S(1, None, None), S(None, -1, None), S(None, 2, None), S(-2, None, None),
          S(None, None, -1), S(None, None, 2), S(None, None, -2), S(127, 130, None), S(-130, None, None),
          S(None, -129, None), S(256, None, -1)}

LRowSlices(ls) == LSlices(RowPts(ls), {Len(ls)}) \cup LRepS
LColSlices(ls) == LSlices(ColPts(ls), LenSet(ls)) \cup LRepS

(* lists: every single position; pairs and triples over a smaller set, with    *)
(* repeated and unsorted entries                                               *)
PairPts(n) == {0, -1, -2, n - 1, -n} \cup {m \in {128} : m < n} \cup {m + 1 - n : m \in {q \in SignedMax : q < n}}
LLists(pts, pair) ==
  {<<>>} \cup {<<c>> : c \in pts} \cup {<<c, d>> : c \in pair, d \in pair}
         \cup {<<c, d, c>> : c \in {-1, 0}, d \in {-2, -1, 1}} \cup {<<-1, -1, -1>>, <<1, 0, -2>>}
LRowLists(ls) == {L(l) : l \in LLists(RowPts(ls), PairPts(Len(ls)))}
LColLists(ls) == {L(l) : l \in LLists(ColPts(ls), UNION {PairPts(ls[k]) : k \in 1..Len(ls)})}
LRepRowL == {L(<<>>), L(<<0>>), L(<<-1>>), L(<<0, 1>>), L(<<1, 0>>), L(<<0, 0>>), L(<<-1, 0>>), L(<<-1, 0, -1>>)}
LRepColL(ls) == {L(<<>>), L(<<0>>), L(<<-1>>), L(<<0, -1>>), L(<<-2, -2>>), L(<<-1, 0, -1>>), L(<<1, 0, -2>>)}
                \cup {L(<<c>>) : c \in ColPts(ls)}

LMasks(ls) ==
  LET tot == Total(ls)
      fl == {[f \in 1..tot |-> FALSE], [f \in 1..tot |-> TRUE], [f \in 1..tot |-> f = 1], [f \in 1..tot |-> f = tot],
             [f \in 1..tot |-> f % 2 = 0], [f \in 1..tot |-> f % 128 = 0]}
  IN IF tot > LongMaxTot THEN {} ELSE {M(Partition(f, ls)) : f \in fl}

LKinds == {"I", "S", "L", "M", "II", "IS", "IL", "SS", "SI", "SL", "LS", "LL", "LI"}

LFirsts(kind, ls) ==
  CASE kind \in {"I", "II", "IS", "IL"}   -> {I(r) : r \in RowPts(ls)}
    [] kind \in {"S", "SS", "SI", "SL"}   -> LRowSlices(ls)
    [] kind \in {"L", "LS", "LL", "LI"}   -> LRowLists(ls)
    [] kind = "M"                         -> LMasks(ls)

LSeconds(kind, a, ls) ==
  CASE kind \in {"I", "S", "L", "M"} -> {I(0)}        \* unused
    [] kind \in {"II", "SI", "LI"}   -> {I(c) : c \in ColPts(ls)}
    [] kind = "IS" -> LColSlices(ls)
    [] kind = "IL" -> LColLists(ls)
    [] kind = "SS" -> IF a \in LRepS THEN LColSlices(ls) ELSE LRepS
    [] kind = "LS" -> IF a \in LRepRowL THEN LColSlices(ls) ELSE LRepS
    [] kind = "SL" -> IF a \in LRepS THEN LColLists(ls) ELSE LRepColL(ls)
    [] kind = "LL" -> {b \in LColLists(ls) : Len(b.l) = Len(a.l)}    \* paired: equally long

InitLong ==
  /\ lens \in LongShapes
  /\ \E kind \in LongKinds : \E a \in LFirsts(kind, lens) : ix = [t |-> "B", kind |-> kind, a |-> a]
  /\ edim = 0
  /\ pc = "long"
  /\ Blank

ResSize(g) == CASE g.tag = "Rows" -> Total(Lengths(g.v))
                [] g.tag \in {"Flat", "Col"} -> Len(g.v)
                [] OTHER -> 1

(* as EmitCase, plus the hazards; `ok`: the transcription with wide index types *)
(* equals the definition                                                        *)
(* (a column slice that would select more than LongMaxTot elements is recognised *)
(* from the slice alone, before anything is built)                               *)
EmitLongCase(rows, data, ls, x, b) ==
  LET g   == Get(rows, x)
      m0  == ImplGetR(rows, data, ls, x, 0)
      eq0 == ResEq(g, m0)
      sel == Sel(Len(ls), x.r)
      big == /\ x.t = "P" /\ x.c.t = "S" /\ sel # Bad
             /\ Total([k \in 1..Len(sel) |-> SelLen(x.c, ls[sel[k] + 1])]) > LongMaxTot
  IN IF big THEN [sz |-> LongMaxTot + 1, c |-> <<>>]
     ELSE [sz |-> ResSize(g),
           c |-> <<EncIx(b), EncRes(g), ClassG(ls, x, g), IF eq0 THEN 0 ELSE EncRes(m0), 0, Patched => eq0,
                   Hazards(rows, data, ls, x, g)>>]

EmitLongInv ==
  pc = "long" =>
     LET rows == Fix([k \in 1..Len(lens) |-> Fix(RowsOf(lens)[k])])
         data == Fix(Flatten(rows))
         bs == SX!SetToSeq(LSeconds(ix.kind, ix.a, lens))
         all == [k \in 1..Len(bs) |-> EmitLongCase(rows, data, lens, Mk(ix.kind, ix.a, bs[k]), bs[k])]
         kept == SelectSeq(all, LAMBDA e : e.sz <= LongMaxTot)
     IN PrintT(<<"CASE", ToJson([lens |-> lens, kind |-> ix.kind, a |-> EncIx(ix.a), long |-> 1,
                                 res |-> [k \in 1..Len(kept) |-> kept[k].c]])>>)

=============================================================================
