----------------------------- MODULE RaggedWrite -----------------------------
(* Writes to a ragged array over arbitrary operation histories (property C06). *)
(*                                                                            *)
(* The state holds the ABSTRACT value `rows` (the list-of-rows model the       *)
(* property refers to) and the three CONCRETE fields the implementation keeps  *)
(* -- `data` (flat), `arr` (rows view), `lengths` -- each updated the way the  *)
(* corresponding writer of enspara.ra.RaggedArray updates it:                  *)
(*   element / paired / mask / 2-D slice writes : data[flat idx] := v, then    *)
(*                                                arr := partition(data)       *)
(*   row, row-slice, (int, slice) writes        : arr[...] := v, then the      *)
(*                                                constructor re-derives data  *)
(*                                                and lengths from arr         *)
(*   append                                     : data, lengths extended, arr  *)
(*                                                re-partitioned               *)
(*   operators                                  : a NEW object from            *)
(*                                                op(data) and lengths; the    *)
(*                                                operands stay as they were   *)
(* Coherent (all views agree with each other and with the abstract value) is   *)
(* checked after every action; `hist` records the operation sequence so that   *)
(* TLC can emit histories for replay into the real object, where after EVERY   *)
(* step ALL observers are compared with `rows`.                                *)
EXTENDS Ragged, FiniteSets, TLC, Json

CONSTANTS MaxRows, MaxLen,   \* initial shapes: 1..MaxRows rows of 1..MaxLen elements
          Depth,             \* history length
          Fresh              \* set of values written by assignments (distinct from cell ids)

VARIABLES rows,              \* abstract value (list of rows)
          data, arr, lengths,\* concrete fields
          prev,              \* the object before the last operator application (must stay unchanged)
          res,               \* result of the last non-mutating operation (rows / scalar / <<>>)
          hist,              \* operations applied so far
          trail              \* abstract value (and operator result) after every step, for replay

vars == <<rows, data, arr, lengths, prev, res, hist, trail>>

NoRes == [k |-> "none"]
RowsRes(v) == [k |-> "rows", v |-> v]
ScalarRes(v) == [k |-> "scalar", v |-> v]

N == Len(rows)
RowIdx == (0 - N)..(N - 1)                       \* Python row indices, negative allowed
NR(r) == IF r < 0 THEN r + N ELSE r               \* normalised (0-based)
Row(r) == rows[NR(r) + 1]
ColIdx(r) == (0 - Len(Row(r)))..(Len(Row(r)) - 1)
NC(r, c) == IF c < 0 THEN c + Len(Row(r)) ELSE c

Bounds == {None, 0, 1, 2, -1}
Steps == {None, 2}

(* cell ids 1.. in row-major order: every cell distinguishable *)
IdRows(ls) == [k \in 1..Len(ls) |-> [c \in 1..ls[k] |-> Starts(ls)[k] + c]]
Shapes == UNION {[1..n -> 1..MaxLen] : n \in 1..MaxRows}

Init == /\ \E ls \in Shapes : rows = IdRows(ls)
        /\ data = Flatten(rows) /\ arr = rows /\ lengths = Lengths(rows)
        /\ prev = <<>> /\ res = NoRes /\ hist = <<>>
        /\ trail = <<[rows |-> rows, res |-> NoRes, prev |-> <<>>]>>

Log(op) == hist' = Append(hist, op)
CanStep == Len(hist) < Depth

(* the two ways the implementation re-derives its fields after a write *)
ViaData(newdata) == /\ data' = newdata /\ lengths' = lengths
                    /\ arr' = Partition(newdata, lengths)
ViaArr(newarr) == /\ arr' = newarr /\ data' = Flatten(newarr) /\ lengths' = Lengths(newarr)

(* flat position of (r, c), both normalised Python indices *)
Flat(r, c) == FlatIndex(lengths, NR(r), NC(r, c))
SetCells(cells, valOf(_)) ==       \* cells: set of <<row(1-based), col(1-based)>>
  [k \in 1..N |-> [c \in 1..Len(rows[k]) |-> IF <<k, c>> \in cells THEN valOf(<<k, c>>) ELSE rows[k][c]]]
DataOf(rs) == Flatten(rs)

(* ---- writers ---------------------------------------------------------------- *)
SetElem(r, c, v) ==                               \* ra[r, c] = v
  /\ CanStep /\ r \in RowIdx /\ c \in ColIdx(r)
  /\ rows' = SetCells({<<NR(r) + 1, NC(r, c) + 1>>}, LAMBDA x : v)
  /\ ViaData([data EXCEPT ![Flat(r, c) + 1] = v])
  /\ Log([op |-> "setelem", r |-> r, c |-> c, v |-> v]) /\ UNCHANGED <<prev, res>>

SetRow(r, v) ==                                   \* ra[r] = [v, v, ...] (same length)
  /\ CanStep /\ r \in RowIdx
  /\ LET new == [c \in 1..Len(Row(r)) |-> v + c - 1] IN
     /\ rows' = [rows EXCEPT ![NR(r) + 1] = new]
     /\ ViaArr([arr EXCEPT ![NR(r) + 1] = new])
     /\ Log([op |-> "setrow", r |-> r, vals |-> new])
  /\ UNCHANGED <<prev, res>>

SetRowSlice(r, a, b, st, v) ==                    \* ra[r, a:b:st] = v   (scalar broadcast)
  /\ CanStep /\ r \in RowIdx
  /\ LET ix == SliceIdx(a, b, st, Len(Row(r)))
         cells == {<<NR(r) + 1, ix[j] + 1>> : j \in 1..Len(ix)}
     IN /\ rows' = SetCells(cells, LAMBDA x : v)
        /\ ViaArr(SetCells(cells, LAMBDA x : v))
        /\ Log([op |-> "setrowslice", r |-> r, a |-> a, b |-> b, st |-> st, v |-> v])
  /\ UNCHANGED <<prev, res>>

(* rows selected by a row slice / columns selected by a column slice in each of them *)
RowSel(a, b, st) == LET ix == SliceIdx(a, b, st, N) IN {ix[j] + 1 : j \in 1..Len(ix)}
ColSel(k, a, b, st) == LET ix == SliceIdx(a, b, st, Len(rows[k])) IN {ix[j] + 1 : j \in 1..Len(ix)}

SetBlock(ra, rb, ca, cb, v) ==                    \* ra[ra:rb, ca:cb] = v  (non-empty selection)
  /\ CanStep
  /\ LET cells == UNION {{<<k, c>> : c \in ColSel(k, ca, cb, None)} : k \in RowSel(ra, rb, None)}
     IN /\ cells # {}
        /\ (ca = None \/ ca >= 0)      \* negative column starts are outside the grammar the library supports (C05 finding)
        /\ rows' = SetCells(cells, LAMBDA x : v)
        /\ ViaData(DataOf(SetCells(cells, LAMBDA x : v)))
        /\ Log([op |-> "setblock", ra |-> ra, rb |-> rb, ca |-> ca, cb |-> cb, v |-> v])
  /\ UNCHANGED <<prev, res>>

SetCol(ra, rb, c, v) ==                           \* ra[ra:rb, c] = v   (c valid in every selected row)
  /\ CanStep /\ c >= 0
  /\ LET sel == RowSel(ra, rb, None) IN
     /\ sel # {} /\ \A k \in sel : c < Len(rows[k])
     /\ rows' = SetCells({<<k, c + 1>> : k \in sel}, LAMBDA x : v)
     /\ ViaData(DataOf(SetCells({<<k, c + 1>> : k \in sel}, LAMBDA x : v)))
     /\ Log([op |-> "setcol", ra |-> ra, rb |-> rb, c |-> c, v |-> v])
  /\ UNCHANGED <<prev, res>>

SetPairs(r1, c1, r2, c2, v) ==                    \* ra[[r1, r2], [c1, c2]] = [v, v + 1]
  /\ CanStep /\ r1 \in 0..(N - 1) /\ r2 \in 0..(N - 1)
  /\ c1 \in 0..(Len(rows[r1 + 1]) - 1) /\ c2 \in 0..(Len(rows[r2 + 1]) - 1)
  /\ <<r1, c1>> # <<r2, c2>>
  /\ LET val(x) == IF x = <<r1 + 1, c1 + 1>> THEN v ELSE v + 1
         cells == {<<r1 + 1, c1 + 1>>, <<r2 + 1, c2 + 1>>}
     IN /\ rows' = SetCells(cells, val)
        /\ ViaData(DataOf(SetCells(cells, val)))
        /\ Log([op |-> "setpairs", rs |-> <<r1, r2>>, cs |-> <<c1, c2>>, vals |-> <<v, v + 1>>])
  /\ UNCHANGED <<prev, res>>

SetMask(t, v) ==                                  \* ra[ra > t] = v   (possibly an empty mask)
  /\ CanStep
  /\ LET cells == {kc \in UNION {{<<k, c>> : c \in 1..Len(rows[k])} : k \in 1..N} : rows[kc[1]][kc[2]] > t}
     IN /\ rows' = SetCells(cells, LAMBDA x : v)
        /\ ViaData(DataOf(SetCells(cells, LAMBDA x : v)))
        /\ Log([op |-> "setmask", t |-> t, v |-> v, empty |-> (cells = {})])
  /\ UNCHANGED <<prev, res>>

SetMaskCols(cb, t, v) ==                          \* m = ra[:, :cb] > t ; ra[m] = v : the mask has SHORTER rows than
  /\ CanStep                                      \* the array; it addresses cells by (row, column), not by flat position
  /\ LET cells == {kc \in UNION {{<<k, c>> : c \in 1..Len(rows[k])} : k \in 1..N} :
                     kc[2] <= cb /\ rows[kc[1]][kc[2]] > t}
     IN /\ rows' = SetCells(cells, LAMBDA x : v)
        /\ ViaData(DataOf(SetCells(cells, LAMBDA x : v)))
        /\ Log([op |-> "setmaskcols", cb |-> cb, t |-> t, v |-> v, empty |-> (cells = {})])
  /\ UNCHANGED <<prev, res>>

SetRows(ra, rb, v, asRA) ==                       \* ra[ra:rb] = rows of the same lengths (list of arrays or RaggedArray)
  /\ CanStep
  /\ LET sel == RowSel(ra, rb, None)
         new == [k \in 1..N |-> IF k \in sel THEN [c \in 1..Len(rows[k]) |-> v + k] ELSE rows[k]]
     IN /\ sel # {}
        /\ rows' = new /\ ViaArr(new)
        /\ Log([op |-> "setrows", ra |-> ra, rb |-> rb, asRA |-> asRA,
                vals |-> [j \in 1..Cardinality(sel) |-> LET k == CHOOSE k \in sel : Cardinality({m \in sel : m < k}) = j - 1
                                                         IN new[k]]])
  /\ UNCHANGED <<prev, res>>

AppendRows(l1, l2, v, asRA) ==                    \* ra.append([row of l1, row of l2]) ; l2 = 0: one row
  /\ CanStep /\ N + 2 <= MaxRows + 2
  /\ LET add == IF l2 = 0 THEN <<[c \in 1..l1 |-> v]>> ELSE <<[c \in 1..l1 |-> v], [c \in 1..l2 |-> v + 1]>>
     IN /\ rows' = rows \o add
        /\ data' = data \o Flatten(add)
        /\ lengths' = lengths \o Lengths(add)
        /\ arr' = Partition(data \o Flatten(add), lengths \o Lengths(add))
        /\ Log([op |-> "append", vals |-> add, asRA |-> asRA])
  /\ UNCHANGED <<prev, res>>

(* ---- operators: new object, operands untouched -------------------------------- *)
Apply(o, x, y) == CASE o = "add" -> x + y [] o = "sub" -> x - y [] o = "mul" -> x * y
                    [] o = "floordiv" -> x \div y [] o = "mod" -> x % y
                    [] o = "gt" -> IF x > y THEN 1 ELSE 0 [] o = "eq" -> IF x = y THEN 1 ELSE 0
                    [] o = "le" -> IF x <= y THEN 1 ELSE 0
Ops == {"add", "sub", "mul", "floordiv", "mod", "gt", "eq", "le"}

BinScalar(o, kk) ==                               \* res = ra <op> kk   (new object)
  /\ CanStep /\ (o \in {"floordiv", "mod"} => kk > 0)
  /\ res' = RowsRes([k \in 1..N |-> [c \in 1..Len(rows[k]) |-> Apply(o, rows[k][c], kk)]])
  /\ Log([op |-> "binscalar", o |-> o, k |-> kk])
  /\ UNCHANGED <<rows, data, arr, lengths, prev>>

BinSelf(o) ==                                     \* res = ra <op> ra
  /\ CanStep /\ (o \in {"floordiv", "mod"} => \A k \in 1..N : \A c \in 1..Len(rows[k]) : rows[k][c] > 0)
  /\ res' = RowsRes([k \in 1..N |-> [c \in 1..Len(rows[k]) |-> Apply(o, rows[k][c], rows[k][c])]])
  /\ Log([op |-> "binself", o |-> o])
  /\ UNCHANGED <<rows, data, arr, lengths, prev>>

Invert ==                                         \* res = ~ra : the bitwise complement -x - 1 of every element
  /\ CanStep
  /\ res' = RowsRes([k \in 1..N |-> [c \in 1..Len(rows[k]) |-> 0 - rows[k][c] - 1]])
  /\ Log([op |-> "invert"])
  /\ UNCHANGED <<rows, data, arr, lengths, prev>>

(* augmented arithmetic  ra <op>= kk : Python rebinds the name to the NEW object; the old
   object (kept in `prev`) must still hold the old value *)
Augmented(o, kk) ==
  /\ CanStep /\ o \in {"add", "mul", "sub"}
  /\ LET new == [k \in 1..N |-> [c \in 1..Len(rows[k]) |-> Apply(o, rows[k][c], kk)]] IN
     /\ prev' = rows
     /\ rows' = new /\ data' = Flatten(new) /\ arr' = new /\ lengths' = lengths
  /\ res' = NoRes
  /\ Log([op |-> "augmented", o |-> o, k |-> kk])

Reduce(f) ==                                      \* max / min / any / all over all elements
  /\ CanStep
  /\ LET all == {data[i] : i \in 1..Len(data)} IN
     res' = ScalarRes(CASE f = "max" -> CHOOSE m \in all : \A x \in all : m >= x
              [] f = "min" -> CHOOSE m \in all : \A x \in all : m <= x
              [] f = "any" -> IF \E x \in all : x # 0 THEN 1 ELSE 0
              [] f = "all" -> IF \A x \in all : x # 0 THEN 1 ELSE 0)
  /\ Log([op |-> "reduce", f |-> f])
  /\ UNCHANGED <<rows, data, arr, lengths, prev>>

(* a copy-constructed array does not alias the caller's buffer: the caller overwrites
   its buffer, the array keeps its value (and vice versa: see SetElem after this) *)
CallerScribbles(v) ==
  /\ CanStep /\ hist = <<>>
  /\ Log([op |-> "callerscribbles", v |-> v])
  /\ UNCHANGED <<rows, data, arr, lengths, prev, res>>

Step ==
  \/ \E r \in (0 - MaxRows - 1)..MaxRows, c \in (0 - MaxLen)..(MaxLen - 1), v \in Fresh : SetElem(r, c, v)
  \/ \E r \in (0 - MaxRows - 1)..MaxRows, v \in Fresh : SetRow(r, v)
  \/ \E r \in (0 - MaxRows - 1)..MaxRows, a \in Bounds, b \in Bounds, st \in Steps, v \in Fresh : SetRowSlice(r, a, b, st, v)
  \/ \E a \in Bounds, b \in Bounds, ca \in Bounds, cb \in Bounds, v \in Fresh : SetBlock(a, b, ca, cb, v)
  \/ \E a \in Bounds, b \in Bounds, c \in 0..(MaxLen - 1), v \in Fresh : SetCol(a, b, c, v)
  \/ \E r1 \in 0..MaxRows, c1 \in 0..(MaxLen - 1), r2 \in 0..MaxRows, c2 \in 0..(MaxLen - 1), v \in Fresh : SetPairs(r1, c1, r2, c2, v)
  \/ \E t \in {0, 2, 100}, v \in Fresh : SetMask(t, v)
  \/ \E cb \in 1..(MaxLen - 1), t \in {0, 2}, v \in Fresh : SetMaskCols(cb, t, v)
  \/ \E a \in Bounds, b \in Bounds, v \in Fresh, f \in BOOLEAN : SetRows(a, b, v, f)
  \/ \E l1 \in 1..MaxLen, l2 \in 0..MaxLen, v \in Fresh, f \in BOOLEAN : AppendRows(l1, l2, v, f)
  \/ \E o \in Ops, kk \in {1, 2} : BinScalar(o, kk)
  \/ \E o \in Ops : BinSelf(o)
  \/ Invert
  \/ \E o \in Ops, kk \in {1, 2} : Augmented(o, kk)
  \/ \E f \in {"max", "min", "any", "all"} : Reduce(f)
  \/ \E v \in Fresh : CallerScribbles(v)

Next == Step /\ trail' = Append(trail, [rows |-> rows', res |-> res', prev |-> prev'])

Spec == Init /\ [][Next]_vars

(* ---- properties ------------------------------------------------------------------ *)
Coherent == /\ arr = Partition(data, lengths)
            /\ Flatten(arr) = data
            /\ lengths = Lengths(arr)
            /\ rows = arr
WellFormedAlways == WellFormed(rows)
(* operators keep the row structure and never alter their operands *)
OperandsUntouched == [][(Len(hist') > Len(hist) /\ hist'[Len(hist')].op \in {"binscalar", "binself", "invert", "reduce"})
                          => (rows' = rows /\ data' = data /\ arr' = arr /\ lengths' = lengths)]_vars
StructureKept == (hist # <<>> /\ hist[Len(hist)].op \in {"binscalar", "binself", "invert"}) =>
                    (res.k = "rows" /\ Lengths(res.v) = lengths)
AugmentedLeavesOldObject == [][(Len(hist') > Len(hist) /\ hist'[Len(hist')].op = "augmented") => prev' = rows]_vars
LengthsOnlyGrowByAppend == [][(Len(hist') > Len(hist) /\ hist'[Len(hist')].op # "append") => lengths' = lengths]_vars

(* ---- emission ---------------------------------------------------------------------- *)
HistView == <<rows, data, arr, lengths, prev, res, Len(hist)>>          \* hides the history from the fingerprint
EmitInv == (Len(hist) = Depth) => PrintT(<<"CASE", ToJson([hist |-> hist, trail |-> trail])>>)
=============================================================================
