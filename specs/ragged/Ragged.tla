------------------------------- MODULE Ragged -------------------------------
(* Ragged arrays (enspara.ra.RaggedArray) as an abstract value.               *)
(*                                                                            *)
(* A ragged array is a sequence of rows; a row is a sequence of elements.     *)
(* Elements are opaque values (in the checks: small integers that identify a  *)
(* cell; the drivers embed them as scalars or as fixed-width vectors, the     *)
(* element width `edim` only matters for shape and size).                     *)
(*                                                                            *)
(* The module has no variables: it defines the three representations the      *)
(* implementation keeps (rows <-> flat data + lengths) and the attributes of  *)
(* the abstract value.  RaggedRead (property C05) and RaggedWrite (C06) build *)
(* on it.  Indices are 0-based as in Python; TLA+ sequences are 1-based, so   *)
(* the element at (row r, column c) is rows[r+1][c+1].                        *)
EXTENDS Integers, Sequences, PySlice

(* ---- lengths and offsets --------------------------------------------------- *)
Lengths(rows) == [k \in 1..Len(rows) |-> Len(rows[k])]

RECURSIVE SumTo(_, _)
SumTo(ls, k) == IF k = 0 THEN 0 ELSE SumTo(ls, k - 1) + ls[k]

Total(ls) == SumTo(ls, Len(ls))

(* 0-based offset of the first element of every row in the flat data:          *)
(* np.append([0], np.cumsum(lengths)[:-1])                                     *)
Starts(ls) == [k \in 1..Len(ls) |-> SumTo(ls, k - 1)]

AllEqual(ls) == \A k \in 1..Len(ls) : ls[k] = ls[1]

(* ---- rows <-> flat data ----------------------------------------------------- *)
RECURSIVE FlattenTo(_, _)
FlattenTo(rows, k) == IF k = 0 THEN <<>> ELSE FlattenTo(rows, k - 1) \o rows[k]

(* concatenation of the rows (the `_data` field; `flatten()` for scalars)     *)
Flatten(rows) == FlattenTo(rows, Len(rows))

CanPartition(data, ls) == Total(ls) = Len(data)

(* partition_list(data, lengths): the rows (the `_array` field); rows of      *)
(* length 0 are representable here even if the implementation has trouble     *)
Partition(data, ls) ==
  [k \in 1..Len(ls) |-> SubSeq(data, Starts(ls)[k] + 1, Starts(ls)[k] + ls[k])]

(* ---- 2-D <-> flat positions (all 0-based) ------------------------------------ *)
InRow(ls, r, c) == r >= 0 /\ r < Len(ls) /\ c >= 0 /\ c < ls[r + 1]

FlatIndex(ls, r, c) == Starts(ls)[r + 1] + c

(* row that owns flat position f (requires 0 <= f < Total(ls))                *)
RowOfFlat(ls, f) ==
  (CHOOSE k \in 1..Len(ls) : Starts(ls)[k] <= f /\ f < Starts(ls)[k] + ls[k]) - 1

ColOfFlat(ls, f) == f - Starts(ls)[RowOfFlat(ls, f) + 1]

(* ---- well-formedness of a stored array ---------------------------------------- *)
(* The library's inputs: at least one row, no empty row.                       *)
WellFormed(rows) == Len(rows) >= 1 /\ \A k \in 1..Len(rows) : Len(rows[k]) >= 1

(* ---- attributes ------------------------------------------------------------- *)
(* edim = 0: scalar elements; edim = d > 0: every element is a d-vector.       *)
(* shape: (rows, common row length or None [, d]);                             *)
(* size: number of scalars held (numpy's meaning of size)                      *)
Shape(rows, edim) ==
  LET ls == Lengths(rows)
      second == IF AllEqual(ls) THEN ls[1] ELSE None
  IN IF edim = 0 THEN <<Len(rows), second>> ELSE <<Len(rows), second, edim>>

Size(rows, edim) == Total(Lengths(rows)) * (IF edim = 0 THEN 1 ELSE edim)

Attributes(rows, edim) ==
  [nrows   |-> Len(rows),
   lengths |-> Lengths(rows),
   starts  |-> Starts(Lengths(rows)),
   shape   |-> Shape(rows, edim),
   size    |-> Size(rows, edim),
   flatten |-> Flatten(rows),      \* as elements; the driver expands vectors
   iter    |-> rows]               \* what `for row in ra` yields

(* ---- representation lemmas (checked by TLC in RaggedRead's configuration) ----- *)
RoundTripRows(rows) == Partition(Flatten(rows), Lengths(rows)) = rows

RoundTripFlat(data, ls) == CanPartition(data, ls) => Flatten(Partition(data, ls)) = data

FlatIndexBijective(ls) ==
  \A f \in 0..(Total(ls) - 1) :
     /\ InRow(ls, RowOfFlat(ls, f), ColOfFlat(ls, f))
     /\ FlatIndex(ls, RowOfFlat(ls, f), ColOfFlat(ls, f)) = f
=============================================================================
