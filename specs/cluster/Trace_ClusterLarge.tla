------------------------- MODULE Trace_ClusterLarge -------------------------
(* Results of the real clustering entry points on data sets with HUNDREDS of   *)
(* frames and more than a hundred clusters (sizes at which implementations     *)
(* switch code paths).  Replaying every step through Trace_Cluster.tla is too  *)
(* slow at that size, so only the RESULT is judged here, clause by clause, by  *)
(* the definition of C01's self-consistency -- each clause linear in           *)
(* frames x centers:                                                          *)
(*   centers are the frames at their indices, labels in range, reported        *)
(*   distance = metric distance to the assigned center, no center strictly     *)
(*   closer, center frames carry their own label at distance 0, centers        *)
(*   distinct, requested number of centers reached (or every frame a center),  *)
(*   inputs untouched.                                                        *)
EXTENDS Lattice, TLC, Json, IOUtils

Traces == JsonDeserialize(IOEnv.TRACE_FILE)
VARIABLES tid
Tr == Traces[tid]
N == Len(Tr.pts)
Frames == 1..N
K == Len(Tr.ctrIdx)
Dm(i, q) == D(Tr.metric, Tr.pts[i], q)

Bad(name, ok) == IF ok THEN {} ELSE {name}

IdxOK == \A c \in 1..K : Tr.ctrIdx[c] \in Frames
Verdict ==
  IF ~IdxOK \/ Len(Tr.asg) # N \/ Len(Tr.dist) # N \/ Len(Tr.ctrXY) # K
  THEN {"Result.center_indices"}
  ELSE Bad("Result.centers=X[center_indices]", \A c \in 1..K : Tr.ctrXY[c] = Tr.pts[Tr.ctrIdx[c]])
       \cup Bad("Result.labels", \A i \in Frames : Tr.asg[i] \in 1..K)
       \cup Bad("Result.distances", \A i \in Frames : Tr.asg[i] \in 1..K => Tr.dist[i] = Dm(i, Tr.pts[Tr.ctrIdx[Tr.asg[i]]]))
       \cup Bad("Result.SelfConsistent", \A i \in Frames : \A c \in 1..K : Dm(i, Tr.pts[Tr.ctrIdx[c]]) >= Tr.dist[i])
       \cup Bad("Result.SelfConsistent(center frames)", \A c \in 1..K : Tr.asg[Tr.ctrIdx[c]] = c /\ Tr.dist[Tr.ctrIdx[c]] = 0)
       \cup Bad("Result.centers-distinct", \A a, b \in 1..K : a # b => Tr.ctrIdx[a] # Tr.ctrIdx[b])
       \cup Bad("Stop.count", Tr.k = 0 \/ K = Tr.k \/ (K = N /\ Tr.k > N))
       \cup Bad("Result.inputs-untouched", Tr.inputs_same)

Init == tid \in 1..Len(Traces)
Next == FALSE /\ UNCHANGED tid
Report == PrintT(<<"VERDICT", tid, Verdict>>)
=============================================================================
