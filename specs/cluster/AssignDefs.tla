----------------------------- MODULE AssignDefs -----------------------------
(* Definition-level clauses of property C10 for assignment and the center    *)
(* finder, as operators over explicit arguments, so that the same formula is  *)
(* (a) an invariant of the implementation-shaped model in Assign.tla and      *)
(* (b) the verdict on values recorded from the real code in Trace_Assign.tla. *)
(* No constants, no variables.                                                *)
EXTENDS Integers, Sequences, FiniteSets, Lattice

RECURSIVE SortedOf(_)
SortedOf(S) == IF S = {} THEN <<>> ELSE <<SetMin(S)>> \o SortedOf(S \ {SetMin(S)})

(* ---- assignment ------------------------------------------------------------- *)
(* xs frames, cs centers (non-empty), a 0-based assignments, dd distances     *)
(* (squared for "l2sq")                                                       *)
AssignShapeOn(xs, cs, a, dd) ==
  /\ Len(a) = Len(xs) /\ Len(dd) = Len(xs)
  /\ \A i \in 1..Len(a) : a[i] \in 0..(Len(cs) - 1)

(* the reported distance is the distance to the assigned center *)
DistExactOn(metric, xs, cs, a, dd) ==
  \A i \in 1..Len(xs) : dd[i] = D(metric, xs[i], cs[a[i] + 1])

(* no center is closer (ties may go to any nearest center) *)
DistMinimalOn(metric, xs, cs, dd) ==
  \A i \in 1..Len(xs) : \A k \in 1..Len(cs) : dd[i] <= D(metric, xs[i], cs[k])

AssignExactOn(metric, xs, cs, a, dd) ==
  /\ AssignShapeOn(xs, cs, a, dd)
  /\ DistExactOn(metric, xs, cs, a, dd)
  /\ DistMinimalOn(metric, xs, cs, dd)

(* the same two clauses against a recorded distance table tab[i][k] (scaled   *)
(* integers, used where the metric is not a lattice metric: RMSD) with an     *)
(* explicit rounding budget tol                                               *)
DistExactTab(tab, a, dd, tol) ==
  \A i \in 1..Len(tab) : Abs(dd[i] - tab[i][a[i] + 1]) <= tol
DistMinimalTab(tab, dd, tol) ==
  \A i \in 1..Len(tab) : \A k \in 1..Len(tab[i]) : dd[i] <= tab[i][k] + tol

(* ---- center finder ------------------------------------------------------------ *)
LabelsIn(a) == {a[i] : i \in 1..Len(a)}
MembersIn(a, lab) == {i \in 1..Len(a) : a[i] = lab}
(* members of a label at the smallest distance within that label (1-based) *)
MinimalMembers(a, dd, lab) ==
  {m \in MembersIn(a, lab) : \A o \in MembersIn(a, lab) : dd[m] <= dd[o]}

(* ci (0-based frame indices): one entry per label present, in ascending      *)
(* label order, each a member of its label with no member closer              *)
CenterFinderMinimalOn(a, dd, ci) ==
  LET u == SortedOf(LabelsIn(a))
  IN /\ Len(ci) = Len(u)
     /\ \A j \in 1..Len(ci) : ci[j] + 1 \in MinimalMembers(a, dd, u[j])
=============================================================================
