---------------------------- MODULE Trace_Assign ----------------------------
(* Trace validation (pattern B) for property C10: values recorded from the   *)
(* real assign_to_nearest_center / KCenters.fit().predict() / batch_reassign *)
(* are judged by the definition-level clauses of AssignDefs.tla.             *)
(*                                                                            *)
(* TRACE_FILE is a JSON array of records (integers, strings, booleans only):  *)
(*   kind    "lattice": Y, C are lattice points, metric in Lattice!Metrics,   *)
(*                      d = reported distances (squared and rounded for l2sq) *)
(*           "table"  : tab[i][k] = recorded distance frame i -> center k,    *)
(*                      d = reported distances, both scaled integers, tol     *)
(*   asg     reported assignments                                             *)
(*   dexact  the projection of every reported distance was exact (finite and  *)
(*           within 1e-9 of a lattice value)                                  *)
(*   fitted  the estimator's centers before predict (= C for a direct call)   *)
(*   hascidx, cidx   center indices returned next to asg/d (predict)          *)
(*   lengths, rowlens  trajectory lengths given / lengths of the returned     *)
(*           per-trajectory pieces (batch reassignment; <<>> otherwise)       *)
(* One initial state per record; the verdict is total and names the first     *)
(* failing clause.                                                            *)
EXTENDS Integers, Sequences, FiniteSets, TLC, Json, IOUtils, Lattice, AssignDefs

Traces == JsonDeserialize(IOEnv.TRACE_FILE)

VARIABLE tid
vars == <<tid>>

Init == tid \in 1..Len(Traces)
Next == FALSE /\ UNCHANGED vars

(* ---- clauses ------------------------------------------------------------------- *)
NFrames(tr) == IF tr.kind = "table" THEN Len(tr.tab) ELSE Len(tr.Y)
NCenters(tr) == IF tr.kind = "table" THEN Len(tr.tab[1]) ELSE Len(tr.C)

Shape(tr) ==
  /\ Len(tr.asg) = NFrames(tr) /\ Len(tr.d) = NFrames(tr)
  /\ \A i \in 1..Len(tr.asg) : tr.asg[i] \in 0..(NCenters(tr) - 1)

OnLattice(tr) == tr.dexact

DistExact(tr) ==
  IF tr.kind = "table" THEN DistExactTab(tr.tab, tr.asg, tr.d, tr.tol)
  ELSE DistExactOn(tr.metric, tr.Y, tr.C, tr.asg, tr.d)

DistMinimal(tr) ==
  IF tr.kind = "table" THEN DistMinimalTab(tr.tab, tr.d, tr.tol)
  ELSE DistMinimalOn(tr.metric, tr.Y, tr.C, tr.d)

(* AssignExact of Assign.tla on the recorded values *)
AssignExact(tr) == Shape(tr) /\ OnLattice(tr) /\ DistExact(tr) /\ DistMinimal(tr)

(* predict assigns to the fitted centers and hands them back *)
CentersReused(tr) == tr.kind = "table" \/ tr.fitted = tr.C

CenterFinderMinimal(tr) == tr.hascidx => CenterFinderMinimalOn(tr.asg, tr.d, tr.cidx)

(* batch reassignment returns one piece per trajectory, of that trajectory's length *)
RowLens(tr) == tr.rowlens = tr.lengths

Failing(tr) ==
  IF ~Shape(tr) THEN "Shape"
  ELSE IF ~OnLattice(tr) THEN "DistanceOnLattice"
  ELSE IF ~DistExact(tr) THEN "DistExact"
  ELSE IF ~DistMinimal(tr) THEN "DistMinimal"
  ELSE IF ~CentersReused(tr) THEN "CentersReused"
  ELSE IF ~CenterFinderMinimal(tr) THEN "CenterFinderMinimal"
  ELSE IF ~RowLens(tr) THEN "RowLens"
  ELSE "ok"

Verdict ==
  LET f == Failing(Traces[tid])
  IN IF f = "ok" THEN PrintT(<<"ACCEPT", tid>>) ELSE PrintT(<<"REJECT", tid, f>>)
=============================================================================
