---------------------------- MODULE PartitionDefs ----------------------------
(* Definition-level clauses of property C10 for the per-trajectory           *)
(* bookkeeping, as operators over explicit arguments: invariants of the       *)
(* implementation-shaped model in Partition.tla and verdicts on recorded      *)
(* values in Trace_Partition.tla.  No constants, no variables.                *)
EXTENDS Integers, Sequences, FiniteSets

Sum(s) == LET S[j \in 0..Len(s)] == IF j = 0 THEN 0 ELSE S[j - 1] + s[j] IN S[Len(s)]
SumTo(s, n) == LET S[j \in 0..n] == IF j = 0 THEN 0 ELSE S[j - 1] + s[j] IN S[n]
RECURSIVE Concat(_)
Concat(ss) == IF ss = <<>> THEN <<>> ELSE Head(ss) \o Concat(Tail(ss))
AllEqual(s) == \A j \in 1..Len(s) : s[j] = s[1]

(* exclusive cumulative sums: first flat index of every trajectory *)
StartsOf(l) == [r \in 1..Len(l) |-> SumTo(l, r - 1)]
(* the (trajectory, frame) pairs (0-based) that address flat index idx *)
PairSetOf(l, idx) == {tf \in (0..(Len(l) - 1)) \X (0..Sum(l)) :
                        StartsOf(l)[tf[1] + 1] + tf[2] = idx /\ tf[2] < l[tf[1] + 1]}
(* rows of a flat array f cut by the lengths l *)
RowsBy(f, l) == [r \in 1..Len(l) |-> [j \in 1..l[r] |-> f[StartsOf(l)[r] + j]]]

(* ---- compute_batches: bi = list of batches of (0-based) trajectory indices ---- *)
BatchShapeOn(bi, l) == \A b \in 1..Len(bi) : \A j \in 1..Len(bi[b]) : bi[b][j] \in 0..(Len(l) - 1)
(* consecutive, every index exactly once, order preserved -- in one equation *)
BatchesCoverInOrderOn(bi, l) == Concat(bi) = [j \in 1..Len(l) |-> j - 1]
(* combined length of a batch at most batch_size *)
BatchWithinSizeOn(bi, l, bsize) ==
  \A b \in 1..Len(bi) : Sum([j \in 1..Len(bi[b]) |-> l[bi[b][j] + 1]]) <= bsize
(* every batch is handed to the loader, which needs at least one trajectory *)
NoEmptyBatchOn(bi) == \A b \in 1..Len(bi) : bi[b] # <<>>
=============================================================================
