------------------------------ MODULE Partition ------------------------------
(* Per-trajectory bookkeeping of a flat clustering result                    *)
(* (enspara.cluster.util.ClusterResult.partition L111-156,                   *)
(*  enspara.ra.ra.partition_indices L223-242, partition_list L361-376,       *)
(*  enspara.cluster.util.compute_batches L551-566).  Property C10.           *)
(*                                                                            *)
(* Two behaviours (selected by INIT/NEXT in the cfg):                         *)
(*                                                                            *)
(*  InitP/NextP  ClusterResult(center_indices = idxs, assignments = flat,     *)
(*     distances = DistOf(flat)).partition(lengths): the square test, then    *)
(*     either partition_list (its loop with `start`/`stop`/`num` as state,    *)
(*     once for the assignments and once for the distances) wrapped in        *)
(*     np.array, or RaggedArray(flat, lengths=lengths); then                  *)
(*     partition_indices as the subtract-lengths loop with its loop           *)
(*     variables (`index`, `trj_index`, position in traj_lengths) as state.   *)
(*                                                                            *)
(*  InitB/NextB  compute_batches(lengths, batch_size) with `i` and the two    *)
(*     accumulators as state.                                                 *)
(*                                                                            *)
(* Definition level: Starts = exclusive cumulative sums; Pair(idx) = the      *)
(* unique (t, f) with Starts[t] + f = idx and 0 <= f < lengths[t]; Concat of  *)
(* the pieces = the flat array.                                               *)
EXTENDS Integers, Sequences, FiniteSets, TLC, Json, PartitionDefs

CONSTANTS Part,        \* InitP: "labels" | "indices" | "both" (which family of inputs)
          MaxT,        \* at most MaxT trajectories
          MaxTotal,    \* of total length at most MaxTotal (every length >= 1)
          LabelN,      \* label vectors over 0..LabelN-1
          FullTotal,   \* every label vector for totals up to this; fixed vectors beyond
          Emit

VARIABLES lengths,  \* trajectory lengths
          flat,     \* flat assignments (labels)
          idxs,     \* flat center indices (0-based)
          bsize,    \* compute_batches: batch_size
          kind,     \* container of the partitioned arrays: "none" | "ndarray" | "ragged"
          which,    \* partition_list is running on "a"ssignments or "d"istances
          num, start, acc,        \* partition_list loop: position, start, partitioned_list
          partsA, partsD,         \* the partitioned assignments / distances
          k, index, trj, t,       \* partition_indices: position in idxs, remaining index,
                                  \*   trj_index, position in traj_lengths (0 = not started)
          out,                    \* partitioned_indices
          bs, bi, i,              \* compute_batches: batch_sizes, batch_indices, position
          pc

vars == <<lengths, flat, idxs, bsize, kind, which, num, start, acc, partsA, partsD,
          k, index, trj, t, out, bs, bi, i, pc>>

inputs == <<lengths, flat, idxs, bsize>>
plvars == <<which, num, start, acc, partsA, partsD>>
pivars == <<k, index, trj, t, out>>
bvars  == <<bs, bi, i>>

(* ---- helpers ------------------------------------------------------------------- *)
T == Len(lengths)
Total == Sum(lengths)
SeqMaxOf(s) == CHOOSE m \in {s[j] : j \in 1..Len(s)} : \A j \in 1..Len(s) : m >= s[j]

(* the distances that travel with the labels: a fixed injective-enough        *)
(* function of position and label, so that a misplaced value is visible       *)
DistOf(f) == [j \in 1..Len(f) |-> 10 * j + f[j]]
Flat(w) == IF w = "a" THEN flat ELSE DistOf(flat)

LengthVecs == {l \in UNION {[1..n -> 1..MaxTotal] : n \in 1..MaxT} : Sum(l) <= MaxTotal}

Identity(n) == [j \in 1..n |-> j - 1]
FlatVecs(n) == (IF n <= FullTotal THEN [1..n -> 0..(LabelN - 1)]
                ELSE {[j \in 1..n |-> (j - 1) % LabelN], [j \in 1..n |-> ((n - j) * 2) % LabelN]})
(* center indices that go with a label vector: the last frame of every label  *)
(* present, in label order                                                    *)
LabelsOf(f) == {f[j] : j \in 1..Len(f)}
RECURSIVE SortedOf(_)
SortedOf(S) == IF S = {} THEN <<>>
               ELSE LET m == CHOOSE x \in S : \A y \in S : x <= y IN <<m>> \o SortedOf(S \ {m})
LastOf(f, lab) == CHOOSE j \in 1..Len(f) : f[j] = lab /\ \A j2 \in (j + 1)..Len(f) : f[j2] # lab
CanonIdx(f) == LET u == SortedOf(LabelsOf(f)) IN [j \in 1..Len(u) |-> LastOf(f, u[j]) - 1]
(* every single flat index, every ordered pair, the full list and its reverse *)
IdxLists(n) == {<<a>> : a \in 0..(n - 1)} \cup {<<a, b>> : a \in 0..(n - 1), b \in 0..(n - 1)}
               \cup {Identity(n), [j \in 1..n |-> n - j]}

(* ---- ClusterResult.partition ------------------------------------------------------ *)
InitP ==
  /\ lengths \in LengthVecs
  /\ \/ Part \in {"labels", "both"}  /\ flat \in FlatVecs(Sum(lengths)) /\ idxs = CanonIdx(flat)
     \/ Part \in {"indices", "both"} /\ flat = Identity(Sum(lengths)) /\ idxs \in IdxLists(Sum(lengths))
  /\ bsize = 0
  /\ kind = "none" /\ which = "a" /\ num = 0 /\ start = 0 /\ acc = <<>>
  /\ partsA = <<>> /\ partsD = <<>>
  /\ k = 1 /\ index = 0 /\ trj = 0 /\ t = 0 /\ out = <<>>
  /\ bs = <<>> /\ bi = <<>> /\ i = 0
  /\ pc = "start"

(* L135: square = all(lengths[0] == l for l in lengths) *)
SquareTest ==
  /\ pc = "start"
  /\ IF AllEqual(lengths)
       THEN kind' = "ndarray" /\ pc' = "plcheck"
       ELSE kind' = "ragged"  /\ pc' = "ragged"
  /\ UNCHANGED <<inputs, plvars, pivars, bvars>>

(* partition_list L364-371: the length check (DataInvalid otherwise) *)
PLCheck ==
  /\ pc = "plcheck"
  /\ IF Sum(lengths) # Len(Flat(which))
       THEN pc' = "error" /\ UNCHANGED <<num, start, acc>>
       ELSE pc' = "plloop" /\ num' = 0 /\ start' = 0 /\ acc' = <<>>
  /\ UNCHANGED <<inputs, kind, which, partsA, partsD, pivars, bvars>>

(* L372-375: stop = start + lengths[num]; append list[start:stop]; start = stop *)
PLStep ==
  /\ pc = "plloop" /\ num < T
  /\ LET stop == start + lengths[num + 1]
     IN /\ acc' = Append(acc, SubSeq(Flat(which), start + 1, stop))
        /\ start' = stop
  /\ num' = num + 1
  /\ UNCHANGED <<inputs, kind, which, partsA, partsD, pivars, bvars, pc>>

(* return partitioned_list; np.array(...) of equally long rows is rectangular *)
PLReturn ==
  /\ pc = "plloop" /\ num = T
  /\ IF which = "a"
       THEN partsA' = acc /\ which' = "d" /\ pc' = "plcheck" /\ UNCHANGED partsD
       ELSE partsD' = acc /\ pc' = "pi" /\ UNCHANGED <<partsA, which>>
  /\ UNCHANGED <<inputs, kind, num, start, acc, pivars, bvars>>

(* L153-154: RaggedArray(flat, lengths=lengths): row r is the slice           *)
(* [starts[r], starts[r] + lengths[r]) of the flat array                      *)
RowsOf(f, l) == [r \in 1..Len(l) |-> SubSeq(f, SumTo(l, r - 1) + 1, SumTo(l, r))]
MakeRagged ==
  /\ pc = "ragged"
  /\ partsA' = RowsOf(flat, lengths)
  /\ partsD' = RowsOf(DistOf(flat), lengths)
  /\ pc' = "pi"
  /\ UNCHANGED <<inputs, kind, which, num, start, acc, pivars, bvars>>

(* partition_indices L232-233: next index, trj_index = 0 *)
PINext ==
  /\ pc = "pi" /\ t = 0 /\ k <= Len(idxs)
  /\ index' = idxs[k] /\ trj' = 0 /\ t' = 1
  /\ UNCHANGED <<inputs, kind, plvars, k, out, bvars, pc>>

(* L234-240: one trajectory length: `if traj_len > index` append and break,   *)
(* else subtract and move on.  (Running off the end of traj_lengths appends   *)
(* nothing; InnerLoopBreaks states that this never happens for a valid index) *)
PIInner ==
  /\ pc = "pi" /\ t >= 1 /\ t <= T
  /\ IF lengths[t] > index
       THEN /\ out' = Append(out, <<trj, index>>)
            /\ k' = k + 1 /\ t' = 0
            /\ UNCHANGED <<index, trj>>
       ELSE /\ index' = index - lengths[t]
            /\ trj' = trj + 1 /\ t' = t + 1
            /\ UNCHANGED <<out, k>>
  /\ UNCHANGED <<inputs, kind, plvars, bvars, pc>>

PIReturn ==
  /\ pc = "pi" /\ t = 0 /\ k > Len(idxs)
  /\ pc' = "done"
  /\ UNCHANGED <<inputs, kind, plvars, pivars, bvars>>

NextP == SquareTest \/ PLCheck \/ PLStep \/ PLReturn \/ MakeRagged \/ PINext \/ PIInner \/ PIReturn

(* ---- compute_batches ------------------------------------------------------------------ *)
(* the caller (batch_reassign L594) guarantees batch_size >= max(lengths) *)
InitB ==
  /\ lengths \in LengthVecs
  /\ bsize \in SeqMaxOf(lengths)..(Sum(lengths) + 1)
  /\ flat = <<>> /\ idxs = <<>>
  /\ kind = "none" /\ which = "a" /\ num = 0 /\ start = 0 /\ acc = <<>>
  /\ partsA = <<>> /\ partsD = <<>>
  /\ k = 1 /\ index = 0 /\ trj = 0 /\ t = 0 /\ out = <<>>
  /\ bs = <<<<>>>> /\ bi = <<<<>>>> /\ i = 0          \* L556-557: [[]], [[]]
  /\ pc = "batches"

(* L558-564: `if not batch_sizes[-1] or sum(batch_sizes[-1]) + l < batch_size`: *)
(* an empty current batch always takes the trajectory (fix 9dc9cc3; before it   *)
(* the leading batch stayed empty whenever lengths[0] >= batch_size)            *)
BStep ==
  /\ pc = "batches" /\ i < T
  /\ LET l == lengths[i + 1]
         last == Len(bs)
     IN IF bs[last] = <<>> \/ Sum(bs[last]) + l < bsize
          THEN /\ bs' = [bs EXCEPT ![last] = Append(@, l)]
               /\ bi' = [bi EXCEPT ![last] = Append(@, i)]
          ELSE /\ bs' = Append(bs, <<l>>)
               /\ bi' = Append(bi, <<i>>)
  /\ i' = i + 1
  /\ UNCHANGED <<inputs, kind, plvars, pivars, pc>>

BReturn ==
  /\ pc = "batches" /\ i = T
  /\ pc' = "bdone"
  /\ UNCHANGED <<inputs, kind, plvars, pivars, bvars>>

NextB == BStep \/ BReturn

NextNone == FALSE /\ UNCHANGED vars

(* ---- definition level ---------------------------------------------------------------------- *)
Starts == StartsOf(lengths)
PairSet(idx) == PairSetOf(lengths, idx)
Pair(idx) == CHOOSE tf \in PairSet(idx) : TRUE
ExpectedRows(f) == RowsBy(f, lengths)

(* ---- properties ---------------------------------------------------------------------------- *)
TypeOK == pc \in {"start", "plcheck", "plloop", "ragged", "pi", "done", "error", "batches", "bdone"}

NoError == pc # "error"

(* the definition is well formed: every valid flat index has exactly one pair *)
PairUnique == pc = "start" => \A idx \in 0..(Total - 1) : Cardinality(PairSet(idx)) = 1

(* inductive form of the subtract-lengths loop *)
PILoopInv ==
  (pc = "pi" /\ t >= 1) =>
     /\ trj = t - 1
     /\ index >= 0
     /\ index + SumTo(lengths, t - 1) = idxs[k]
     /\ Len(out) = k - 1
InnerLoopBreaks == pc = "pi" => t <= T

(* C10: each center's flat index becomes the (trajectory, frame) pair ...     *)
PairCorrect ==
  pc = "done" =>
     /\ Len(out) = Len(idxs)
     /\ \A j \in 1..Len(idxs) : out[j] = Pair(idxs[j])
(* ... addressing the same frame *)
PairSameFrame ==
  pc = "done" =>
     \A j \in 1..Len(out) :
        /\ partsA[out[j][1] + 1][out[j][2] + 1] = flat[idxs[j] + 1]
        /\ partsD[out[j][1] + 1][out[j][2] + 1] = DistOf(flat)[idxs[j] + 1]

PLPrefix ==
  pc = "plloop" => /\ start = SumTo(lengths, num)
                   /\ Concat(acc) = SubSeq(Flat(which), 1, start)

(* C10: every value and its order are preserved; concatenating the pieces     *)
(* restores the flat arrays                                                   *)
PartitionRoundTrip ==
  pc = "done" =>
     /\ partsA = ExpectedRows(flat) /\ partsD = ExpectedRows(DistOf(flat))
     /\ Concat(partsA) = flat /\ Concat(partsD) = DistOf(flat)
     /\ \A r \in 1..T : Len(partsA[r]) = lengths[r] /\ Len(partsD[r]) = lengths[r]

(* C10: rectangular arrays iff all lengths are equal, ragged arrays otherwise *)
SquareIffEqualLengths ==
  pc \in {"pi", "done"} =>
     /\ (kind = "ndarray") <=> AllEqual(lengths)
     /\ (kind = "ragged") <=> ~AllEqual(lengths)
     /\ kind = "ndarray" => \A r \in 1..T : Len(partsA[r]) = Len(partsA[1])

InputsUnchangedP == [][UNCHANGED inputs]_vars

(* compute_batches: batches are consecutive, cover every index once, keep order *)
BatchPrefix ==
  pc \in {"batches", "bdone"} =>
     /\ Concat(bi) = [j \in 1..i |-> j - 1]
     /\ Concat(bs) = SubSeq(lengths, 1, i)
     /\ Len(bs) = Len(bi) /\ \A b \in 1..Len(bs) : Len(bs[b]) = Len(bi[b])
BatchesCoverInOrder ==
  pc = "bdone" => BatchShapeOn(bi, lengths) /\ BatchesCoverInOrderOn(bi, lengths)
(* "combined length at most batch_size" (docstring), given the caller's guard *)
BatchWithinSize ==
  pc = "bdone" => BatchWithinSizeOn(bi, lengths, bsize) /\ \A b \in 1..Len(bs) : Sum(bs[b]) <= bsize
(* every batch is handed to the loader, which needs at least one trajectory:   *)
(* no batch is empty once the first trajectory has been placed.  The same       *)
(* clause (NoEmptyBatchOn) is judged on the real routine's output by            *)
(* Trace_Partition.tla, input by input.                                         *)
NoEmptyBatch == (pc \in {"batches", "bdone"} /\ i >= 1) => NoEmptyBatchOn(bi)

(* ---- emission ---------------------------------------------------------------------------------- *)
EmitP == (Emit /\ pc = "start") =>
  PrintT(<<"PART", ToJson([lengths |-> lengths, flat |-> flat, dflat |-> DistOf(flat), idxs |-> idxs,
                           square |-> AllEqual(lengths),
                           rowsA |-> ExpectedRows(flat), rowsD |-> ExpectedRows(DistOf(flat)),
                           pairs |-> [j \in 1..Len(idxs) |-> Pair(idxs[j])]])>>)

(* compute_batches: inputs only; the recorded output of the real routine is  *)
(* judged by Trace_Partition.tla (any batching that satisfies the clauses is  *)
(* acceptable, so there is no single expected value to emit)                  *)
EmitB == (Emit /\ pc = "batches" /\ i = 0) =>
  PrintT(<<"BATCH", ToJson([lengths |-> lengths, bsize |-> bsize])>>)
=============================================================================
