--------------------------- MODULE Trace_Partition ---------------------------
(* Trace validation (pattern B) for the batching routine of property C10:    *)
(* the output of the real compute_batches(lengths, batch_size) is judged by  *)
(* the clauses of PartitionDefs.tla.  Any batching that satisfies the        *)
(* clauses is accepted (there is no single right answer).                    *)
(*                                                                            *)
(* TRACE_FILE: JSON array of records  [lengths, bsize, batches]  with         *)
(* batches = list of lists of 0-based trajectory indices.                     *)
EXTENDS Integers, Sequences, FiniteSets, TLC, Json, IOUtils, PartitionDefs

Traces == JsonDeserialize(IOEnv.TRACE_FILE)

VARIABLE tid
vars == <<tid>>

Init == tid \in 1..Len(Traces)
Next == FALSE /\ UNCHANGED vars

Failing(tr) ==
  IF ~BatchShapeOn(tr.batches, tr.lengths) THEN "BatchShape"
  ELSE IF ~BatchesCoverInOrderOn(tr.batches, tr.lengths) THEN "BatchesCoverInOrder"
  ELSE IF ~BatchWithinSizeOn(tr.batches, tr.lengths, tr.bsize) THEN "BatchWithinSize"
  ELSE IF ~NoEmptyBatchOn(tr.batches) THEN "NoEmptyBatch"
  ELSE "ok"

Verdict ==
  LET f == Failing(Traces[tid])
  IN IF f = "ok" THEN PrintT(<<"ACCEPT", tid>>) ELSE PrintT(<<"REJECT", tid, f>>)
=============================================================================
