------------------------------- MODULE Assign -------------------------------
(* Nearest-center assignment and the per-label center finder                 *)
(* (enspara.cluster.util: assign_to_nearest_center L159-205,                 *)
(*  find_cluster_centers L208-242, MolecularClusterMixin.predict L51-86).    *)
(* Property C10.                                                              *)
(*                                                                            *)
(* Two behaviours are specified (selected by INIT/NEXT in the cfg):           *)
(*                                                                            *)
(*  InitA/NextA  "predict": frames X and a center list Cs are assigned the    *)
(*     way the code does it -- either a sweep over the centers keeping a      *)
(*     running minimum under strict `<` (one step per center), or, when the   *)
(*     centers outnumber the frames AND the center container has an `xyz`     *)
(*     attribute, one argmin/min per frame (one step per frame) -- and the    *)
(*     resulting (assignments, distances) are handed to the center finder     *)
(*     exactly as predict() does (one step per label present).                *)
(*                                                                            *)
(*  InitF/NextF  the center finder alone on arbitrary label and distance      *)
(*     vectors (labels need not be contiguous, distances may tie).            *)
(*                                                                            *)
(* The definition level is Nearest == min over all centers (MinDist /         *)
(* NearestSet of Lattice.tla) and "a member of smallest distance per label".  *)
(* Ties are free at the definition level: ANY nearest center and ANY minimal  *)
(* member satisfy the property; that the implementation-shaped steps pick     *)
(* the first one is a lemma about the model (ModelPicksFirst), never an       *)
(* expectation put on the code.                                               *)
EXTENDS Integers, Sequences, FiniteSets, TLC, Json, Lattice, AssignDefs

CONSTANTS Dim, P,      \* points are the lattice cube {0..P}^Dim
          Metric,      \* "l1" | "l2sq" | "linf"
          Shapes,      \* set of n*100+k: n frames, k centers (InitA)
          LabelN,      \* labels are 0..LabelN-1             (InitF)
          FullN,       \* InitF: every distance vector over 0..2 up to this length,
          BinN,        \*        every vector over 0..1 up to this length,
          MaxFN,       \*        two fixed tie-rich vectors up to this length
          Emit         \* TRUE: print every final state as a CASE line

VARIABLES X,        \* frames: sequence of points             (InitA)
          Cs,       \* centers: sequence of points            (InitA)
          hasxyz,   \* the center container has an `xyz` attribute
          asg,      \* assignments, 0-based center positions / labels
          dist,     \* distances (squared for "l2sq"); Inf = np.inf
          c,        \* loop counter: center (sweep), frame (perframe), label (centers)
          uniq,     \* find_cluster_centers: np.unique(assignments)
          cidx,     \* output of find_cluster_centers: 0-based frame indices
          pc

vars == <<X, Cs, hasxyz, asg, dist, c, uniq, cidx, pc>>

Points == Cube(Dim, P)
N == Len(asg)

ASSUME MetricOK(Metric, Points)

(* ---- assign_to_nearest_center ------------------------------------------------ *)
InitA ==
  /\ \E sh \in Shapes :
        /\ X  \in [1..(sh \div 100) -> Points]
        /\ Cs \in [1..(sh % 100) -> Points]
        /\ hasxyz \in (IF sh % 100 > sh \div 100 THEN BOOLEAN ELSE {FALSE})
  /\ asg = <<>> /\ dist = <<>> /\ c = 0 /\ uniq = <<>> /\ cidx = <<>>
  /\ pc = "start"

(* L186-193: allocate outputs, choose the branch *)
Start ==
  /\ pc = "start"
  /\ asg'  = [i \in 1..Len(X) |-> 0]
  /\ dist' = [i \in 1..Len(X) |-> Inf]
  /\ c' = 1
  /\ pc' = IF Len(Cs) > Len(X) /\ hasxyz THEN "perframe" ELSE "sweep"
  /\ UNCHANGED <<X, Cs, hasxyz, uniq, cidx>>

(* L199-203: one center; inds = dist < distances (strict) *)
SweepCenter ==
  /\ pc = "sweep" /\ c <= Len(Cs)
  /\ LET d    == DistVec(Metric, X, Cs[c])
         inds == {i \in 1..Len(X) : d[i] < dist[i]}
     IN /\ dist' = [i \in 1..Len(X) |-> IF i \in inds THEN d[i] ELSE dist[i]]
        /\ asg'  = [i \in 1..Len(X) |-> IF i \in inds THEN c - 1 ELSE asg[i]]
  /\ c' = c + 1
  /\ UNCHANGED <<X, Cs, hasxyz, uniq, cidx, pc>>

(* L194-197: one frame; distance_method(cluster_centers, frame), argmin, min *)
FrameStep ==
  /\ pc = "perframe" /\ c <= Len(X)
  /\ LET d == DistVec(Metric, Cs, X[c])
     IN /\ asg'  = [asg  EXCEPT ![c] = FirstArgMin(d) - 1]
        /\ dist' = [dist EXCEPT ![c] = SeqMin(d)]
  /\ c' = c + 1
  /\ UNCHANGED <<X, Cs, hasxyz, uniq, cidx, pc>>

AssignReturn ==
  /\ \/ pc = "sweep" /\ c > Len(Cs)
     \/ pc = "perframe" /\ c > Len(X)
  /\ pc' = "cfstart"
  /\ UNCHANGED <<X, Cs, hasxyz, asg, dist, c, uniq, cidx>>

(* ---- find_cluster_centers ------------------------------------------------------ *)
(* np.unique(assignments): the labels present, ascending *)
LabelsPresent == LabelsIn(asg)
Uniq == SortedOf(LabelsPresent)
Members(lab) == MembersIn(asg, lab)

(* L228-234: the two vectors have equal length (else DataInvalid);           *)
(* unique_centers = np.unique(assignments); center_inds = zeros_like(...)    *)
CentersStart ==
  /\ pc = "cfstart" /\ Len(asg) = Len(dist)
  /\ uniq' = Uniq
  /\ c' = 1 /\ cidx' = <<>>
  /\ pc' = "centers"
  /\ UNCHANGED <<X, Cs, hasxyz, asg, dist>>

(* L236-240: assigned_frames = where(assignments == c); argmin within them *)
CenterStep ==
  /\ pc = "centers" /\ c <= Len(uniq)
  /\ LET frames == SortedOf(Members(uniq[c]))               \* np.where(...)[0], ascending
         sub    == [j \in 1..Len(frames) |-> dist[frames[j]]]
         ind    == frames[FirstArgMin(sub)]
     IN cidx' = Append(cidx, ind - 1)
  /\ c' = c + 1
  /\ UNCHANGED <<X, Cs, hasxyz, asg, dist, uniq, pc>>

CentersReturn ==
  /\ pc = "centers" /\ c > Len(uniq)
  /\ pc' = "done"
  /\ UNCHANGED <<X, Cs, hasxyz, asg, dist, c, uniq, cidx>>

NextA == Start \/ SweepCenter \/ FrameStep \/ AssignReturn \/ CentersStart \/ CenterStep \/ CentersReturn

(* ---- the center finder on arbitrary inputs ------------------------------------- *)
Fixed1(n) == [i \in 1..n |-> (i * 5) % 3]
Fixed2(n) == [i \in 1..n |-> (n - i) % 2]
DistVecs(n) == IF n <= FullN THEN [1..n -> 0..2]
               ELSE IF n <= BinN THEN [1..n -> 0..1]
               ELSE {Fixed1(n), Fixed2(n)}

InitF ==
  /\ \E n \in 1..MaxFN : asg \in [1..n -> 0..(LabelN - 1)] /\ dist \in DistVecs(n)
  /\ X = <<>> /\ Cs = <<>> /\ hasxyz = FALSE
  /\ c = 0 /\ uniq = <<>> /\ cidx = <<>>
  /\ pc = "cfstart"

NextF == CentersStart \/ CenterStep \/ CentersReturn

(* emission runs enumerate the inputs only: the expected observables are     *)
(* definition-level functions of the input                                   *)
NextNone == FALSE /\ UNCHANGED vars

(* ---- properties ------------------------------------------------------------------ *)
TypeOK == /\ pc \in {"start", "sweep", "perframe", "cfstart", "centers", "done"}
          /\ Len(asg) = Len(dist)

(* the sweep keeps the minimum over the centers seen so far (inductive form) *)
SweepPrefix ==
  pc = "sweep" =>
    \A i \in 1..Len(X) :
       IF c = 1 THEN dist[i] = Inf /\ asg[i] = 0
       ELSE /\ dist[i] = MinDist(Metric, X[i], SubSeq(Cs, 1, c - 1))
            /\ asg[i] + 1 \in NearestSet(Metric, X[i], SubSeq(Cs, 1, c - 1))

FramePrefix ==
  pc = "perframe" =>
    \A i \in 1..(c - 1) : /\ dist[i] = MinDist(Metric, X[i], Cs)
                          /\ asg[i] + 1 \in NearestSet(Metric, X[i], Cs)

(* C10, first clause: every frame gets a center at minimal distance and the   *)
(* reported distance is the distance to the assigned center                   *)
(* (evaluated when assign_to_nearest_center returns and at the end; the      *)
(* outputs are not written in between, see InputsUnchanged)                  *)
AssignExact ==
  (pc \in {"cfstart", "done"} /\ Len(Cs) > 0) => AssignExactOn(Metric, X, Cs, asg, dist)

(* lemma about the model only: both branches pick the first nearest center *)
ModelPicksFirst ==
  (pc = "cfstart" /\ Len(Cs) > 0) =>
    \A i \in 1..Len(X) : asg[i] + 1 = SetMin(NearestSet(Metric, X[i], Cs))

(* C10, last clause: one entry per label present (ascending), each a member   *)
(* of that label with no member closer                                        *)
CenterFinderMinimal == pc = "done" => CenterFinderMinimalOn(asg, dist, cidx)

CenterPrefix ==
  pc = "centers" => Len(cidx) = c - 1 /\ uniq = Uniq

(* the inputs are never written *)
InputsUnchanged == [][X' = X /\ Cs' = Cs /\ (pc \in {"cfstart", "centers", "done"} => asg' = asg /\ dist' = dist)]_vars

(* ---- emission for replay ------------------------------------------------------------ *)
(* expected observables: the minimal distance per frame and the set of allowed *)
(* (0-based) centers per frame                                                 *)
MinD    == [i \in 1..Len(X) |-> MinDist(Metric, X[i], Cs)]
Allowed == [i \in 1..Len(X) |-> SortedOf({k - 1 : k \in NearestSet(Metric, X[i], Cs)})]

EmitA == (Emit /\ pc = "start") =>
  PrintT(<<"CASE", ToJson([X |-> X, C |-> Cs, xyz |-> hasxyz, metric |-> Metric,
                           mind |-> MinD, allowed |-> Allowed])>>)

(* allowed frame indices per label present (ascending labels) *)
AllowedCenters ==
  [j \in 1..Len(Uniq) |->
     SortedOf({m - 1 : m \in MinimalMembers(asg, dist, Uniq[j])})]

EmitF == (Emit /\ pc = "cfstart") =>
  PrintT(<<"CF", ToJson([labels |-> asg, dists |-> dist, uniq |-> Uniq, allowed |-> AllowedCenters])>>)
=============================================================================
