--------------------------------- MODULE PAM ---------------------------------
(* k-medoids refinement by Partitioning Around Medoids                        *)
(* (enspara.cluster.kmedoids: _kmedoids_inputs_tree, _kmedoids_iterations,    *)
(* _kmedoids_pam_update).  Properties C09 and the k-medoids part of C01.      *)
(*                                                                            *)
(* One sweep = one proposal per cluster, in label order.  A proposal is       *)
(* turned into a CANDIDATE state by the three-way reassignment of             *)
(* kmedoids.py L644-670 and then accepted or rejected.  The candidate is a    *)
(* separate variable, so "committing labels before the decision" or           *)
(* "a rejection that keeps part of the candidate" are visible state           *)
(* differences.                                                               *)
(* Permissiveness: Accept is allowed iff the candidate's cost is <= the       *)
(* current cost (the code demands <); Reject is always allowed.               *)
EXTENDS KCenters

CONSTANTS MaxSweeps,     \* n_iters ranges over 1..MaxSweeps
          ExplicitProps  \* TRUE: also enumerate explicit proposal lists (the proposals= API)

VARIABLES props,    \* explicit proposal list (one frame per cluster, reused every sweep) or <<>>
          sweeps,   \* sweeps still to run
          cid,      \* cluster whose proposal is next (1-based)
          cand,     \* candidate state [p, idx, xy, asg, dist] or <<>>
          cost0     \* cost at hand-over from k-centers / at the warm start (history)

pamvars == <<props, sweeps, cid, cand, cost0>>
vars == <<kcvars, pamvars>>

K == Len(ctrIdx)
SqRep(d) == IF metric = "l2sq" THEN d ELSE d * d          \* squared distance from a represented one
Cost(dv) == SumSeq([i \in DOMAIN dv |-> SqRep(dv[i])])     \* N * mean squared distance
Members(c) == {i \in Frames : asg[i] = c}

(* the candidate produced by proposing frame p as medoid of cluster c *)
Candidate(c, p) ==
  LET nd == DistVec(metric, pts, pts[p])
      nXY == [ctrXY EXCEPT ![c] = pts[p]]
      amb(i) == AssignNearest(metric, <<pts[i]>>, nXY)       \* recompute against ALL new medoids
  IN [p    |-> p,
      idx  |-> [ctrIdx EXCEPT ![c] = p],
      xy   |-> nXY,
      asg  |-> [i \in Frames |-> IF dist[i] > nd[i] THEN c
                                 ELSE IF asg[i] # c THEN asg[i]
                                 ELSE amb(i)[1][1]],
      dist |-> [i \in Frames |-> IF dist[i] > nd[i] THEN nd[i]
                                 ELSE IF asg[i] # c THEN dist[i]
                                 ELSE amb(i)[2][1]]]

(* stand-alone k-medoids from supplied center frames (warm start through
   cluster_center_inds; labels and distances are derived from them) *)
PAMInit ==
  /\ pts \in InjectiveSeqs(Cube(Dim, P), MinN, MaxN)
  /\ metric \in MetricsUsed
  /\ k = 0 /\ cut = 0 /\ ti = FALSE
  /\ init \in {s \in UNION {[1..w -> 1..Len(pts)] : w \in 1..MaxK} :
                  \A a, b \in DOMAIN s : a # b => s[a] # s[b]}
  /\ ctrIdx = init
  /\ ctrXY = [c \in DOMAIN init |-> pts[init[c]]]
  /\ LET ad == AssignNearest(metric, pts, [c \in DOMAIN init |-> pts[init[c]]])
     IN asg = ad[1] /\ dist = ad[2] /\ cost0 = SumSeq([i \in DOMAIN ad[2] |-> IF metric = "l2sq" THEN ad[2][i] ELSE ad[2][i] * ad[2][i]])
  /\ sweeps \in 1..MaxSweeps
  /\ props \in {<<>>} \cup (IF ExplicitProps THEN [DOMAIN init -> 1..Len(pts)] ELSE {})
  /\ cid = 1 /\ cand = <<>>
  /\ pc = "pam"

Propose(p) ==
  /\ pc = "pam" /\ cid <= K
  /\ IF props = <<>> THEN p \in Members(cid) ELSE p = props[cid]
  /\ cand' = Candidate(cid, p)
  /\ pc' = "cand"
  /\ UNCHANGED <<kcvars_nopc, props, sweeps, cid, cost0>>

Advance(nextpc) ==
  IF cid < K THEN cid' = cid + 1 /\ sweeps' = sweeps /\ pc' = "pam"
  ELSE /\ cid' = 1 /\ sweeps' = sweeps - 1
       /\ pc' = IF sweeps - 1 = 0 THEN "done" ELSE "pam"

Accept ==
  /\ pc = "cand"
  /\ Cost(cand.dist) <= Cost(dist)
  /\ ctrIdx' = cand.idx /\ ctrXY' = cand.xy /\ asg' = cand.asg /\ dist' = cand.dist
  /\ cand' = <<>>
  /\ Advance("pam")
  /\ UNCHANGED <<pts, metric, k, cut, ti, init, cost0, props>>

Reject ==
  /\ pc = "cand"
  /\ cand' = <<>>
  /\ Advance("pam")
  /\ UNCHANGED <<pts, metric, k, cut, ti, init, ctrIdx, ctrXY, asg, dist, cost0, props>>

PAMNext == (\E p \in Frames : Propose(p)) \/ Accept \/ Reject
PAMSpec == PAMInit /\ [][PAMNext]_vars

(* ---- properties ---------------------------------------------------------------- *)
(* every candidate that MAY be accepted is self-consistent (a proposal that
   coincides with another cluster's medoid yields an inconsistent candidate,
   but its cost is strictly larger, so it can never be accepted) *)
CandidateConsistent == (pc = "cand" /\ Cost(cand.dist) <= Cost(dist)) =>
                          SelfConsistentState(cand.idx, cand.xy, cand.asg, cand.dist)
CostMonotone == [][(pc \in {"pam", "cand"}) => Cost(dist') <= Cost(dist)]_vars
KConstant == [][(pc \in {"pam", "cand"}) => Len(ctrIdx') = Len(ctrIdx) /\ Len(ctrXY') = Len(ctrXY)]_vars
(* a rejection discards the whole candidate: by construction of Reject; enforced on the
   implementation by trace validation (Trace_Cluster.tla) *)
NoWorseThanStart == pc \in {"pam", "cand", "done"} /\ cost0 >= 0 => Cost(dist) <= cost0
(* emission of the enumerated inputs (initial states only) *)
EmitBound0 == pc = "pam"
EmitPAMInputAny == PrintT(<<"CASE", ToJson([pts |-> pts, metric |-> metric, init |-> init, props |-> props, sweeps |-> sweeps])>>)
NonEmptyClusters == pc \in {"pam", "done"} /\ ctrIdx # <<>> => \A c \in DOMAIN ctrIdx : Members(c) # {}
(* a proposal that is already a medoid of another cluster is never an improvement *)
=============================================================================
