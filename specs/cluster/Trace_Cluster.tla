---------------------------- MODULE Trace_Cluster ----------------------------
(* Trace validation for the clustering algorithms: executions of the REAL     *)
(* kcenters / kmedoids / hybrid (function and estimator forms) recorded by    *)
(* props/cluster_common.py are checked, event by event, against the actions   *)
(* of KCenters.tla / PAM.tla / Hybrid.tla.                                    *)
(*                                                                            *)
(* Every recorded event is compared with the successor the specification      *)
(* computes from the current state; each failing clause is recorded as        *)
(* <<clause, event number>> and validation continues from the RECORDED state, *)
(* so one rejection does not hide the rest of the trace.  All C01/C02/C09      *)
(* state invariants are evaluated on every recorded state.                    *)
EXTENDS Hybrid, Json, IOUtils

Traces == JsonDeserialize(IOEnv.TRACE_FILE)

VARIABLES tid, l, fails, lastCost
tvars == <<vars, tid, l, fails, lastCost>>

Tr == Traces[tid]
Ev == Tr.events
E == Ev[l]

Pt(x) == x                                   \* points are logged as sequences of ints

TInit ==
  /\ tid \in 1..Len(Traces)
  /\ l = 1 /\ fails = {} /\ lastCost = -1
  /\ pts = Tr.pts /\ metric = Tr.metric /\ k = Tr.k /\ cut = Tr.cut /\ ti = Tr.ti
  /\ init = Tr.init
  /\ sweeps = Tr.sweeps /\ cid = 1 /\ cand = <<>> /\ cost0 = -1 /\ props = Tr.props
  /\ pc = (IF Tr.algo = "kmedoids" THEN "pstart" ELSE "start")
  /\ ctrIdx = <<>> /\ ctrXY = <<>> /\ asg = <<>> /\ dist = <<>>

Fail(S) == fails' = fails \cup {<<c, l>> : c \in S}
Bad(name, ok) == IF ok THEN {} ELSE {name}

(* labels may differ from the specification's only on ties: each logged label
   must point at a center at exactly the logged distance *)
LabelsValid(cX, a, d) == \A i \in Frames : a[i] \in DOMAIN cX /\ Dm(i, cX[a[i]]) = d[i]

(* the state k-centers starts its loop with *)
StartState ==
  IF init = <<>> THEN [ctrIdx |-> <<>>, ctrXY |-> <<>>, asg |-> [i \in Frames |-> 0], dist |-> [i \in Frames |-> Inf]]
  ELSE LET cs == IF "initXY" \in DOMAIN Tr THEN Tr.initXY       \* init_centers that are not frames of the data
                   ELSE [c \in DOMAIN init |-> pts[init[c]]]
           ad == AssignNearest(metric, pts, cs)
       IN [ctrIdx |-> FindCenters(ad[1], ad[2]), ctrXY |-> cs, asg |-> ad[1], dist |-> ad[2]]

(* the centers of a recorded state: the frames at the recorded indices -- except that supplied initial
   centers which are not frames of the data stay what they are (their index is that of the nearest frame) *)
CenterOf(e, c) == IF "initXY" \in DOMAIN Tr /\ c <= Len(Tr.initXY) THEN Tr.initXY[c]
                  ELSE IF e.ctrIdx[c] \in Frames THEN pts[e.ctrIdx[c]] ELSE <<>>
Adopt(e) == /\ ctrIdx' = e.ctrIdx /\ asg' = e.asg /\ dist' = e.dist
            /\ ctrXY' = [c \in DOMAIN e.ctrIdx |-> CenterOf(e, c)]

(* "start": state at entry of the first k-centers iteration *)
TStart ==
  /\ l <= Len(Ev) /\ E.ev = "start" /\ pc = "start"
  /\ LET s == StartState IN
     Fail(Bad("Start.centers", E.ctrIdx = s.ctrIdx)
          \cup Bad("Start.distances", E.dist = s.dist)
          \cup Bad("Start.labels", IF init = <<>> THEN E.asg = s.asg ELSE LabelsValid(s.ctrXY, E.asg, E.dist)))
  /\ Adopt(E) /\ pc' = "loop" /\ l' = l + 1
  /\ UNCHANGED <<pts, metric, k, cut, ti, init, pamvars, tid, lastCost>>

(* "iter": one call of _kcenters_iteration returned *)
TIter ==
  /\ l <= Len(Ev) /\ E.ev = "iter" /\ pc = "loop"
  /\ LET c == E.c
         ok == c \in Frames
         nd == IF ok THEN NewDist(c) ELSE dist
         pl == IF ok THEN PlainDist(c) ELSE dist
         lab == Len(ctrIdx) + 1
     IN Fail(Bad("Iterate.guard(stops exactly on cue)", Guard)
             \cup Bad("Iterate.farthest", ok /\ c \in Farthest)
             \cup Bad("Iterate.center_indices", E.ctrIdx = Append(ctrIdx, c))
             \cup Bad("Iterate.distances", ok /\ E.dist = [i \in Frames |-> Min2(pl[i], dist[i])])
             \cup Bad("Iterate.shortcut=plain", ok /\ [i \in Frames |-> Min2(nd[i], dist[i])] = [i \in Frames |-> Min2(pl[i], dist[i])])
             \cup Bad("Iterate.labels", ok /\ AsgOK(E.asg, pl, lab))
             \cup Bad("Iterate.radius-monotone", ctrIdx = <<>> \/ SeqMax(E.dist) <= MaxD))
  /\ Adopt(E) /\ l' = l + 1
  /\ UNCHANGED <<pts, metric, k, cut, ti, init, pc, pamvars, tid, lastCost>>

SameState(e) == Bad("Result.center_indices", e.ctrIdx = ctrIdx)
                \cup Bad("Result.centers=X[center_indices]", e.ctrXY = [c \in DOMAIN e.ctrIdx |-> CenterOf(e, c)])
                \cup Bad("Result.distances", e.dist = dist)
                \cup Bad("Result.labels", e.asg = asg)
                \cup Bad("Result.SelfConsistent", "initXY" \in DOMAIN Tr \/      \* (C01 speaks of centers that are frames)
                          (e.ctrIdx # <<>> /\ SelfConsistentState(e.ctrIdx, e.ctrXY, e.asg, e.dist)))

(* "kcdone": kcenters() returned *)
TKCDone ==
  /\ l <= Len(Ev) /\ E.ev = "kcdone" /\ pc \in {"start", "loop"}
  /\ IF pc = "start"
     THEN LET s == StartState IN
          /\ Fail(Bad("Start.centers", E.ctrIdx = s.ctrIdx) \cup Bad("Start.distances", E.dist = s.dist)
                  \cup Bad("Start.labels", LabelsValid(s.ctrXY, E.asg, E.dist))
                  \cup Bad("Stop.guard(stopped although criteria not met)",
                           ~((k = 0 \/ Len(E.ctrIdx) < k) /\ SeqMax(E.dist) > cut))
                  \cup Bad("Result.SelfConsistent", "initXY" \in DOMAIN Tr \/
                            (E.ctrIdx # <<>> /\ SelfConsistentState(E.ctrIdx, E.ctrXY, E.asg, E.dist))))
     ELSE Fail(Bad("Stop.guard(stopped although criteria not met)", ~Guard) \cup SameState(E)
               \cup Bad("TwoApprox", (init # <<>>) \/ ctrIdx = <<>> \/ N > 9 \/
                          (Len(ctrIdx) <= N /\      \* (more centers than frames: no optimum to compare with)
                           (IF metric = "l2sq" THEN MaxD <= 4 * Opt(Len(ctrIdx)) ELSE MaxD <= 2 * Opt(Len(ctrIdx))))))
  /\ Adopt(E)
  /\ cost0' = Cost(E.dist)
  /\ pc' = IF Tr.algo = "hybrid" /\ sweeps > 0 THEN "pam" ELSE "done"
  /\ l' = l + 1
  /\ UNCHANGED <<pts, metric, k, cut, ti, init, props, sweeps, cid, cand, tid, lastCost>>

(* "pamstart": the state stand-alone k-medoids enters its first sweep with
   (after _kmedoids_inputs_tree): supplied center frames are kept in order, a
   cold start draws distinct frames; labels and distances are nearest-center *)
TPamStart ==
  /\ l <= Len(Ev) /\ E.ev = "pamstart" /\ pc = "pstart"
  /\ Fail(Bad("PamStart.supplied-centers-kept", init = <<>> \/ E.ctrIdx = init)
          \cup Bad("PamStart.n_clusters", Tr.k = 0 \/ Len(E.ctrIdx) = Tr.k)
          \cup Bad("PamStart.SelfConsistent", E.ctrIdx # <<>> /\ (\A c \in DOMAIN E.ctrIdx : E.ctrIdx[c] \in Frames) /\
                   SelfConsistentState(E.ctrIdx, [c \in DOMAIN E.ctrIdx |-> pts[E.ctrIdx[c]]], E.asg, E.dist)))
  /\ Adopt(E) /\ cost0' = Cost(E.dist)
  /\ pc' = "pam" /\ l' = l + 1
  /\ UNCHANGED <<pts, metric, k, cut, ti, init, props, sweeps, cid, cand, tid, lastCost>>

(* "prop": one proposal was decided (DEBUG records of the kmedoids logger) *)
TProp ==
  /\ l <= Len(Ev) /\ E.ev = "prop" /\ pc = "pam"
  /\ LET c == E.cid
         okc == c \in DOMAIN ctrIdx /\ E.p \in Frames
         cd == IF okc THEN Candidate(c, E.p) ELSE <<>>
     IN /\ Fail(Bad("Propose.cluster-order", c = cid)
                \cup Bad("Propose.old-medoid", okc /\ E.old = ctrIdx[c])
                \cup Bad("Propose.member(center must be a frame of its cluster)", okc /\ (IF props = <<>> THEN E.p \in Members(c) ELSE E.p = props[c]))
                \cup Bad("Propose.old-cost", okc /\ E.oldN = Cost(dist))
                \cup Bad("Propose.new-cost", okc /\ E.newN = Cost(cd.dist))
                \cup Bad("Accept.cost-not-worse", okc /\ (E.accepted => Cost(cd.dist) <= Cost(dist))))
        /\ IF okc /\ E.accepted
           THEN ctrIdx' = cd.idx /\ ctrXY' = cd.xy /\ asg' = cd.asg /\ dist' = cd.dist
           ELSE UNCHANGED <<ctrIdx, ctrXY, asg, dist>>
  /\ cid' = IF cid < K THEN cid + 1 ELSE 1
  /\ l' = l + 1
  /\ UNCHANGED <<pts, metric, k, cut, ti, init, pc, props, sweeps, cand, cost0, tid, lastCost>>

(* "sweep": _kmedoids_pam_update returned *)
TSweep ==
  /\ l <= Len(Ev) /\ E.ev = "sweep" /\ pc = "pam"
  /\ LET before == IF lastCost >= 0 THEN lastCost ELSE Cost(dist) IN
     Fail((IF E.coarse
           THEN Bad("Sweep.SelfConsistent", E.ctrIdx # <<>> /\ SelfConsistentState(E.ctrIdx, E.ctrXY, E.asg, E.dist))
           ELSE Bad("Sweep.center_indices", E.ctrIdx = ctrIdx)
                \cup Bad("Sweep.centers=X[center_indices]", E.ctrXY = ctrXY)
                \cup Bad("Sweep.distances", E.dist = dist)
                \cup Bad("Sweep.labels", LabelsValid(E.ctrXY, E.asg, E.dist) /\ Len(E.ctrXY) = K)
                \cup Bad("Sweep.SelfConsistent", E.ctrIdx # <<>> /\ SelfConsistentState(E.ctrIdx, E.ctrXY, E.asg, E.dist))
                \cup Bad("Sweep.proposal-per-cluster", cid = 1))
          \cup Bad("Sweep.K-constant", Len(E.ctrIdx) = K)
          \cup Bad("Sweep.cost-monotone", Cost(E.dist) <= Cost(dist) /\ (cost0 < 0 \/ Cost(E.dist) <= cost0)))
  /\ Adopt(E) /\ cid' = 1
  /\ sweeps' = sweeps - 1
  /\ pc' = IF sweeps - 1 <= 0 THEN "done" ELSE "pam"
  /\ l' = l + 1 /\ lastCost' = Cost(E.dist)
  /\ UNCHANGED <<pts, metric, k, cut, ti, init, props, cand, cost0, tid>>

(* "result": what the public entry point returned *)
TResult ==
  /\ l <= Len(Ev) /\ E.ev = "result" /\ pc = "done"
  /\ Fail(SameState(E)
          \cup Bad("Result.HybridNoWorse", cost0 < 0 \/ Cost(E.dist) <= cost0)
          \cup Bad("Result.inputs-untouched", E.inputs_same)
          \cup Bad("Result.reproducible", E.reproducible))
  /\ Adopt(E) /\ l' = l + 1
  /\ UNCHANGED <<pts, metric, k, cut, ti, init, pc, pamvars, tid, lastCost>>

(* stand-alone k-medoids asked for zero sweeps: no sweep is ever entered, the state derived from the
   supplied / drawn medoids IS the result and must meet what "pamstart" demands of that state *)
TResultNoSweep ==
  /\ l <= Len(Ev) /\ E.ev = "result" /\ pc = "pstart" /\ sweeps = 0
  /\ Fail(Bad("PamStart.supplied-centers-kept", init = <<>> \/ E.ctrIdx = init)
          \cup Bad("PamStart.n_clusters", Tr.k = 0 \/ Len(E.ctrIdx) = Tr.k)
          \cup Bad("PamStart.SelfConsistent", E.ctrIdx # <<>> /\ (\A c \in DOMAIN E.ctrIdx : E.ctrIdx[c] \in Frames) /\
                   SelfConsistentState(E.ctrIdx, [c \in DOMAIN E.ctrIdx |-> pts[E.ctrIdx[c]]], E.asg, E.dist))
          \cup Bad("Result.inputs-untouched", E.inputs_same)
          \cup Bad("Result.reproducible", E.reproducible))
  /\ Adopt(E) /\ pc' = "done" /\ l' = l + 1
  /\ UNCHANGED <<pts, metric, k, cut, ti, init, pamvars, tid, lastCost>>

(* "mpistate": a state reassembled from the ranks of a distributed run (C14): it must be
   self-consistent, keep the number of clusters, and never be worse in cost than the
   previously recorded state of the same run *)
TMpiState ==
  /\ l <= Len(Ev) /\ E.ev = "mpistate"
  /\ Fail(Bad("Mpi.SelfConsistent", E.ctrIdx # <<>> /\ (\A c \in DOMAIN E.ctrIdx : E.ctrIdx[c] \in Frames) /\
                   SelfConsistentState(E.ctrIdx, [c \in DOMAIN E.ctrIdx |-> pts[E.ctrIdx[c]]], E.asg, E.dist))
          \cup Bad("Mpi.ranks-agree", E.ranks_agree)
          \cup Bad("Mpi.K-constant", lastCost < 0 \/ Len(E.ctrIdx) = Len(ctrIdx))
          \cup Bad("Mpi.cost-not-worse", lastCost < 0 \/ Cost(E.dist) <= lastCost)
          \cup Bad("Mpi.stops-on-cue", lastCost >= 0 \/ Len(E.ctrIdx) = Tr.k \/ SeqMax(E.dist) <= cut))
  /\ Adopt(E) /\ lastCost' = Cost(E.dist) /\ l' = l + 1
  /\ UNCHANGED <<pts, metric, k, cut, ti, init, pc, pamvars, tid>>

(* an exception escaped *)
TRaise ==
  /\ l <= Len(Ev) /\ E.ev = "raise"
  /\ Fail({"NoException"}) /\ l' = l + 1
  /\ UNCHANGED <<vars, tid, lastCost>>

TNext == TMpiState \/ TStart \/ TIter \/ TKCDone \/ TPamStart \/ TProp \/ TSweep \/ TResult \/ TResultNoSweep \/ TRaise

(* state invariants on every recorded state *)
TInvariant == (pc \in {"loop", "pam", "done"} /\ ctrIdx # <<>> /\ \A c \in DOMAIN ctrIdx : ctrIdx[c] \in Frames
               /\ \A i \in Frames : asg[i] \in DOMAIN ctrIdx)
              => TRUE

Report == (l = Len(Ev) + 1) => PrintT(<<"VERDICT", tid, fails>>)
(* the guards of the T-actions, without their effects (cheap ENABLED) *)
Matches == \/ (E.ev = "start" /\ pc = "start") \/ (E.ev = "iter" /\ pc = "loop")
           \/ (E.ev = "kcdone" /\ pc \in {"start", "loop"}) \/ (E.ev = "pamstart" /\ pc = "pstart")
           \/ (E.ev = "prop" /\ pc = "pam") \/ (E.ev = "sweep" /\ pc = "pam")
           \/ (E.ev = "result" /\ pc = "done") \/ (E.ev = "result" /\ pc = "pstart" /\ sweeps = 0)
           \/ E.ev = "raise" \/ E.ev = "mpistate"
StuckReport == (l <= Len(Ev) /\ ~Matches) => PrintT(<<"STUCK", tid, l>>)
=============================================================================
