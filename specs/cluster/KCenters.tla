------------------------------ MODULE KCenters ------------------------------
(* k-centers clustering (enspara.cluster.kcenters.kcenters /                  *)
(* _kcenters_iteration).  Properties C01 (self-consistency) and C02 (greedy   *)
(* farthest point, radius never widens, 2-approximation, exact stopping,      *)
(* exact triangle-inequality shortcut).  PAM.tla and Hybrid.tla extend it.    *)
(*                                                                            *)
(* Frames are 1-based here (frame f of the code is f+1), labels are 1-based   *)
(* (label 0 = unassigned, the code's -1).  Distances are "represented"        *)
(* values (Lattice.tla): exact for l1 / linf, SQUARED for l2sq.               *)
(*                                                                            *)
(* The actions are exactly as permissive as the properties: any frame of      *)
(* maximal distance may become the next center (the code takes the first),    *)
(* and a frame equidistant from its old center and the new one may keep its   *)
(* label or take the new one (the code keeps it).                             *)
EXTENDS Lattice, FiniteSetsExt, TLC, Json

CONSTANTS Dim, P,      \* points live in Cube(Dim, P)
          MinN, MaxN,  \* number of frames
          MaxK,        \* n_clusters ranges over 0 (= None / inf) .. MaxK
          Cuts,        \* set of represented cutoffs (0 stands for None)
          MetricsUsed, \* subset of Metrics
          WarmMax      \* warm starts use 1..WarmMax initial center frames (0: cold only)

VARIABLES pts,      \* sequence of distinct lattice points (the data, in order)
          metric,
          k, cut,   \* stopping criteria
          ti,       \* use_triangle_inequality
          init,     \* sequence of frames given as init_centers (<<>> = cold start)
          ctrIdx,   \* center_indices
          ctrXY,    \* centers (coordinates; kept separately by the code)
          asg, dist,
          pc        \* "start" | "loop" | "done"

kcvars == <<pts, metric, k, cut, ti, init, ctrIdx, ctrXY, asg, dist, pc>>
kcvars_nopc == <<pts, metric, k, cut, ti, init, ctrIdx, ctrXY, asg, dist>>

N == Len(pts)
Frames == 1..N
Dm(i, q) == D(metric, pts[i], q)

MaxD == SeqMax(dist)

(* ---- building blocks ------------------------------------------------------- *)
(* util.assign_to_nearest_center: sweep over the centers in order, strict <   *)
RECURSIVE SweepAssign(_, _, _, _, _)
SweepAssign(m, xs, cs, c, acc) ==          \* acc = <<asg, dist>>
  IF c > Len(cs) THEN acc
  ELSE LET dv == DistVec(m, xs, cs[c])
           a2 == [i \in 1..Len(xs) |-> IF dv[i] < acc[2][i] THEN c ELSE acc[1][i]]
           d2 == [i \in 1..Len(xs) |-> IF dv[i] < acc[2][i] THEN dv[i] ELSE acc[2][i]]
       IN SweepAssign(m, xs, cs, c + 1, <<a2, d2>>)
(* the code initialises labels with 0 (= our 1) and distances with inf *)
AssignNearest(m, xs, cs) == SweepAssign(m, xs, cs, 1, <<[i \in 1..Len(xs) |-> 1], [i \in 1..Len(xs) |-> Inf]>>)

(* util.find_cluster_centers: for every label present, in increasing label    *)
(* order, the first member of smallest distance                               *)
LabelsPresent(a) == {a[i] : i \in DOMAIN a}
RECURSIVE SortedSeq(_)
SortedSeq(X) == IF X = {} THEN <<>> ELSE LET m == SetMin(X) IN <<m>> \o SortedSeq(X \ {m})
FindCenters(a, d) ==
  LET labs == SortedSeq(LabelsPresent(a))
  IN [j \in 1..Len(labs) |->
        LET mem == {i \in DOMAIN a : a[i] = labs[j]}
            md  == SetMin({d[i] : i \in mem})
        IN SetMin({i \in mem : d[i] = md})]

(* loop guard of kcenters(): len(ctr_inds) < n_clusters and maxdist > cutoff  *)
Guard == (k = 0 \/ Len(ctrIdx) < k) /\ MaxD > cut

(* ---- initial states: inputs and configurations ------------------------------ *)
InjectiveSeqs(S, lo, hi) == {s \in PointSeqs(S, lo, hi) : \A i, j \in DOMAIN s : i # j => s[i] # s[j]}

KCInit ==
  /\ pts \in InjectiveSeqs(Cube(Dim, P), MinN, MaxN)
  /\ metric \in MetricsUsed
  /\ k \in 0..MaxK
  /\ cut \in Cuts
  /\ (k # 0 \/ cut # 0)                      \* ImproperlyConfigured otherwise
  /\ ti \in BOOLEAN
  /\ init \in {<<>>} \cup {s \in UNION {[1..w -> 1..Len(pts)] : w \in 1..WarmMax} :
                              \A a, b \in DOMAIN s : a # b => s[a] # s[b]}
  /\ ctrIdx = <<>> /\ ctrXY = <<>>
  /\ asg = <<>> /\ dist = <<>>
  /\ pc = "start"

(* ---- actions ------------------------------------------------------------------ *)
ColdStart ==
  /\ pc = "start" /\ init = <<>>
  /\ asg' = [i \in Frames |-> 0]
  /\ dist' = [i \in Frames |-> Inf]
  /\ pc' = "loop"
  /\ UNCHANGED <<pts, metric, k, cut, ti, init, ctrIdx, ctrXY>>

(* init_centers given (frames of the data): assign, then locate the centers  *)
WarmStart ==
  /\ pc = "start" /\ init # <<>>
  /\ LET cs == [c \in DOMAIN init |-> pts[init[c]]]
         ad == AssignNearest(metric, pts, cs)
     IN /\ ctrXY' = cs
        /\ asg' = ad[1] /\ dist' = ad[2]
        /\ ctrIdx' = FindCenters(ad[1], ad[2])
  /\ pc' = "loop"
  /\ UNCHANGED <<pts, metric, k, cut, ti, init>>

(* candidate next centers: ANY frame of maximal distance; on a cold start the *)
(* first frame                                                                *)
Farthest == IF ctrIdx = <<>> THEN {1} ELSE ArgMaxSet(dist)

(* plain update: distance to the new center for every frame *)
PlainDist(c) == DistVec(metric, pts, pts[c])

(* triangle-inequality shortcut (kcenters.py, _kcenters_iteration): recompute  *)
(* only frames with dist[i] > d(center(asg[i]), new)/2; others keep their     *)
(* distance.  The centers are the centers themselves (ctrXY) -- the pinned    *)
(* tree took the frames at ctrIdx, which differ from supplied initial centers *)
(* that are not frames of the data (repaired, see known_findings.json)        *)
ShortcutApplies == ti /\ \A i \in Frames : asg[i] >= 1
ShortcutDist(c) ==
  LET cc == [j \in DOMAIN ctrXY |-> D(metric, ctrXY[j], pts[c])]
  IN [i \in Frames |-> IF GtHalf(metric, dist[i], cc[asg[i]]) THEN Dm(i, pts[c]) ELSE dist[i]]

NewDist(c) == IF ShortcutApplies THEN ShortcutDist(c) ELSE PlainDist(c)

(* admissible successor labels: strictly closer -> new label, farther -> old, *)
(* equidistant -> either                                                      *)
AsgOK(a2, nd, lab) ==
  \A i \in Frames : IF nd[i] < dist[i] THEN a2[i] = lab
                    ELSE IF nd[i] > dist[i] THEN a2[i] = asg[i]
                    ELSE a2[i] \in {asg[i], lab} /\ (asg[i] = 0 => a2[i] = lab)

Iterate(c) ==
  /\ pc = "loop" /\ Guard
  /\ c \in Farthest
  /\ LET nd == NewDist(c)
         lab == Len(ctrIdx) + 1
     IN /\ dist' = [i \in Frames |-> Min2(nd[i], dist[i])]
        /\ asg' = [i \in Frames |-> IF nd[i] < dist[i] THEN lab ELSE asg[i]]   \* the code's choice
  /\ ctrIdx' = Append(ctrIdx, c)
  /\ ctrXY' = Append(ctrXY, pts[c])
  /\ UNCHANGED <<pts, metric, k, cut, ti, init, pc>>

Stop ==
  /\ pc = "loop" /\ ~Guard
  /\ pc' = "done"
  /\ UNCHANGED <<pts, metric, k, cut, ti, init, ctrIdx, ctrXY, asg, dist>>

KCNext == ColdStart \/ WarmStart \/ (\E c \in Frames : Iterate(c)) \/ Stop
KCSpec == KCInit /\ [][KCNext]_kcvars

(* ---- C01: self-consistency ---------------------------------------------------- *)
HasCenters == pc \in {"loop", "done", "pam", "cand"} /\ ctrIdx # <<>>
SelfConsistentState(cI, cX, a, d) ==
  /\ Len(cI) = Len(cX)
  /\ \A c \in DOMAIN cI : cI[c] \in Frames /\ cX[c] = pts[cI[c]]
  /\ \A i \in Frames :
        /\ a[i] \in DOMAIN cI
        /\ d[i] = Dm(i, cX[a[i]])
        /\ \A c \in DOMAIN cI : Dm(i, cX[c]) >= d[i]
  /\ \A c \in DOMAIN cI : a[cI[c]] = c /\ d[cI[c]] = 0
SelfConsistent == HasCenters => SelfConsistentState(ctrIdx, ctrXY, asg, dist)

InputsUntouched == [][pts' = pts /\ metric' = metric]_kcvars

(* ---- C02 ------------------------------------------------------------------------ *)
RadiusMonotone == [][(pc = "loop" /\ pc' = "loop" /\ ctrIdx # <<>>) => SeqMax(dist') <= SeqMax(dist)]_kcvars

(* every center after the first/warm ones was a farthest frame when chosen: this
   is the guard of Iterate; as a state predicate: the frames in ctrIdx are distinct *)
CentersDistinct == \A a, b \in DOMAIN ctrIdx : a # b => ctrIdx[a] # ctrIdx[b]

(* brute-force optimum: the best radius achievable with kk centers among the frames *)
RadiusOf(Sub) == SetMax({SetMin({Dm(i, pts[s]) : s \in Sub}) : i \in Frames})
Opt(kk) == SetMin({RadiusOf(Sub) : Sub \in kSubset(kk, Frames)})
(* greedy radius <= 2 * optimum (for l2sq: squares, factor 4); cold start, k reached *)
TwoApprox == (pc = "done" /\ init = <<>> /\ Len(ctrIdx) >= 1 /\ Len(ctrIdx) <= N) =>
   IF metric = "l2sq" THEN MaxD <= 4 * Opt(Len(ctrIdx)) ELSE MaxD <= 2 * Opt(Len(ctrIdx))

(* stops exactly on cue *)
StopExact == pc = "done" => ((k # 0 /\ Len(ctrIdx) >= k) \/ MaxD <= cut)
NeverOvershoots == (pc \in {"loop", "done"} /\ k # 0 /\ init = <<>>) => Len(ctrIdx) <= k
(* the loop ran as long as the guard held: with one center less the guard held *)

(* the shortcut returns the same distances as the plain computation *)
ShortcutExact == (pc = "loop" /\ Guard /\ ShortcutApplies) =>
   \A c \in Farthest :
      [i \in Frames |-> Min2(ShortcutDist(c)[i], dist[i])] = [i \in Frames |-> Min2(PlainDist(c)[i], dist[i])]

(* emission of the enumerated inputs/configurations (driver replays them into the real code) *)
OnlyStart == pc = "start"
EmitKCInput == pc = "start" =>
   PrintT(<<"CASE", ToJson([pts |-> pts, metric |-> metric, k |-> k, cut |-> cut, ti |-> ti, init |-> init])>>)

MetricAxioms == MetricOK(metric, {pts[i] : i \in Frames})
=============================================================================
