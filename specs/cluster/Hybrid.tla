-------------------------------- MODULE Hybrid --------------------------------
(* k-hybrid (enspara.cluster.hybrid.hybrid): k-centers, then n_iters PAM      *)
(* sweeps with proposals drawn among each cluster's members.  Properties C01, *)
(* C09 (HybridNoWorse: never worse in mean squared distance than the          *)
(* k-centers solution it starts from).                                        *)
EXTENDS PAM

HybridInit ==
  /\ KCInit
  /\ sweeps \in 0..MaxSweeps           \* kmedoids_updates; 0 = plain k-centers result
  /\ cid = 1 /\ cand = <<>> /\ cost0 = -1 /\ props = <<>>

(* hand-over: the k-centers result becomes the PAM start state *)
Handover ==
  /\ pc = "loop" /\ ~Guard
  /\ cost0' = Cost(dist)
  /\ pc' = IF sweeps = 0 THEN "done" ELSE "pam"
  /\ UNCHANGED <<kcvars_nopc, props, sweeps, cid, cand>>

KCStep == /\ (ColdStart \/ WarmStart \/ \E c \in Frames : Iterate(c))
          /\ UNCHANGED pamvars

HybridNext == KCStep \/ Handover \/ PAMNext
HybridSpec == HybridInit /\ [][HybridNext]_vars

(* the k-centers stage of k-hybrid stops on the same cue as plain k-centers *)
StopExactAtHandover == (pc \in {"pam", "cand", "done"}) => Len(ctrIdx) >= 1

HybridNoWorse == (pc \in {"pam", "cand", "done"} /\ cost0 >= 0) => Cost(dist) <= cost0
=============================================================================
