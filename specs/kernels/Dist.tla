-------------------------------- MODULE Dist --------------------------------
(* Distance kernels enspara.geometry.libdist.{euclidean, manhattan, hamming}   *)
(* and the metric-name lookup enspara.cluster.util._get_distance_method.       *)
(* Property C13, part 1: values and argument validation.                       *)
(*                                                                            *)
(* A call is a configuration (which kernel, reached how, element type, memory  *)
(* layout, kind of `out` argument, rank of X and y, width of y, magnitude of   *)
(* the entries) plus the data (X, y).  The machine follows the code:           *)
(*   Validate   _prepare_for_2d_to_1d_distance: _check_is_2d, _check_is_1d,    *)
(*              width check, then allocation of `out` or its dtype / length /  *)
(*              rank checks -- in the order of the source                      *)
(*   Dispatch   the fused-type dispatch of the typed `def _kernel(...)`         *)
(*   Zero/Accum/Root/HammingRow  the loops of the kernel, reading X and y       *)
(*              through (offset, strides) into their flat buffers and writing  *)
(*              through the view of `out` into the caller's memory             *)
(*   Return                                                                    *)
(* and is compared with the definition of the three distances.  Rows are taken *)
(* one after the other here; that any thread schedule of the prange loops has  *)
(* the same effect is the subject of Prange.tla.                               *)
(*                                                                            *)
(* Arithmetic: entries are small integers times a unit U = 2^ubits - 1 (U = 1  *)
(* for ubits = 0).  The spec computes in units: L1 as an integer, the squared  *)
(* L2 as an integer (flag root = TRUE: the reported value is its square root), *)
(* Hamming as mismatches / n_features.  L1 and L2 are homogeneous of degree 1  *)
(* (invariant Homogeneous), so the expected value for magnitude U is U times   *)
(* the unit result: that is how int8 +-127 ... int64 +-(2^63-1) are covered    *)
(* with 32-bit TLC integers.                                                   *)
EXTENDS Integers, Sequences, FiniteSets, TLC, Json

CONSTANTS
  Kernels, Vias, DTypes, YDts, Layouts, OutKinds, XRanks, YRanks, DWs, UBits,  \* configuration sets of this run
  Supported,      \* [kernel |-> set of dtype names]: EXTRACTED from the fused types of libdist.pyx
  DataMode,       \* "all": every matrix in scope; "gen" / "genpos": generated larger matrices; "zero": one matrix per shape
  MinR, MaxR, MinF, MaxF, V,        \* scope of "all": R x F matrices over -V..V (0..V for unsigned types)
  GenRows, GenCols, NSeeds,         \* scope of "gen"
  Emit            \* "no" | "vals" | "cfg" | "lay"

AllKernels == {"euclidean", "manhattan", "hamming"}
(* metric names understood by _get_distance_method (cluster/util.py L289-313) *)
NameMap == [euclidean |-> "euclidean", manhattan |-> "manhattan", cityblock |-> "manhattan"]
Names == DOMAIN NameMap

(* what the property promises to support *)
Required == [euclidean |-> {"int8", "int16", "int32", "int64", "float32", "float64"},
             manhattan |-> {"int8", "int16", "int32", "int64", "float32", "float64"},
             hamming   |-> {"int8", "int16", "int32", "int64", "uint8", "uint16", "uint32", "uint64"}]

Unsigned == {"uint8", "uint16", "uint32", "uint64", "bool"}
(* ubits for which +-U (0, U for unsigned) is exactly representable and products of two differences do not
   leave the exactly representable range of a binary float of that width *)
Bits == [int8 |-> {0, 7}, int16 |-> {0, 7, 15}, int32 |-> {0, 7, 15, 31}, int64 |-> {0, 7, 15, 31, 63},
         uint8 |-> {0, 8}, uint16 |-> {0, 8, 16}, uint32 |-> {0, 8, 16, 32}, uint64 |-> {0, 8, 16, 32, 64},
         float32 |-> {0, 7}, float64 |-> {0, 7, 15, 31},
         bool |-> {0}, float16 |-> {0}, complex128 |-> {0}, bigendian |-> {0}]

(* the y that is passed has F + DwDelta[dw] entries (cfg files cannot hold negative literals, hence the names) *)
DwDelta == [same |-> 0, wider |-> 1, narrower |-> -1]

GoodOuts == {"none", "ok", "ok_guard", "ok_strided", "ok_neg"}
BadOuts  == {"f32", "i64", "long", "short", "col", "row", "zero_d"}

VARIABLES c,      \* configuration record
          X, y,   \* the data in units: X a sequence of R rows of F integers, y a sequence of F integers
          pc, i,  \* control state, row cursor (0-based)
          base,   \* the memory behind `out`: function address -> cell
          res     \* the returned object: [obj, shape, dtype]

vars == <<c, X, y, pc, i, base, res>>

R == Len(X)
F == Len(y)

(* ---- definition level --------------------------------------------------------- *)
Abs(a) == IF a < 0 THEN -a ELSE a
RECURSIVE SumRange(_, _, _)        \* divide and conquer: recursion depth log2(n), rows may be tens of thousands wide
SumRange(s, lo, hi) == IF lo > hi THEN 0 ELSE IF lo = hi THEN s[lo]
                       ELSE LET mid == (lo + hi) \div 2 IN SumRange(s, lo, mid) + SumRange(s, mid + 1, hi)
SumSeq(s, k) == SumRange(s, 1, k)

L1(x, t)  == SumSeq([j \in 1..Len(t) |-> Abs(x[j] - t[j])], Len(t))
Sq(x, t)  == SumSeq([j \in 1..Len(t) |-> (x[j] - t[j]) * (x[j] - t[j])], Len(t))
Mis(x, t) == Cardinality({j \in 1..Len(t) : x[j] # t[j]})

Cell(v, den, root) == [v |-> v, den |-> den, root |-> root]
Expected(k, x, t) == CASE k = "manhattan" -> Cell(L1(x, t), 1, FALSE)
                       [] k = "euclidean" -> Cell(Sq(x, t), 1, TRUE)
                       [] k = "hamming"   -> Cell(Mis(x, t), Len(t), FALSE)

Scaled(k, x) == [j \in 1..Len(x) |-> k * x[j]]

(* ---- memory layouts ------------------------------------------------------------- *)
(* element (i, j) of X lives at off + i*s0 + j*s1 of a flat buffer of len elements  *)
XLayout(l, r, f) ==
  CASE l = "C"       -> [len |-> r * f, off |-> 0, s0 |-> f, s1 |-> 1]
    [] l = "F"       -> [len |-> r * f, off |-> 0, s0 |-> 1, s1 |-> r]
    [] l = "strided" -> [len |-> 4 * r * f, off |-> 2 * f, s0 |-> 4 * f, s1 |-> 2]      \* base[1::2, 0::2] of a 2r x 2f array
    [] l = "neg"     -> [len |-> r * f, off |-> IF r * f = 0 THEN 0 ELSE r * f - 1, s0 |-> -f, s1 |-> -1]  \* base[::-1, ::-1]
    [] l = "packed"  -> [len |-> r * f, off |-> 0, s0 |-> f, s1 |-> 1]     \* the elements of "C"; realised as the field of a
                                                                          \* packed record array (byte stride f * size + 1)
YLayout(l, f) ==
  CASE l \in {"C", "F", "packed"} -> [len |-> f, off |-> 0, s |-> 1]
    [] l = "strided"    -> [len |-> 2 * f + 1, off |-> 1, s |-> 2]
    [] l = "neg"        -> [len |-> f, off |-> IF f = 0 THEN 0 ELSE f - 1, s |-> -1]
OutLayout(o, r) ==
  CASE o = "ok_guard"   -> [len |-> r + 2, off |-> 1, s |-> 1]
    [] o = "ok_strided" -> [len |-> 2 * r + 1, off |-> 1, s |-> 2]
    [] o = "ok_neg"     -> [len |-> r, off |-> IF r = 0 THEN 0 ELSE r - 1, s |-> -1]
    [] OTHER            -> [len |-> r, off |-> 0, s |-> 1]

Fill == IF c.ubits = 0 THEN V + 1 ELSE 0     \* content of buffer cells that do not belong to the view
XL == XLayout(c.layout, R, F)
YL == YLayout(c.layout, F)
OL == OutLayout(c.out, R)
XAddr(a, b) == XL.off + a * XL.s0 + b * XL.s1
YAddr(b) == YL.off + b * YL.s
OutAddr(a) == OL.off + a * OL.s
XBuf == [p \in 0..(XL.len - 1) |->
           IF \E a \in 0..(R - 1), b \in 0..(F - 1) : XAddr(a, b) = p
           THEN LET ab == CHOOSE ab \in (0..(R - 1)) \X (0..(F - 1)) : XAddr(ab[1], ab[2]) = p IN X[ab[1] + 1][ab[2] + 1]
           ELSE Fill]
YBuf == [p \in 0..(YL.len - 1) |->
           IF \E b \in 0..(F - 1) : YAddr(b) = p THEN y[(CHOOSE b \in 0..(F - 1) : YAddr(b) = p) + 1] ELSE Fill]
XAt(a, b) == XBuf[XAddr(a, b)]      \* what a strided buffer access X[a, b] reads
YAt(b) == YBuf[YAddr(b)]

Junk == Cell(7, 1, FALSE)            \* what the caller's buffer holds before the call
Zero == Cell(0, 1, FALSE)

(* ---- configurations and data ------------------------------------------------------ *)
Configs ==
  {cf \in [kernel : Kernels, via : Vias, dtype : DTypes, ydt : YDts, layout : Layouts, out : OutKinds,
           xrank : XRanks, yrank : YRanks, dw : DWs, ubits : UBits] :
      /\ cf.via \in Names => cf.kernel = NameMap[cf.via]
      /\ cf.ubits \in Bits[cf.dtype]}

Lo(cf) == IF cf.dtype \in Unsigned THEN 0 ELSE -V
Hi(cf) == IF cf.dtype = "bool" THEN 1 ELSE V
MaxAbs(cf) == IF cf.ubits = 0 THEN V ELSE 1

Gen(seed, r, f) == [a \in 1..r |-> [b \in 1..f |-> ((seed * 37 + a * 11 + b * 5 + a * b * 3 + ((a * a) % 7)) % (2 * V + 1)) - V]]
GenY(seed, f)   == [b \in 1..f |-> ((seed * 13 + b * 7) % (2 * V + 1)) - V]
(* non-negative variant (every element type can hold it), used for WIDE rows: a row that differs from y in more   *)
(* coordinates than an 8- or 16-bit counter can hold                                                              *)
GenP(seed, r, f) == [a \in 1..r |-> [b \in 1..f |-> (seed * 37 + a * 11 + b * 5 + a * b * 3) % (V + 1)]]
GenPY(seed, f)   == [b \in 1..f |-> (seed * 13 + b * 7 + 1) % (V + 1)]

Listed(cf) == cf.dtype \in Supported[cf.kernel] /\ cf.ydt = "same"
Bad(cf) == cf.xrank # 2 \/ cf.yrank # 1 \/ cf.dw # "same" \/ cf.out \in BadOuts
Expect(cf) == IF Bad(cf) THEN "error" ELSE IF ~Listed(cf) THEN "either" ELSE "ok"

Init ==
  /\ c \in Configs
  /\ \/ /\ DataMode = "all"
        /\ \E f \in MinF..MaxF, r \in MinR..MaxR :
              /\ y \in [1..f -> (-V)..V]
              /\ X \in [1..r -> [1..f -> (-V)..V]]
     \/ /\ DataMode = "gen"
        /\ \E f \in GenCols, r \in GenRows, seed \in 1..NSeeds : X = Gen(seed, r, f) /\ y = GenY(seed, f)
     \/ /\ DataMode = "genpos"
        /\ \E f \in GenCols, r \in GenRows, seed \in 1..NSeeds : X = GenP(seed, r, f) /\ y = GenPY(seed, f)
     \/ /\ DataMode = "zero"
        /\ \E f \in (MinF..MaxF) \cup GenCols, r \in (MinR..MaxR) \cup GenRows :
              X = [a \in 1..r |-> [b \in 1..f |-> 0]] /\ y = [b \in 1..f |-> 0]
  /\ pc = "validate" /\ i = 0 /\ base = <<>> /\ res = [obj |-> "none", shape |-> <<>>, dtype |-> ""]

(* ---- the implementation ---------------------------------------------------------------- *)
OutDtype(o) == IF o = "f32" THEN "float32" ELSE IF o = "i64" THEN "int64" ELSE "float64"
OutRank(o)  == IF o \in {"col", "row"} THEN 2 ELSE IF o = "zero_d" THEN 0 ELSE 1
OutShape(o, r) == CASE o = "long" -> <<r + 1>> [] o = "short" -> <<r - 1>> [] o = "col" -> <<r, 1>>
                    [] o = "row" -> <<1, r>> [] o = "zero_d" -> <<>> [] OTHER -> <<r>>

Fail == pc' = "error" /\ UNCHANGED <<c, X, y, i, base, res>>
FirstPhase == IF c.kernel = "hamming" THEN "hamming" ELSE "zero"

Validate ==
  /\ pc = "validate"
  /\ IF c.xrank # 2 THEN Fail                                         \* _check_is_2d(X)
     ELSE IF c.yrank # 1 THEN Fail                                    \* _check_is_1d(y)
     ELSE IF F # F + DwDelta[c.dw] THEN Fail                          \* X.shape[1] != y.shape[0]
     ELSE IF c.out = "none"
          THEN /\ base' = [p \in 0..(R - 1) |-> Zero]                 \* np.zeros((X.shape[0]), float64)
               /\ res' = [obj |-> "new", shape |-> <<R>>, dtype |-> "float64"]
               /\ pc' = "dispatch" /\ UNCHANGED <<c, X, y, i>>
     ELSE IF OutDtype(c.out) # "float64" THEN Fail                    \* out.dtype != np.float64
     ELSE IF OutRank(c.out) = 0 THEN Fail                             \* out.shape[0] of a 0-d array: IndexError
     ELSE IF OutShape(c.out, R)[1] # R THEN Fail                      \* out.shape[0] != X.shape[0]
     ELSE IF OutRank(c.out) # 1 THEN Fail                             \* len(out.shape) != 1
     ELSE /\ base' = [p \in 0..(OL.len - 1) |-> Junk]                 \* the caller's memory, as is
          /\ res' = [obj |-> "out", shape |-> OutShape(c.out, R), dtype |-> OutDtype(c.out)]
          /\ pc' = "dispatch" /\ UNCHANGED <<c, X, y, i>>

(* typed-buffer dispatch of `def _kernel(np.ndarray[T, ndim=2] X, np.ndarray[T, ndim=1] y, ...)`: a listed element
   type (the same for X and y) enters the kernel; anything else is refused -- or, where the buffer protocol
   happens to accept it (numpy bool through the one-byte integer specialisation), computed all the same *)
Dispatch ==
  /\ pc = "dispatch"
  /\ \/ pc' = FirstPhase
     \/ ~Listed(c) /\ pc' = "error"
  /\ UNCHANGED <<c, X, y, i, base, res>>

Put(a, cell) == base' = [base EXCEPT ![OutAddr(a)] = cell]
Advance(nextpc) == IF i + 1 < R THEN i' = i + 1 /\ pc' = pc ELSE i' = 0 /\ pc' = nextpc

(* for i in prange(n_samples): out[i] = 0 *)
ZeroRow ==
  /\ pc = "zero"
  /\ IF R = 0 THEN UNCHANGED base /\ i' = 0 /\ pc' = "accum"
     ELSE Put(i, Zero) /\ Advance("accum")
  /\ UNCHANGED <<c, X, y, res>>

RECURSIVE AccL1(_, _, _), AccSq(_, _, _), AccMis(_, _, _)
AccL1(a, b, s)  == IF b = F THEN s ELSE AccL1(a, b + 1, s + Abs(XAt(a, b) - YAt(b)))
AccSq(a, b, s)  == IF b = F THEN s ELSE AccSq(a, b + 1, s + (XAt(a, b) - YAt(b)) * (XAt(a, b) - YAt(b)))
AccMis(a, b, s) == IF b = F THEN s ELSE AccMis(a, b + 1, IF YAt(b) # XAt(a, b) THEN s + 1 ELSE s)

(* for i in prange(n_samples): for j in range(n_features): out[i] += |X[i,j]-y[j]|  resp. (X[i,j]-y[j])**2 *)
AccumRow ==
  /\ pc = "accum"
  /\ IF R = 0 THEN UNCHANGED base /\ i' = 0 /\ pc' = (IF c.kernel = "euclidean" THEN "root" ELSE "return")
     ELSE /\ Put(i, Cell(IF c.kernel = "manhattan" THEN AccL1(i, 0, base[OutAddr(i)].v)
                                                   ELSE AccSq(i, 0, base[OutAddr(i)].v), 1, FALSE))
          /\ Advance(IF c.kernel = "euclidean" THEN "root" ELSE "return")
  /\ UNCHANGED <<c, X, y, res>>

(* for i in prange(n_samples): out[i] = sqrt(out[i]) *)
RootRow ==
  /\ pc = "root"
  /\ IF R = 0 THEN UNCHANGED base /\ i' = 0 /\ pc' = "return"
     ELSE Put(i, [base[OutAddr(i)] EXCEPT !.root = TRUE]) /\ Advance("return")
  /\ UNCHANGED <<c, X, y, res>>

(* for i in prange(n_samples): out[i] = 0; count mismatches; out[i] /= n_features *)
HammingRow ==
  /\ pc = "hamming"
  /\ IF R = 0 THEN UNCHANGED base /\ i' = 0 /\ pc' = "return"
     ELSE Put(i, Cell(AccMis(i, 0, 0), F, FALSE)) /\ Advance("return")
  /\ UNCHANGED <<c, X, y, res>>

Return == pc = "return" /\ pc' = "done" /\ UNCHANGED <<c, X, y, i, base, res>>

Next == Validate \/ Dispatch \/ ZeroRow \/ AccumRow \/ RootRow \/ HammingRow \/ Return
Stutter == FALSE /\ UNCHANGED vars            \* NEXT of the emission runs (initial states only)
Spec == Init /\ [][Next]_vars

(* ---- properties ---------------------------------------------------------------------------- *)
TypeOK == /\ pc \in {"validate", "dispatch", "zero", "accum", "root", "hamming", "return", "done", "error"}
          /\ i \in 0..(IF R = 0 THEN 0 ELSE R - 1)

(* the (offset, strides) description of each layout addresses exactly the logical matrix *)
ViewIsLogical ==
  pc = "validate" =>
     /\ \A a \in 0..(R - 1), b \in 0..(F - 1) : XAddr(a, b) \in 0..(XL.len - 1) /\ XAt(a, b) = X[a + 1][b + 1]
     /\ \A b \in 0..(F - 1) : YAddr(b) \in 0..(YL.len - 1) /\ YAt(b) = y[b + 1]
     /\ \A a \in 0..(R - 1) : OutAddr(a) \in 0..(OL.len - 1)

Exact == pc = "done" => \A a \in 0..(R - 1) : base[OutAddr(a)] = Expected(c.kernel, X[a + 1], y)

OutHoldsResult == (pc = "done" /\ c.out # "none") => res.obj = "out"      \* and Exact: that buffer holds the result

Shape1D == pc = "done" => res.shape = <<R>> /\ res.dtype = "float64"

NoStrayWrite == pc \notin {"validate", "error"} =>
  \A p \in DOMAIN base : (\A a \in 0..(R - 1) : OutAddr(a) # p) => base[p] = Junk

RejectsBadInput == Bad(c) => pc \in {"validate", "error"}
AcceptsGoodInput == pc = "error" => (Bad(c) \/ ~Listed(c))

(* the asserts at the top of the kernels hold whenever a kernel is entered *)
KernelPreconditions == pc \in {"zero", "accum", "root", "hamming"} =>
  /\ c.xrank = 2 /\ c.yrank = 1 /\ c.dw = "same"
  /\ DOMAIN base = 0..(OL.len - 1) /\ res.shape = <<R>>

RequiredSupported == \A k \in AllKernels : Required[k] \subseteq Supported[k]

Homogeneous == pc = "validate" =>
  \A k \in 1..3, a \in 1..R :
     /\ L1(Scaled(k, X[a]), Scaled(k, y)) = k * L1(X[a], y)
     /\ Sq(Scaled(k, X[a]), Scaled(k, y)) = k * k * Sq(X[a], y)
     /\ Mis(Scaled(k, X[a]), Scaled(k, y)) = Mis(X[a], y)

(* metric axioms of the definitions themselves (sanity of the oracle) *)
MetricSanity == pc = "validate" =>
  \A a \in 1..R : /\ (L1(X[a], y) = 0) = (X[a] = y) /\ (Sq(X[a], y) = 0) = (X[a] = y) /\ (Mis(X[a], y) = 0) = (X[a] = y)
                  /\ Sq(X[a], y) <= L1(X[a], y) * L1(X[a], y) /\ L1(X[a], y) * L1(X[a], y) <= F * Sq(X[a], y)
                  /\ Mis(X[a], y) <= L1(X[a], y)

(* ---- emission for replay ---------------------------------------------------------------------- *)
MinOf(S) == CHOOSE m \in S : \A z \in S : m <= z
MaxOf(S) == CHOOSE m \in S : \A z \in S : m >= z
Entries == UNION ({{X[a][b] : b \in 1..F} : a \in 1..R} \cup {{y[b] : b \in 1..F}})

EmitVals == (Emit = "vals" /\ pc = "validate") =>
  PrintT(<<"CASE", ToJson([X |-> X, y |-> y, r |-> R, f |-> F,
                           lo |-> MinOf(Entries), hi |-> MaxOf(Entries),
                           l1 |-> [a \in 1..R |-> L1(X[a], y)],
                           sq |-> [a \in 1..R |-> Sq(X[a], y)],
                           mis |-> [a \in 1..R |-> Mis(X[a], y)]])>>)

EmitCfg == (Emit = "cfg" /\ pc = "validate") =>
  PrintT(<<"CFG", ToJson([kernel |-> c.kernel, via |-> c.via, dtype |-> c.dtype, ydt |-> c.ydt, layout |-> c.layout,
                          out |-> c.out, xrank |-> c.xrank, yrank |-> c.yrank, dw |-> c.dw, ubits |-> c.ubits,
                          expect |-> Expect(c), lo |-> Lo(c), hi |-> Hi(c), maxabs |-> MaxAbs(c), fill |-> Fill])>>)

EmitLay == (Emit = "lay" /\ pc = "validate") =>
  PrintT(<<"LAY", ToJson([layout |-> c.layout, out |-> c.out, r |-> R, f |-> F,
                          xl |-> <<XL.len, XL.off, XL.s0, XL.s1>>, yl |-> <<YL.len, YL.off, YL.s>>,
                          ol |-> <<OL.len, OL.off, OL.s>>])>>)
=============================================================================
