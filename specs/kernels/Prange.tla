------------------------------- MODULE Prange -------------------------------
(* A Cython `prange` loop nest as a shared-memory program.  Property C13 (and  *)
(* C18 for libinfo.matrix_bincount2d).                                         *)
(*                                                                            *)
(* The program text is NOT written here: the constant Table is the access      *)
(* table that harness/extract/prange_access.py extracts from the current .pyx  *)
(* source: per prange loop the statement tree of its body, every statement     *)
(* being a store A[idx] (=|+=|..) f(loads, registers), a scalar assignment, an *)
(* inner serial `for`, or an `if` on loaded values; every index position is    *)
(* the prange variable / another loop variable (+offset), a constant, a        *)
(* thread-private scalar (data dependent index) or unknown.  Arrays maps each  *)
(* array to the dimension class of each axis (axes / loop extents the code     *)
(* proves equal by its assignments, asserts and checks share a class); sizes   *)
(* of different classes are independent.                                       *)
(*                                                                            *)
(* Semantics (Cython/OpenMP): the iterations of a prange are handed out to     *)
(* 1..MaxThreads threads in any order (covers every static/dynamic chunking);  *)
(* a thread executes its iteration as a sequence of single memory accesses;    *)
(* threads interleave at that granularity; there is a barrier after every      *)
(* prange.  A scalar assigned in the body is thread private and keeps whatever *)
(* the thread left in it (Poison at first); a scalar only updated in place is  *)
(* a reduction (combined atomically).  Right-hand sides are uninterpreted:     *)
(* Mix(statement id, values read) over Z_97; `+=` is addition in Z_97 (so that *)
(* commutative accumulation is not mistaken for schedule dependence).          *)
(*                                                                            *)
(*   RaceFree            no two distinct iterations of one prange touch a      *)
(*                       common cell with at least one write                   *)
(*   ScheduleIndependent at every barrier the memory equals the result of the  *)
(*                       serial execution (iterations 0..n-1 on one thread) of *)
(*                       that prange from the memory at the previous barrier   *)
(*   InBounds            every loop-variable/constant index lies inside the    *)
(*                       axis it indexes, for all sizes of the classes         *)
EXTENDS Integers, Sequences, FiniteSets, TLC

CONSTANTS Table,       \* << [var, ext, kind, outer, priv, reds, body] >>
          Arrays,      \* [array name |-> << class of axis 1, ... >>]
          ClassMax,    \* [class |-> largest size explored]
          ClassMin,    \* [class |-> smallest size explored]
          MaxThreads,
          Salts        \* set of input numberings (1..k)

M == 97
Poison == 96
Classes == DOMAIN ClassMax
ArrNames == DOMAIN Arrays
MaxSz == CHOOSE m \in {ClassMax[c] : c \in Classes} : \A c \in Classes : ClassMax[c] <= m
SizeSpace == {s \in [Classes -> 1..MaxSz] : \A c \in Classes : s[c] >= ClassMin[c] /\ s[c] <= ClassMax[c]}
Ord == CHOOSE f \in [ArrNames -> 1..Cardinality(ArrNames)] : \A a, b \in ArrNames : a # b => f[a] # f[b]

(* ---- index tuples and cells ------------------------------------------------ *)
RECURSIVE Product(_, _)
(* all sequences q with q[p] \in sets[p] *)
Product(sets, k) == IF k = 0 THEN {<<>>}
                    ELSE {Append(q, x) : q \in Product(sets, k - 1), x \in sets[k]}

AxisSize(a, p, s) == s[Arrays[a][p]]
CellsOf(a, s) == {<<a, ix>> : ix \in Product([p \in 1..Len(Arrays[a]) |-> 0..(AxisSize(a, p, s) - 1)], Len(Arrays[a]))}
AllCells(s) == UNION {CellsOf(a, s) : a \in ArrNames}

RECURSIVE IxHash(_, _, _)
IxHash(ix, k, salt) == IF k = 0 THEN 0 ELSE (IxHash(ix, k - 1, salt) * 7 + (ix[k] + 1) * (salt + 2 * k)) % M
InitMem(s, salt) == [c \in AllCells(s) |-> (Ord[c[1]] * (11 + salt) + IxHash(c[2], Len(c[2]), salt)) % M]

(* ---- unrolling of a prange body into micro-operations ----------------------- *)
Res(ix, env) == IF ix.t = "var" THEN [t |-> "int", name |-> "", v |-> env[ix.name] + ix.v]
                ELSE IF ix.t = "const" THEN [t |-> "int", name |-> "", v |-> ix.v]
                ELSE [t |-> ix.t, name |-> ix.name, v |-> 0]
ResSeq(idx, env) == SubSeq([p \in 1..Len(idx) |-> Res(idx[p], env)], 1, Len(idx))

LoadOps(loads, env, g) ==
  SubSeq([k \in 1..Len(loads) |-> [op |-> "load", arr |-> loads[k].arr, idx |-> ResSeq(loads[k].idx, env),
                                   slot |-> k, g |-> g]], 1, Len(loads))

RECURSIVE FlatSeq(_, _, _, _, _), FlatFor(_, _, _, _, _)
FlatStmt(st, env, g, s) ==
  CASE st.k = "store" ->
         LoadOps(st.loads, env, g)
         \o (IF st.op = "=" THEN <<>>
             ELSE <<[op |-> "load", arr |-> st.arr, idx |-> ResSeq(st.idx, env), slot |-> 0, g |-> g]>>)
         \o <<[op |-> "store", arr |-> st.arr, idx |-> ResSeq(st.idx, env), id |-> st.id, mode |-> st.op,
               n |-> Len(st.loads), regs |-> st.regs, g |-> g]>>
    [] st.k \in {"set", "reduce"} ->
         LoadOps(st.loads, env, g)
         \o <<[op |-> st.k, name |-> st.name, id |-> st.id, mode |-> st.op, n |-> Len(st.loads),
               regs |-> st.regs, g |-> g]>>
    [] st.k = "eval" -> LoadOps(st.loads, env, g)
    [] st.k = "if" ->
         LoadOps(st.loads, env, g)
         \o <<[op |-> "test", id |-> st.id, n |-> Len(st.loads), regs |-> st.regs, g |-> g]>>
         \o FlatSeq(st.body, env, Append(g, <<st.id, TRUE>>), s, 1)
         \o FlatSeq(st.orelse, env, Append(g, <<st.id, FALSE>>), s, 1)
    [] st.k = "for" -> FlatFor(st, env, g, s, 0)

FlatSeq(stmts, env, g, s, k) ==
  IF k > Len(stmts) THEN <<>> ELSE FlatStmt(stmts[k], env, g, s) \o FlatSeq(stmts, env, g, s, k + 1)

FlatFor(st, env, g, s, v) ==
  IF v >= s[st.ext] THEN <<>>
  ELSE FlatSeq(st.body, (st.var :> v) @@ env, g, s, 1) \o FlatFor(st, env, g, s, v + 1)

NIter(l, s) == s[Table[l].ext]
OuterNames(l) == {Table[l].outer[k].var : k \in 1..Len(Table[l].outer)}
OuterEnvs(l, s) == {f \in [OuterNames(l) -> 0..(MaxSz - 1)] :
                      \A k \in 1..Len(Table[l].outer) : f[Table[l].outer[k].var] < s[Table[l].outer[k].ext]}

Unroll(s, l, oe, it) == FlatSeq(Table[l].body, (Table[l].var :> it) @@ oe, <<>>, s, 1)

(* the unrolled programs for every size / prange / outer environment / iteration, computed once
   (`@@ <<>>` makes TLC materialise the function instead of re-evaluating its body per application) *)
Mat(f) == f @@ <<>>
ProgCache == Mat([s \in SizeSpace |-> Mat([l \in 1..Len(Table) |-> Mat([oe \in OuterEnvs(l, s) |->
                 Mat([it \in 0..(NIter(l, s) - 1) |-> Unroll(s, l, oe, it)])])])])
Prog(s, l, oe, it) == ProgCache[s][l][oe][it]

(* ---- value semantics --------------------------------------------------------- *)
RECURSIVE MixR(_, _, _)
MixR(h, vals, k) == IF k > Len(vals) THEN h ELSE MixR((h * 31 + vals[k] + 1) % M, vals, k + 1)
Mix(id, vals) == MixR((id * 17 + 5) % M, vals, 1)

Combine(mode, old, v) == IF mode = "=" THEN v
                         ELSE IF mode = "+" THEN (old + v) % M
                         ELSE IF mode = "*" THEN (old * (v + 1)) % M
                         ELSE (old * 3 + v + 7) % M

Enabled(g, cond) == \A k \in 1..Len(g) : g[k][1] \in DOMAIN cond /\ cond[g[k][1]] = g[k][2]

Vals(op, st) == [k \in 1..op.n |-> st.tmp[k]] \o [k \in 1..Len(op.regs) |-> st.reg[op.regs[k]]]

Clamp(v, n) == v % n

(* the cells an access can denote in thread state st (one, unless an index is unknown) *)
IdxVals(ir, n, st) == IF ir.t = "int" THEN {Clamp(ir.v, n)}
                      ELSE IF ir.t = "reg" THEN {st.reg[ir.name] % n}
                      ELSE 0..(n - 1)
OpCells(op, st, s) ==
  {<<op.arr, ix>> : ix \in Product([p \in 1..Len(op.idx) |-> IdxVals(op.idx[p], AxisSize(op.arr, p, s), st)], Len(op.idx))}
FirstCell(op, st, s) ==
  <<op.arr, [p \in 1..Len(op.idx) |->
                LET vs == IdxVals(op.idx[p], AxisSize(op.arr, p, s), st)
                IN CHOOSE v \in vs : \A w \in vs : v <= w]>>

(* effect of one micro-operation on st = [mem, red, tmp, reg, cond]; c = the cell it denotes *)
Apply(op, st, c) ==
  IF ~Enabled(op.g, st.cond) THEN st
  ELSE CASE op.op = "load"   -> [st EXCEPT !.tmp = (op.slot :> st.mem[c]) @@ @]
         [] op.op = "store"  -> [st EXCEPT !.mem[c] = Combine(op.mode, IF op.mode = "=" THEN 0 ELSE st.tmp[0],
                                                               Mix(op.id, Vals(op, st))),
                                           !.tmp = <<>>]
         [] op.op = "set"    -> [st EXCEPT !.reg[op.name] = Combine(op.mode, @, Mix(op.id, Vals(op, st))),
                                           !.tmp = <<>>]
         [] op.op = "reduce" -> [st EXCEPT !.red[op.name] = Combine(op.mode, @, Mix(op.id, Vals(op, st))),
                                           !.tmp = <<>>]
         [] op.op = "test"   -> [st EXCEPT !.cond = (op.id :> (Mix(op.id, Vals(op, st)) % 2 = 1)) @@ @,
                                           !.tmp = <<>>]

HasCell(op) == op.op \in {"load", "store"}

(* ---- serial reference execution ------------------------------------------------ *)
RECURSIVE ExecOps(_, _, _, _)
ExecOps(ops, k, st, s) ==
  IF k > Len(ops) THEN st
  ELSE ExecOps(ops, k + 1, Apply(ops[k], st, IF HasCell(ops[k]) THEN FirstCell(ops[k], st, s) ELSE <<>>), s)

RECURSIVE SerialRun(_, _, _, _, _)
SerialRun(l, s, oe, it, st) ==
  IF it >= NIter(l, s) THEN st
  ELSE SerialRun(l, s, oe, it + 1,
                 [ExecOps(Prog(s, l, oe, it), 1, st, s) EXCEPT !.tmp = <<>>, !.cond = <<>>])

FreshRegs(l) == [r \in Table[l].priv |-> Poison]

(* ---- the parallel machine ------------------------------------------------------- *)
VARIABLES sz, salt, nthr,     \* configuration
          loop, oenv, phase,  \* current prange, values of enclosing serial loop variables, run/joined/done
          mem, red,           \* shared memory: array cells, reduction scalars
          mem0, red0,         \* snapshot at the previous barrier
          thr,                \* per thread [it, pc, tmp, reg, cond]
          claimed, fin,       \* iterations handed out / completed
          acc                 \* per touched cell: iterations that read / wrote it since the barrier

vars == <<sz, salt, nthr, loop, oenv, phase, mem, red, mem0, red0, thr, claimed, fin, acc>>

Threads == 1..nthr
Idle(l) == [it |-> -1, pc |-> 0, tmp |-> <<>>, reg |-> FreshRegs(l), cond |-> <<>>]
AllReds == UNION {Table[l].reds : l \in 1..Len(Table)}

Init ==
  /\ sz \in SizeSpace /\ salt \in Salts /\ nthr \in 1..MaxThreads
  /\ loop = 1 /\ oenv \in OuterEnvs(1, sz) /\ phase = "run"
  /\ mem = InitMem(sz, salt) /\ red = [r \in AllReds |-> 0]
  /\ mem0 = mem /\ red0 = red
  /\ thr = [t \in 1..nthr |-> Idle(1)]
  /\ claimed = {} /\ fin = {} /\ acc = <<>>

Ops(t) == Prog(sz, loop, oenv, thr[t].it)
Running(t) == phase = "run" /\ thr[t].it >= 0 /\ thr[t].pc <= Len(Ops(t))
Cur(t) == Ops(t)[thr[t].pc]
View(t) == [mem |-> mem, red |-> red, tmp |-> thr[t].tmp, reg |-> thr[t].reg, cond |-> thr[t].cond]

Note(c, it, w) ==
  IF c \in DOMAIN acc
  THEN [acc EXCEPT ![c] = [r |-> IF w THEN @.r ELSE @.r \cup {it}, w |-> IF w THEN @.w \cup {it} ELSE @.w]]
  ELSE (c :> [r |-> IF w THEN {} ELSE {it}, w |-> IF w THEN {it} ELSE {}]) @@ acc

Commit(t, st) ==
  /\ mem' = st.mem /\ red' = st.red
  /\ thr' = [thr EXCEPT ![t] = [it |-> @.it, pc |-> @.pc + 1, tmp |-> st.tmp, reg |-> st.reg, cond |-> st.cond]]
  /\ UNCHANGED <<sz, salt, nthr, loop, oenv, phase, mem0, red0, claimed, fin>>

(* a thread takes any iteration that has not been handed out yet *)
Claim(t, it) ==
  /\ phase = "run" /\ thr[t].it = -1 /\ it \in 0..(NIter(loop, sz) - 1) /\ it \notin claimed
  /\ thr' = [thr EXCEPT ![t] = [it |-> it, pc |-> 1, tmp |-> <<>>, reg |-> @.reg, cond |-> <<>>]]
  /\ claimed' = claimed \cup {it}
  /\ UNCHANGED <<sz, salt, nthr, loop, oenv, phase, mem, red, mem0, red0, fin, acc>>

DoSkip(t) ==       \* statement under an `if` whose test came out the other way
  /\ Running(t) /\ ~Enabled(Cur(t).g, thr[t].cond)
  /\ Commit(t, View(t)) /\ UNCHANGED acc

DoLoad(t) ==
  /\ Running(t) /\ Enabled(Cur(t).g, thr[t].cond) /\ Cur(t).op = "load"
  /\ \E c \in OpCells(Cur(t), View(t), sz) :
        /\ Commit(t, Apply(Cur(t), View(t), c))
        /\ acc' = Note(c, thr[t].it, FALSE)

DoStore(t) ==
  /\ Running(t) /\ Enabled(Cur(t).g, thr[t].cond) /\ Cur(t).op = "store"
  /\ \E c \in OpCells(Cur(t), View(t), sz) :
        /\ Commit(t, Apply(Cur(t), View(t), c))
        /\ acc' = Note(c, thr[t].it, TRUE)

DoScalar(t) ==     \* private scalar assignment, or atomic update of a reduction scalar
  /\ Running(t) /\ Enabled(Cur(t).g, thr[t].cond) /\ Cur(t).op \in {"set", "reduce"}
  /\ Commit(t, Apply(Cur(t), View(t), <<>>)) /\ UNCHANGED acc

DoTest(t) ==
  /\ Running(t) /\ Enabled(Cur(t).g, thr[t].cond) /\ Cur(t).op = "test"
  /\ Commit(t, Apply(Cur(t), View(t), <<>>)) /\ UNCHANGED acc

Finish(t) ==
  /\ phase = "run" /\ thr[t].it >= 0 /\ thr[t].pc > Len(Ops(t))
  /\ fin' = fin \cup {thr[t].it}
  /\ thr' = [thr EXCEPT ![t] = [it |-> -1, pc |-> 0, tmp |-> <<>>, reg |-> @.reg, cond |-> <<>>]]
  /\ UNCHANGED <<sz, salt, nthr, loop, oenv, phase, mem, red, mem0, red0, claimed, acc>>

(* implicit barrier at the end of the prange *)
Join ==
  /\ phase = "run" /\ fin = 0..(NIter(loop, sz) - 1) /\ \A t \in Threads : thr[t].it = -1
  /\ phase' = "joined"
  /\ UNCHANGED <<sz, salt, nthr, loop, oenv, mem, red, mem0, red0, thr, claimed, fin, acc>>

NextLoop ==
  /\ phase = "joined"
  /\ IF loop < Len(Table)
     THEN /\ loop' = loop + 1 /\ oenv' \in OuterEnvs(loop + 1, sz) /\ phase' = "run"
          /\ thr' = [t \in Threads |-> Idle(loop + 1)]
     ELSE /\ phase' = "done" /\ UNCHANGED <<loop, oenv, thr>>
  /\ mem0' = mem /\ red0' = red /\ claimed' = {} /\ fin' = {} /\ acc' = <<>>
  /\ UNCHANGED <<sz, salt, nthr, mem, red>>

Next == \/ \E t \in Threads, it \in 0..(MaxSz - 1) : Claim(t, it)
        \/ \E t \in Threads : DoSkip(t)
        \/ \E t \in Threads : DoLoad(t)
        \/ \E t \in Threads : DoStore(t)
        \/ \E t \in Threads : DoScalar(t)
        \/ \E t \in Threads : DoTest(t)
        \/ \E t \in Threads : Finish(t)
        \/ Join \/ NextLoop

Spec == Init /\ [][Next]_vars

(* ---- properties ------------------------------------------------------------------- *)
TypeOK == /\ phase \in {"run", "joined", "done"}
          /\ \A c \in DOMAIN mem : mem[c] \in 0..(M - 1)
          /\ fin \subseteq claimed

RaceFree ==
  \A c \in DOMAIN acc : /\ Cardinality(acc[c].w) <= 1
                        /\ (acc[c].w # {} => acc[c].r \subseteq acc[c].w)

SerialResult ==
  SerialRun(loop, sz, oenv, 0, [mem |-> mem0, red |-> red0, tmp |-> <<>>, reg |-> FreshRegs(loop), cond |-> <<>>])

ScheduleIndependent ==
  phase = "joined" => LET r == SerialResult IN mem = r.mem /\ red = r.red

(* static: evaluated once per prange (when nothing has been handed out yet) *)
InBounds ==
  (phase = "run" /\ claimed = {}) =>
     \A it \in 0..(NIter(loop, sz) - 1) :
        LET ops == Prog(sz, loop, oenv, it)
        IN \A k \in 1..Len(ops) :
             HasCell(ops[k]) =>
               \A p \in 1..Len(ops[k].idx) :
                  ops[k].idx[p].t = "int" =>
                     ops[k].idx[p].v >= 0 /\ ops[k].idx[p].v < AxisSize(ops[k].arr, p, sz)

(* every iteration executes exactly once (bookkeeping of the machine itself) *)
AllIterationsRun == phase = "joined" => (claimed = 0..(NIter(loop, sz) - 1) /\ fin = claimed)
=============================================================================
