"""C11 -- ergodic trimming keeps exactly the heaviest strongly connected component.

Spec: specs/msm/Trim.tla (+ TrimSample.tla for sampled scopes).  TLC
(a) checks on every count matrix in scope x threshold x renumber x container
    that the implementation-shaped pipeline Threshold -> Components -> Weigh ->
    Keep(any heaviest) -> Extract | ZeroRows,ZeroCols -> BuildMapping -> Wrap
    satisfies the definition-level clauses (ComponentsAreSCCs, KeepChoicesComplete,
    KeptIsSCC, Heaviest, TrimmedStronglyConnected, CountsPreserved,
    NothingOnRemoved, MappingBijectiveMonotone, VariantsAgree, ContainerPreserved,
    Frozen), and
(b) emits one CASE line per (C, threshold) with the SET of allowed kept sets and,
    for each, the expected matrix and mapping of both variants, plus one TAGS line
    with the expected container tag of the result for every input container.
    (CASE lines are printed as a plain TLA+ string `"CASE {json}"`; the raw lines
    go to the replay workers, which decode them -- decoding 170 000 lines in the
    parent process alone would take a quarter of the quick tier's budget.)
The driver replays every CASE into the real trim_disconnected for
{ndarray, csr_matrix, coo_matrix, lil_matrix} x renumber on/off and into
MSM(lag_time=1, method=normalize, trim=True).fit on assignments realising C
(threshold 1), and compares with the emitted values.  Python only builds the
containers, projects the results to integer lists and compares for equality.
"""
import json
import multiprocessing as mp
import os
import random

import numpy as np

from harness import core

SPEC_DIR = os.path.join(core.SPECS, "msm")

INVS = ["TypeOK", "ThresholdOnlyDrops", "ComponentsAreSCCs", "WeightsFromOriginalRows",
        "KeepChoicesComplete", "KeptIsSCC", "Heaviest", "TrimmedStronglyConnected",
        "CountsPreserved", "NothingOnRemoved", "MappingBijectiveMonotone", "VariantsAgree",
        "ContainerPreserved"]
PROPS = ["Frozen"]
ALL_CONTAINERS = ["ndarray", "csr_matrix", "coo_matrix", "lil_matrix", "csr_array", "coo_array"]
# the thorough tier has up to 13 JVMs alive at once: keep each of them small (core's default is
# -Xmx8g; the last -Xmx wins).  TLC keeps its queue on disk, 2-3 GB are ample for <= 5 M states.
GC = ("-XX:ParallelGCThreads=2", "-Xmx2g")
GC_BIG = ("-XX:ParallelGCThreads=2", "-Xmx3g")
MAX_REPORTS_PER_KEY = 5
ACTIONS = ["Threshold", "Components", "Weigh", "KeepAny", "Extract", "ZeroRows", "ZeroCols",
           "BuildMapping", "Wrap"]

# exhaustive scopes: every matrix [0..N-1]^2 -> 0..MaxC.  `containers` is the set the
# container state variable ranges over in the invariant run (it is a pass-through tag,
# so the full set is only explored in the smallest scopes).  -coverage costs TLC ~55% more
# CPU, so per-action counts are collected on the smaller runs only; the large runs report
# their state counts.
SCOPES = {
    "quick": dict(
        thresholds=[1, 2],
        exhaustive=[dict(N=3, MaxC=1, containers=ALL_CONTAINERS, workers=1, coverage=True),
                    dict(N=3, MaxC=2, containers=["ndarray"], workers=3, coverage=False),
                    dict(N=4, MaxC=1, containers=["ndarray"], workers=6, coverage=False)],
        # rotate=True: every case is replayed as ndarray + one sparse container (rotating), every
        # 16th case in all four (time budget of the quick tier); the thorough tier replays all
        emit=[dict(N=3, MaxC=2, rotate=False), dict(N=4, MaxC=1, rotate=True)],
        samples=[]),
    "thorough": dict(
        thresholds=[1, 2, 3],
        exhaustive=[dict(N=2, MaxC=3, containers=ALL_CONTAINERS, workers=1, coverage=True),
                    dict(N=3, MaxC=1, containers=ALL_CONTAINERS, workers=1, coverage=True),
                    dict(N=3, MaxC=2, containers=["ndarray", "coo_matrix"], workers=3, coverage=True),
                    dict(N=4, MaxC=1, containers=["ndarray"], workers=4, coverage=False)],
        emit=[dict(N=3, MaxC=2, rotate=False), dict(N=4, MaxC=1, rotate=False)],
        # seeded samples: (N, MaxC, number of matrices, probabilities of a zero entry)
        samples=[dict(N=4, MaxC=2, count=60000, pzero=[0.3, 0.5, 0.7, 0.8]),
                 dict(N=4, MaxC=3, count=40000, pzero=[0.3, 0.5, 0.7, 0.8]),
                 dict(N=5, MaxC=1, count=60000, pzero=[0.5, 0.65, 0.8, 0.88])]),
}


# --------------------------------------------------------------------------
# replay

def _classes():
    import scipy.sparse as sp
    return {"ndarray": np.ndarray, "csr_matrix": sp.csr_matrix, "coo_matrix": sp.coo_matrix,
            "lil_matrix": sp.lil_matrix, "csr_array": sp.csr_array, "coo_array": sp.coo_array}


def _dense(x):
    import scipy.sparse as sp
    return np.asarray(x.toarray() if sp.issparse(x) else x)


def _pairs(d):
    return sorted([int(k), int(v)] for k, v in d.items())


def _observe(mapping, mat, fac=1):
    """Project the implementation's result to ints (counts divided by the common factor they were scaled with)."""
    D = _dense(mat)
    return {"shape": list(D.shape), "M": [int(v) // fac if int(v) % fac == 0 else -1 for v in D.ravel()],
            "orig": _pairs(mapping.to_original), "mapped": _pairs(mapping.to_mapped)}


def _aspects(got, exp):
    """names of the observables that differ from one emitted variant"""
    bad = []
    if got["shape"] != [exp["m"], exp["m"]] or got["M"] != exp["M"]:
        bad.append("matrix")
    if got["orig"] != exp["orig"]:
        bad.append("to_original")
    if got["mapped"] != exp["mapped"]:
        bad.append("to_mapped")
    return bad


def _match(got, alts, variant):
    """(index of the allowed alternative reproduced exactly, None) or
    (index of the closest alternative, differing aspects)."""
    best = None
    for k, a in enumerate(alts):
        bad = _aspects(got, a[variant])
        if not bad:
            return k, None
        if best is None or len(bad) < len(best[1]):
            best = (k, bad)
    return best


def _assignments(C, n, form):
    """2-frame trajectories realising the count matrix at lag 1: [i, j] x C[i][j]."""
    from enspara import ra
    rows = [[i, j] for i in range(n) for j in range(n) for _ in range(int(C[i, j]))]
    if form == "ragged":
        return ra.RaggedArray([np.array(r) for r in rows])
    return np.array(rows, dtype=np.int64)


def replay_line(item):
    """pmap worker: decode one raw `"CASE {json}"` output line of TLC (a TLA+ string
    literal) and replay it.  Only what the bookkeeping needs is sent back."""
    k, tags, replay_tags, line = item
    c = json.loads(json.loads(line)[5:])
    c["tags"] = tags
    if replay_tags:
        c["replay_tags"] = replay_tags
    out = replay_case(c)
    interesting = len(c["alts"]) > 1 and c["oneway"] and c["nc"] > 2
    return {"bad": out["bad"], "msm": out["msm"], "key": (c["n"], tuple(c["C"]), c["thr"]),
            "nalts": len(c["alts"]), "nc": c["nc"], "oneway": c["oneway"], "bigger": c["bigger"],
            "thrm": c["thrm"], "ncalls": 2 * len(replay_tags or tags),
            "case": c if (out["bad"] or (interesting and k % 500 == 0)) else None}


def replay_case(c):
    """Returns {"bad": [(key, detail)], "msm": status}."""
    import logging
    logging.disable(logging.WARNING)
    from enspara.msm.transition_matrices import trim_disconnected, assigns_to_counts
    n, thr, alts = c["n"], c["thr"], c["alts"]
    A = np.array(c["C"], dtype=np.int64).reshape(n, n)
    classes = _classes()
    bad = []
    chosen = {}
    tags = c.get("replay_tags") or sorted(c["tags"])
    for tag in tags:
        cls = classes[tag]
        exp_cls = classes[c["tags"][tag]]
        for variant, ren in (("ren", True), ("inp", False)):
            site = "trim_disconnected/%s/%s" % (tag, "renumber" if ren else "inplace")
            # element type and (dense) memory layout of the caller's matrix rotate over the cases: counts are
            # small integers, exactly representable in each of the types
            rot = int(A.sum()) + 3 * n + thr + (1 if ren else 0) + len(tag)
            dt = ("int64", "float64", "int32", "float32", "int16", "uint8")[rot % 6]
            # trimming is invariant under a common positive factor on counts and threshold: for the narrow integer
            # types the factor is chosen so that single counts still fit the type while row totals do not
            fac = {"int16": 9000, "uint8": 60, "int32": 500000000}.get(dt, 1) if int(A.max()) <= 3 and (rot // 6) % 2 == 0 else 1
            Ax = (A * fac).astype(dt)
            if tag == "ndarray":
                x = (Ax.copy(), np.asfortranarray(Ax), np.ascontiguousarray(Ax.T).T)[(rot // 4) % 3]
            elif tag == "coo_matrix" and rot % 2 == 0 and int(A.sum()) > 0:
                from props.c04 import make          # one entry of value 1 per count, as assigns_to_counts returns
                x = make("coodup", A, dt)
                fac = 1
            else:
                x = cls(Ax)
            try:
                mapping, out = trim_disconnected(x, threshold=thr * fac, renumber_states=ren)
                got = _observe(mapping, out, fac)
            except Exception as ex:       # the property admits no error on these inputs
                bad.append((site + "/raised-" + type(ex).__name__, "%s: %s" % (type(ex).__name__, ex)))
                continue
            if type(out) is not exp_cls:
                bad.append((site + "/type", {"got": type(out).__name__, "expected": c["tags"][tag]}))
            if type(x) is not cls or x.dtype != np.dtype(dt) or not np.array_equal(_dense(x), A * fac):
                bad.append((site + "/input-modified", {"after": _dense(x).tolist(), "type": type(x).__name__}))
            k, diff = _match(got, alts, variant)
            if diff is None:
                chosen[(tag, variant)] = k
            else:
                for asp in diff:
                    bad.append((site + "/" + asp, {"got": got, "closest_allowed": alts[k][variant],
                                                   "n_allowed": len(alts)}))
    # the same matrix embedded, by an order-preserving injection of the state ids, in a space of 19 states whose other
    # states are isolated (no counts): the kept states are the images, the renumbered matrix is the same, the mapping
    # goes to the images -- sizes beyond what the enumerated scope reaches (sorting / partitioning code paths)
    if int(A.sum()) > 0 and len(alts) == 1:
        nb = 19
        off = (int(A.sum()) + n) % 3
        pos = [off + 2 + 5 * i + (i * i) % 3 for i in range(n)]          # strictly increasing, < 19 for n <= 4
        if pos[-1] < nb:
            Ab = np.zeros((nb, nb), dtype=np.int64)
            for i in range(n):
                for j in range(n):
                    Ab[pos[i], pos[j]] = A[i, j]
            for tag in [t for t in tags if t in ("ndarray", "csr_matrix")]:
                for variant, ren in (("ren", True), ("inp", False)):
                    e = alts[0][variant]
                    if ren:
                        exp = {"shape": [e["m"], e["m"]], "M": list(e["M"]),
                               "orig": [[a, pos[b]] for a, b in e["orig"]], "mapped": [[pos[a], b] for a, b in e["mapped"]]}
                    else:
                        Mb = np.zeros((nb, nb), dtype=np.int64)
                        Ms = np.array(e["M"]).reshape(n, n)
                        for i in range(n):
                            for j in range(n):
                                Mb[pos[i], pos[j]] = Ms[i, j]
                        exp = {"shape": [nb, nb], "M": [int(v) for v in Mb.ravel()],
                               "orig": [[pos[a], pos[b]] for a, b in e["orig"]], "mapped": [[pos[a], pos[b]] for a, b in e["mapped"]]}
                    site = "trim_disconnected/%s/%s/embedded-in-19-states" % (tag, "renumber" if ren else "inplace")
                    xb = Ab.copy() if tag == "ndarray" else classes[tag](Ab)
                    try:
                        mapping, out = trim_disconnected(xb, threshold=thr, renumber_states=ren)
                        got = _observe(mapping, out)
                    except Exception as ex:
                        bad.append((site + "/raised-" + type(ex).__name__, "%s: %s" % (type(ex).__name__, ex)))
                        continue
                    for asp in ("shape", "M", "orig", "mapped"):
                        if got[asp] != exp[asp]:
                            bad.append((site + "/" + {"shape": "matrix", "M": "matrix", "orig": "to_original", "mapped": "to_mapped"}[asp],
                                        {"got": got[asp], "expected": exp[asp], "positions": pos}))
                            break
    # magnitudes: 2^60 self-counts added to one state of EVERY strongly connected component (self-counts do not touch
    # connectivity, every component total grows by the same amount): the heaviest component is still the heaviest, by
    # a margin that a total accumulated in floating point can no longer see (the spacing of doubles at 2^60 is 256)
    if int(A.sum()) > 0 and len(alts) == 1 and c.get("comps") and len(c["comps"]) >= 2:
        H = 2 ** 60
        Ah = A.copy()
        marked = [min(comp) for comp in c["comps"]]
        for i in marked:
            Ah[i, i] += H
        keep = alts[0]["kept"]
        hk = min(keep)
        for tag in [t for t in tags if t in ("ndarray", "csr_matrix", "coo_matrix")]:
            for variant, ren in (("ren", True), ("inp", False)):
                e = alts[0][variant]
                M = np.array(e["M"], dtype=np.int64).reshape(e["m"], e["m"])
                pos = {orig: mapped for mapped, orig in e["orig"]}[hk] if ren else hk
                M[pos, pos] += H
                site = "trim_disconnected/%s/%s/huge-self-counts" % (tag, "renumber" if ren else "inplace")
                xh = Ah.copy() if tag == "ndarray" else classes[tag](Ah)
                try:
                    mapping, out = trim_disconnected(xh, threshold=thr, renumber_states=ren)
                    got = _observe(mapping, out)
                except Exception as ex:
                    bad.append((site + "/raised-" + type(ex).__name__, "%s: %s" % (type(ex).__name__, ex)))
                    continue
                exp = {"shape": [e["m"], e["m"]], "M": [int(v) for v in M.ravel()], "orig": e["orig"], "mapped": e["mapped"]}
                for asp in ("shape", "M", "orig", "mapped"):
                    if got[asp] != exp[asp]:
                        bad.append((site + "/" + {"shape": "matrix", "M": "matrix", "orig": "to_original", "mapped": "to_mapped"}[asp],
                                    {"got": got[asp], "expected": exp[asp], "self_counts_of_2^60_added_to_states": marked,
                                     "components": c["comps"]}))
                        break
    ks = set(chosen.values())
    if len(ks) > 1:
        for tag in tags:
            if (tag, "ren") in chosen and (tag, "inp") in chosen and chosen[(tag, "ren")] != chosen[(tag, "inp")]:
                bad.append(("trim_disconnected/%s/variants-disagree" % tag,
                            {"renumber_kept": alts[chosen[(tag, "ren")]]["kept"],
                             "inplace_kept": alts[chosen[(tag, "inp")]]["kept"]}))
        for variant in ("ren", "inp"):
            if len({k for (t, v), k in chosen.items() if v == variant}) > 1:
                bad.append(("trim_disconnected/containers-disagree/" + variant,
                            {t: alts[k]["kept"] for (t, v), k in chosen.items() if v == variant}))

    # ---- MSM(trim=True).fit reports the same mapping / trimmed counts
    msm = "skipped"
    ref = next(((t, "ren") for t in ("coo_matrix", "ndarray") if (t, "ren") in chosen), None)
    if thr == 1 and int(A.sum()) > 0:
        from enspara.msm import MSM, builders
        sel = int(A.sum()) + int(A[0].sum())
        form = "ragged" if sel % 2 else "ndarray"
        assigns = _assignments(A, n, form)
        observed_all = bool(A[n - 1].sum() + A[:, n - 1].sum() > 0)
        max_n = None if (observed_all and sel % 3 == 0) else n
        try:
            pre = np.array_equal(assigns_to_counts(assigns, 1, max_n_states=max_n).toarray(), A)
        except Exception:
            pre = False
        if not pre:
            msm = "counts-precondition-failed"     # C03's business, nothing to compare
        else:
            m = MSM(lag_time=1, method=(builders.normalize if sel % 2 else "normalize"), trim=True,
                    max_n_states=max_n)
            built = True
            try:
                m.fit(assigns)
            except Exception as ex:
                built = False
                msm = "builder-raised-" + type(ex).__name__
            if hasattr(m, "mapping_"):
                # judged against the emitted alternatives themselves (independently of the direct
                # calls above) and, where the direct coo_matrix call was accepted, against its choice
                got = {"orig": _pairs(m.mapping_.to_original), "mapped": _pairs(m.mapping_.to_mapped)}
                cand = [k for k, a_ in enumerate(alts)
                        if a_["ren"]["orig"] == got["orig"] and a_["ren"]["mapped"] == got["mapped"]]
                how = {"assignments": form, "max_n_states": max_n}
                if not cand:
                    bad.append(("MSM.fit/mapping_", {"got": got, "allowed": [a_["ren"] for a_ in alts], "call": how}))
                elif ref is not None and chosen[ref] not in cand:
                    bad.append(("MSM.fit/mapping_-differs-from-trim_disconnected",
                                {"got": got, "trim_disconnected_kept": alts[chosen[ref]]["kept"], "call": how}))
                if built:
                    msm = "compared"
                    if cand:
                        exp = alts[cand[0]]["ren"]
                        D = _dense(m.tcounts_)
                        if list(D.shape) != [exp["m"], exp["m"]] or [int(v) for v in D.ravel()] != exp["M"]:
                            bad.append(("MSM.fit/tcounts_", {"got": D.tolist(), "expected": exp, "call": how}))
                else:
                    msm += "/mapping-compared"
            elif not built:
                msm += "/before-trim"
            else:
                bad.append(("MSM.fit/mapping_-missing", {"assignments": form, "max_n_states": max_n}))
    return {"bad": bad, "msm": msm}


# --------------------------------------------------------------------------
# TLC jobs

def _set(xs):
    return "{" + ", ".join(json.dumps(x) if isinstance(x, str) else str(x).upper() if isinstance(x, bool) else str(x)
                           for x in xs) + "}"


def _consts(N, MaxC, thresholds, renumbers, containers, emit):
    return {"N": str(N), "MaxC": str(MaxC), "Thresholds": _set(thresholds), "Renumbers": _set(renumbers),
            "Containers": _set(containers), "Emit": "TRUE" if emit else "FALSE"}


def _bg_run(conn, kw):
    os.setsid()                      # own process group: the parent can kill TLC with it
    try:
        conn.send(("ok", core.run_tlc(**kw)))
    except BaseException as ex:      # reported by the parent as a machinery failure
        conn.send(("err", repr(ex)))
    conn.close()


class _Background:
    """TLC invariant runs in forked children (started before any thread exists), so
    that they overlap with emission and replay."""

    def __init__(self):
        self.jobs = []

    def start(self, label, **kw):
        parent, child = mp.get_context("fork").Pipe(duplex=False)
        p = mp.get_context("fork").Process(target=_bg_run, args=(child, kw))
        p.start()
        child.close()
        self.jobs.append((label, kw, p, parent))

    def collect(self, ctx):
        out = []
        for label, kw, p, conn in self.jobs:
            try:
                tag, r = conn.recv()
            except EOFError:
                tag, r = "err", "TLC child died"
            p.join()
            if tag != "ok":
                raise core.MachineryError("background TLC run %s failed: %s" % (label, r))
            out.append(ctx._account(r, kw["module"], kw["cfg"], label, True))
        self.jobs = []
        return out

    def kill(self):
        import signal
        for label, kw, p, conn in self.jobs:
            try:
                os.killpg(p.pid, signal.SIGKILL)
            except OSError:
                pass
            p.join(5)
        self.jobs = []


def _draw(rng, N, MaxC, count, pzero):
    seen = set()
    tries = 0
    while len(seen) < count and tries < 20 * count:
        tries += 1
        pz = pzero[tries % len(pzero)]
        seen.add(tuple(0 if rng.random() < pz else rng.randint(1, MaxC) for _ in range(N * N)))
    return sorted(seen)


def run(ctx):
    bg = _Background()
    try:
        _run(ctx, bg)
    finally:
        bg.kill()                    # no-op after a normal collect()


def _run(ctx, bg):
    sc = SCOPES[ctx.tier]
    thresholds = sc["thresholds"]
    ctx.rule = ("one case per (count matrix, threshold) emitted by TLC, replayed for 4 containers x renumber "
                "on/off (+ MSM.fit at threshold 1); non-trivial when the thresholded graph has more than one "
                "strongly connected component (something is trimmed); distinct by (n, matrix, threshold)")
    ctx.assumptions += ["square int64 count matrices with non-negative entries, thresholds >= 1",
                        "exhaustive within the listed matrix families; larger families are seeded samples "
                        "(ctx.exhaustive is False in the thorough tier for them)",
                        "containers: ndarray, csr_matrix, coo_matrix, lil_matrix (scipy spmatrix classes)",
                        "MSM.fit is bound with lag 1, 2-frame trajectories, method normalize; a failure of the "
                        "builder itself is recorded in the notes, not judged here"]
    b = core.build_repo()
    core.activate(b)
    d = core.spec_tmp(SPEC_DIR)

    # ---- invariant runs (background)
    for i, e in enumerate(sc["exhaustive"]):
        cfg = core.write_cfg(os.path.join(d, "mc%d.cfg" % i),
                             constants=_consts(e["N"], e["MaxC"], thresholds, [True, False], e["containers"], False),
                             invariants=INVS, properties=PROPS)
        bg.start("exhaustive N=%d entries 0..%d thr=%s containers=%s" % (e["N"], e["MaxC"], thresholds,
                                                                         ",".join(e["containers"])),
                 module="Trim", cfg=os.path.basename(cfg), cwd=d, workers=e["workers"],
                 coverage=e["coverage"], timeout=3000, java_opts=GC_BIG if e["N"] >= 4 else GC)
    rng = random.Random(ctx.seed)
    sample_files = []
    for i, s in enumerate(sc["samples"]):
        mats = _draw(rng, s["N"], s["MaxC"], s["count"], s["pzero"])
        path = os.path.join(d, "samples%d.json" % i)
        with open(path, "w") as fh:
            json.dump([list(m) for m in mats], fh)
        sample_files.append((s, path, len(mats)))
        cfg = core.write_cfg(os.path.join(d, "smc%d.cfg" % i), init="InitSample",
                             constants=_consts(s["N"], s["MaxC"], thresholds, [True, False], ["ndarray"], False),
                             invariants=INVS, properties=PROPS)
        bg.start("sample of %d matrices N=%d entries 0..%d thr=%s" % (len(mats), s["N"], s["MaxC"], thresholds),
                 module="TrimSample", cfg=os.path.basename(cfg), cwd=d, workers=3, coverage=False,
                 timeout=3000, env={"C11_SAMPLES": path}, java_opts=GC)
        ctx.exhaustive = False

    # ---- emission (one job per scope and threshold) and replay
    jobs = []
    for i, e in enumerate(sc["emit"]):
        for t in thresholds:
            cfg = core.write_cfg(os.path.join(d, "emit%d_%d.cfg" % (i, t)),
                                 constants=_consts(e["N"], e["MaxC"], [t], [True], ["ndarray"], True),
                                 invariants=["EmitInv"], constraints=["EmitScope"])
            jobs.append(dict(module="Trim", cfg=os.path.basename(cfg), cwd=d, workers=1, timeout=3000, java_opts=GC,
                             label="emit N=%d entries 0..%d thr=%d" % (e["N"], e["MaxC"], t),
                             expected=(e["MaxC"] + 1) ** (e["N"] ** 2), rotate=e["rotate"]))
    for i, (s, path, cnt) in enumerate(sample_files):
        for t in thresholds:
            cfg = core.write_cfg(os.path.join(d, "semit%d_%d.cfg" % (i, t)), init="InitSample",
                                 constants=_consts(s["N"], s["MaxC"], [t], [True], ["ndarray"], True),
                                 invariants=["EmitInv"], constraints=["EmitScope"])
            jobs.append(dict(module="TrimSample", cfg=os.path.basename(cfg), cwd=d, workers=1, timeout=3000, java_opts=GC,
                             label="emit sample N=%d entries 0..%d thr=%d" % (s["N"], s["MaxC"], t),
                             env={"C11_SAMPLES": path}, expected=cnt, rotate=False))
    expected = [j.pop("expected") for j in jobs]
    rotate = [j.pop("rotate") for j in jobs]
    results = ctx.tlc_parallel(jobs, max_par=6)

    stats = {"cases": 0, "ties": 0, "one_way_link": 0, "larger_component_loses": 0, "threshold_drops_counts": 0,
             "several_components": 0, "msm": {}}
    sparse = [t for t in ALL_CONTAINERS if t != "ndarray"]
    totals = {}
    for j, want, rot, r in zip(jobs, expected, rotate, results):
        tags = [p for t, p in r.prints if t == "TAGS"]
        if len(tags) != 1 or set(tags[0]) != set(ALL_CONTAINERS):
            raise core.MachineryError("%s: expected one TAGS line for %s, got %s" % (j["label"], ALL_CONTAINERS, tags))
        lines = [ln for ln in r.stdout.splitlines() if ln.startswith('"CASE ')]
        if len(lines) != want:
            raise core.MachineryError("%s: %d CASE lines, expected %d" % (j["label"], len(lines), want))
        items = [(k, tags[0], ["ndarray", sparse[k % 3]] if (rot and k % 16) else None, ln)
                 for k, ln in enumerate(lines)]
        for out in core.pmap(replay_line, items, chunk=500):
            nontriv = out["nc"] > 1
            ctx.case(out["key"] if nontriv else None, sample=None if out["bad"] else out["case"])
            ctx.traces += out["ncalls"]
            stats["cases"] += 1
            stats["ties"] += out["nalts"] > 1
            stats["one_way_link"] += bool(out["oneway"])
            stats["larger_component_loses"] += bool(out["bigger"])
            stats["threshold_drops_counts"] += bool(out["thrm"])
            stats["several_components"] += nontriv
            stats["msm"][out["msm"]] = stats["msm"].get(out["msm"], 0) + 1
            if out["msm"] != "skipped":
                ctx.traces += 1
            for key_, detail in out["bad"]:
                # a broken implementation fails on 10^5 cases: report the first few of each class
                # in full and count the rest (every class still makes the check exit 1)
                totals[key_] = totals.get(key_, 0) + 1
                if totals[key_] <= MAX_REPORTS_PER_KEY:
                    ctx.violation({"kind": "replay", "site": key_, "case": out["case"], "detail": detail,
                                   "how": "real trim_disconnected / MSM.fit vs Trim.tla emitted alternatives"},
                                  key=key_)
    ctx.notes["case_statistics"] = stats
    if totals:
        ctx.notes["mismatches_per_class"] = totals
        print("C11 mismatching (case, call site) pairs per class: %s" % json.dumps(totals, sort_keys=True))

    # ---- collect invariant runs; vacuity: every action fired
    for r in bg.collect(ctx):
        missing = [a for a in ACTIONS if not r.coverage.get(a)]
        if r.ok and r.coverage and missing:
            raise core.MachineryError("actions never fired in an invariant run: %s" % missing)
    for k in ("ties", "one_way_link", "larger_component_loses", "threshold_drops_counts"):
        if not stats[k]:
            raise core.MachineryError("vacuous scope: no case with %s" % k)


def replay(ctx, path):
    rec = json.load(open(path))
    b = core.build_repo()
    core.activate(b)
    if "case" not in rec:
        raise core.MachineryError("not a replayable record (model-level violation): rerun ./check C11")
    out = replay_case(rec["case"])
    ctx.case(("replay",), sample=rec["case"])
    ctx.traces += 1
    for key_, detail in out["bad"]:
        ctx.violation({"kind": "replay", "site": key_, "case": rec["case"], "detail": detail}, key=key_)
