"""Shared engine of the clustering checks C01 / C02 / C09 (and reused by C14).

  model runs : exhaustive TLC runs of KCenters.tla / PAM.tla / Hybrid.tla
  inputs     : TLC enumerates inputs + configurations (Init of the same modules)
  binding    : the real code is executed on every enumerated input (and on seeded
               random larger data sets), recorded by cluster_common.record and
               validated by TLC against Trace_Cluster.tla, sharded over JVMs
"""
import json
import os

import numpy as np

from harness import core
from props import cluster_common as cc

SPEC_DIR = os.path.join(core.SPECS, "cluster")

KC_INVS = ["SelfConsistent", "CentersDistinct", "TwoApprox", "StopExact", "NeverOvershoots", "ShortcutExact",
           "MetricAxioms"]
KC_PROPS = ["InputsUntouched", "RadiusMonotone"]
PAM_INVS = ["SelfConsistent", "CandidateConsistent", "NoWorseThanStart", "NonEmptyClusters"]
PAM_PROPS = ["CostMonotone", "KConstant", "InputsUntouched"]
HY_INVS = ["SelfConsistent", "CandidateConsistent", "HybridNoWorse", "NonEmptyClusters", "StopExactAtHandover"]

DUMMY = dict(Dim=1, P=1, MinN=1, MaxN=1, MaxK=1, Cuts="{0}", MetricsUsed='{"l1"}', WarmMax=0, MaxSweeps=1,
             ExplicitProps="FALSE")


def _consts(sc):
    d = dict(DUMMY)
    for k, v in sc.items():
        if k == "Cuts":
            d[k] = "{" + ", ".join(str(x) for x in v) + "}"
        elif k == "MetricsUsed":
            d[k] = "{" + ", ".join('"%s"' % x for x in v) + "}"
        elif isinstance(v, bool):
            d[k] = "TRUE" if v else "FALSE"
        else:
            d[k] = str(v)
    return d


def kc_consts(sc):
    d = _consts(sc)
    for k in ("MaxSweeps", "ExplicitProps"):
        d.pop(k)
    return d


def model_job(d, module, sc, name, workers=4):
    if module == "KCenters":
        cfg = core.write_cfg(os.path.join(d, name + ".cfg"), init="KCInit", next_="KCNext", constants=kc_consts(sc),
                             invariants=KC_INVS, properties=KC_PROPS)
    elif module == "PAM":
        cfg = core.write_cfg(os.path.join(d, name + ".cfg"), init="PAMInit", next_="PAMNext", constants=_consts(sc),
                             invariants=PAM_INVS, properties=PAM_PROPS)
    else:
        cfg = core.write_cfg(os.path.join(d, name + ".cfg"), init="HybridInit", next_="HybridNext",
                             constants=_consts(sc), invariants=[i for i in HY_INVS if i != "StopExactAtHandover"],
                             properties=["CostMonotone", "InputsUntouched"])
    return dict(module=module, cfg=os.path.basename(cfg), cwd=d, label="exhaustive %s %s" % (module, sc),
                coverage=True, workers=workers, timeout=3000)


def input_job(d, module, sc, name):
    if module == "KCenters":
        cfg = core.write_cfg(os.path.join(d, name + ".cfg"), init="KCInit", next_="KCNext", constants=kc_consts(sc),
                             invariants=["EmitKCInput"], constraints=["OnlyStart"])
    else:
        cfg = core.write_cfg(os.path.join(d, name + ".cfg"), init="PAMInit", next_="PAMNext", constants=_consts(sc),
                             invariants=["EmitPAMInputAny"], constraints=["EmitBound0"])
    return dict(module=module, cfg=os.path.basename(cfg), cwd=d, label="inputs %s %s" % (module, sc), workers=1,
                timeout=3000)


def to0(seq):
    return [int(i) - 1 for i in seq]


def kc_runs(case, forms=("function",), dtypes=("float64",), beyond=False):
    """runs of the real k-centers for one enumerated case; beyond=True adds the same configuration asked for MORE
    clusters than there are frames (only the radius criterion can stop such a run)"""
    base = dict(pts=case["pts"], metric=case["metric"], algo="kcenters", k=case["k"], cut=case["cut"],
                ti=case["ti"], init=to0(case["init"]))
    out = []
    for f in forms:
        if f == "estimator" and case["ti"]:
            continue            # the estimator has no shortcut switch
        for dt in dtypes:
            out.append(dict(base, form=f, dtype=dt))
    if beyond and case["k"] >= 2:
        for f in ("function", "estimator"):
            if not (f == "estimator" and case["ti"]):
                out.append(dict(base, form=f, dtype=dtypes[0], k=len(case["pts"]) + 2))
    return out


def record_validate_judge(ctx, runs, each, label, batch=None):
    """record -> validate -> judge in batches of runs: the traces of one batch (tens of kilobytes each) are dropped
    before the next is recorded -- the thorough tiers have hundreds of thousands of runs, and holding all of their
    traces at once took more than 40 GB"""
    from props import cluster_common as cc
    refused = 0
    if batch is None:       # (a batch of 15000 thorough-tier traces -- up to 40 frames, every proposal -- is ~20 GB of lists)
        batch = 15000 if ctx.tier == "quick" else 5000
    for i in range(0, len(runs), batch):
        traces = core.pmap(cc.record, runs[i:i + batch], chunk=100)
        refused += sum(1 for tr in traces if tr.get("rejected_input"))
        traces = [tr for tr in traces if not tr.get("rejected_input")]
        for tr in traces:
            each(tr)
        judge(ctx, validate(ctx, traces, "%s, runs %d..%d" % (label, i + 1, min(len(runs), i + batch))))
        del traces
    ctx.notes["runs_refused_for_their_element_type"] = refused


def validate(ctx, traces, label, shards=8):
    """TLC trace validation, sharded.  Returns list of (trace, failing (clause, l) set or None, stuck_l or None)."""
    if not traces:
        return []
    d = core.spec_tmp(SPEC_DIR)
    core.write_cfg(os.path.join(d, "tr.cfg"), init="TInit", next_="TNext", invariants=["Report", "StuckReport"],
                   constants=_consts({}))
    shards = max(1, min(shards, (len(traces) + 499) // 500))
    parts = [traces[i::shards] for i in range(shards)]
    jobs = []
    for i, part in enumerate(parts):
        tf = os.path.join(d, "traces%d.json" % i)
        with open(tf, "w") as fh:
            json.dump(part, fh)
        jobs.append(dict(module="Trace_Cluster", cfg="tr.cfg", cwd=d, label="%s shard %d (%d traces)" % (label, i, len(part)),
                         workers=1, env={"TRACE_FILE": tf}, timeout=3000))
    res = _tolerant_parallel(ctx, jobs)
    out = []
    for part, (r, crashed) in zip(parts, res):
        verdict, stuck = {}, {}
        for t, p in r.prints:
            if t == "VERDICT":
                verdict[p[0]] = p[1]
            elif t == "STUCK":
                stuck[p[0]] = p[1]
        for k, tr in enumerate(part):
            if (k + 1) in crashed:
                # TLC could not even evaluate the specification's clauses on this recorded run (a value outside
                # every domain the clauses are written for): the run is not a behaviour of the specification
                out.append((tr, {("ControlFlow", crashed[k + 1])}, None))
                continue
            v = verdict.get(k + 1)
            out.append((tr, None if v is None else {(c, l) for c, l in v}, stuck.get(k + 1)))
    return out


def _tolerant_parallel(ctx, jobs):
    """ctx.tlc_parallel, except that an evaluation error of TLC inside one recorded trace does not abort the check:
    the trace is identified from the error trace (tid, l), set aside as rejected, and the shard is run again without
    it (at most 6 times per shard).  Returns [(result, {tid: l})]."""
    import re
    from concurrent.futures import ThreadPoolExecutor

    def one(j):
        j = dict(j)
        label = j.pop("label", None)
        tf = j["env"]["TRACE_FILE"]
        crashed = {}
        for attempt in range(7):
            r = core.run_tlc(j["module"], j["cfg"], j["cwd"], **{k: v for k, v in j.items() if k not in ("module", "cfg", "cwd")})
            if not (r.error and not r.violated):
                return label, r, crashed
            tids = re.findall(r"/\\ tid = (\d+)", r.error + r.stdout)
            ls = re.findall(r"/\\ l = (\d+)", r.error + r.stdout)
            if not tids or attempt == 6:
                return label, r, crashed
            tid = int(tids[-1])
            traces = json.load(open(tf))
            # replace the offending trace by an empty one (keeps the numbering of the others)
            crashed[tid] = int(ls[-1]) if ls else 0
            traces[tid - 1] = dict(traces[tid - 1], events=[])
            with open(tf, "w") as fh:
                json.dump(traces, fh)
        return label, r, crashed
    with ThreadPoolExecutor(8) as ex:
        outs = list(ex.map(one, jobs))
    res = []
    for (label, r, crashed), j in zip(outs, jobs):
        res.append((ctx._account(r, j["module"], j["cfg"], label, True), crashed))
    return res


OWN = {
    "C01": ("Start.", "Iterate.center_indices", "Iterate.distances", "Iterate.labels", "Result.center_indices",
            "Result.centers", "Result.distances", "Result.labels", "Result.SelfConsistent", "Result.inputs",
            "Sweep.SelfConsistent", "Sweep.centers", "Sweep.distances", "Sweep.labels", "Sweep.center_indices",
            "PamStart.SelfConsistent", "NoException", "ControlFlow"),
    "C02": ("Iterate.", "Stop.", "TwoApprox", "Start.", "NoException", "ControlFlow", "Result.distances",
            "Result.labels", "Result.center_indices", "Result.inputs", "Result.reproducible"),
    "C09": ("Propose.", "Accept.", "Sweep.", "Result.HybridNoWorse", "Result.reproducible", "PamStart.",
            "NoException", "ControlFlow", "Result.center_indices", "Result.centers"),
}


def judge(ctx, results, site_of=lambda tr: "%s/%s" % (tr["algo"], tr["form"])):
    own = OWN.get(ctx.pid)
    other = {}
    for tr, v, stuck in results:
        ctx.traces += 1
        if v is None:
            ev = tr["events"][stuck - 1] if stuck and stuck <= len(tr["events"]) else {}
            ctx.violation({"kind": "trace-rejected", "clause": "ControlFlow", "stuck_at": stuck, "event": ev, "trace": tr,
                           "how": "no action of Trace_Cluster.tla matches the recorded event sequence"},
                          key="%s/ControlFlow/%s" % (site_of(tr), ev.get("ev")))
            continue
        for clause, l in sorted(v):
            ev = tr["events"][l - 1] if 0 < l <= len(tr["events"]) else {}
            key = "%s/%s" % (site_of(tr), clause)
            if clause == "NoException":
                key += "/" + str(ev.get("msg", "")).split(":")[0]
            if clause.startswith("Iterate.") and tr.get("initXY") and tr.get("ti") and tr.get("k") and tr["k"] > len(tr["pts"]):
                # its own class (a recorded finding, see known_findings.json): warm start from centers that are not
                # frames, more clusters requested than there are frames, triangle shortcut
                key += "/off-data-init+more-clusters-than-frames+shortcut"
            if own is None or clause.startswith(own):
                ctx.violation({"kind": "trace-rejected", "clause": clause, "event_no": l, "event": ev, "trace": tr,
                               "how": "Trace_Cluster.tla clause fails on the recorded step"}, key=key)
            else:
                other[key] = other.get(key, 0) + 1
    if other:
        ctx.notes.setdefault("clauses_failing_but_owned_by_other_properties", {}).update(other)
        print("note: clauses owned by other clustering properties failed: %s" % other)


def validate_large(ctx, traces, label="large clustering results"):
    """Trace_ClusterLarge.tla: only the RESULT of each run is judged (linear clauses); returns [(trace, fails)]"""
    recs = []
    for tr in traces:
        res = [e for e in tr["events"] if e["ev"] == "result"]
        rz = [e for e in tr["events"] if e["ev"] == "raise"]
        if not res:
            recs.append((tr, {"NoException" if rz else "ControlFlow"}))
            continue
        e = res[0]
        recs.append((tr, dict(pts=tr["pts"], metric=tr["metric"], k=tr["k"], ctrIdx=e["ctrIdx"], ctrXY=e["ctrXY"],
                              asg=e["asg"], dist=e["dist"], inputs_same=bool(e["inputs_same"]))))
    todo = [r for _, r in recs if isinstance(r, dict)]
    verdicts = {}
    if todo:
        d = core.spec_tmp(SPEC_DIR)
        for f in os.listdir(os.path.join(core.SPECS, "common")):
            pass
        tf = os.path.join(d, "large.json")
        with open(tf, "w") as fh:
            json.dump(todo, fh)
        core.write_cfg(os.path.join(d, "large.cfg"), init="Init", next_="Next", invariants=["Report"])
        r = ctx.tlc("Trace_ClusterLarge", "large.cfg", d, label="%s (%d)" % (label, len(todo)), workers=2,
                    env={"TRACE_FILE": tf}, timeout=1500)
        for t, p in r.prints:
            if t == "VERDICT":
                verdicts[p[0]] = set(p[1])
    out, k = [], 0
    for tr, r in recs:
        if isinstance(r, dict):
            k += 1
            out.append((tr, verdicts.get(k)))
        else:
            out.append((tr, r))
    return out


def judge_large(ctx, results):
    own = OWN.get(ctx.pid)
    for tr, fails in results:
        ctx.traces += 1
        ctx.case(("large", tr["algo"], tr["form"], len(tr["pts"]), tr["k"]))
        if fails is None:
            raise core.MachineryError("Trace_ClusterLarge gave no verdict for a large run")
        for clause in sorted(fails):
            if own is None or clause.startswith(own) or clause.startswith("Stop."):
                ctx.violation({"kind": "trace-rejected", "clause": clause,
                               "run": {k: tr[k] for k in ("metric", "algo", "form", "k", "cut", "init", "sweeps", "seed")},
                               "n_frames": len(tr["pts"]), "pts": tr["pts"],
                               "events": [e for e in tr["events"] if e["ev"] in ("result", "raise")],
                               "how": "Trace_ClusterLarge.tla clause fails on the result of a large run"},
                              key="%s/%s/large/%s" % (tr["algo"], tr["form"], clause))


def large_runs(rng, count=2):
    """a few data sets with hundreds of frames and more than 128 clusters / initial centers (sizes at which
    implementations switch to other code paths); validated by the same trace specification"""
    out = []
    for q in range(count):
        n = int(rng.randint(240, 300))
        seen, pts = set(), []
        while len(pts) < n:
            p = (int(rng.randint(0, 40)), int(rng.randint(0, 40)))
            if p not in seen:
                seen.add(p)
                pts.append(list(p))
        ninit = int(rng.randint(130, 150))
        init = [int(x) for x in rng.choice(n, size=ninit, replace=False)]
        metric = ("l1", "l2sq")[q % 2]
        out.append(dict(pts=pts, metric=metric, algo="kcenters", k=ninit + 6, cut=0, init=init, ti=bool(q % 2),
                        form="function", dtype="float64", scale=1.0, layout="C"))
        out.append(dict(pts=pts, metric=metric, algo="hybrid", k=ninit + 3, cut=0, init=init, sweeps=1, seed=q,
                        form=("function", "estimator")[q % 2], dtype="float64", scale=1.0, layout="C"))
    return out


def random_runs(rng, n_runs, algos, max_n=40):
    """seeded random integer data sets beyond the exhaustive scope"""
    out = []
    for _ in range(n_runs):
        dim = int(rng.randint(1, 4))
        n = int(rng.randint(6, max_n + 1))
        hi = int(rng.choice([4, 9, 30]))
        seen, pts = set(), []
        while len(pts) < n and len(seen) < (hi + 1) ** dim:
            p = tuple(int(x) for x in rng.randint(0, hi + 1, size=dim))
            if p not in seen:
                seen.add(p)
                pts.append(list(p))
        n = len(pts)
        if n < 3:
            continue
        metric = str(rng.choice(["l1", "l2sq", "linf"]))
        algo = str(rng.choice(algos))
        kk = int(rng.randint(1, min(n, 8) + 1))
        cutv = int(rng.choice([0, 0, 1, 2, 4, 9]))
        run = dict(pts=pts, metric=metric, algo=algo, k=kk, cut=cutv if algo != "kmedoids" else 0,
                   dtype=str(rng.choice(["float64", "float32", "int64", "int32"])),
                   form=str(rng.choice(["function", "estimator"])))
        if metric == "linf" and rng.randint(3) == 0:
            run["dtype"] = str(rng.choice(["uint8", "uint16", "uint32"]))      # unsigned data, callable metric
        elif metric != "linf" and rng.randint(8) == 0:
            run["dtype"] = str(rng.choice(["uint8", "uint16"]))                # unsigned data, named metric
        if run["dtype"].startswith("float"):
            run["scale"] = float(rng.choice([1.0, 2.0 ** -30, 2.0 ** -30, 4096.0]))
        if algo == "kcenters":
            run["ti"] = bool(rng.randint(2)) and run["form"] == "function"
            run["init"] = [int(x) for x in rng.choice(n, size=rng.randint(0, min(3, n)), replace=False)]
        elif algo == "kmedoids":
            run["sweeps"] = int(rng.randint(0, 4))      # (0: assign to the given / drawn medoids, no refinement)
            mode = rng.randint(4)
            run["k"] = kk
            if mode == 0:        # cold, seeded
                run["seed"] = int(rng.randint(1000))
                run["form"] = "function"
            elif mode == 1:      # warm from centers, explicit proposals
                run["init"] = [int(x) for x in rng.choice(n, size=kk, replace=False)]
                run["props"] = [int(x) for x in rng.randint(0, n, size=kk)]
                run["form"] = "function"
                run["k"] = 0
            elif mode == 2:      # warm from assignments + distances
                run["init"] = [int(x) for x in rng.choice(n, size=kk, replace=False)]
                run["warm"] = "assignments"
                run["seed"] = int(rng.randint(1000))
                run["form"] = "function"
                run["k"] = 0
            else:                # estimator, unseeded cold start
                run["form"] = "estimator"
        else:
            run["sweeps"] = int(rng.randint(0, 4))
            run["seed"] = int(rng.randint(1000))
            if run["form"] == "function" and rng.randint(3) == 0:
                run["init"] = [int(x) for x in rng.choice(n, size=rng.randint(1, min(3, n)), replace=False)]
        out.append(run)
    return out
