"""C14 -- MPI-striped clustering and reductions equal their serial counterparts.

Models (TLC, all arrival orders of ranks at every collective):
  specs/mpi/KCentersMPI.tla  distributed k-centers refines the serial algorithm on the
                             concatenated data (tie-free), ranks agree, reassembly and
                             local<->global index maps are bijections, no rank is left
                             waiting in a collective
  specs/mpi/StripedOps.tla   assemble_striped_array, striped max / mean, randind
Binding (both directions) on the simulated communicator harness/fakempi (one thread per
rank, a scheduler decides which runnable rank reaches the next collective first):
  A: every TLC-enumerated (trajectories, R, k, metric) is run through the real
     kcenters(mpi_mode=True) + convert_local_indices + assemble_striped_ragged_array on R
     simulated ranks under several arrival schedules and compared with the serial state
     TLC computed; hybrid(mpi_mode=True) and the MPI warm start of kmedoids are recorded as
     reassembled states and validated by TLC (Trace_Cluster.tla: self-consistent, k
     constant, cost never worse); striped ops are compared with StripedOps.tla.
  B: the communicator's log of every world execution is validated against
     Trace_Collectives.tla.
Striped file loading runs against real HDF5 / npy files.
"""
import json
import os
import shutil
import tempfile
import zlib

import numpy as np

from harness import core
from props import cluster_engine as ce
from props import cluster_common as cc

SPEC_DIR = os.path.join(core.SPECS, "mpi")
KC_INVS = ["AllRanksAgree", "NoDeadlock", "LocalGlobalBijection", "Refines", "ReassembledConsistent", "StopsOnCue"]
OPS_INVS = ["AssembleIsGlobal", "MaxIsSerialMax", "MeanIsSerialMean", "RandindValid", "RandindBijection"]

SCOPES = {
    "quick": dict(kc=[dict(R=1, MaxT=2, MaxLen=2, P=4, MaxK=3, MetricsUsed=["l1"]),
                      dict(R=2, MaxT=3, MaxLen=2, P=4, MaxK=3, MetricsUsed=["l1"]),
                      dict(R=3, MaxT=3, MaxLen=1, P=4, MaxK=3, MetricsUsed=["l2sq"])],
                  ops=[dict(R=2, MinN=1, MaxN=4, NegV=2, MaxV=2), dict(R=3, MinN=1, MaxN=4, NegV=1, MaxV=2),
                       # four ranks: every (not necessarily packed) layout of up to two local elements per rank
                       dict(R=4, MinN=1, MaxN=1, NegV=0, MaxV=1)]),
    "thorough": dict(kc=[dict(R=1, MaxT=2, MaxLen=2, P=4, MaxK=3, MetricsUsed=["l1"]),
                         dict(R=2, MaxT=3, MaxLen=2, P=5, MaxK=3, MetricsUsed=["l1", "l2sq"]),
                         dict(R=3, MaxT=4, MaxLen=2, P=4, MaxK=3, MetricsUsed=["l1"]),
                         dict(R=4, MaxT=4, MaxLen=1, P=5, MaxK=4, MetricsUsed=["l2sq"])],
                     ops=[dict(R=2, MinN=1, MaxN=5, NegV=2, MaxV=2), dict(R=3, MinN=1, MaxN=5, NegV=2, MaxV=2),
                          dict(R=4, MinN=1, MaxN=5, NegV=1, MaxV=2)]),
}


def consts(sc):
    d = {}
    for k, v in sc.items():
        d[k] = "{" + ", ".join('"%s"' % x for x in v) + "}" if k == "MetricsUsed" else str(v)
    return d


def make_schedule(kind, seed, size):
    rng = np.random.RandomState(seed)
    perms = [list(rng.permutation(size)) for _ in range(64)]

    def sched(runnable, epoch):
        if kind == "asc":
            return min(runnable)
        if kind == "desc":
            return max(runnable)
        order = perms[epoch % 64]
        return min(runnable, key=lambda r: order.index(r))
    return sched


def _digest(v):
    if v is None:
        return -1, False
    if isinstance(v, (bool, np.bool_)):
        return int(v), False
    if isinstance(v, (int, np.integer)):
        return int(v), False
    if isinstance(v, (float, np.floating)):
        if np.isinf(v):
            return (2000000000 if v > 0 else -2000000000), True
        return int(round(float(v) * 1e6)), True
    b = repr(np.asarray(v, dtype=object).tolist() if not isinstance(v, np.ndarray) else v.tolist()).encode()
    return zlib.crc32(b) & 0x3fffffff, False


def _num(v):
    return isinstance(v, (int, float, np.integer, np.floating)) and not isinstance(v, (bool, np.bool_))


def world_trace(world):
    """group the communicator log by epoch -> record for Trace_Collectives.tla"""
    # an epoch whose numeric contributions / results mix ints and floats (an empty rank contributes the float 0.0
    # of np.sum(np.array([])) next to the integer sums of the others) is projected with ONE scale for all of them
    floaty = {}
    for e in world.log:
        vals = [e["contrib"]] + (list(e["result"]) if e["kind"] == "allgather" else [e["result"]])
        if any(isinstance(v, (float, np.floating)) for v in vals):
            floaty[e["epoch"]] = True

    def dg(v, epoch):
        if floaty.get(epoch) and _num(v):
            return _digest(float(v))
        return _digest(v)
    eps = {}
    for e in world.log:
        ep = eps.setdefault(e["epoch"], {"kind": e["kind"], "root": -1 if e["root"] is None else int(e["root"]),
                                         "op": e["op"] or "", "order": [int(x) for x in e["order"]],
                                         "contribs": [None] * world.size, "results": [None] * world.size,
                                         "scaled": False})
        c, sc1 = dg(e["contrib"], e["epoch"])
        if e["kind"] == "allgather":
            r = [dg(x, e["epoch"])[0] for x in e["result"]]
        else:
            r, sc2 = dg(e["result"], e["epoch"])
            sc1 = sc1 or sc2
        ep["contribs"][e["rank"]] = c
        ep["results"][e["rank"]] = r
        ep["scaled"] = ep["scaled"] or sc1
    out = []
    for k in sorted(eps):
        ep = eps[k]
        if any(x is None for x in ep["contribs"]):
            ep["contribs"] = [(-2 if x is None else x) for x in ep["contribs"]]
            ep["results"] = [(-2 if x is None else x) for x in ep["results"]]
        out.append(ep)
    return {"size": world.size, "epochs": out}


def _state(ctr, asg, dist, metric, agree):
    return {"ev": "mpistate", "ctrIdx": [int(c) + 1 for c in ctr], "asg": [int(a) + 1 for a in asg],
            "dist": cc.rep(dist, metric), "ranks_agree": bool(agree)}


def kc_case(arg):
    """run the distributed clustering of one TLC-enumerated case on R simulated ranks"""
    case, skind, seed = arg
    from mpi4py import MPI
    from enspara import mpi
    from enspara.cluster import kcenters, hybrid, kmedoids
    R, metric, k = case["R"], case["metric"], case["k"]
    trajs = [np.array(t, dtype=float).reshape(len(t), -1) for t in case["trajs"]]
    lengths = np.array([len(t) for t in trajs])
    m = cc.metric_arg(metric)
    out = {"case": case, "sched": skind, "seed": seed, "bad": [], "events": [], "worlds": []}

    def reassemble(res):
        ctr = mpi.ops.convert_local_indices(res.center_indices, lengths)
        asg = mpi.ops.assemble_striped_ragged_array(res.assignments, lengths)
        dist = mpi.ops.assemble_striped_ragged_array(res.distances, lengths)
        return [int(c) for c in ctr], [int(a) for a in asg], [float(d) for d in dist]

    allX = np.concatenate(trajs)

    def body_kc(rank, ti=False):
        X = np.concatenate(trajs[rank::R])
        X0 = X.copy()
        res = kcenters.kcenters(X, m, n_clusters=k, mpi_mode=True, use_triangle_inequality=ti)
        g = reassemble(res)
        same = bool(np.array_equal(X, X0))
        mx = float(mpi.ops.striped_array_max(res.distances))
        mean = float(mpi.ops.striped_array_mean(res.distances))
        # the center coordinates every rank holds are the frames at the (global) center indices
        ctr_ok = len(res.centers) == len(g[0]) and all(
            np.array_equal(np.asarray(cxy, dtype=float).reshape(-1), allX[gi].reshape(-1)) for cxy, gi in zip(res.centers, g[0]))
        return g, same, mx, mean, (res.center_indices, res.assignments.copy(), res.distances.copy()), bool(ctr_ok)

    def body_kc_ti(rank):
        return body_kc(rank, ti=True)

    def body_hybrid(rank):
        X = np.concatenate(trajs[rank::R])
        res = hybrid.hybrid(X, m, n_iters=2, n_clusters=k, mpi_mode=True, random_state=seed)
        return reassemble(res)

    def run(body, label):
        try:
            results, world = MPI.run_world(body, R, make_schedule(skind, seed, R))
            out["worlds"].append(world_trace(world))
            return results
        except Exception as ex:
            out["bad"].append(("%s/raises-%s" % (label, type(ex).__name__), "%s: %s" % (type(ex).__name__, str(ex)[:300])))
            return None

    res = run(body_kc, "kcenters-mpi")
    if res is not None:
        g0 = res[0][0]
        agree = all(r[0] == g0 for r in res) and all(r[2] == res[0][2] and r[3] == res[0][3] for r in res)
        if not all(r[1] for r in res):
            out["bad"].append(("kcenters-mpi/inputs-modified", ""))
        if not all(r[5] for r in res):
            out["bad"].append(("kcenters-mpi/centers-are-not-the-frames-at-center-indices",
                               {"ranks": [i for i, r in enumerate(res) if not r[5]]}))
        # the triangle-inequality shortcut changes nothing (same program otherwise, same arrival schedule)
        res_ti = run(body_kc_ti, "kcenters-mpi-ti")
        if res_ti is not None:
            if [r[0] for r in res_ti] != [r[0] for r in res]:
                out["bad"].append(("kcenters-mpi/shortcut-differs-from-plain", {"plain": res[0][0], "shortcut": res_ti[0][0]}))
            if not all(r[5] for r in res_ti):
                out["bad"].append(("kcenters-mpi/centers-are-not-the-frames-at-center-indices",
                                   {"ranks": [i for i, r in enumerate(res_ti) if not r[5]], "shortcut": True}))
        out["events"].append(_state(g0[0], g0[1], g0[2], metric, agree))
        ser = case["serial"]
        exp = ([c - 1 for c in ser["ctr"]], [a - 1 for a in ser["asg"]], list(ser["dist"]))
        got = (g0[0], g0[1], cc.rep(g0[2], metric))
        if case["tiefree"] and got != exp:
            out["bad"].append(("kcenters-mpi/differs-from-serial", {"got": got, "serial": exp}))
        dmax = max(exp[2]) if case["tiefree"] else None
        if case["tiefree"]:
            if cc.rep([res[0][2]], metric)[0] != dmax:
                out["bad"].append(("striped_array_max/differs-from-serial", {"got": res[0][2], "expected(rep)": dmax}))
            gd = np.array(g0[2])
            if abs(res[0][3] - gd.mean()) > 1e-12 * max(1.0, abs(gd.mean())):
                out["bad"].append(("striped_array_mean/differs-from-serial", {"got": res[0][3], "expected": float(gd.mean())}))
        if R > 1:
            # MPI warm start of k-medoids from the k-centers state (global center indices + local labels/distances)
            def body_km(rank):
                X = np.concatenate(trajs[rank::R])
                _, a, d = res[rank][4]
                r2 = kmedoids.kmedoids(X, m, cluster_center_inds=list(g0[0]), assignments=a.copy(), distances=d.copy(),
                                       X_lengths=[int(x) for x in lengths], n_iters=1, random_state=seed)
                return reassemble(r2)
            r3 = run(body_km, "kmedoids-mpi")
            if r3 is not None:
                out["events"].append(_state(r3[0][0], r3[0][1], r3[0][2], metric, all(x == r3[0] for x in r3)))
    out2 = run(body_hybrid, "hybrid-mpi")
    hy = []
    if out2 is not None:
        hy = [_state([c for c in []], [], [], metric, True)][:0]
        out["hybrid_event"] = _state(out2[0][0], out2[0][1], out2[0][2], metric, all(x == out2[0] for x in out2))
    return out


def ops_case(case):
    """striped ops of one TLC-enumerated case under every arrival order"""
    import itertools
    from mpi4py import MPI
    from enspara import mpi
    R, garr, op = case["R"], case["garr"], case["op"]
    bad = []
    worlds = []
    perms = list(itertools.permutations(range(R)))
    if R >= 4:          # 24 arrival orders and more: ascending, descending and two that rotate with the case
        h = sum(case["nloc"]) * 7 + case["gidx"] * 13 + len(garr)
        perms = [perms[0], perms[-1], perms[h % len(perms)], perms[(h * 5 + 11) % len(perms)]]
    for perm in perms:
        def sched(runnable, epoch, perm=perm):
            return min(runnable, key=lambda r: perm.index(r))

        class FixedDraw(np.random.RandomState):
            def randint(self, *a, **kw):
                return case["gidx"]

        def body(rank):
            local = np.array(garr[rank::R])
            if op == "assemble":
                return [int(x) for x in mpi.ops.assemble_striped_array(local)]
            if op == "max":
                return int(mpi.ops.striped_array_max(local))
            if op == "mean":
                return float(mpi.ops.striped_array_mean(local))
            if op == "randind":
                o, i = mpi.ops.randind(np.zeros(case["nloc"][rank]), FixedDraw(0))
                return [int(o), int(i)]
        try:
            results, world = MPI.run_world(body, R, sched)
            worlds.append(world_trace(world))
        except Exception as ex:
            bad.append(("%s/raises-%s" % (op, type(ex).__name__), str(ex)[:200]))
            continue
        if op == "assemble":
            exp = list(garr)
        elif op == "max":
            exp = max(garr)
        elif op == "mean":
            exp = sum(garr) / len(garr)
        else:
            exp = case["randmap"][case["gidx"]]
        for r, got in enumerate(results):
            ok = abs(got - exp) <= 1e-12 if op == "mean" else got == exp
            if not ok:
                bad.append(("mpi.ops/%s/differs-from-serial" % op, {"rank": r, "got": got, "expected": exp, "order": perm}))
    return bad, worlds


def long_part(ctx):
    """StripedOps.tla's Assemble at sizes no enumeration reaches (closed form: row g of the global array belongs to rank
    g mod R; the value stored at a global position is that position): a rank holding more than 2^20 elements -- where
    a communicator layer would start to cut messages -- in lengths that are no multiple of any power of two"""
    from mpi4py import MPI
    from enspara import mpi
    n = 0
    for R, lens in [(2, [1048576 + 123, 5, 3, 1200001]), (3, [7, 2 * 1048576 + 77, 1048577, 4, 1, 1048576])]:
        starts = np.concatenate([[0], np.cumsum(lens)])
        total = int(starts[-1])
        T = R * 1048576 + R + 3          # striped flat array: more than 2^20 elements on every rank
        for dt in (np.int64, np.float64):
            def body(rank):
                local = np.concatenate([np.arange(starts[g], starts[g + 1], dtype=dt) for g in range(rank, len(lens), R)])
                keep = local.copy()
                rag = mpi.ops.assemble_striped_ragged_array(local, np.array(lens))
                same = bool(np.array_equal(local, keep))
                flat = mpi.ops.assemble_striped_array(np.arange(1, T + 1, dtype=dt)[rank::R])
                return np.asarray(rag), same, np.asarray(flat)
            n += 1
            ctx.case(("long-assemble", R, np.dtype(dt).name))
            try:
                results, world = MPI.run_world(body, R)
            except Exception as ex:
                ctx.violation({"kind": "replay", "op": "assemble (long)", "R": R, "lengths": lens,
                               "error": "%s: %s" % (type(ex).__name__, str(ex)[:200])},
                              key="mpi.ops/assemble-long/raises-%s" % type(ex).__name__)
                continue
            for rank, (rag, same, flat) in enumerate(results):
                wrong = np.flatnonzero(rag != np.arange(total)) if rag.shape == (total,) else None
                if wrong is None or len(wrong) or rag.dtype != np.dtype(dt) or not same:
                    ctx.violation({"kind": "replay", "op": "assemble_striped_ragged_array", "R": R, "lengths": lens,
                                   "rank": rank, "dtype": np.dtype(dt).name, "shape": list(rag.shape),
                                   "first_wrong_positions": None if wrong is None else wrong[:5].tolist(),
                                   "n_wrong": None if wrong is None else int(len(wrong)), "input_kept": same,
                                   "how": "local = the global positions owned by the rank; the assembled array must "
                                          "be arange(total) on every rank"},
                                  key="mpi.ops/assemble_ragged-long/differs-from-serial")
                want = np.arange(1, T + 1, dtype=dt)
                if flat.shape != want.shape or not np.array_equal(flat, want):
                    ctx.violation({"kind": "replay", "op": "assemble_striped_array", "R": R, "rank": rank,
                                   "global_size": T, "dtype": np.dtype(dt).name,
                                   "how": "local = arange(1, T + 1)[rank::R]; every rank must get arange(1, T + 1)"},
                                  key="mpi.ops/assemble-long/differs-from-serial")
    ctx.notes["long_assemble_cases"] = n


def io_part(ctx):
    """striped loaders against real files (serial definition: the rows of the file in order)"""
    from mpi4py import MPI
    from enspara import ra, mpi
    from enspara.mpi import io as mio
    d = tempfile.mkdtemp(prefix="ev_c14io_")
    n = 0
    try:
        for nrows, R in [(1, 1), (2, 2), (3, 2), (5, 2), (4, 3), (5, 3), (3, 3), (7, 4)]:
            lens = [1 + (3 * i + nrows) % 4 for i in range(nrows)]
            rows = [np.arange(10 * i, 10 * i + 2 * l, dtype=np.float32).reshape(l, 2) for i, l in enumerate(lens)]
            h5 = os.path.join(d, "a_%d.h5" % nrows)
            if nrows > 1:
                ra.save(h5, ra.RaggedArray(rows))
            files = []
            for i, r in enumerate(rows):
                f = os.path.join(d, "n_%d_%d.npy" % (nrows, i))
                np.save(f, r)
                files.append(f)
            for stride in (1, 2, 3):
                exp_lens = [len(r[::stride]) for r in rows]
                for which in ("npy", "h5"):
                    if which == "h5" and nrows == 1:
                        continue

                    def body(rank):
                        if which == "npy":
                            gl, loc = mio.load_npy_as_striped(files, stride=stride)
                        else:
                            gl, loc = mio.load_h5_as_striped(h5, stride=stride)
                        return [int(x) for x in gl], np.asarray(loc)
                    n += 1
                    ctx.case(("io", which, nrows, R, stride))
                    try:
                        results, world = MPI.run_world(body, R)
                    except Exception as ex:
                        ctx.violation({"kind": "replay", "loader": which, "rows": lens, "R": R, "stride": stride,
                                       "error": "%s: %s" % (type(ex).__name__, str(ex)[:200])},
                                      key="mpi.io/load_%s_as_striped/%s/raises-%s" % (which, "stride>1" if stride > 1 else "stride=1", type(ex).__name__))
                        continue
                    for rank, (gl, loc) in enumerate(results):
                        exp = np.concatenate([r[::stride] for r in rows[rank::R]])
                        if loc.shape != exp.shape or loc.dtype != exp.dtype or not np.array_equal(loc, exp):
                            ctx.violation({"kind": "replay", "loader": which, "rows": lens, "R": R, "stride": stride,
                                           "rank": rank, "got": loc.tolist(), "expected": exp.tolist()},
                                          key="mpi.io/load_%s_as_striped/local-data/%s" % (which, "stride>1" if stride > 1 else "stride=1"))
                        if gl != exp_lens:
                            ctx.violation({"kind": "replay", "loader": which, "rows": lens, "R": R, "stride": stride,
                                           "rank": rank, "got": gl, "expected": exp_lens},
                                          key="mpi.io/load_%s_as_striped/global-lengths/%s" % (which, "stride>1" if stride > 1 else "stride=1"))
        # a file not written by ra.save: twelve tables with unpadded numbers (arr_0 .. arr_11). The serial definition
        # of its content is what ra.load returns (the order in which pytables lists the nodes)
        import tables
        h5 = os.path.join(d, "foreign.h5")
        frows = {"arr_%d" % i: np.arange(100 * i, 100 * i + 2 * (1 + i % 5), dtype=np.float32).reshape(-1, 2)
                 for i in range(12)}
        with tables.open_file(h5, "w") as fh:
            for k in sorted(frows, key=lambda k: int(k[4:])):
                fh.create_carray("/", k, obj=frows[k])
        serial = ra.load(h5)
        rows = [np.asarray(serial[i]) for i in range(len(serial.lengths))]
        for R in (1, 2, 3, 5):
            for stride in (1, 2):
                def body(rank):
                    gl, loc = mio.load_h5_as_striped(h5, stride=stride)
                    return [int(x) for x in gl], np.asarray(loc)
                n += 1
                ctx.case(("io", "h5-foreign", 12, R, stride))
                try:
                    results, world = MPI.run_world(body, R)
                except Exception as ex:
                    ctx.violation({"kind": "replay", "loader": "h5 (tables arr_0..arr_11, not written by ra.save)",
                                   "R": R, "stride": stride, "error": "%s: %s" % (type(ex).__name__, str(ex)[:200])},
                                  key="mpi.io/load_h5_as_striped/foreign-names/raises-%s" % type(ex).__name__)
                    continue
                for rank, (gl, loc) in enumerate(results):
                    exp = np.concatenate([r[::stride] for r in rows[rank::R]])
                    if gl != [len(r[::stride]) for r in rows] or loc.shape != exp.shape or not np.array_equal(loc, exp):
                        ctx.violation({"kind": "replay", "loader": "h5 (tables arr_0..arr_11, not written by ra.save)",
                                       "R": R, "stride": stride, "rank": rank, "global_lengths": gl,
                                       "serial_lengths (ra.load)": [len(r[::stride]) for r in rows],
                                       "got_first_values": loc[:, 0].tolist()[:12], "expected_first_values": exp[:, 0].tolist()[:12]},
                                      key="mpi.io/load_h5_as_striped/foreign-names/row-order")
        # trajectory files with per-file load arguments (args=[{...}, ...]): file i is md.load(filenames[i], **args[i]),
        # also when the same file is listed twice with different arguments (two strides, two atom selections)
        import mdtraj as md
        from harness.purity_routines import _mdtraj
        rs = np.random.RandomState(5)
        tfiles = []
        for i, nf in enumerate((12, 5, 7)):
            f = os.path.join(d, "t%d.h5" % i)
            _mdtraj(rs, n_frames=nf, n_atoms=4).save(f)
            tfiles.append(f)
        for label, names, targs in (
                ("distinct files", [tfiles[0], tfiles[1], tfiles[2]], [dict(stride=2), dict(stride=1), dict(stride=3)]),
                ("one file twice, two strides", [tfiles[0], tfiles[1], tfiles[0], tfiles[2]],
                 [dict(stride=1), dict(stride=1), dict(stride=3), dict(stride=2)]),
                ("one file twice, two atom selections", [tfiles[0], tfiles[0], tfiles[1]],
                 [dict(atom_indices=np.array([0, 1])), dict(atom_indices=np.array([2, 3])), dict(atom_indices=np.array([1, 2]))])):
            serial = [md.load(f_, **a_).xyz for f_, a_ in zip(names, targs)]
            for R in (1, 2, 3):
                if R > len(names):
                    continue

                def body(rank):
                    gl, xyz = mio.load_trajectory_as_striped(list(names), args=[dict(a_) for a_ in targs], processes=1)
                    return [int(x) for x in gl], np.asarray(xyz)
                n += 1
                ctx.case(("io", "trajectory", label, R))
                try:
                    results, world = MPI.run_world(body, R)
                except Exception as ex:
                    ctx.violation({"kind": "replay", "loader": "load_trajectory_as_striped", "files": label, "R": R,
                                   "error": "%s: %s" % (type(ex).__name__, str(ex)[:200])},
                                  key="mpi.io/load_trajectory_as_striped/raises-%s" % type(ex).__name__)
                    continue
                for rank, (gl, xyz) in enumerate(results):
                    exp = np.concatenate(serial[rank::R])
                    if gl != [len(x) for x in serial] or xyz.shape != exp.shape or not np.array_equal(xyz, exp):
                        ctx.violation({"kind": "replay", "loader": "load_trajectory_as_striped", "files": label, "R": R, "rank": rank,
                                       "file_names": [os.path.basename(f_) for f_ in names],
                                       "args": [{k: np.asarray(v).tolist() for k, v in a_.items()} for a_ in targs],
                                       "global_lengths": gl, "serial_lengths (md.load per file)": [len(x) for x in serial],
                                       "local_shape": list(xyz.shape), "expected_local_shape": list(exp.shape)},
                                      key="mpi.io/load_trajectory_as_striped/differs-from-md.load-per-file")
    finally:
        shutil.rmtree(d, ignore_errors=True)
    ctx.notes["io_cases"] = n


def validate_worlds(ctx, worlds, label):
    if not worlds:
        return
    d = core.spec_tmp(SPEC_DIR)
    tf = os.path.join(d, "worlds.json")
    json.dump(worlds, open(tf, "w"))
    core.write_cfg(os.path.join(d, "w.cfg"), invariants=["Report"])
    r = ctx.tlc("Trace_Collectives", "w.cfg", d, label=label, workers=1, env={"TRACE_FILE": tf}, timeout=1500)
    verdict = {p[0]: p[1] for t, p in r.prints if t == "VERDICT"}
    for i, w in enumerate(worlds):
        v = verdict.get(i + 1)
        ctx.traces += 1
        if v is None:
            raise core.MachineryError("no verdict for world trace %d" % (i + 1))
        for clause, l in v:
            ctx.violation({"kind": "trace-rejected", "clause": clause, "epoch": w["epochs"][l - 1], "size": w["size"],
                           "how": "communicator log vs Trace_Collectives.tla"}, key="collectives/%s/%s" % (clause, w["epochs"][l - 1]["kind"]))


def run(ctx):
    ctx.rule = ("TLC enumerates (trajectory sets of distinct 1-D lattice points, world size R, k, metric) and striped "
                "arrays; every case is executed on R simulated ranks under 3 arrival schedules (ops: all R! orders); "
                "non-trivial = R >= 2, at least two centers and a rank owning a single trajectory or more")
    ctx.assumptions += ["ranks are simulated threads with rendezvous collectives (no MPI library in the sandbox); the simulator's "
                        "log is validated against Trace_Collectives.tla on every run",
                        "every rank owns at least one trajectory (the application refuses fewer files than ranks)",
                        "equality with the serial algorithm is required for tie-free data only, as the property states; "
                        "with ties the reassembled state must be self-consistent"]
    b = core.build_repo()
    core.activate(b)
    d = core.spec_tmp(SPEC_DIR)
    sc = SCOPES[ctx.tier]
    jobs = []
    for i, s in enumerate(sc["kc"]):
        core.write_cfg(os.path.join(d, "kc%d.cfg" % i), constants=consts(s), invariants=KC_INVS)
        jobs.append(dict(module="KCentersMPI", cfg="kc%d.cfg" % i, cwd=d, label="exhaustive KCentersMPI %s" % s, workers=4,
                         coverage=True, timeout=3000))
        core.write_cfg(os.path.join(d, "kin%d.cfg" % i), constants=consts(s), invariants=["EmitInput"], constraints=["OnlyInit"])
        jobs.append(dict(module="KCentersMPI", cfg="kin%d.cfg" % i, cwd=d, label="inputs KCentersMPI %s" % s, workers=1,
                         timeout=3000))
    for i, s in enumerate(sc["ops"]):
        core.write_cfg(os.path.join(d, "op%d.cfg" % i), constants=consts(s), invariants=OPS_INVS)
        jobs.append(dict(module="StripedOps", cfg="op%d.cfg" % i, cwd=d, label="exhaustive StripedOps %s" % s, workers=4,
                         coverage=True, timeout=3000))
        core.write_cfg(os.path.join(d, "oin%d.cfg" % i), constants=consts(s), invariants=["EmitInput"], constraints=["OnlyInit"])
        jobs.append(dict(module="StripedOps", cfg="oin%d.cfg" % i, cwd=d, label="inputs StripedOps %s" % s, workers=1,
                         timeout=3000))
    res = ctx.tlc_parallel(jobs)
    nk = len(sc["kc"])
    args = []
    for i in range(nk):
        cases = [p for t, p in res[2 * i + 1].prints if t == "CASE"]
        if not cases:
            raise core.MachineryError("no KCentersMPI inputs")
        step = 1
        if ctx.tier == "quick" and len(cases) > 1500:
            step = -(-len(cases) // 1500)
        for j, c in enumerate(cases[ctx.seed % step::step]):
            kinds = ("asc", "desc", "rand") if c["R"] > 1 else ("asc",)
            for sk in kinds:
                args.append((c, sk, (j * 7 + ctx.seed) % 1000))
    outs = core.pmap(kc_case, args, chunk=40)
    traces, worlds = [], []
    for o in outs:
        c = o["case"]
        n = sum(len(t) for t in c["trajs"])
        nontriv = c["R"] >= 2 and len(c["serial"]["ctr"]) >= 2
        ctx.case((str(c["trajs"]), c["R"], c["k"], c["metric"], o["sched"]) if nontriv else None,
                 sample={"trajs": c["trajs"], "R": c["R"], "k": c["k"], "metric": c["metric"], "schedule": o["sched"],
                         "states": o["events"][:1]} if nontriv and not c["tiefree"] else None)
        for key, detail in o["bad"]:
            ctx.violation({"kind": "replay", "case": {k: c[k] for k in ("trajs", "R", "k", "metric", "tiefree")},
                           "schedule": o["sched"], "seed": o["seed"], "detail": detail}, key=key)
        pts = [p for t in c["trajs"] for p in t]
        base = dict(pts=pts, metric=c["metric"], algo="mpi", k=c["k"], cut=0, ti=False, init=[], sweeps=0, props=[],
                    form="mpi R=%d %s" % (c["R"], o["sched"]), dtype="float64", seed=o["seed"])
        if o["events"]:
            traces.append(dict(base, events=o["events"]))
        if o.get("hybrid_event") and o["events"]:
            traces.append(dict(base, form=base["form"] + " hybrid", events=[o["events"][0], o["hybrid_event"]]))
        worlds += o["worlds"][:1] if len(worlds) < 4000 else []
    ce.judge(ctx, ce.validate(ctx, traces, "reassembled distributed states"))
    # striped ops
    ops_cases = []
    for i in range(len(sc["ops"])):
        cs = [p for t, p in res[2 * (nk + i) + 1].prints if t == "CASE"]
        step = 1
        if ctx.tier == "quick" and len(cs) > 2500:
            step = -(-len(cs) // 2500)
        ops_cases += cs[ctx.seed % step::step]
    oouts = core.pmap(ops_case, ops_cases, chunk=50)
    for c, (bad, ws) in zip(ops_cases, oouts):
        ctx.case(("ops", c["op"], str(c["garr"]), str(c["nloc"]), c["gidx"], c["R"]))
        for key, detail in bad:
            ctx.violation({"kind": "replay", "case": c, "detail": detail}, key=key)
        if len(worlds) < 6000:
            worlds += ws[:1]
    validate_worlds(ctx, worlds, "communicator logs (%d worlds)" % len(worlds))
    io_part(ctx)
    long_part(ctx)
    ctx.exhaustive = ctx.tier == "thorough"
